#!/bin/sh
# usage: ./run.sh <Cxx> quick|thorough   |   ./run.sh explain <violation.json>
# Decides one property from /repo's current working tree (static analysis only).
cd "$(dirname "$0")" || exit 2
export GOFLAGS=-mod=mod GOPROXY=off GOSUMDB=off GOTOOLCHAIN=local GOWORK=off
unset GOWORK_FILE
if [ ! -x bin/svclint ] || [ -n "$(find svclint -name '*.go' -newer bin/svclint 2>/dev/null | head -1)" ]; then
  (cd svclint && go build -o ../bin/svclint .) || { echo "svclint: tool failure: build failed" >&2; exit 2; }
fi
if [ "$1" = "explain" ]; then shift; exec bin/svclint explain "$@"; fi
exec bin/svclint check -p "$1" -tier "${2:-${VERIF_TIER:-quick}}"
