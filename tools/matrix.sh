#!/bin/bash
# usage: tools/matrix.sh "<props>" [mutant dirs...]  — runs the given checks against every seeded mutant (parallel), prints which rules fire
props="$1"; shift
dirs="$@"
[ -z "$dirs" ] && dirs=$(ls -d /tmp/seedout/C*/m* /verif/seeded/*/ 2>/dev/null | sort -u)
run() {
  d=$1; props="$2"
  [ -f "$d/patch.diff" ] || exit 0
  out=$(/verif/tools/mut.sh $d/patch.diff $props 2>&1)
  hits=$(echo "$out" | grep -o "rule=[^ ]*" | sort | uniq -c | awk '{printf "%s(%s) ", $2, $1}')
  echo "$(echo $d | sed 's#/tmp/seedout/##;s#/verif/seeded/##') : ${hits:-MISSED}"
}
export -f run
echo $dirs | tr ' ' '\n' | xargs -P 8 -I{} bash -c "run {} \"$props\"" | sort
