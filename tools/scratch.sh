#!/bin/sh
# usage: tools/scratch.sh <patch.diff> <dir> — scratch copy of /repo with the patch applied at <dir>/repo (remove it yourself)
w="$2"; rm -rf "$w"; mkdir -p "$w/repo" "$w/verif/evidence"
(cd "${MUT_BASE:-/repo}" && git ls-files -z | xargs -0 cp --parents -t "$w/repo") || exit 2
(cd "$w/repo" && git init -q . 2>/dev/null; git -C "$w/repo" apply --whitespace=nowarn "$1") || { echo "patch failed"; exit 2; }
cp /verif/KNOWN_FINDINGS.txt "$w/verif/"
