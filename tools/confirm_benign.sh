#!/bin/bash
d=$1; id=$(basename $d); export GOFLAGS=-mod=mod GOPROXY=off GOSUMDB=off GOTOOLCHAIN=local GOWORK=off
w=/tmp/confirmb.$id; rm -rf $w; git -C /repo worktree add --detach $w HEAD -q || exit 2
cd $w; git apply $d/patch.diff; a=$?; go build ./... >/dev/null 2>&1; b=$?; go test -vet=off -count=1 ./... >/dev/null 2>&1; s=$?
cd /; git -C /repo worktree remove --force $w
echo "{\"id\":\"$id\",\"patch_applied\":$([ $a = 0 ] && echo true || echo false),\"build_exit\":$b,\"suite_exit\":$s,\"confirmed\":$([ $a = 0 ] && [ $b = 0 ] && [ $s = 0 ] && echo true || echo false)}" > $d/confirm.json; cat $d/confirm.json
