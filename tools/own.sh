#!/bin/bash
# usage: tools/own.sh [seeded dirs...] — for each seeded mutant: is it reported by the check of its own property? (one load per mutant)
dirs="$@"; [ -z "$dirs" ] && dirs=$(ls -d /verif/seeded/*/)
run() {
  d=${1%/}; id=$(basename $d); prop=${id%%-*}
  out=$(/verif/tools/mut.sh $d/patch.diff all 2>&1)
  own=$(echo "$out" | grep -c "^VIOLATION property=$prop ")
  others=$(echo "$out" | grep -o "^VIOLATION property=C[0-9]*" | sed 's/VIOLATION property=//' | sort -u | grep -v "^$prop$" | tr '\n' ',')
  rules=$(echo "$out" | grep "rule=$prop" | grep -o "rule=[^ ]*" | sort -u | sed 's/rule=//' | tr '\n' ' ')
  if [ "$own" -gt 0 ]; then echo "$id OWN [$rules] others=$others"; elif [ -n "$others" ]; then echo "$id OTHER-ONLY others=$others"; else echo "$id MISSED"; fi
}
export -f run
echo $dirs | tr ' ' '\n' | xargs -P 6 -I{} bash -c "run {}" | sort
