#!/bin/bash
# usage: tools/import_pairs.sh <round> <letter> <Cxx>... — copy the pairs written by the sub-agents of a round
# (/tmp/seedout<r>/Cxx/pair{1,2}) into /verif/seeded/Cxx-r<r>mK (the mutant) and /verif/benign/<letter>-Cxx-r<r>pK (the refactoring)
r=$1; L=$2; shift 2
for p in "$@"; do for k in 1 2; do
  s=/tmp/seedout$r/$p/pair$k
  [ -f $s/mutant.diff ] && [ -f $s/refactor.diff ] && [ -f $s/meta.json ] || { echo "missing $s"; continue; }
  d=/verif/seeded/$p-r${r}m$k; b=/verif/benign/$L-$p-r${r}p$k
  mkdir -p $d $b
  cp $s/mutant.diff $d/patch.diff; cp $s/demo_test.go $s/meta.json $d/
  cp $s/refactor.diff $b/patch.diff
  python3 -c "
import json;m=json.load(open('$s/meta.json'));open('$b/README.txt','w').write('refactoring of pair $p-r${r}m$k: '+m.get('refactoring','')+'\n')"
done; done
