#!/bin/bash
# usage: tools/confirm_seeded.sh <seeded-dir>  — confirms a seeded mutant in a scratch worktree of /repo:
#  (1) clean tree + demo: demo passes; (2) patched: builds, the 83-test suite passes, demo fails. Writes <dir>/confirm.json
d=$(cd "$1" && pwd); id=$(basename $d)
export GOFLAGS=-mod=mod GOPROXY=off GOSUMDB=off GOTOOLCHAIN=local GOWORK=off
w=/tmp/confirm.$id; rm -rf $w
git -C /repo worktree add --detach $w HEAD -q || exit 2
dest=$(python3 -c "import json;print(json.load(open('$d/meta.json'))['demo_dest'])")
cmd=$(python3 -c "import json;print(json.load(open('$d/meta.json'))['demo_cmd'])")
cd $w
cp $d/demo_test.go $dest
clean=$( (eval "$cmd") >/tmp/confirm.$id.clean.log 2>&1; echo $?)
rm -f $dest
git apply $d/patch.diff; applied=$?
build=$( go build ./... >/tmp/confirm.$id.build.log 2>&1; echo $?)
suite=$( go test -vet=off -count=1 ./... >/tmp/confirm.$id.suite.log 2>&1; echo $?)
npass=$(go test -vet=off -count=1 -v ./... 2>/dev/null | grep -c -- "--- PASS")
cp $d/demo_test.go $dest
mut=$( (eval "$cmd") >/tmp/confirm.$id.mut.log 2>&1; echo $?)
cd /; git -C /repo worktree remove --force $w
python3 - <<PY
import json
json.dump({"id":"$id","repo_head":"$(git -C /repo rev-parse --short HEAD)","clean_demo_exit":$clean,"patch_applied":$applied==0,"patched_build_exit":$build,"patched_suite_exit":$suite,"patched_suite_tests_passed":$npass,"patched_demo_exit":$mut,
 "confirmed": ($clean==0 and $applied==0 and $build==0 and $suite==0 and $mut!=0)}, open("$d/confirm.json","w"), indent=1)
PY
cat $d/confirm.json | tr -d '\n'; echo
rm -f /tmp/confirm.$id.*.log
