#!/bin/bash
# usage: tools/b1.sh <benign-id> [maxlines] — alarms of all checks on one benign patch, condensed
d=/verif/benign/$1; /verif/tools/mut.sh $d/patch.diff all 2>&1 | grep "rule=" | sed 's/^ *//' | sed 's/rule=//' | awk '{k=$1" "$2; if(!(k in s)){s[k]=1; print}}' | cut -c1-${3:-330} | head -${2:-25}
