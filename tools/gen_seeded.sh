#!/bin/bash
# usage: tools/gen_seeded.sh — runs all 20 checks against every seeded change (scratch copies), then rewrites
# seeded/MATRIX.txt, each meta.json (caught_by, caught_by_rules) and seeded/README.md from that run.
# MATRIX line:  <id> : <properties whose check printed a VIOLATION line> : <rules reported>
run() {
  d=${1%/}; id=$(basename $d)
  out=$(/verif/tools/mut.sh $d/patch.diff all 2>&1)
  props=$(echo "$out" | grep -o "^VIOLATION property=C[0-9]*" | sed 's/VIOLATION property=//' | sort -u | tr '\n' ',' | sed 's/,$//')
  rules=$(echo "$out" | grep -v 'note:' | grep -o "rule=[^ ]*" | sed 's/rule=//' | sort -u | tr '\n' ' ')
  echo "$id : $props : $rules"
}
export -f run
ls -d /verif/seeded/*/ | xargs -P ${PAR:-6} -I{} bash -c "run {}" | sort > /verif/seeded/MATRIX.txt
python3 /verif/tools/gen_seeded_readme.py
