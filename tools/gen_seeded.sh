#!/bin/bash
# usage: tools/gen_seeded.sh — runs all 20 checks against every seeded change (scratch copies), then rewrites
# seeded/MATRIX.txt, each meta.json (caught_by, caught_by_rules) and seeded/README.md from that run.
run() {
  d=${1%/}; id=$(basename $d)
  out=$(/verif/tools/mut.sh $d/patch.diff all 2>&1)
  rules=$(echo "$out" | grep -v 'note:' | grep -o "rule=[^ ]*" | sed 's/rule=//' | sort -u | tr '\n' ' ')
  echo "$id : $rules"
}
export -f run
ls -d /verif/seeded/*/ | xargs -P 6 -I{} bash -c "run {}" | sort > /verif/seeded/MATRIX.txt
python3 /verif/tools/gen_seeded_readme.py
