#!/bin/bash
# usage: tools/benign.sh [dirs...] — every check must stay silent on every behaviour-preserving patch of /verif/benign
dirs="$@"; [ -z "$dirs" ] && dirs=$(ls -d /verif/benign/*p[0-9]* | grep -v /limits)
run() {
  d=$1
  out=$(/verif/tools/mut.sh $d/patch.diff all 2>&1)
  hits=$(echo "$out" | grep "rule=" | sed 's/^ *//' | cut -c1-400)
  n=$(echo "$out" | grep -c "obligations")
  if [ -z "$hits" ] && [ "$n" = "20" ]; then echo "$(basename $d): silent (20 checks)"; else echo "$(basename $d): ALARM ($n checks ran)"; echo "$hits" | sed 's/^/      /'; echo "$out" | grep -i "tool failure\|patch failed" | head -3; fi
}
export -f run
echo $dirs | tr ' ' '\n' | xargs -P 4 -I{} bash -c "run {}"
