#!/usr/bin/env python3
"""usage: tools/gen_round.py <round-no> <guidance-file>
Creates scratch worktrees /tmp/seed<r>/Cxx of /repo and prompt files /tmp/seedout<r>/Cxx/PROMPT.txt for the
sub-agents that write seeded changes (one property each; they see nothing of /verif).  The per-round guidance
paragraph replaces the 'Additional guidance for this round' paragraph of tools/prompts/mutant.tmpl."""
import json, os, re, subprocess, sys
r, gfile = sys.argv[1], sys.argv[2]
tname = sys.argv[3] if len(sys.argv) > 3 else 'mutant.tmpl'   # optional third argument: another template of tools/prompts (guidance file may be /dev/null)
tmpl = open('/verif/tools/prompts/' + tname).read()
guid = open(gfile).read().strip()
if guid:
  tmpl = re.sub(r'Additional guidance for this round:.*?\n\n', lambda m: 'Additional guidance for this round: ' + guid + '\n\n', tmpl, count=1, flags=re.S)
for line in open('/verif/properties.jsonl'):
    p = json.loads(line)
    pid = p['id']
    wt, out = f'/tmp/seed{r}/{pid}', f'/tmp/seedout{r}/{pid}'
    os.makedirs(out, exist_ok=True)
    os.makedirs(os.path.dirname(wt), exist_ok=True)
    if not os.path.isdir(wt):
        subprocess.check_call(['git', '-C', '/repo', 'worktree', 'add', '--detach', '-q', wt, 'HEAD'])
    prop = f"{pid} — {p['title']}\n\n{p['statement']}\n\nQuantified over: {p['quantifier']['text']}\n\nWhere it lives: " + \
        '; '.join(f"{m['name']} ({m['where']})" for m in p['anchors']['mechanism'])
    prior = ''
    if '__PRIOR__' in tmpl:   # one line per seeded change already recorded for this property
        import glob
        for m in sorted(glob.glob(f'/verif/seeded/{pid}-*/meta.json')):
            prior += '  - ' + ' '.join(json.load(open(m)).get('summary', '').split())[:420] + '\n'
    open(out + '/PROMPT.txt', 'w').write(tmpl.replace('__WT__', wt).replace('__OUT__', out).replace('__PROP__', prop).replace('__PRIOR__', prior.rstrip()))
print('ok')
