#!/bin/sh
# usage: tools/mut.sh <patch.diff|-> <Cxx> [<Cxx>...]   — run checks against a scratch copy of /repo with the patch applied
# (scratch copy under /tmp/mutwork, removed afterwards; evidence goes to a scratch dir, not /verif/evidence)
patch="$1"; shift
export GOFLAGS=-mod=mod GOPROXY=off GOSUMDB=off GOTOOLCHAIN=local GOWORK=off
base="${MUT_BASE:-/repo}"
w=$(mktemp -d /tmp/mutwork.XXXXXX)
mkdir -p "$w/repo" "$w/verif/evidence"
(cd "$base" && git ls-files -z | xargs -0 cp --parents -t "$w/repo") || exit 2
if [ "$patch" != "-" ]; then (cd "$w/repo" && git init -q . 2>/dev/null; git -C "$w/repo" apply --whitespace=nowarn "$patch") || { echo "patch failed"; rm -rf "$w"; exit 2; }; fi
cp /verif/KNOWN_FINDINGS.txt "$w/verif/" 2>/dev/null
rc=0
for p in "$@"; do
  SVCLINT_REPO="$w/repo" SVCLINT_VERIF="$w/verif" ${SVCLINT_BIN:-/verif/bin/svclint} check -p "$p" 2>&1 | grep -v "^KNOWN-FINDING" | sed "s#$w/repo/##g" || true
done
rm -rf "$w"
