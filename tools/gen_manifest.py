#!/usr/bin/env python3
"""Generates /verif/MANIFEST.json from the per-property table below (kept next to the rules)."""
import json, os

ENV = "GOFLAGS=-mod=mod GOPROXY=off GOSUMDB=off GOTOOLCHAIN=local GOWORK=off"

# property -> (claimed?, technique, level text, level note, design_ref)
CHECKS = {
 "C01": ("custody/obligation pairing on every path + provenance + who-may-write",
         "Decides the inductive-step structure of 'escrow = pending fees + earnings': credit and issue are paired on every path of the new-batch handler by results of one filter call, every settlement releases "
         "exactly the settled request's fee once and deletes both markers, one pricing routine with the same roles charges and records, earn/withdraw conserve by value identity, and only role functions write the fee families. "
         "The numeric equation is not decided.",
         "A-SDK, A-HOST. Known findings: D11 (module-service path). Trusted base: go/types, x/tools v0.29.0, svclint rule tables.",
         "DESIGN.md §4 C01"),
 "C02": ("exactly-one settlement automaton + provenance + formula skeleton",
         "Decides that each accepted response / expired request is settled exactly once with recipient and amount taken from the settled request, refund iff malformed output (resp. not super mode), the tax skeleton and the debit provenance. "
         "floor arithmetic and bank crediting are A-SDK.",
         "A-SDK. Trusted base: go/types, x/tools v0.29.0, svclint rule tables.",
         "DESIGN.md §4 C02"),
 "C06": ("exact guard-set dominance in the filter loop + path rules in the new-batch handler",
         "Decides that a provider is issued a request iff exactly {found, available, QoS<=timeout, price<=cap} hold for its binding and price, every provider is considered, issue iff enough providers else skip, pay failure pauses with no requests, expired before new. "
         "Coins comparison semantics are A-SDK.",
         "A-SDK. Trusted base: go/types, x/tools v0.29.0, svclint rule tables.",
         "DESIGN.md §4 C06"),
 "C07": ("formula skeleton + polarity + sibling identity",
         "Decides structural necessary conditions of the pricing formula: skeleton and clamp of the pricing routine, time-window polarity, one routine for charge and record, volume key roles, parsed pricing stored with the text, no fee in super mode. "
         "Also decided: the tier boundary (volume < threshold is the only comparison), tiers validated ascending for every adjacent pair, the schema's discount pattern admits only 0.d…d with a non-zero last digit (regexp syntax tree), price never empty, module-service contexts never in super mode. The numeric result is not decided.",
         "A-SDK; discounts in (0,1) by JSON schema (not decided). Trusted base: go/types, x/tools v0.29.0, svclint rule tables.",
         "DESIGN.md §4 C07"),
 "C08": ("expression agreement + admission guard dominance + must-delete on all paths",
         "Decides that the three expiry expressions agree, acceptance is dominated by found/provider/active for the same id with rejections before effects, the marker is deleted on acceptance and on every expiry path, "
         "the expiry queue is scanned at exactly the current height, the respond function reads no height, and start never opens a second batch.",
         "A-ID. Trusted base: go/types, x/tools v0.29.0, svclint rule tables.",
         "DESIGN.md §4 C08"),
 "C09": ("field-write inventory with guards over all stored context values (typestate)",
         "Decides the context state machine as an exhaustive inventory of stored writes of State, BatchCounter, BatchState, immutable and updatable fields with the facts that dominate them, plus issue-only-while-running and removal of completed contexts.",
         "Trusted base: go/types, x/tools v0.29.0, svclint rule tables.",
         "DESIGN.md §4 C09"),
 "C10": ("finite case analysis of the expiry handler + guard/skeleton rules",
         "Decides creation/continuation structure: first batch at the call block iff RUNNING, survival of batch expiry iff not completed and a batch is left (exact predicate), next-height skeleton, frequency>=timeout on stored values, "
         "no second batch in flight. Exact cadence arithmetic and the bound over unbounded histories are not decided.",
         "A-SDK (ValidateBasic before handler). Known finding: D4 (no-exchange-rate exit). Trusted base: go/types, x/tools v0.29.0, svclint rule tables.",
         "DESIGN.md §4 C10"),
 "C11": ("must-dequeue / exactly-one-successor path rules + sibling pairing",
         "Decides the safety invariant standing in for liveness: queue and pointer (and both marker indexes) move together, every handler exit dequeues, every RUNNING path leaves exactly one successor event, enqueue height shapes, context deletion only by the expiry handler. "
         "Liveness proper is not decided.",
         "Known findings: D4, D11. Trusted base: go/types, x/tools v0.29.0, svclint rule tables.",
         "DESIGN.md §4 C11"),
 "C12": ("field-write inventory + callback dispatch guards",
         "Decides batch bookkeeping writes (counts, thresholds, batch state with two exclusive completion sites) and the callback dispatch structure (iff module, outputs, error polarity, once per completion, state callback on pay failure). External callbacks are opaque.",
         "A-HOST. Trusted base: go/types, x/tools v0.29.0, svclint rule tables.",
         "DESIGN.md §4 C12"),
 "C16": ("must-clean ordering + paired index maintenance + who-may-create",
         "Decides that no transition creates an orphan: clean on every expiry path in order settle<complete<clean, both records deleted per scanned key, marker pair maintained together, finished contexts removed, request/response creation only by role functions. "
         "Absence of orphans in a given store is not decided.",
         "Known finding: D11. Trusted base: go/types, x/tools v0.29.0, svclint rule tables.",
         "DESIGN.md §4 C16"),
 "C13": ("value identity on every path + who-may-write + key grammar",
         "Decides dual bookkeeping by one value, withdrawal pays exactly what it deletes to the owner's withdrawal address, withdraw-address writes only from the owner's own message, deletions only in withdraw, and the key grammar of the earnings families. Sums are not decided.",
         "A-SDK. Known findings: D5, D13. Trusted base: go/types, x/tools v0.29.0, svclint rule tables.",
         "DESIGN.md §4 C13"),
 "C03": ("custody pairing by value on every committed path + guard dominance",
         "Decides the inductive-step structure of 'deposit balance = sum of recorded deposits': every stored change of a binding's Deposit is paired, on the same path and by the same value term, "
         "with exactly one custody operation on the deposit account (and vice versa), refunds are dominated by owner/unavailable/non-zero/time guards with the stated time skeleton, payer = signer. "
         "A structural necessary condition; the numeric equality itself is not decided.",
         "A-SDK (bank moves exactly the coins given; Coins arithmetic). Trusted base: go/types, x/tools v0.29.0, svclint rule tables.",
         "DESIGN.md §4 C03"),
 "C04": ("who-may-call + exact trigger separation + amount skeleton",
         "Decides that the deposit burn is reached only from the respond message under the malformed-output predicate and from end-of-block under not-SuperMode of the expired request, that in each calling unit "
         "slashing and non-slashing paths are separated exactly by that predicate, slash iff refund, the amount skeleton, post-slash auto-disable and persistence. Arithmetic is not decided.",
         "A-SDK. Trusted base: go/types, x/tools v0.29.0, svclint rule tables.",
         "DESIGN.md §4 C04"),
 "C05": ("interprocedural guard dominance over handler effect summaries",
         "For every message type (exhaustive) every state-changing effect reachable from its handler is dominated by the authority fact of its class, expressed over the message's own fields, "
         "and every debit of an ordinary account has the signer as payer (end-block: the consumer of the dequeued context). Holds for every path of every handler, hence every history.",
         "A-SDK (ValidateBasic before handler; failed messages revert). Trusted base: go/types, x/tools v0.29.0, svclint rule tables.",
         "DESIGN.md §4 C05"),
 "C14": ("check-before-commit path rule + formula skeleton",
         "On every committed path persisting a possibly-available binding after a relevant change, the stored deposit is compared with getMinDeposit of the pricing that will be in the store at exit; "
         "getMinDeposit skeleton; slash auto-disable. Int arithmetic and later parameter changes are not decided.",
         "A-SDK. Trusted base: go/types, x/tools v0.29.0, svclint rule tables.",
         "DESIGN.md §4 C14"),
 "C15": ("who-may-write + guard dominance + sibling validator agreement + key grammar",
         "Decides uniqueness/stability structure: definition and binding writers and their guards, no deletes or rewrites of identifying fields, validator coverage message vs record, record built from message fields, pricing text paired with parsed pricing, "
         "index maintenance on create and genesis, records keyed by their own fields, exact listing scans. JSON-schema validity is not decided.",
         "A-SIGNER20 for owner segments, A-NAME. Trusted base: go/types, x/tools v0.29.0, svclint rule tables.",
         "DESIGN.md §4 C15"),
 "C17": ("sibling agreement by effect signature + read-only + reconstruction provenance",
         "Decides that gRPC methods and legacy routes are in bijection by (operation, family, builder, request-field roles), all query entries are read-only, GetRequest reconstructs every field from the right source, ids are length-checked, scans are exact. "
         "Also decided: no branch on the query paths tests a rewritable field of another stored record, list queries neither filter on record content nor cut the collected list, the assembled parameter set is field-exact. Marshalled bytes and store-level pagination are not decided.",
         "Known finding: D5 (earned-fees scan). Trusted base: go/types, x/tools v0.29.0, svclint rule tables.",
         "DESIGN.md §4 C17"),
 "C19": ("provenance of zero-height refunds + codec/enum table agreement + field coverage",
         "Decides zero-height refund structure (whole-family iteration, recipient/amount provenance, key parse at the segment boundary), reset constants vs validation, encoder/decoder inverse pairs per genesis map, enum name tables (incl. the proto-JSON reader table), "
         "field coverage of export/import, stored values accepted by genesis validators. Byte-identity of a second export is not decided.",
         "A-HOST, A-SDK (empty-coin predicate table). Trusted base: go/types, x/tools v0.29.0, svclint rule tables.",
         "DESIGN.md §4 C19"),
 "C20": ("determinism lint + map-range classification + panic inventory with path facts",
         "Decides structural necessary conditions of determinism and crash-freedom over the 229 consensus-reachable functions: banned constructs, classified map ranges, explicit panics / unchecked assertions / every index and slice expression justified by a dominating length fact or a listed invariant, "
         "mutation during iteration only at the cursor, integer divisions by a divisor shown non-zero, map-entry writes only into maps that cannot be nil, slash fraction and tax kept in range by their registered validators, both module callbacks registered before a module context is stored, functions whose error a caller turns into a panic reject on missing records / refused transfers only, every time decoded from JSON text is tested (with a rejecting exit) before it can reach the store's Must-marshal (D15, fixed). Replay identity, sdk.Int/Dec overflow and third-party panics are not decided.",
         "A-SDK, A-HOST. Trusted base: go/types, x/tools v0.29.0, svclint rule tables.",
         "DESIGN.md §4 C20"),
 "C18": ("key-grammar decision + layout agreement",
         "Decides, for all byte strings under the stated segment typing, that store keys parse uniquely, prefix scans are exact sub-spaces, "
         "key slicing cuts at segment boundaries, and id writer/reader layouts agree; a grammar decision over all inputs rather than a sample. "
         "Does not decide collision-freeness of the transaction hash.",
         "Assumes A-NAME (regexp checked), A-ID (id length checks checked at the message boundary), A-SIGNER20 for owner segments (provenance checked by K7); "
         "trusted base: go/types, x/tools v0.29.0 go/packages+go/cfg, svclint rule tables.",
         "DESIGN.md §4 C18"),
}

PENDING = {}  # filled below for properties whose check is not built yet

def main():
    here = os.path.dirname(os.path.abspath(__file__))
    root = os.path.dirname(here)
    props = [json.loads(l) for l in open(os.path.join(root, "properties.jsonl"))]
    checks, na = [], []
    for p in props:
        pid = p["id"]
        if pid in CHECKS:
            tech, text, note, ref = CHECKS[pid]
            checks.append({
                "property_id": pid,
                "quick_cmd": f"./run.sh {pid} quick",
                "thorough_cmd": f"./run.sh {pid} thorough",
                "evidence_file": f"evidence/{pid}.json",
                "replay_cmd_template": "./run.sh explain {path}",
                "engine": "svclint",
                "level_claimed": {"category": "other", "text": text, "design_ref": ref},
                "level_note": note + " Every check also decides the shared preconditions S1 (no mutable module state outside the store in entry-reachable code), "
                              "S2 (records decoded in loops go into fresh targets), S3 (no pointer to a loop variable — or to one variable appended repeatedly — outlives its iteration), S4 (scans are exhaustive: no break but on the caller's stop, no callback that stops), S5 (stored bytes are not aliased) and S6 (handlers and callers pass arguments to the parameter that carries their name), on which reading state off store operations relies.",
                "technique": "static analysis: " + tech,
            })
        else:
            na.append({"property_id": pid, "reason": PENDING.get(pid, "static check not built yet (work in progress; see DESIGN.md §4 for the planned structural clauses)")})
    m = {
        "version": 1,
        "setup_cmd": f"cd svclint && {ENV} go build -o ../bin/svclint .",
        "hooks": {
            "guard": "verif",
            "enable": "none needed: the checks read /repo's source; no hooks or instrumentation exist",
            "baseline_off_cmd": f"cd /repo && {ENV} go test -vet=off -count=1 ./...",
            "source_commits": [],
            "add_only": True,
        },
        "engines": [{
            "name": "svclint",
            "path": "svclint",
            "serves_properties": sorted(CHECKS),
            "kind_free_text": "repository-specific static analyser (Go, x/tools v0.29.0): typed AST + go/cfg path enumeration over value terms, effect summaries, key grammar",
        }],
        "checks": checks,
        "not_applicable": na,
        "notes": "All checks are static: they load /repo's working tree with go/packages on every run and never execute module code. "
                 "Exit 0 = all rule instances discharged or listed in KNOWN_FINDINGS.txt; 1 = VIOLATION; 2 = tool failure.",
    }
    json.dump(m, open(os.path.join(root, "MANIFEST.json"), "w"), indent=1)
    print("claimed:", len(checks), "not_applicable:", len(na))

if __name__ == "__main__":
    main()
