#!/usr/bin/env python3
"""Generates /verif/MANIFEST.json from the per-property table below (kept next to the rules)."""
import json, os

ENV = "GOFLAGS=-mod=mod GOPROXY=off GOSUMDB=off GOTOOLCHAIN=local GOWORK=off"

# property -> (claimed?, technique, level text, level note, design_ref)
CHECKS = {
 "C18": ("key-grammar decision + layout agreement",
         "Decides, for all byte strings under the stated segment typing, that store keys parse uniquely, prefix scans are exact sub-spaces, "
         "key slicing cuts at segment boundaries, and id writer/reader layouts agree; a grammar decision over all inputs rather than a sample. "
         "Does not decide collision-freeness of the transaction hash.",
         "Assumes A-NAME (regexp checked), A-ID (id length checks checked at the message boundary), A-SIGNER20 for owner segments (provenance checked by K7); "
         "trusted base: go/types, x/tools v0.29.0 go/packages+go/cfg, svclint rule tables.",
         "DESIGN.md §4 C18"),
}

PENDING = {}  # filled below for properties whose check is not built yet

def main():
    here = os.path.dirname(os.path.abspath(__file__))
    root = os.path.dirname(here)
    props = [json.loads(l) for l in open(os.path.join(root, "properties.jsonl"))]
    checks, na = [], []
    for p in props:
        pid = p["id"]
        if pid in CHECKS:
            tech, text, note, ref = CHECKS[pid]
            checks.append({
                "property_id": pid,
                "quick_cmd": f"./run.sh {pid} quick",
                "thorough_cmd": f"./run.sh {pid} thorough",
                "evidence_file": f"evidence/{pid}.json",
                "replay_cmd_template": "./run.sh explain {path}",
                "engine": "svclint",
                "level_claimed": {"category": "other", "text": text, "design_ref": ref},
                "level_note": note,
                "technique": "static analysis: " + tech,
            })
        else:
            na.append({"property_id": pid, "reason": PENDING.get(pid, "static check not built yet (work in progress; see DESIGN.md §4 for the planned structural clauses)")})
    m = {
        "version": 1,
        "setup_cmd": f"cd svclint && {ENV} go build -o ../bin/svclint .",
        "hooks": {
            "guard": "verif",
            "enable": "none needed: the checks read /repo's source; no hooks or instrumentation exist",
            "baseline_off_cmd": f"cd /repo && {ENV} go test -vet=off -count=1 ./...",
            "source_commits": [],
            "add_only": True,
        },
        "engines": [{
            "name": "svclint",
            "path": "svclint",
            "serves_properties": sorted(CHECKS),
            "kind_free_text": "repository-specific static analyser (Go, x/tools v0.29.0): typed AST + go/cfg path enumeration over value terms, effect summaries, key grammar",
        }],
        "checks": checks,
        "not_applicable": na,
        "notes": "All checks are static: they load /repo's working tree with go/packages on every run and never execute module code. "
                 "Exit 0 = all rule instances discharged or listed in KNOWN_FINDINGS.txt; 1 = VIOLATION; 2 = tool failure.",
    }
    json.dump(m, open(os.path.join(root, "MANIFEST.json"), "w"), indent=1)
    print("claimed:", len(checks), "not_applicable:", len(na))

if __name__ == "__main__":
    main()
