#!/bin/bash
# usage: tools/confirm_refactor.sh <seeded-dir> <benign-dir> — the refactoring half of a pair: applied to a scratch
# worktree of /repo it builds, the 83-test suite passes and the pair's demonstration test passes. Writes <benign-dir>/confirm.json
s=$(cd "$1" && pwd); b=$(cd "$2" && pwd); id=$(basename $b)
export GOFLAGS=-mod=mod GOPROXY=off GOSUMDB=off GOTOOLCHAIN=local GOWORK=off
w=/tmp/confirmr.$id; rm -rf $w
git -C /repo worktree add --detach $w HEAD -q || exit 2
dest=$(python3 -c "import json;print(json.load(open('$s/meta.json'))['demo_dest'])")
cmd=$(python3 -c "import json;print(json.load(open('$s/meta.json'))['demo_cmd'])")
cd $w
git apply $b/patch.diff; applied=$?
build=$( go build ./... >/dev/null 2>&1; echo $?)
suite=$( go test -vet=off -count=1 ./... >/dev/null 2>&1; echo $?)
cp $s/demo_test.go $dest
demo=$( (eval "$cmd") >/dev/null 2>&1; echo $?)
cd /; git -C /repo worktree remove --force $w
python3 - <<PY
import json
json.dump({"id":"$id","pair":"$(basename $s)","patch_applied":$applied==0,"build_exit":$build,"suite_exit":$suite,"demo_exit":$demo,
 "confirmed": ($applied==0 and $build==0 and $suite==0 and $demo==0)}, open("$b/confirm.json","w"), indent=1)
PY
cat $b/confirm.json | tr -d '\n'; echo
