package main

// A small abstract interpreter for the byte-string helpers of package types (key builders and the
// fragment helpers they are composed from). Values are segment sequences, lists of such values
// with a known length (composite literals, variadic arguments), concrete small integers (loop
// counters) and opaque symbols. Loops over lists of known length are unrolled; a branch must be
// decidable from those values. Anything else makes the result "not understood" (an Unknown segment),
// which K1 reports. This replaces pattern matching on one particular way of writing a builder.

import (
	"fmt"
	"go/ast"
	"go/constant"
	"go/token"
	"go/types"

	"golang.org/x/tools/go/types/typeutil"
)

type bkind int

const (
	bUnknown bkind = iota
	bSeq           // []byte value as a segment sequence
	bList          // []string / [][]byte with known elements
	bInt           // concrete integer
	bStr           // a string value: a string parameter, or the bech32 text of an address parameter
	bAddr          // an address parameter
	bNum           // a numeric parameter (height, counter)
	bBool          // concrete boolean
	bLen           // len of a sequence (symbolic); nonEmpty says whether it is certainly > 0
	bStruct        // a record of byte-string values (a table row naming the prefixes of one queue)
)

type bval struct {
	k        bkind
	seq      Shape
	list     []bval
	n        int
	b        bool
	par      int
	role     string
	bech32   bool
	nonEmpty bool
	lenOf    Shape
	why      string
	fields   map[string]bval
}

func unknownVal(why string) bval { return bval{k: bUnknown, why: why} }

type binterp struct {
	p     *Prog
	kt    *KeyTable
	depth int
	steps int
	fail  string
}

type bframe struct {
	f       *Func
	env     map[types.Object]bval
	ret     *bval
	results []*types.Var
}

func (bi *binterp) failf(format string, a ...interface{}) bval {
	if bi.fail == "" {
		bi.fail = fmt.Sprintf(format, a...)
	}
	return unknownVal(bi.fail)
}

// interpBuilder interprets a []byte-returning function of package types with symbolic parameters.
func (p *Prog) interpBuilder(kt *KeyTable, f *Func) (Shape, bool) {
	if f.Body == nil || len(f.Res) != 1 || !isByteSlice(f.Res[0].Type()) {
		return nil, false
	}
	bi := &binterp{p: p, kt: kt}
	var args []bval
	for i, pr := range f.Params {
		args = append(args, symbolicParam(pr, i))
	}
	v := bi.call(f, args)
	if v.k != bSeq {
		if v.k == bUnknown {
			return Shape{{Kind: "Unknown", Text: v.why, Par: -1}}, true
		}
		return nil, false
	}
	return v.seq, true
}

func symbolicParam(pr *types.Var, i int) bval {
	T := pr.Type()
	switch {
	case isStringType(T):
		return bval{k: bStr, par: i, role: pr.Name()}
	case typeName(T) == "sdk.AccAddress":
		return bval{k: bAddr, par: i, role: pr.Name()}
	case isByteSlice(T):
		return bval{k: bSeq, seq: Shape{{Kind: "Raw", Role: pr.Name(), Par: i}}}
	}
	if b, ok := T.Underlying().(*types.Basic); ok && b.Info()&types.IsInteger != 0 {
		return bval{k: bNum, par: i, role: pr.Name()}
	}
	return unknownVal("parameter " + pr.Name() + " of type " + typeName(T))
}

func (bi *binterp) call(f *Func, args []bval) bval { return bi.callRecv(f, bval{}, args) }

// callRecv interprets f with its receiver (if any) bound to recv: a method of a byte-slice builder type
// (kb.str(s), kb.sep() ...) is a function of the bytes assembled so far.
func (bi *binterp) callRecv(f *Func, recv bval, args []bval) bval {
	if bi.depth > 8 {
		return bi.failf("helper nesting too deep at %s", f.Name)
	}
	bi.depth++
	defer func() { bi.depth-- }()
	fr := &bframe{f: f, env: map[types.Object]bval{}, results: f.Res}
	if f.Recv != nil {
		fr.env[f.Recv] = recv
	}
	for i, pr := range f.Params {
		if i < len(args) {
			fr.env[pr] = args[i]
		}
	}
	for _, r := range f.Res {
		if r.Name() != "" {
			fr.env[r] = zeroOf(r.Type())
		}
	}
	bi.block(fr, f.Body.List)
	if fr.ret != nil {
		return *fr.ret
	}
	// fell off the end: named result
	if len(f.Res) == 1 && f.Res[0].Name() != "" {
		return fr.env[f.Res[0]]
	}
	return bi.failf("%s: no return reached", f.Name)
}

func zeroOf(T types.Type) bval {
	switch {
	case isByteSlice(T) || typeName(T) == "bytes.Buffer":
		return bval{k: bSeq}
	case isStringType(T):
		return unknownVal("zero string")
	}
	if _, ok := T.Underlying().(*types.Slice); ok {
		return bval{k: bList}
	}
	if b, ok := T.Underlying().(*types.Basic); ok && b.Info()&types.IsInteger != 0 {
		return bval{k: bInt}
	}
	return unknownVal("zero value of " + typeName(T))
}

func (bi *binterp) block(fr *bframe, stmts []ast.Stmt) {
	for _, s := range stmts {
		if fr.ret != nil || bi.fail != "" {
			return
		}
		bi.stmt(fr, s)
	}
}

func (bi *binterp) obj(fr *bframe, id *ast.Ident) types.Object {
	info := fr.f.Pkg.TypesInfo
	if o := info.Defs[id]; o != nil {
		return o
	}
	return info.Uses[id]
}

func (bi *binterp) assign(fr *bframe, lhs ast.Expr, v bval) {
	id, ok := ast.Unparen(lhs).(*ast.Ident)
	if !ok {
		bi.failf("%s: assignment to a non-identifier", fr.f.Name)
		return
	}
	if id.Name == "_" {
		return
	}
	if o := bi.obj(fr, id); o != nil {
		fr.env[o] = v
	}
}

func (bi *binterp) stmt(fr *bframe, s ast.Stmt) {
	bi.steps++
	if bi.steps > 4000 {
		bi.failf("%s: too many steps", fr.f.Name)
		return
	}
	switch x := s.(type) {
	case *ast.AssignStmt:
		if len(x.Lhs) != len(x.Rhs) {
			bi.failf("%s: tuple assignment", fr.f.Name)
			return
		}
		vals := make([]bval, len(x.Rhs))
		for i, r := range x.Rhs {
			vals[i] = bi.expr(fr, r)
		}
		for i, l := range x.Lhs {
			v := vals[i]
			if x.Tok != token.ASSIGN && x.Tok != token.DEFINE {
				// x += n on concrete ints only
				cur := bi.expr(fr, l)
				if cur.k == bInt && v.k == bInt && x.Tok == token.ADD_ASSIGN {
					v = bval{k: bInt, n: cur.n + v.n}
				} else if cur.k == bInt && v.k == bInt && x.Tok == token.SUB_ASSIGN {
					v = bval{k: bInt, n: cur.n - v.n}
				} else if isIntLike(cur) && isIntLike(v) {
					v = unknownVal("sum of symbolic lengths") // a capacity hint: only its use as a bound would matter
				} else {
					bi.failf("%s: compound assignment not understood", fr.f.Name)
					return
				}
			}
			bi.assign(fr, l, v)
		}
	case *ast.DeclStmt:
		gd, ok := x.Decl.(*ast.GenDecl)
		if !ok || gd.Tok != token.VAR {
			return
		}
		for _, sp := range gd.Specs {
			vs := sp.(*ast.ValueSpec)
			for i, id := range vs.Names {
				o := fr.f.Pkg.TypesInfo.Defs[id]
				if o == nil {
					continue
				}
				if i < len(vs.Values) {
					fr.env[o] = bi.expr(fr, vs.Values[i])
				} else {
					fr.env[o] = zeroOf(o.Type())
				}
			}
		}
	case *ast.IncDecStmt:
		cur := bi.expr(fr, x.X)
		if cur.k != bInt {
			bi.failf("%s: ++/-- on a non-concrete value", fr.f.Name)
			return
		}
		if x.Tok == token.INC {
			cur.n++
		} else {
			cur.n--
		}
		bi.assign(fr, x.X, cur)
	case *ast.ReturnStmt:
		switch len(x.Results) {
		case 0:
			if len(fr.results) == 1 {
				v := fr.env[fr.results[0]]
				fr.ret = &v
				return
			}
			bi.failf("%s: bare return", fr.f.Name)
		case 1:
			v := bi.expr(fr, x.Results[0])
			fr.ret = &v
		default:
			bi.failf("%s: multiple results", fr.f.Name)
		}
	case *ast.BlockStmt:
		bi.block(fr, x.List)
	case *ast.IfStmt:
		if x.Init != nil {
			bi.stmt(fr, x.Init)
		}
		c := bi.expr(fr, x.Cond)
		if c.k != bBool {
			bi.failf("%s: branch condition not decided by the builder's structure", fr.f.Name)
			return
		}
		if c.b {
			bi.block(fr, x.Body.List)
		} else if x.Else != nil {
			bi.stmt(fr, x.Else)
		}
	case *ast.ForStmt:
		if x.Init != nil {
			bi.stmt(fr, x.Init)
		}
		for iter := 0; iter < 64; iter++ {
			if x.Cond != nil {
				c := bi.expr(fr, x.Cond)
				if c.k != bBool {
					bi.failf("%s: loop bound not known", fr.f.Name)
					return
				}
				if !c.b {
					return
				}
			}
			bi.block(fr, x.Body.List)
			if fr.ret != nil || bi.fail != "" {
				return
			}
			if x.Post != nil {
				bi.stmt(fr, x.Post)
			}
		}
		bi.failf("%s: loop not bounded by a known length", fr.f.Name)
	case *ast.RangeStmt:
		v := bi.expr(fr, x.X)
		if v.k != bList {
			bi.failf("%s: range over a collection of unknown length", fr.f.Name)
			return
		}
		for i, el := range v.list {
			if x.Key != nil {
				bi.assign(fr, x.Key, bval{k: bInt, n: i})
			}
			if x.Value != nil {
				bi.assign(fr, x.Value, el)
			}
			bi.block(fr, x.Body.List)
			if fr.ret != nil || bi.fail != "" {
				return
			}
		}
	case *ast.ExprStmt:
		// buf.Write(b) / buf.WriteString(s) / buf.WriteByte(c) on a local bytes.Buffer: the buffer grows by the argument
		if call, ok := x.X.(*ast.CallExpr); ok {
			if se, ok := ast.Unparen(call.Fun).(*ast.SelectorExpr); ok && len(call.Args) == 1 {
				if id, ok := ast.Unparen(se.X).(*ast.Ident); ok {
					if fo, ok := typeutil.Callee(fr.f.Pkg.TypesInfo, call).(*types.Func); ok {
						switch qname(fo) {
						case "bytes.Buffer.Write", "bytes.Buffer.WriteString":
							cur := bi.expr(fr, id)
							av := bi.expr(fr, call.Args[0])
							if av.k == bStr {
								kind := "Str"
								if av.bech32 {
									kind = "Bech32"
								}
								if av.role == "<empty>" {
									av = bval{k: bSeq}
								} else {
									av = bval{k: bSeq, seq: Shape{{Kind: kind, Role: av.role, Par: av.par}}}
								}
							}
							cs, ok1 := segsOf(cur)
							as, ok2 := segsOf(av)
							if ok1 && ok2 {
								bi.assign(fr, id, bval{k: bSeq, seq: append(append(Shape(nil), cs...), as...)})
								return
							}
						}
					}
				}
			}
		}
		bi.failf("%s: statement with effects not understood", fr.f.Name)
	case *ast.EmptyStmt:
	default:
		bi.failf("%s: statement kind %T not understood", fr.f.Name, s)
	}
}

func segsOf(v bval) (Shape, bool) {
	switch v.k {
	case bSeq:
		return v.seq, true
	}
	return nil, false
}

func certainlyNonEmpty(sh Shape) bool {
	for _, s := range sh {
		switch s.Kind {
		case "Const", "Sep", "U64":
			return true
		}
	}
	return false
}

func (bi *binterp) expr(fr *bframe, e ast.Expr) bval {
	info := fr.f.Pkg.TypesInfo
	e = ast.Unparen(e)
	if tv, ok := info.Types[e]; ok && tv.Value != nil {
		switch tv.Value.Kind() {
		case constant.Int:
			if n, ok := constant.Int64Val(tv.Value); ok {
				return bval{k: bInt, n: int(n)}
			}
		case constant.Bool:
			return bval{k: bBool, b: constant.BoolVal(tv.Value)}
		case constant.String:
			if constant.StringVal(tv.Value) == "" {
				return bval{k: bStr, par: -1, role: "<empty>"} // the empty string: no bytes
			}
		}
	}
	switch x := e.(type) {
	case *ast.Ident:
		if x.Name == "nil" {
			return bval{k: bSeq}
		}
		o := bi.obj(fr, x)
		if v, ok := fr.env[o]; ok {
			return v
		}
		if pv, ok := o.(*types.Var); ok && pv.Pkg() != nil && pv.Parent() == pv.Pkg().Scope() {
			q := qname(pv)
			if b, ok := bi.kt.Prefixes[q]; ok {
				return bval{k: bSeq, seq: Shape{{Kind: "Const", Byte: b, Par: -1, Role: q}}}
			}
			if q == bi.kt.SepVar {
				return bval{k: bSeq, seq: Shape{{Kind: "Sep", Par: -1}}}
			}
			// a package-level table row: its initialiser is evaluated where it is declared
			if v, ok := bi.globalInit(pv); ok {
				return v
			}
		}
		return unknownVal("identifier " + x.Name)
	case *ast.SelectorExpr:
		// package-qualified variable
		if o, ok := info.Uses[x.Sel].(*types.Var); ok && o.Pkg() != nil && o.Parent() == o.Pkg().Scope() {
			q := qname(o)
			if b, ok := bi.kt.Prefixes[q]; ok {
				return bval{k: bSeq, seq: Shape{{Kind: "Const", Byte: b, Par: -1, Role: q}}}
			}
			if q == bi.kt.SepVar {
				return bval{k: bSeq, seq: Shape{{Kind: "Sep", Par: -1}}}
			}
			if v, ok := bi.globalInit(o); ok {
				return v
			}
		}
		// a field of a record of byte strings
		if sel, ok := info.Selections[x]; ok && sel.Kind() == types.FieldVal {
			if rv := bi.expr(fr, x.X); rv.k == bStruct {
				if fv, ok := rv.fields[x.Sel.Name]; ok {
					return fv
				}
			}
		}
		return unknownVal("selector " + types.ExprString(x))
	case *ast.CompositeLit:
		T := info.TypeOf(x)
		if _, ok := T.Underlying().(*types.Slice); ok && !isByteSlice(T) {
			out := bval{k: bList}
			for _, el := range x.Elts {
				if _, isKV := el.(*ast.KeyValueExpr); isKV {
					return unknownVal("keyed literal")
				}
				out.list = append(out.list, bi.expr(fr, el))
			}
			return out
		}
		if _, ok := T.Underlying().(*types.Struct); ok {
			out := bval{k: bStruct, fields: map[string]bval{}}
			st := T.Underlying().(*types.Struct)
			for i, el := range x.Elts {
				if kv, isKV := el.(*ast.KeyValueExpr); isKV {
					if id, ok := kv.Key.(*ast.Ident); ok {
						out.fields[id.Name] = bi.expr(fr, kv.Value)
					}
				} else if i < st.NumFields() {
					out.fields[st.Field(i).Name()] = bi.expr(fr, el)
				}
			}
			return out
		}
		return unknownVal("literal of type " + typeName(T))
	case *ast.IndexExpr:
		v, i := bi.expr(fr, x.X), bi.expr(fr, x.Index)
		if v.k == bList && i.k == bInt && i.n >= 0 && i.n < len(v.list) {
			return v.list[i.n]
		}
		return unknownVal("index " + types.ExprString(x))
	case *ast.SliceExpr:
		return bi.sliceExpr(fr, x)
	case *ast.UnaryExpr:
		v := bi.expr(fr, x.X)
		if x.Op == token.NOT && v.k == bBool {
			return bval{k: bBool, b: !v.b}
		}
		if x.Op == token.SUB && v.k == bInt {
			return bval{k: bInt, n: -v.n}
		}
		return unknownVal("unary " + types.ExprString(x))
	case *ast.BinaryExpr:
		return bi.binary(fr, x)
	case *ast.CallExpr:
		return bi.callExpr(fr, x)
	}
	return unknownVal("expression " + types.ExprString(e))
}

func (bi *binterp) sliceExpr(fr *bframe, x *ast.SliceExpr) bval {
	v := bi.expr(fr, x.X)
	if v.k != bSeq || x.Max != nil {
		return unknownVal("slice " + types.ExprString(x))
	}
	if x.Low != nil {
		if lo := bi.expr(fr, x.Low); lo.k != bInt || lo.n != 0 {
			return unknownVal("slice with a non-zero lower bound")
		}
	}
	if x.High == nil {
		return v
	}
	// x[:len(x)-k] where the tail of x has a known length k
	be, ok := ast.Unparen(x.High).(*ast.BinaryExpr)
	if !ok || be.Op != token.SUB {
		return unknownVal("slice upper bound " + types.ExprString(x.High))
	}
	l, k := bi.expr(fr, be.X), bi.expr(fr, be.Y)
	if l.k != bLen || k.k != bInt || l.lenOf.String() != v.seq.String() {
		return unknownVal("slice upper bound " + types.ExprString(x.High))
	}
	sh := append(Shape(nil), v.seq...)
	need := k.n
	for need > 0 && len(sh) > 0 {
		last := sh[len(sh)-1]
		w := 0
		switch last.Kind {
		case "Sep", "Const":
			w = 1
		case "U64":
			w = 8
		}
		if w == 0 || w > need {
			return unknownVal("slice cuts inside a variable-length segment")
		}
		need -= w
		sh = sh[:len(sh)-1]
	}
	if need != 0 {
		return unknownVal("slice longer than the value")
	}
	return bval{k: bSeq, seq: sh}
}

func (bi *binterp) binary(fr *bframe, x *ast.BinaryExpr) bval {
	a, b := bi.expr(fr, x.X), bi.expr(fr, x.Y)
	if x.Op == token.LAND || x.Op == token.LOR {
		if a.k == bBool && b.k == bBool {
			if x.Op == token.LAND {
				return bval{k: bBool, b: a.b && b.b}
			}
			return bval{k: bBool, b: a.b || b.b}
		}
		return unknownVal("condition " + types.ExprString(x))
	}
	if a.k == bInt && b.k == bInt {
		switch x.Op {
		case token.ADD:
			return bval{k: bInt, n: a.n + b.n}
		case token.SUB:
			return bval{k: bInt, n: a.n - b.n}
		case token.MUL:
			return bval{k: bInt, n: a.n * b.n}
		case token.LSS:
			return bval{k: bBool, b: a.n < b.n}
		case token.LEQ:
			return bval{k: bBool, b: a.n <= b.n}
		case token.GTR:
			return bval{k: bBool, b: a.n > b.n}
		case token.GEQ:
			return bval{k: bBool, b: a.n >= b.n}
		case token.EQL:
			return bval{k: bBool, b: a.n == b.n}
		case token.NEQ:
			return bval{k: bBool, b: a.n != b.n}
		}
	}
	// len(seq) compared with 0
	if a.k == bLen && b.k == bInt && b.n == 0 {
		switch x.Op {
		case token.GTR, token.NEQ:
			if a.nonEmpty {
				return bval{k: bBool, b: true}
			}
			if len(a.lenOf) == 0 {
				return bval{k: bBool, b: false}
			}
		case token.EQL:
			if a.nonEmpty {
				return bval{k: bBool, b: false}
			}
			if len(a.lenOf) == 0 {
				return bval{k: bBool, b: true}
			}
		}
	}
	return unknownVal("operation " + types.ExprString(x))
}

func (bi *binterp) callExpr(fr *bframe, x *ast.CallExpr) bval {
	info := fr.f.Pkg.TypesInfo
	// conversions
	if tv, ok := info.Types[x.Fun]; ok && tv.IsType() && len(x.Args) == 1 {
		v := bi.expr(fr, x.Args[0])
		switch {
		case isByteSlice(tv.Type):
			switch v.k {
			case bStr:
				if v.bech32 {
					return bval{k: bSeq, seq: Shape{{Kind: "Bech32", Role: v.role, Par: v.par}}}
				}
				return bval{k: bSeq, seq: Shape{{Kind: "Str", Role: v.role, Par: v.par}}}
			case bSeq:
				return v
			case bAddr:
				return bval{k: bSeq, seq: Shape{{Kind: "Addr", Role: v.role, Par: v.par}}}
			}
			return unknownVal("conversion of " + types.ExprString(x.Args[0]))
		default:
			if b, ok := tv.Type.Underlying().(*types.Basic); ok && b.Info()&types.IsInteger != 0 {
				return v // integer conversions keep the value's identity
			}
			if isStringType(tv.Type) && v.k == bStr {
				return v
			}
			if isStringType(tv.Type) && v.k == bSeq {
				return v // the text made of a byte sequence: the same bytes
			}
		}
		return unknownVal("conversion " + types.ExprString(x))
	}
	switch fo := typeutil.Callee(info, x).(type) {
	case *types.Builtin:
		switch fo.Name() {
		case "len":
			v := bi.expr(fr, x.Args[0])
			switch v.k {
			case bList:
				return bval{k: bInt, n: len(v.list)}
			case bSeq:
				return bval{k: bLen, lenOf: v.seq, nonEmpty: certainlyNonEmpty(v.seq)}
			}
			return unknownVal("len of " + types.ExprString(x.Args[0]))
		case "append":
			if len(x.Args) == 0 {
				return unknownVal("append")
			}
			base := bi.expr(fr, x.Args[0])
			if base.k == bList && !x.Ellipsis.IsValid() {
				out := bval{k: bList, list: append([]bval(nil), base.list...)}
				for _, a := range x.Args[1:] {
					out.list = append(out.list, bi.expr(fr, a))
				}
				return out
			}
			sh, ok := segsOf(base)
			if !ok {
				return unknownVal("append to " + types.ExprString(x.Args[0]))
			}
			out := append(Shape(nil), sh...)
			if x.Ellipsis.IsValid() && len(x.Args) == 2 {
				av := bi.expr(fr, x.Args[1])
				if av.k == bStr {
					// append(b, s...): the bytes of the string
					kind := "Str"
					if av.bech32 {
						kind = "Bech32"
					}
					if av.role == "<empty>" {
						av = bval{k: bSeq}
					} else {
						av = bval{k: bSeq, seq: Shape{{Kind: kind, Role: av.role, Par: av.par}}}
					}
				}
				t, ok := segsOf(av)
				if !ok {
					return unknownVal("appended value " + types.ExprString(x.Args[1]))
				}
				return bval{k: bSeq, seq: append(out, t...)}
			}
			return unknownVal("append of single bytes")
		case "make":
			if T := info.TypeOf(x); T != nil && isByteSlice(T) {
				// make([]byte, 0, n): an empty buffer
				if len(x.Args) >= 2 {
					if l := bi.expr(fr, x.Args[1]); l.k == bInt && l.n == 0 {
						return bval{k: bSeq}
					}
				}
			}
			return unknownVal("make " + types.ExprString(x))
		}
		return unknownVal("builtin " + fo.Name())
	case *types.Func:
		name := qname(fo)
		var recv bval
		if se, ok := ast.Unparen(x.Fun).(*ast.SelectorExpr); ok {
			if sel, ok := info.Selections[se]; ok && sel.Kind() == types.MethodVal {
				recv = bi.expr(fr, se.X)
			}
		}
		switch name {
		case "bytes.Buffer.Bytes":
			if recv.k == bSeq {
				return recv
			}
		case "strings.Join":
			// the elements in order with the separator between each two of them
			if len(x.Args) == 2 {
				l, sep := bi.expr(fr, x.Args[0]), bi.expr(fr, x.Args[1])
				toSegs := func(v bval) (Shape, bool) {
					switch v.k {
					case bStr:
						if v.role == "<empty>" {
							return Shape{}, true
						}
						kind := "Str"
						if v.bech32 {
							kind = "Bech32"
						}
						return Shape{{Kind: kind, Role: v.role, Par: v.par}}, true
					case bSeq:
						return v.seq, true
					}
					return nil, false
				}
				if ss, ok := toSegs(sep); ok && l.k == bList {
					out := Shape{}
					good := true
					for i, el := range l.list {
						es, ok := toSegs(el)
						if !ok {
							good = false
							break
						}
						if i > 0 {
							out = append(out, ss...)
						}
						out = append(out, es...)
					}
					if good {
						return bval{k: bSeq, seq: out}
					}
				}
			}
		case "bytes.TrimSuffix":
			// one trailing occurrence of the suffix is cut if present
			if len(x.Args) == 2 {
				v, suf := bi.expr(fr, x.Args[0]), bi.expr(fr, x.Args[1])
				if v.k == bSeq && suf.k == bSeq && len(suf.seq) == 1 {
					if n := len(v.seq); n > 0 && v.seq[n-1] == suf.seq[0] {
						return bval{k: bSeq, seq: append(Shape(nil), v.seq[:n-1]...)}
					}
					if len(v.seq) == 0 {
						return v
					}
				}
			}
		case "sdk.AccAddress.Bytes":
			if recv.k == bAddr {
				return bval{k: bSeq, seq: Shape{{Kind: "Addr", Role: recv.role, Par: recv.par}}}
			}
			if recv.k == bSeq && len(recv.seq) == 0 {
				return recv // the bytes of a nil address
			}
		case "sdk.AccAddress.String":
			if recv.k == bAddr {
				return bval{k: bStr, par: recv.par, role: recv.role, bech32: true}
			}
			if recv.k == bSeq && len(recv.seq) == 0 {
				return bval{k: bStr, par: -1, role: "<empty>"} // the text of a nil address is the empty string
			}
		case "sdk.Uint64ToBigEndian":
			if len(x.Args) == 1 {
				if v := bi.expr(fr, x.Args[0]); v.k == bNum {
					return bval{k: bSeq, seq: Shape{{Kind: "U64", Role: v.role, Par: v.par}}}
				}
			}
		}
		if g := bi.p.FuncByObj[fo]; g != nil && g.Body != nil && g.isHandWritten() && g.pkgName() == "types" && (g.Recv == nil || recv.k != bUnknown) {
			var args []bval
			sig := fo.Type().(*types.Signature)
			np := sig.Params().Len()
			for i, a := range x.Args {
				if sig.Variadic() && i >= np-1 && !x.Ellipsis.IsValid() {
					break
				}
				args = append(args, bi.expr(fr, a))
			}
			if sig.Variadic() && !x.Ellipsis.IsValid() {
				rest := bval{k: bList}
				for _, a := range x.Args[np-1:] {
					rest.list = append(rest.list, bi.expr(fr, a))
				}
				args = append(args, rest)
			}
			if g.Recv != nil {
				return bi.callRecv(g, recv, args)
			}
			return bi.call(g, args)
		}
		return unknownVal("call of " + name)
	}
	return unknownVal("call " + types.ExprString(x))
}

// globalInit evaluates the initialiser of a package-level variable of package types (never reassigned: a table row).
func (bi *binterp) globalInit(v *types.Var) (bval, bool) {
	if bi.depth > 8 {
		return bval{}, false
	}
	for _, f := range bi.p.Funcs {
		if f.Pkg == nil || f.Pkg.Types != v.Pkg() {
			continue
		}
		for _, file := range f.Pkg.Syntax {
			for _, d := range file.Decls {
				gd, ok := d.(*ast.GenDecl)
				if !ok || gd.Tok != token.VAR {
					continue
				}
				for _, sp := range gd.Specs {
					vs := sp.(*ast.ValueSpec)
					for i, id := range vs.Names {
						if f.Pkg.TypesInfo.Defs[id] != types.Object(v) || i >= len(vs.Values) || len(vs.Names) != len(vs.Values) {
							continue
						}
						if _, isStruct := v.Type().Underlying().(*types.Struct); !isStruct {
							return bval{}, false
						}
						if bi.p.globalReassigned(v) {
							return bval{}, false
						}
						bi.depth++
						fr := &bframe{f: f, env: map[types.Object]bval{}}
						out := bi.expr(fr, vs.Values[i])
						bi.depth--
						return out, out.k == bStruct
					}
				}
			}
		}
		break
	}
	return bval{}, false
}

// globalReassigned: some function of the module assigns to the package-level variable (or takes its address).
func (p *Prog) globalReassigned(v *types.Var) bool {
	for _, f := range p.Funcs {
		if f.Body == nil || f.Pkg == nil || f.Pkg.Types != v.Pkg() {
			continue
		}
		info := f.Pkg.TypesInfo
		hit := false
		ast.Inspect(f.Body, func(n ast.Node) bool {
			switch s := n.(type) {
			case *ast.AssignStmt:
				for _, l := range s.Lhs {
					root := ast.Unparen(l)
					for {
						if se, ok := root.(*ast.SelectorExpr); ok {
							root = ast.Unparen(se.X)
							continue
						}
						if ie, ok := root.(*ast.IndexExpr); ok {
							root = ast.Unparen(ie.X)
							continue
						}
						break
					}
					if id, ok := root.(*ast.Ident); ok && info.Uses[id] == types.Object(v) {
						hit = true
					}
				}
			case *ast.UnaryExpr:
				if s.Op == token.AND {
					if id, ok := ast.Unparen(s.X).(*ast.Ident); ok && info.Uses[id] == types.Object(v) {
						hit = true
					}
				}
			}
			return !hit
		})
		if hit {
			return true
		}
	}
	return false
}

func isIntLike(v bval) bool { return v.k == bInt || v.k == bLen || v.k == bNum || v.k == bUnknown }
