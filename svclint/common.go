package main

// Preconditions shared by every property: the rules of all twenty properties read the module's state
// off store operations and decoded records, which is only meaningful if
//   S1  the module keeps no mutable state outside the KVStore / parameter store in code that transactions,
//       end-of-block processing, genesis or queries can reach (memory is neither rolled back with a failed
//       transaction nor identical across nodes and restarts), and
//   S2  every record decoded inside a loop is decoded into a variable that is fresh for that iteration
//       (the generated Unmarshal merges into its target: repeated fields accumulate, absent fields keep
//       the previous record's values, byte slices share storage with copies already handed out).

import (
	"fmt"
	"go/ast"
	"go/token"
	"go/types"
	"sort"
	"strings"

	"golang.org/x/tools/go/types/typeutil"
)

// entryReachable: hand-written module functions reachable from any consensus or query entry point.
func (c *Check) entryReachable() map[*Func]bool {
	set := map[*Func]bool{}
	var visit func(g *Func)
	visit = func(g *Func) {
		if g == nil || set[g] {
			return
		}
		set[g] = true
		for _, h := range c.P.callees(g) {
			visit(h)
		}
	}
	for _, n := range []string{"service.NewHandler", "service.EndBlocker", "service.InitGenesis", "service.ExportGenesis",
		"service.PrepForZeroHeightGenesis", "keeper.NewQuerier"} {
		visit(c.P.FuncNamed(n))
	}
	for _, f := range c.P.Funcs {
		if !f.isHandWritten() || f.Obj == nil {
			continue
		}
		if f.pkgName() == "types" && (f.Obj.Name() == "ValidateBasic" || f.Obj.Name() == "ValidateGenesis") {
			visit(f)
		}
		// gRPC query methods of the keeper
		if f.pkgName() == "keeper" && f.Recv != nil && len(f.Params) == 2 && typeName(f.Params[0].Type()) == "context.Context" {
			visit(f)
		}
	}
	return set
}

// memoryRoot classifies the root of an assignable expression: a field of the keeper, or a package-level variable.
func (c *Check) memoryRoot(f *Func, e ast.Expr) (what string, through bool) {
	info := f.Pkg.TypesInfo
	e = ast.Unparen(e)
	for {
		switch x := e.(type) {
		case *ast.IndexExpr:
			through = true
			e = ast.Unparen(x.X)
			continue
		case *ast.StarExpr:
			through = true
			e = ast.Unparen(x.X)
			continue
		case *ast.SelectorExpr:
			if sel, ok := info.Selections[x]; ok && sel.Kind() == types.FieldVal {
				bt := info.TypeOf(x.X)
				if bt != nil {
					if pt, isPtr := bt.Underlying().(*types.Pointer); isPtr {
						if isKeeperType(pt.Elem()) {
							return "keeper field " + sel.Obj().Name(), true
						}
						bt = pt.Elem()
						through = true
					}
					if isKeeperType(bt) {
						return "keeper field " + sel.Obj().Name(), through
					}
				}
				e = ast.Unparen(x.X)
				continue
			}
			// package-qualified variable
			if v, ok := info.Uses[x.Sel].(*types.Var); ok && v.Pkg() != nil && v.Parent() == v.Pkg().Scope() {
				return "package variable " + qname(v), true
			}
			return "", false
		case *ast.Ident:
			if v, ok := info.Uses[x].(*types.Var); ok && v.Pkg() != nil && v.Parent() == v.Pkg().Scope() {
				return "package variable " + qname(v), true
			}
			return "", false
		default:
			return "", false
		}
	}
}

// storeOnlyState (S1).
func (c *Check) storeOnlyState(rule string) {
	reach := c.entryReachable()
	var fs []*Func
	for f := range reach {
		if f.isHandWritten() && f.Body != nil && (f.pkgName() == "keeper" || f.pkgName() == "service" || f.pkgName() == "types") {
			fs = append(fs, f)
		}
	}
	sort.Slice(fs, func(i, j int) bool { return fs[i].Name < fs[j].Name })
	n := 0
	for _, f := range fs {
		info := f.Pkg.TypesInfo
		report := func(pos token.Pos, what, how string) {
			n++
			c.fail(rule, unitConstruct(f, "memory-state:"+what), pos,
				"code reachable from a transaction, end-of-block, genesis or query entry point "+how+" "+what+
					": state kept outside the store is not rolled back with a failed or simulated transaction and differs between nodes and across restarts")
		}
		ast.Inspect(f.Body, func(nd ast.Node) bool {
			switch x := nd.(type) {
			case *ast.FuncLit:
				return false // closures are functions of their own in the index
			case *ast.AssignStmt:
				for _, l := range x.Lhs {
					if what, through := c.memoryRoot(f, l); what != "" && through {
						report(l.Pos(), what, "writes")
					}
				}
			case *ast.IncDecStmt:
				if what, through := c.memoryRoot(f, x.X); what != "" && through {
					report(x.Pos(), what, "writes")
				}
			case *ast.CallExpr:
				if b, ok := typeutil.Callee(info, x).(*types.Builtin); ok && b.Name() == "delete" && len(x.Args) == 2 {
					if what, _ := c.memoryRoot(f, x.Args[0]); what != "" {
						report(x.Pos(), what, "deletes from")
					}
				}
			}
			return true
		})
	}
	c.req(len(fs) >= 100, rule, "entry-reachable-functions", token.NoPos,
		fmt.Sprintf("%d entry-reachable functions scanned for writes to keeper fields and package variables; %d found", len(fs), n))
}

// freshDecodeTargets (S2).
func (c *Check) freshDecodeTargets(rule string) {
	reach := c.entryReachable()
	nSites, nLoop := 0, 0
	var fs []*Func
	for f := range reach {
		if f.isHandWritten() && f.Body != nil && (f.pkgName() == "keeper" || f.pkgName() == "service") {
			fs = append(fs, f)
		}
	}
	sort.Slice(fs, func(i, j int) bool { return fs[i].Name < fs[j].Name })
	for _, f := range fs {
		info := f.Pkg.TypesInfo
		var loops []ast.Node
		var walk func(nd ast.Node)
		walk = func(nd ast.Node) {
			ast.Inspect(nd, func(x ast.Node) bool {
				switch s := x.(type) {
				case *ast.FuncLit:
					return false
				case *ast.ForStmt:
					loops = append(loops, s)
					walk(s.Body)
					loops = loops[:len(loops)-1]
					return false
				case *ast.RangeStmt:
					loops = append(loops, s)
					walk(s.Body)
					loops = loops[:len(loops)-1]
					return false
				case *ast.CallExpr:
					fo, ok := typeutil.Callee(info, s).(*types.Func)
					if !ok || !strings.Contains(fo.Name(), "Unmarshal") {
						return true
					}
					nSites++
					if len(loops) == 0 {
						return true
					}
					for _, a := range s.Args {
						var id *ast.Ident
						viaPointer := false
						if u, ok := ast.Unparen(a).(*ast.UnaryExpr); ok && u.Op == token.AND {
							id, _ = ast.Unparen(u.X).(*ast.Ident)
						} else if pid, ok := ast.Unparen(a).(*ast.Ident); ok {
							// a pointer variable handed to the decoder: the record it points at is the target
							if pt, isPtr := types.Unalias(info.TypeOf(pid)).(*types.Pointer); isPtr && namedStruct(pt.Elem()) != "" {
								id, viaPointer = pid, true
							}
						}
						if id == nil {
							continue
						}
						v, ok := info.Uses[id].(*types.Var)
						if !ok {
							continue
						}
						nLoop++
						inner := loops[len(loops)-1]
						fresh := v.Pos() >= inner.Pos() && v.Pos() <= inner.End()
						if !fresh && viaPointer {
							// or pointed at a new record earlier in the same iteration
							ast.Inspect(inner, func(y ast.Node) bool {
								if y == nil || y.Pos() >= s.Pos() {
									return y == nil || y.Pos() < s.Pos()
								}
								if z, ok := y.(*ast.AssignStmt); ok && len(z.Lhs) == 1 && len(z.Rhs) == 1 {
									if lid, ok := z.Lhs[0].(*ast.Ident); ok && info.Uses[lid] == v {
										switch r := ast.Unparen(z.Rhs[0]).(type) {
										case *ast.CallExpr:
											if fid, ok := r.Fun.(*ast.Ident); ok && fid.Name == "new" {
												fresh = true
											}
										case *ast.UnaryExpr:
											if _, isLit := ast.Unparen(r.X).(*ast.CompositeLit); isLit && r.Op == token.AND {
												fresh = true
											}
										}
									}
								}
								return true
							})
						}
						if !fresh && !viaPointer {
							// or reset to its zero value earlier in the same iteration
							ast.Inspect(inner, func(y ast.Node) bool {
								if y == nil || y.Pos() >= s.Pos() {
									return y == nil || y.Pos() < s.Pos()
								}
								switch z := y.(type) {
								case *ast.AssignStmt:
									if len(z.Lhs) == 1 && len(z.Rhs) == 1 {
										if lid, ok := z.Lhs[0].(*ast.Ident); ok && info.Uses[lid] == v {
											if cl, ok := ast.Unparen(z.Rhs[0]).(*ast.CompositeLit); ok && len(cl.Elts) == 0 {
												fresh = true
											}
										}
									}
								case *ast.CallExpr:
									if se, ok := z.Fun.(*ast.SelectorExpr); ok && se.Sel.Name == "Reset" {
										if rid, ok := ast.Unparen(se.X).(*ast.Ident); ok && info.Uses[rid] == v {
											fresh = true
										}
									}
								}
								return true
							})
						}
						c.req(fresh, rule, unitConstruct(f, "decode-target:"+v.Name()), s.Pos(),
							"a record decoded in a loop is decoded into a variable declared inside that loop (Unmarshal merges into its target; a reused target carries fields of earlier records into later ones)")
					}
				}
				return true
			})
		}
		walk(f.Body)
	}
	c.req(nSites >= 10, rule, "decode-sites", token.NoPos, fmt.Sprintf("%d decode sites, %d of them inside loops", nSites, nLoop))
}

// commonPreconditions runs S1 and S2 under the property's own rule prefix.
func commonPreconditions(c *Check) {
	c.storeOnlyState(c.Prop + ".S1")
	c.freshDecodeTargets(c.Prop + ".S2")
	c.loopVarAddresses(c.Prop + ".S3")
	c.exhaustiveScans(c.Prop + ".S4")
	c.storedBytesNotAliased(c.Prop + ".S5")
	c.handlerArgsByName(c.Prop + ".S6")
}

// schemaPredicate: the validator fn accepts a document only if it passed JSON-schema validation (the schema
// library's Validate succeeded and reported Valid) against the package schema constant schemaConst — on every
// success path, so no shortcut accepts a document the schema rejects.
func (c *Check) schemaPredicate(rule, fn, schemaConst string) {
	g := c.P.FuncNamed(fn)
	if g == nil {
		c.undecided(rule, fn, token.NoPos, "validator not found")
		return
	}
	okValidate, okValid := false, false
	scan := func(fs FactSet) (v, valid bool) {
		for _, f := range c.closeFacts(fs) {
			s := f.T.String()
			if !strings.Contains(s, "gojsonschema.Validate") || !strings.Contains(s, "#"+schemaConst) || !f.T.ContainsAtom("P0") {
				continue
			}
			if f.T.Op == "ok" && !f.Neg {
				v = true
			}
			if strings.HasSuffix(f.T.Op, "Result.Valid") && !f.Neg {
				valid = true
			}
		}
		return
	}
	okValidate, okValid = scan(c.P.SummaryOf(g).SuccessFacts)
	if !okValidate {
		// an absent document may be accepted without validation (the callers' predicate is "non-empty and invalid"):
		// every accepting path either validated the document or established that it is empty
		nAcc, all, allValid := 0, true, true
		for _, pa := range c.P.PathsOf(g) {
			if !pa.OK() {
				continue
			}
			nAcc++
			af := pa.AllFacts()
			if af.Has(Fact{T: mk("nonempty", atom("P0")), Neg: true}) {
				continue
			}
			v, valid := scan(af)
			if !v {
				all = false
			}
			if !valid {
				allValid = false
			}
		}
		if nAcc >= 2 && all {
			okValidate = true
			if allValid {
				okValid = true
			}
		}
	}
	if !okValid {
		// the library reports at least one error for an invalid document: rejecting on the first reported error is
		// accepted when the function that calls the library has a rejecting path under ¬Valid and no accepting path under it
		// other than the one that found no error to report
		for _, h := range c.P.Funcs {
			if !h.isHandWritten() || h.Body == nil || h.pkgName() != "types" {
				continue
			}
			calls := false
			for _, pa := range c.P.PathsOf(h) {
				for _, ev := range pa.Events {
					if ev.Kind == EvCall && strings.HasSuffix(ev.CI.name, "gojsonschema.Validate") {
						calls = true
					}
				}
			}
			if !calls {
				continue
			}
			rejects, acceptsInvalid := false, false
			for _, pa := range c.P.PathsOf(h) {
				inv, looped := false, false
				for _, ev := range pa.Events {
					if ev.Kind == EvFact && ev.Fact.Neg && strings.HasSuffix(ev.Fact.T.Op, "Result.Valid") {
						inv = true
					}
					if ev.Kind == EvLoop {
						looped = true
					}
				}
				if inv && pa.Exit == ExitRevert {
					rejects = true
				}
				if inv && pa.OK() && looped {
					acceptsInvalid = true
				}
			}
			if rejects && !acceptsInvalid {
				okValid = true
			}
		}
	}
	c.req(okValidate && okValid, rule, fn+"#schema-validated", g.Body.Pos(),
		fmt.Sprintf("every accepting path validated the document against %s with the JSON-schema library (validation succeeded=%v, result valid=%v)", schemaConst, okValidate, okValid))
}

// handlerAddressArgs: every account address a message handler hands to the keeper is a field of the message
// (possibly through a module-service record it looked up), never a constant and never a value chosen by a
// branch of the handler: which account an operation acts for is decided by the signed message alone.
func (c *Check) handlerAddressArgs(rule string) {
	n := 0
	for _, en := range c.entries(rule) {
		for _, pa := range c.P.PathsOf(en.Handler) {
			if !pa.OK() {
				continue
			}
			for _, ev := range pa.Events {
				if ev.Kind != EvCall || ev.CI.fn == nil || ev.CI.fn.pkgName() != "keeper" || ev.CI.fn.Recv == nil {
					continue
				}
				for i, a := range ev.CI.args {
					if i >= len(ev.CI.fn.Params) || typeName(ev.CI.fn.Params[i].Type()) != "sdk.AccAddress" {
						continue
					}
					n++
					t := stripConv(a)
					ok := strings.HasPrefix(t.Op, "."+en.Msg+".") && len(t.A) == 1 && t.A[0].IsAt(en.MsgArg)
					if !ok && strings.HasPrefix(t.Op, ".ModuleService.") {
						ok = true // the provider registered for a module service
					}
					c.req(ok, rule, unitConstruct(en.Handler, fmt.Sprintf("address-arg:%s#%d", ev.CI.fn.Obj.Name(), i)), ev.Pos,
						"the address passed as "+ev.CI.fn.Params[i].Name()+" of "+ev.CI.fn.Obj.Name()+" is a field of the message: "+shortTerm(a))
				}
			}
		}
	}
	c.req(n >= 10, rule, "handler-address-arguments", token.NoPos, fmt.Sprintf("%d address arguments of keeper calls in message handlers", n))
}

// ownerRecordsStable: the provider→owner record and its inverse index are never deleted (authority over a
// provider's bindings and earnings is decided by that record for the provider's whole life).
func (c *Check) ownerRecordsStable(rule string) {
	n := 0
	for _, f := range c.handFuncs("keeper", "service") {
		for _, e := range c.P.SummaryOf(f).Effs {
			if e.Kind == "store" && e.Op == "Delete" && (e.Family == "0x04" || e.Family == "0x05") && len(e.Chain) == 0 {
				n++
				c.fail(rule, unitConstruct(f, "Delete "+e.Family), e.Pos, "the owner record of a provider (or its index entry) is deleted")
			}
		}
	}
	c.req(n == 0, rule, "owner-records-never-deleted", token.NoPos, "no function deletes from the provider→owner map or its inverse index")
}

// exhaustiveLookup: the in-memory lookup that decides whether a service name is reserved for a module answers
// "not found" only after looking at every registered module service: its loops have no break, and a return
// inside a loop reports a match.
func (c *Check) exhaustiveLookup(rule string) {
	f := c.fnBySignature([]string{"string"}, []string{"string", "*types.ModuleService", "bool"})
	if f == nil {
		c.undecided(rule, "reserved-service-lookup", token.NoPos, "lookup of a module service by service name not found")
		return
	}
	info := f.Pkg.TypesInfo
	nLoops := 0
	var problems []string
	var inLoop func(nd ast.Node, depth int)
	inLoop = func(nd ast.Node, depth int) {
		ast.Inspect(nd, func(x ast.Node) bool {
			switch s := x.(type) {
			case *ast.FuncLit:
				return false
			case *ast.ForStmt:
				nLoops++
				inLoop(s.Body, depth+1)
				return false
			case *ast.RangeStmt:
				nLoops++
				inLoop(s.Body, depth+1)
				return false
			case *ast.BranchStmt:
				if depth > 0 && (s.Tok == token.BREAK || s.Tok == token.GOTO) {
					problems = append(problems, "the scan is left by "+s.Tok.String()+" at "+c.pos(s.Pos()))
				}
			case *ast.ReturnStmt:
				if depth > 0 && len(s.Results) > 0 {
					last := s.Results[len(s.Results)-1]
					if tv, ok := info.Types[last]; !ok || tv.Value == nil || tv.Value.String() != "true" {
						problems = append(problems, "a return inside the scan does not report a match at "+c.pos(s.Pos()))
					}
				}
			}
			return true
		})
	}
	inLoop(f.Body, 0)
	problems = append(problems, c.returnsBeforeScan(f)...)
	// the scan may live in a helper the lookup delegates to (a method of a registry type)
	var helpers []*Func
	for _, g := range c.P.callees(f) {
		if g != f && g.isHandWritten() && g.Body != nil && g.pkgName() == "keeper" {
			helpers = append(helpers, g)
		}
	}
	for _, g := range helpers {
		saved := info
		info = g.Pkg.TypesInfo
		inLoop(g.Body, 0)
		info = saved
		problems = append(problems, c.returnsBeforeScan(g)...)
	}
	// a reported match is dominated by equality of the element's service name with the argument
	okMatch := false
	for _, g := range append([]*Func{f}, helpers...) {
		for _, pa := range c.P.PathsOf(g) {
			if n := len(pa.Ret); n >= 2 && pa.Ret[n-1].IsAt("#true") {
				for _, fa := range pa.AllFacts() {
					if !fa.Neg && fa.T.Op == "==" && mentionsParam(fa.T) && strings.Contains(fa.T.String(), ".ModuleService.ServiceName") {
						okMatch = true
					}
				}
			}
		}
	}
	c.req(nLoops >= 1 && len(problems) == 0 && okMatch, rule, unitConstruct(f, "exhaustive-lookup"), f.Body.Pos(),
		"the reserved-service lookup scans every registered module service and reports a match only on name equality"+condStr(len(problems) > 0, ": "+strings.Join(problems, "; ")))
}

// returnsBeforeScan: in a function that scans a collection, a return placed before the scan must report a match
// (constant true) or be taken only when the scanned collection is empty — anything else answers without looking
// at every element.
func (c *Check) returnsBeforeScan(f *Func) []string {
	var first ast.Node
	var ranged ast.Expr
	ast.Inspect(f.Body, func(x ast.Node) bool {
		if first != nil {
			return false
		}
		switch s := x.(type) {
		case *ast.FuncLit:
			return false
		case *ast.ForStmt:
			first = s
		case *ast.RangeStmt:
			first, ranged = s, s.X
		}
		return first == nil
	})
	if first == nil {
		return nil
	}
	var out []string
	for _, pa := range c.P.PathsOf(f) {
		if !pa.OK() || pa.RetPos >= first.Pos() || len(pa.Ret) == 0 {
			continue
		}
		if pa.Ret[len(pa.Ret)-1].IsAt("#true") {
			continue
		}
		empty := false
		if ranged != nil {
			rs := types.ExprString(ranged)
			for _, fa := range pa.AllFacts() {
				t := fa.T
				if fa.Neg && t.Op == "nonempty" && len(t.A) == 1 && strings.Contains(stripConv(t.A[0]).String(), "."+fieldTail(rs)) {
					empty = true
				}
			}
		}
		if !empty {
			out = append(out, "a return before the scan answers without a match at "+c.pos(pa.RetPos))
		}
	}
	return uniq(out)
}

// fieldTail: the last selector of a source expression ("k.moduleServices" → "moduleServices").
func fieldTail(src string) string {
	if i := strings.LastIndex(src, "."); i >= 0 {
		src = src[i+1:]
	}
	return src
}

// paramGettersExact: a keeper function that reads one parameter returns exactly the stored value on every
// path (no default substituted for a legal stored value such as zero), so that a value set by governance is
// the value in force.
func (c *Check) paramGettersExact(rule string, keys ...string) {
	n := 0
	for _, key := range keys {
		f := c.paramGetter(key)
		if f == nil {
			c.undecided(rule, "param:"+key, token.NoPos, "no getter reads parameter key "+key)
			continue
		}
		n++
		ok := true
		why := ""
		for _, pa := range c.P.PathsOf(f) {
			if !pa.OK() || len(pa.Ret) != 1 {
				ok, why = false, "a path does not return a single value"
				continue
			}
			r := stripConv(pa.Ret[0])
			if !(r.Op == "out" && len(r.A) == 2 && strings.HasSuffix(r.A[0].Op, "Subspace.Get") && r.A[0].ContainsAtom("@types."+key)) {
				ok, why = false, "returns "+shortTerm(r)
			}
		}
		c.req(ok, rule, unitConstruct(f, "exact-parameter:"+key), f.Body.Pos(),
			"the getter returns the stored parameter "+key+" as read by Subspace.Get on every path"+condStr(why != "", ": "+why))
	}
	c.req(n == len(keys), rule, "parameter-getters", token.NoPos, fmt.Sprintf("%d of %d parameter getters found", n, len(keys)))
}

// paramSetExact: the keeper function that assembles the whole parameter set (the parameters query answers with it and
// the genesis export writes it out) gives every field of types.Params the stored value of the like-named parameter:
// field F is the result of the getter that reads key KeyF, or a direct read of KeyF, and no field is left out.
func (c *Check) paramSetExact(rule string) {
	n := 0
	for _, f := range c.handFuncs("keeper") {
		if f.Body == nil || len(f.Res) != 1 || namedStruct(f.Res[0].Type()) != "Params" {
			continue
		}
		if _, ptr := types.Unalias(f.Res[0].Type()).(*types.Pointer); ptr {
			continue
		}
		st, _ := types.Unalias(f.Res[0].Type()).Underlying().(*types.Struct)
		if st == nil {
			continue
		}
		n++
		for _, pa := range c.P.PathsOf(f) {
			if !pa.OK() || len(pa.Ret) != 1 {
				continue
			}
			r := stripConv(pa.Ret[0])
			if r.Op == "out" && len(r.A) >= 1 && strings.HasSuffix(r.A[0].Op, "Subspace.GetParamSet") {
				c.ok(rule, unitConstruct(f, "parameter-set"), pa.RetPos, "the whole parameter set is read by Subspace.GetParamSet")
				continue
			}
			have := map[string]*Term{}
			if r.Op == "with" && (baseOf(r).IsAt("zero") || baseOf(r).Op == "lit") {
				// a zero value filled field by field (a typed reader writing through pointers to the fields)
				for k, v := range writtenFields(r) {
					have[k] = v
				}
				if b := baseOf(r); b.Op == "lit" {
					for _, kv := range b.A[1:] {
						if _, dup := have[kv.Op]; !dup && len(kv.A) == 1 {
							have[kv.Op] = kv.A[0]
						}
					}
				}
			} else if r.Op != "lit" {
				c.undecided(rule, unitConstruct(f, "parameter-set"), pa.RetPos, "the assembled parameter set is not a Params value built field by field: "+shortTerm(r))
				continue
			}
			if r.Op == "lit" {
				for _, kv := range r.A[1:] {
					if len(kv.A) == 1 {
						have[kv.Op] = kv.A[0]
					}
				}
			}
			for i := 0; i < st.NumFields(); i++ {
				fld := st.Field(i).Name()
				key := "Key" + fld
				v := have[fld]
				c.Sites++
				if v == nil {
					c.fail(rule, unitConstruct(f, "parameter-set:"+fld), pa.RetPos, "field "+fld+" of the assembled parameter set is not filled")
					continue
				}
				v = stripConv(v)
				ok := false
				if g := c.paramGetter(key); g != nil && v.Op == g.Name {
					ok = true
				}
				if !ok && v.ContainsAtom("@types."+key) {
					ok = true
					v.Walk(func(t *Term) bool {
						if t.Op == "" && strings.HasPrefix(t.At, "@types.Key") && !t.IsAt("@types."+key) {
							ok = false
						}
						return true
					})
				}
				c.req(ok, rule, unitConstruct(f, "parameter-set:"+fld), pa.RetPos,
					"field "+fld+" of the assembled parameter set is the stored parameter "+key+": "+shortTerm(v))
			}
		}
	}
	c.req(n >= 1, rule, "parameter-set-function", token.NoPos, fmt.Sprintf("%d keeper function(s) assemble the whole parameter set", n))
}

// loopVarAddresses (S3): the module is built with per-loop (not per-iteration) loop variables (go.mod: go 1.14),
// so a pointer to a range / for-clause variable that is kept beyond the iteration — assigned to a variable
// declared outside the loop, stored, appended, returned or captured — aliases the next iteration's value.
func (c *Check) loopVarAddresses(rule string) {
	reach := c.entryReachable()
	var fs []*Func
	for f := range reach {
		if f.isHandWritten() && f.Body != nil && (f.pkgName() == "keeper" || f.pkgName() == "service" || f.pkgName() == "types") {
			fs = append(fs, f)
		}
	}
	sort.Slice(fs, func(i, j int) bool { return fs[i].Name < fs[j].Name })
	nLoops, nAddr := 0, 0
	for _, f := range fs {
		info := f.Pkg.TypesInfo
		var encl []*ast.BlockStmt // bodies of the loops around the node being visited
		var visit func(nd ast.Node, loopVars map[*types.Var]ast.Node)
		visit = func(nd ast.Node, loopVars map[*types.Var]ast.Node) {
			var stack []ast.Node
			ast.Inspect(nd, func(x ast.Node) bool {
				if x == nil {
					stack = stack[:len(stack)-1]
					return true
				}
				stack = append(stack, x)
				switch s := x.(type) {
				case *ast.FuncLit:
					stack = stack[:len(stack)-1]
					return false
				case *ast.RangeStmt:
					nLoops++
					lv := map[*types.Var]ast.Node{}
					for k, v := range loopVars {
						lv[k] = v
					}
					if s.Tok == token.DEFINE {
						for _, e := range []ast.Expr{s.Key, s.Value} {
							if id, ok := e.(*ast.Ident); ok {
								if v, ok := info.Defs[id].(*types.Var); ok {
									lv[v] = s
								}
							}
						}
					}
					encl = append(encl, s.Body)
					visit(s.Body, lv)
					encl = encl[:len(encl)-1]
					stack = stack[:len(stack)-1]
					return false
				case *ast.ForStmt:
					nLoops++
					lv := map[*types.Var]ast.Node{}
					for k, v := range loopVars {
						lv[k] = v
					}
					if as, ok := s.Init.(*ast.AssignStmt); ok && as.Tok == token.DEFINE {
						for _, l := range as.Lhs {
							if id, ok := l.(*ast.Ident); ok {
								if v, ok := info.Defs[id].(*types.Var); ok {
									lv[v] = s
								}
							}
						}
					}
					encl = append(encl, s.Body)
					visit(s.Body, lv)
					encl = encl[:len(encl)-1]
					stack = stack[:len(stack)-1]
					return false
				case *ast.UnaryExpr:
					if s.Op != token.AND {
						return true
					}
					id, ok := ast.Unparen(s.X).(*ast.Ident)
					if !ok {
						return true
					}
					v, ok := info.Uses[id].(*types.Var)
					if ok && loopVars[v] == nil && len(encl) > 0 && !v.IsField() {
						// a variable declared outside the loop whose address is appended in the loop: every element of the
						// list is the same pointer, and ends up showing the last iteration's value
						body := encl[len(encl)-1]
						if (v.Pos() < body.Pos() || v.Pos() > body.End()) && len(stack) >= 2 {
							if call, isCall := stack[len(stack)-2].(*ast.CallExpr); isCall {
								if b, isB := typeutil.Callee(info, call).(*types.Builtin); isB && b.Name() == "append" {
									nAddr++
									c.fail(rule, unitConstruct(f, "outer-variable-address-appended:"+v.Name()), s.Pos(),
										"the address of "+v.Name()+", declared outside the loop, is appended inside it: all appended pointers are one pointer")
								}
							}
						}
					}
					if !ok || loopVars[v] == nil {
						return true
					}
					nAddr++
					// allowed: the pointer is an argument of a call that is an expression statement or an assignment's
					// right-hand side (decode / encode into or from the variable within the iteration)
					okUse := false
					if len(stack) >= 2 {
						if call, isCall := stack[len(stack)-2].(*ast.CallExpr); isCall {
							for _, a := range call.Args {
								if ast.Unparen(a) == ast.Expr(s) {
									okUse = true
								}
							}
							if b, isB := typeutil.Callee(info, call).(*types.Builtin); isB && b.Name() == "append" {
								okUse = false
							}
						}
					}
					c.req(okUse, rule, unitConstruct(f, "loop-variable-address:"+v.Name()), s.Pos(),
						"the address of loop variable "+v.Name()+" is used only as a call argument within its iteration (kept pointers alias the following iterations)")
				}
				return true
			})
		}
		visit(f.Body, map[*types.Var]ast.Node{})
	}
	c.req(nLoops >= 20, rule, "loops-scanned", token.NoPos, fmt.Sprintf("%d loops scanned, %d addresses of loop variables", nLoops, nAddr))
}

// exhaustiveScans (S4): a loop in keeper / end-of-block code is left by break only when a caller-supplied
// callback asked to stop (the "if stop := op(...); stop { break }" idiom of the iterate helpers). Every other
// break cuts a scan over stored records, providers or coins short: later elements are neither accumulated
// nor updated.
func (c *Check) exhaustiveScans(rule string) {
	reach := c.entryReachable()
	var fs []*Func
	for f := range reach {
		if f.isHandWritten() && f.Body != nil && (f.pkgName() == "keeper" || f.pkgName() == "service") {
			fs = append(fs, f)
		}
	}
	sort.Slice(fs, func(i, j int) bool { return fs[i].Name < fs[j].Name })
	nLoops, nBreaks := 0, 0
	for _, f := range fs {
		info := f.Pkg.TypesInfo
		isCallbackCall := func(e ast.Expr) bool {
			call, ok := ast.Unparen(e).(*ast.CallExpr)
			if !ok {
				return false
			}
			var id *ast.Ident
			switch fn := ast.Unparen(call.Fun).(type) {
			case *ast.Ident:
				id = fn
			case *ast.SelectorExpr:
				id = fn.Sel
			}
			if id == nil {
				return false
			}
			v, ok := info.Uses[id].(*types.Var)
			if !ok {
				return false
			}
			_, isFn := v.Type().Underlying().(*types.Signature)
			return isFn
		}
		var walk func(nd ast.Node, loopDepth int, ifs []*ast.IfStmt)
		walk = func(nd ast.Node, loopDepth int, ifs []*ast.IfStmt) {
			ast.Inspect(nd, func(x ast.Node) bool {
				switch s := x.(type) {
				case *ast.FuncLit:
					return false
				case *ast.ForStmt:
					nLoops++
					walk(s.Body, loopDepth+1, nil)
					return false
				case *ast.RangeStmt:
					nLoops++
					walk(s.Body, loopDepth+1, nil)
					return false
				case *ast.SwitchStmt, *ast.TypeSwitchStmt, *ast.SelectStmt:
					// break inside a switch leaves the switch, not the loop
					var body *ast.BlockStmt
					switch y := s.(type) {
					case *ast.SwitchStmt:
						body = y.Body
					case *ast.TypeSwitchStmt:
						body = y.Body
					case *ast.SelectStmt:
						body = y.Body
					}
					walk(body, 0, nil)
					return false
				case *ast.IfStmt:
					walk(s.Body, loopDepth, append(append([]*ast.IfStmt(nil), ifs...), s))
					if s.Else != nil {
						walk(s.Else, loopDepth, ifs)
					}
					return false
				case *ast.BranchStmt:
					if s.Tok != token.BREAK || loopDepth == 0 || s.Label != nil {
						return true
					}
					nBreaks++
					allowed := false
					if len(ifs) > 0 {
						is := ifs[len(ifs)-1]
						cond := ast.Unparen(is.Cond)
						if isCallbackCall(cond) {
							allowed = true
						}
						if id, ok := cond.(*ast.Ident); ok {
							if as, ok := is.Init.(*ast.AssignStmt); ok && len(as.Lhs) == 1 && len(as.Rhs) == 1 {
								if lid, ok := as.Lhs[0].(*ast.Ident); ok && info.Defs[lid] != nil && info.Defs[lid] == info.Uses[id] && isCallbackCall(as.Rhs[0]) {
									allowed = true
								}
							}
						}
					}
					c.req(allowed, rule, unitConstruct(f, "scan-break"), s.Pos(),
						"a loop is left by break only on the stop request of the caller's callback (other breaks skip the remaining records / providers / coins)")
				}
				return true
			})
		}
		walk(f.Body, 0, nil)
	}
	c.req(nLoops >= 20, rule, "scan-loops", token.NoPos, fmt.Sprintf("%d loops, %d break statements", nLoops, nBreaks))
	// a scan that takes a callback hands it EVERY entry: a path through the loop body that does not call the callback
	// ("skip entries whose context is paused") hides entries from every caller — the end blocker never sees them
	nIter := 0
	for _, f := range fs {
		var opIdx []int
		for i, pr := range f.Params {
			if _, isFn := types.Unalias(pr.Type()).Underlying().(*types.Signature); isFn {
				opIdx = append(opIdx, i)
			}
		}
		if len(opIdx) != 1 || f.pkgName() != "keeper" {
			continue
		}
		opAtom := fmt.Sprintf("P%d", opIdx[0])
		// the loops in which some path calls the callback
		loops := map[ast.Node]bool{}
		for _, pa := range c.P.PathsOf(f) {
			for _, ev := range pa.Events {
				if ev.Kind == EvCall && ev.Loop != nil && ev.CI.name == "dyn" && ev.CI.fun != nil && ev.CI.fun.IsAt(opAtom) {
					loops[ev.Loop] = true
				}
			}
		}
		if len(loops) == 0 {
			continue
		}
		nIter++
		skipped := token.NoPos
		for _, pa := range c.P.PathsOf(f) {
			if !pa.OK() {
				continue
			}
			entered := map[ast.Node]bool{}
			called := map[ast.Node]bool{}
			for _, ev := range pa.Events {
				if ev.Kind == EvLoop && loops[ev.Node] {
					entered[ev.Node] = true
				}
				if ev.Kind == EvCall && ev.Loop != nil && ev.CI.name == "dyn" && ev.CI.fun != nil && ev.CI.fun.IsAt(opAtom) {
					called[ev.Loop] = true
				}
			}
			for l := range entered {
				if !called[l] {
					skipped = pa.RetPos
				}
			}
		}
		c.req(skipped == token.NoPos, rule, unitConstruct(f, "callback-on-every-entry"), f.Body.Pos(),
			"every path through the scan's loop body hands the entry to the caller's callback"+condStr(skipped != token.NoPos, ": a path ending at "+c.pos(skipped)+" passes an entry over"))
	}
	c.Sites += nIter
	// the other half: end-of-block, genesis and query code that hands a callback to one of the module's scans wants every
	// record visited — no such callback answers "stop" (a handler given a stop result that always returns true ends the
	// scan after the first pending request)
	nCb := 0
	seenCb := map[string]bool{}
	for _, f := range fs {
		for _, pa := range c.P.PathsOf(f) {
			for _, ev := range pa.Events {
				if ev.Kind != EvCall || ev.CI.fn == nil || !ev.CI.fn.isHandWritten() || ev.CI.fn.Body == nil {
					continue
				}
				for _, a := range ev.CI.args {
					a = stripConv(a)
					if !a.Is("func") || len(a.A) < 1 {
						continue
					}
					g := c.P.FuncNamed(a.A[0].At)
					if g == nil || g.Body == nil || len(g.Res) != 1 {
						continue
					}
					if b, isB := g.Res[0].Type().Underlying().(*types.Basic); !isB || b.Kind() != types.Bool {
						continue
					}
					key := g.Name + ">" + ev.CI.fn.Name
					if seenCb[key] {
						continue
					}
					seenCb[key] = true
					nCb++
					stops := token.NoPos
					for _, pg := range c.P.PathsOf(g) {
						if pg.OK() && len(pg.Ret) == 1 && !stripConv(pg.Ret[0]).IsAt("#false") && !isFailureTest(stripConv(pg.Ret[0])) {
							stops = pg.RetPos
						}
					}
					c.req(stops == token.NoPos, rule, unitConstruct(g, "never-stops:"+ev.CI.fn.Name), g.Body.Pos(),
						"the callback handed to "+ev.CI.fn.Name+" never asks the scan to stop"+condStr(stops != token.NoPos, ": a path ending at "+c.pos(stops)+" returns something else than false"))
				}
			}
		}
	}
	c.Sites += nCb
	// (a module that hands out whole lists instead of taking callbacks has none: the first half of the rule covers its loops)
	if nCb == 0 {
		c.note(fmt.Sprintf("%s: no callback with a stop result is handed to a module scan", rule))
	} else {
		c.ok(rule, "scan-callbacks", token.NoPos, fmt.Sprintf("%d callbacks with a stop result handed to module scans", nCb))
	}
}

// funcSig: parameter and result types of a function as one string.
func funcSig(f *Func) string {
	var ps, rs []string
	for _, pr := range f.Params {
		ps = append(ps, typeName(pr.Type()))
	}
	for _, r := range f.Res {
		rs = append(rs, typeName(r.Type()))
	}
	return "(" + strings.Join(ps, ",") + ")->(" + strings.Join(rs, ",") + ")"
}

// typesAnchors: the functions of package types the rules anchor on, by their conventional name and by what
// identifies them when that name changes (their signature, or for validators of one string the schema /
// pattern they check against).
var typesAnchors = map[string]string{
	"GenerateRequestID":              "(github.com/tendermint/tendermint/libs/bytes.HexBytes,uint64,int64,int16)->(github.com/tendermint/tendermint/libs/bytes.HexBytes)",
	"SplitRequestID":                 "(github.com/tendermint/tendermint/libs/bytes.HexBytes)->(github.com/tendermint/tendermint/libs/bytes.HexBytes,uint64,int64,int16,error)",
	"GenerateRequestContextID":       "([]byte,int64)->(github.com/tendermint/tendermint/libs/bytes.HexBytes)",
	"SplitRequestContextID":          "(github.com/tendermint/tendermint/libs/bytes.HexBytes)->(github.com/tendermint/tendermint/libs/bytes.HexBytes,int64,error)",
	"GetDiscountByTime":              "(types.Pricing,time.Time)->(sdk.Dec)",
	"GetDiscountByVolume":            "(types.Pricing,uint64)->(sdk.Dec)",
	"ValidateRequest":                "(string,sdk.Coins,[]types.AccAddress,string,int64,bool,uint64,int64)->(error)",
	"ValidateRequestContextUpdating": "([]types.AccAddress,sdk.Coins,int64,uint64,int64)->(error)",
	"NewGenesisState":                "(types.Params,[]types.ServiceDefinition,[]types.ServiceBinding,map[string][]byte,map[string]*types.RequestContext)->(*types.GenesisState)",
	"ValidateGenesis":                "(types.GenesisState)->(error)",
	"NewParams":                      "(int64,int64,sdk.Coins,sdk.Dec,sdk.Dec,time.Duration,time.Duration,uint64,string)->(types.Params)",
}

// typesFn resolves an anchor function of package types: by its conventional name, else by its signature.
func (c *Check) typesFn(name string) *Func {
	if f := c.P.FuncNamed("types." + name); f != nil {
		return f
	}
	if c.typesMemo == nil {
		c.typesMemo = map[string]*Func{}
	}
	if f, ok := c.typesMemo[name]; ok {
		return f
	}
	var found *Func
	if sig, ok := typesAnchors[name]; ok {
		n := 0
		for _, f := range c.P.Funcs {
			if f.isHandWritten() && f.Obj != nil && f.Recv == nil && f.Body != nil && f.pkgName() == "types" && funcSig(f) == sig {
				found = f
				n++
			}
		}
		if n != 1 {
			found = nil
		}
	}
	if name == "ValidateResponseOutput" || name == "ValidateRequestInput" {
		schema := "#types.OutputSchema"
		if name == "ValidateRequestInput" {
			schema = "#types.InputSchema"
		}
		for _, f := range c.P.Funcs {
			if !f.isHandWritten() || f.Obj == nil || f.Recv != nil || f.Body == nil || f.pkgName() != "types" || funcSig(f) != "(string)->(error)" {
				continue
			}
			for _, fa := range c.P.SummaryOf(f).SuccessFacts {
				if fa.T.ContainsAtom(schema) {
					found = f
				}
			}
		}
	}
	c.typesMemo[name] = found
	return found
}

// typesName: the qualified name the anchor currently has (its conventional name if it cannot be resolved, so
// that the rule using it reports the anchor as missing).
func (c *Check) typesName(name string) string {
	return nameOf(c.typesFn(name), "types."+name)
}

// paramValidatorsAgree: genesis validation (Params.Validate) applies to a field the validator that the
// parameter store registers for that field's key (ParamSetPairs): a registered validator is never applied to
// another field, so genesis validation accepts exactly what parameter changes on the running chain accept.
func (c *Check) paramValidatorsAgree(rule string) {
	ps := c.P.FuncNamed("types.Params.ParamSetPairs")
	vf := c.P.FuncNamed("types.Params.Validate")
	if ps == nil || vf == nil {
		c.undecided(rule, "types.Params", token.NoPos, "ParamSetPairs / Validate not found")
		return
	}
	reg := map[string]string{}   // field -> validator
	owner := map[string]string{} // validator -> field
	for _, pa := range c.P.PathsOf(ps) {
		if len(pa.Ret) != 1 {
			continue
		}
		pairs, okList := listElems(pa.Ret[0])
		if !okList {
			continue
		}
		for _, el := range pairs {
			var fld, val string
			el.Walk(func(t *Term) bool {
				if strings.HasPrefix(t.Op, ".Params.") && len(t.A) == 1 {
					fld = strings.TrimPrefix(t.Op, ".Params.")
				}
				if t.Is("func") && len(t.A) >= 1 {
					val = t.A[0].At
				}
				// a validator kept in a package-level function variable (built once by a factory)
				if t.Op == "" && strings.HasPrefix(t.At, "@types.") && t.Typ != nil {
					if _, isFn := t.Typ.Underlying().(*types.Signature); isFn {
						val = t.At
					}
				}
				return true
			})
			if fld != "" && val != "" {
				reg[fld] = val
				owner[val] = fld
			}
		}
	}
	n := 0
	for _, pa := range c.P.PathsOf(vf) {
		if pa.Exit != ExitSuccess && pa.Exit != ExitMaybe {
			continue
		}
		for _, ev := range pa.Events {
			if ev.Kind != EvCall {
				continue
			}
			vname := ""
			if ev.CI.fn != nil {
				vname = ev.CI.fn.Name
			} else if ev.CI.fun != nil && ev.CI.fun.Op == "" {
				vname = ev.CI.fun.At // a call through a package-level function variable
			}
			want, isReg := owner[vname]
			if !isReg {
				continue
			}
			for _, a := range ev.CI.args {
				a = stripConv(a)
				if strings.HasPrefix(a.Op, ".Params.") && len(a.A) == 1 {
					n++
					got := strings.TrimPrefix(a.Op, ".Params.")
					c.req(got == want, rule, "types.Params.Validate#"+got, ev.Pos,
						fmt.Sprintf("field %s is validated by %s, which the parameter store registers for %s", got, vname, want))
				}
			}
		}
	}
	// a table of (validator, value) entries run in a loop: each entry is an application
	seenLit := map[string]bool{}
	for _, pa := range c.P.PathsOf(vf) {
		visit := func(t *Term) {
			if t == nil {
				return
			}
			t.Walk(func(x *Term) bool {
				if x.Op != "lit" || len(x.A) < 3 || seenLit[x.String()] {
					return true
				}
				var val, fld string
				for _, kv := range x.A[1:] {
					if len(kv.A) != 1 {
						continue
					}
					v := stripConv(kv.A[0])
					if v.Is("func") && len(v.A) >= 1 {
						val = v.A[0].At
					}
					if v.Op == "" && strings.HasPrefix(v.At, "@types.") && owner[v.At] != "" {
						val = v.At
					}
					if strings.HasPrefix(v.Op, ".Params.") && len(v.A) == 1 {
						fld = strings.TrimPrefix(v.Op, ".Params.")
					}
				}
				if want, isReg := owner[val]; isReg && fld != "" {
					seenLit[x.String()] = true
					n++
					c.req(fld == want, rule, "types.Params.Validate#"+fld, pa.RetPos,
						fmt.Sprintf("field %s is validated by %s, which the parameter store registers for %s", fld, val, want))
				}
				return true
			})
		}
		for _, ev := range pa.Events {
			visit(ev.Val)
			if ev.CI != nil {
				for _, a := range ev.CI.args {
					visit(a)
				}
				visit(ev.CI.recv)
			}
		}
	}
	c.req(len(reg) >= 5 && n >= 5, rule, "types.Params#validators", token.NoPos, fmt.Sprintf("%d registered (field, validator) pairs; %d applications in Validate checked", len(reg), n))
}

// storedBytesNotAliased (S5): the store keeps the byte slice it is handed (the cache-wrapped store of a transaction
// or block holds values by reference until it is flushed), so a value passed to Set must not be written again. On
// every path, a value stored later is never computed from a value stored earlier through operations that can return
// their argument's storage (re-slicing, append, a module helper that fills and returns the buffer it was given):
// re-encoding the next record into that buffer would silently change the record stored before.
func (c *Check) storedBytesNotAliased(rule string) {
	nFuncs := 0
	for _, f := range c.handFuncs("keeper", "service") {
		had := false
		seenBad := map[string]bool{}
		for _, pa := range c.P.PathsOf(f) {
			type sv struct {
				val *Term
				pos token.Pos
			}
			var vals []sv
			for _, ev := range pa.Events {
				if ev.Kind != EvCall {
					continue
				}
				for _, e := range c.P.effectsOfEvent(f, ev) {
					if e.Kind != "store" || e.Op != "Set" || len(e.Chain) != 0 || e.Val == nil {
						continue
					}
					had = true
					v := stripConv(e.Val)
					for _, prev := range vals {
						if prev.val.String() == v.String() {
							continue
						}
						if via, ok := c.aliasesThrough(v, prev.val); ok {
							k := c.pos(prev.pos) + ">" + c.pos(ev.Pos)
							if !seenBad[k] {
								seenBad[k] = true
								c.fail(rule, unitConstruct(f, "stored-buffer-reused:"+via), ev.Pos,
									"the value stored here is computed through "+via+" from the byte slice stored at "+c.pos(prev.pos)+"; the store keeps that slice, so the earlier record is overwritten in place")
							}
						}
					}
					vals = append(vals, sv{v, ev.Pos})
				}
			}
		}
		if had {
			nFuncs++
		}
	}
	c.req(nFuncs >= 10, rule, "stored-bytes-fresh", token.NoPos, fmt.Sprintf("%d functions call the store's Set directly; on every path no stored value is derived in place from an earlier stored value", nFuncs))
}

// aliasesThrough: prev occurs inside v below operations that may all return (part of) their argument's storage.
func (c *Check) aliasesThrough(v, prev *Term) (string, bool) {
	ps := prev.String()
	var walk func(t *Term, via string) (string, bool)
	walk = func(t *Term, via string) (string, bool) {
		t = stripConv(t)
		if t.String() == ps {
			return via, via != ""
		}
		may := false
		switch {
		case t.Op == "slice" || t.Op == "append" || t.Op == "phi" || t.Op == "res" || t.Op == "out" || t.Op == "...":
			may = true
		default:
			if g := c.P.FuncNamed(t.Op); g != nil && g.isHandWritten() && g.Body != nil {
				may = true
			}
		}
		if !may {
			return "", false
		}
		nv := via
		if t.Op != "phi" && t.Op != "res" && t.Op != "..." {
			if nv != "" {
				nv += ">"
			}
			nv += t.Op
		}
		for _, a := range t.A {
			if s, ok := walk(a, nv); ok {
				return s, true
			}
		}
		return "", false
	}
	return walk(v, "")
}

// fractionValidators: the slash fraction and the tax rate are kept inside their ranges by the validators the parameter store
// registers for them (governance proposals and genesis go through them): when the registered validator accepts a value it
// has established 0 ≤ v, and v ≤ 1 for the slash fraction (v < 1 for the tax). Decided on the validator's success facts,
// in any of the equivalent spellings (¬LT / GTE / ¬IsNegative; ¬GT / LTE; ¬GTE / LT). A fraction above one makes the slash
// exceed the deposit (the respond handler and the end blocker then fail or panic), a negative one builds a negative coin.
func (c *Check) fractionValidators(rule string) {
	ps := c.P.FuncNamed("types.Params.ParamSetPairs")
	if ps == nil {
		c.undecided(rule, "types.Params.ParamSetPairs", token.NoPos, "parameter registration not found")
		return
	}
	reg := map[string]string{}
	for _, pa := range c.P.PathsOf(ps) {
		if len(pa.Ret) != 1 {
			continue
		}
		pairs, okList := listElems(pa.Ret[0])
		if !okList {
			continue
		}
		for _, el := range pairs {
			var fld, val string
			el.Walk(func(t *Term) bool {
				if strings.HasPrefix(t.Op, ".Params.") && len(t.A) == 1 {
					fld = strings.TrimPrefix(t.Op, ".Params.")
				}
				if t.Is("func") && len(t.A) >= 1 {
					val = t.A[0].At
				}
				return true
			})
			if fld != "" && val != "" {
				reg[fld] = val
			}
		}
	}
	for _, w := range []struct {
		fld    string
		strict bool
	}{{"SlashFraction", false}, {"ServiceFeeTax", true}} {
		g := c.P.FuncNamed(reg[w.fld])
		if g == nil || g.Body == nil {
			// a validator built by a factory and kept in a variable: its range is in the factory's arguments; not decided here
			c.note(fmt.Sprintf("%s: the validator registered for %s is not a declared function (factory-built): its range is not decided", rule, w.fld))
			continue
		}
		sf0 := c.closeFacts(c.P.SummaryOf(g).SuccessFacts)
		// a comparison passed in as a method expression and called through the parameter is that method's call
		sf := FactSet{}
		var undyn func(t *Term) *Term
		undyn = func(t *Term) *Term {
			if t == nil || t.Op == "" {
				return t
			}
			na := make([]*Term, len(t.A))
			for i, a := range t.A {
				na[i] = undyn(a)
			}
			if t.Op == "dyn" && len(na) >= 1 && na[0].Is("func") && len(na[0].A) >= 1 && na[0].A[0].Op == "" {
				return &Term{Op: na[0].A[0].At, A: na[1:], Typ: t.Typ}
			}
			return &Term{Op: t.Op, A: na, Typ: t.Typ, At: t.At}
		}
		for _, fa := range sf0 {
			sf.Add(Fact{T: undyn(fa.T), Neg: fa.Neg})
		}
		// the validated value: the asserted parameter
		var v *Term
		for _, fa := range sf {
			fa.T.Walk(func(t *Term) bool {
				if t.Op == "res" && len(t.A) == 2 && t.A[0].IsAt("0") && stripConv(t.A[1]).Op == "assert" {
					v = t
				}
				return true
			})
		}
		lower, upper := false, false
		if v != nil {
			zero, one := mk("sdk.ZeroDec"), mk("sdk.OneDec")
			lower = sf.Holds(mk("sdk.Dec.LT", v, zero), false) || sf.Holds(mk("sdk.Dec.GTE", v, zero), true) || sf.Holds(mk("sdk.Dec.IsNegative", v), false)
			if w.strict {
				upper = sf.Holds(mk("sdk.Dec.GTE", v, one), false) || sf.Holds(mk("sdk.Dec.LT", v, one), true)
			} else {
				upper = sf.Holds(mk("sdk.Dec.GT", v, one), false) || sf.Holds(mk("sdk.Dec.LTE", v, one), true) ||
					sf.Holds(mk("sdk.Dec.GTE", v, one), false) || sf.Holds(mk("sdk.Dec.LT", v, one), true)
			}
		}
		c.Sites++
		rng := "[0, 1]"
		if w.strict {
			rng = "[0, 1)"
		}
		c.req(lower && upper, rule, g.Name+"#range", g.Body.Pos(),
			fmt.Sprintf("a value the registered validator of %s accepts lies in %s (established on acceptance: 0 ≤ v: %v, upper bound: %v)", w.fld, rng, lower, upper))
	}
}

// isFailureTest: the term says "an error occurred" (err != nil, ¬ok(call)): a callback that stops the scan on the failure of
// what it does for a record is the loop's own "return err".
func isFailureTest(t *Term) bool {
	if t.Op == "!=" && len(t.A) == 2 && t.A[1].IsAt("#nil") {
		return true
	}
	if t.Op != "!" || len(t.A) != 1 {
		return false
	}
	in := stripConv(t.A[0])
	return in.Op == "ok" || (in.Op == "==" && len(in.A) == 2 && in.A[1].IsAt("#nil"))
}

// handlerArgsByName (S6): the properties speak of messages, the rules of the keeper functions behind them; the two meet in
// the message handlers, which hand each field of the message to a keeper parameter. Where the keeper parameter carries the
// name of a field of that message (superMode / SuperMode, repeated / Repeated ...), the argument is that field and not
// another one of the same type (two neighbouring booleans exchanged compile and pass every test that sets both alike).
func (c *Check) handlerArgsByName(rule string) {
	n := 0
	for _, en := range c.entries(rule) {
		h := en.Handler
		if h == nil || h.Body == nil {
			continue
		}
		info := h.Pkg.TypesInfo
		ast.Inspect(h.Body, func(nd ast.Node) bool {
			call, ok := nd.(*ast.CallExpr)
			if !ok {
				return true
			}
			fo, _ := typeutil.Callee(info, call).(*types.Func)
			if fo == nil || fo.Pkg() == nil || !strings.HasSuffix(fo.Pkg().Path(), "/keeper") {
				return true
			}
			sig, _ := fo.Type().(*types.Signature)
			if sig == nil || sig.Variadic() || sig.Params().Len() != len(call.Args) {
				return true
			}
			for i, a := range call.Args {
				sel, isSel := ast.Unparen(a).(*ast.SelectorExpr)
				if !isSel {
					continue
				}
				fv, isField := info.Uses[sel.Sel].(*types.Var)
				if !isField || !fv.IsField() {
					continue
				}
				st := types.Unalias(info.TypeOf(sel.X))
				if p, isPtr := st.Underlying().(*types.Pointer); isPtr {
					st = types.Unalias(p.Elem())
				}
				named, _ := st.(*types.Named)
				strct, _ := st.Underlying().(*types.Struct)
				if named == nil || strct == nil || named.Obj().Name() != en.Msg {
					continue
				}
				pn := sig.Params().At(i).Name()
				want := ""
				for j := 0; j < strct.NumFields(); j++ {
					if strings.EqualFold(strct.Field(j).Name(), pn) {
						want = strct.Field(j).Name()
					}
				}
				if want == "" {
					continue
				}
				n++
				c.req(want == fv.Name(), rule, fmt.Sprintf("%s#%s.%s", en.Msg, fo.Name(), pn), a.Pos(),
					fmt.Sprintf("the handler of %s passes the message's %s as parameter %q of %s", en.Msg, want, pn, fo.Name())+condStr(want != fv.Name(), ": it passes "+fv.Name()))
			}
			return true
		})
	}
	// the same among the module's own functions: two arguments of one type, each named like the other one's parameter,
	// are exchanged (the result and the output of a module service handed to the respond function in the wrong order)
	argName := func(e ast.Expr) string {
		switch x := ast.Unparen(e).(type) {
		case *ast.Ident:
			return x.Name
		case *ast.SelectorExpr:
			return x.Sel.Name
		}
		return ""
	}
	m := 0
	for _, f := range c.P.Funcs {
		if f.Body == nil || !f.isHandWritten() {
			continue
		}
		if pk := f.pkgName(); pk != "service" && pk != "keeper" {
			continue
		}
		info := f.Pkg.TypesInfo
		ast.Inspect(f.Body, func(nd ast.Node) bool {
			if lit, isLit := nd.(*ast.FuncLit); isLit && lit != f.Lit {
				return false
			}
			call, ok := nd.(*ast.CallExpr)
			if !ok {
				return true
			}
			fo, _ := typeutil.Callee(info, call).(*types.Func)
			if fo == nil || fo.Pkg() == nil || !strings.Contains(fo.Pkg().Path(), "irismod/service") {
				return true
			}
			sig, _ := fo.Type().(*types.Signature)
			if sig == nil || sig.Variadic() || sig.Params().Len() != len(call.Args) {
				return true
			}
			for i := range call.Args {
				ai, pi := argName(call.Args[i]), sig.Params().At(i).Name()
				if ai == "" || pi == "" || pi == "_" {
					continue
				}
				if strings.EqualFold(ai, pi) {
					m++
					continue
				}
				for j := i + 1; j < len(call.Args); j++ {
					aj, pj := argName(call.Args[j]), sig.Params().At(j).Name()
					if aj == "" || !strings.EqualFold(ai, pj) || !strings.EqualFold(aj, pi) {
						continue
					}
					if !types.Identical(sig.Params().At(i).Type(), sig.Params().At(j).Type()) {
						continue
					}
					c.req(false, rule, fmt.Sprintf("%s#%s.%s<->%s", f.Name, fo.Name(), pi, pj), call.Args[i].Pos(),
						fmt.Sprintf("%s is called with %s as parameter %q and %s as parameter %q", fo.Name(), ai, pi, aj, pj))
				}
			}
			return true
		})
	}
	c.req(m >= 100, rule, "arguments-named-like-parameters", token.NoPos, fmt.Sprintf("%d arguments named like the parameter they are passed as; none exchanged with a neighbour of the same type", m))
	c.Sites += n + m
	c.req(n >= 20, rule, "handler-arguments", token.NoPos, fmt.Sprintf("%d handler arguments whose keeper parameter carries the name of a message field", n))
}
