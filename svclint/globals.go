package main

// Package variables that are tables: initialised with a composite literal and never assigned, updated or
// address-taken anywhere in the module. Such a variable is read as its initialiser.

import (
	"go/ast"
	"go/token"
	"go/types"

	"golang.org/x/tools/go/packages"
)

func (p *Prog) globalLiteral(v *types.Var) *Term {
	if p.globalMemo == nil {
		p.globalMemo = map[*types.Var]*Term{}
		p.globalBusy = map[*types.Var]bool{}
		p.scanGlobals()
	}
	if t, ok := p.globalMemo[v]; ok {
		return t
	}
	p.globalMemo[v] = nil
	init, pkg := p.globalInit[v], p.globalPkgOf[v]
	if init == nil || p.globalMutated[v] || p.globalBusy[v] {
		return nil
	}
	switch v.Type().Underlying().(type) {
	case *types.Struct:
	default:
		return nil // only tables of fields (not byte-slice prefixes, maps, scalars)
	}
	p.globalBusy[v] = true
	defer delete(p.globalBusy, v)
	// evaluate the initialiser flow-insensitively in a pseudo function of its package
	pf := &Func{Name: "init:" + v.Name(), Pkg: pkg}
	ev := &evaluator{p: p, f: pf, busy: map[*types.Var]bool{}}
	t := ev.eval(init)
	if t == nil || t.Op != "lit" {
		return nil
	}
	p.globalMemo[v] = t
	return t
}

func (p *Prog) scanGlobals() {
	p.globalInit = map[*types.Var]ast.Expr{}
	p.globalPkgOf = map[*types.Var]*packages.Package{}
	p.globalMutated = map[*types.Var]bool{}
	for _, pk := range p.Pkgs {
		info := pk.TypesInfo
		if info == nil {
			continue
		}
		isGlobal := func(id *ast.Ident) *types.Var {
			if v, ok := info.Uses[id].(*types.Var); ok && v.Pkg() != nil && v.Parent() == v.Pkg().Scope() {
				return v
			}
			return nil
		}
		rootIdent := func(e ast.Expr) *ast.Ident {
			for {
				switch x := ast.Unparen(e).(type) {
				case *ast.Ident:
					return x
				case *ast.SelectorExpr:
					if _, isField := info.Selections[x]; isField {
						e = x.X
						continue
					}
					return x.Sel // package-qualified
				case *ast.IndexExpr:
					e = x.X
				case *ast.StarExpr:
					e = x.X
				default:
					return nil
				}
			}
		}
		for _, file := range pk.Syntax {
			for _, d := range file.Decls {
				if gd, ok := d.(*ast.GenDecl); ok && gd.Tok == token.VAR {
					for _, sp := range gd.Specs {
						vs := sp.(*ast.ValueSpec)
						for i, id := range vs.Names {
							if i >= len(vs.Values) {
								continue
							}
							if v, ok := info.Defs[id].(*types.Var); ok {
								if cl, ok := ast.Unparen(vs.Values[i]).(*ast.CompositeLit); ok {
									p.globalInit[v] = cl
									p.globalPkgOf[v] = pk
								}
							}
						}
					}
				}
			}
			ast.Inspect(file, func(n ast.Node) bool {
				switch x := n.(type) {
				case *ast.AssignStmt:
					for _, l := range x.Lhs {
						if id := rootIdent(l); id != nil {
							if v := isGlobal(id); v != nil {
								p.globalMutated[v] = true
							}
						}
					}
				case *ast.IncDecStmt:
					if id := rootIdent(x.X); id != nil {
						if v := isGlobal(id); v != nil {
							p.globalMutated[v] = true
						}
					}
				case *ast.UnaryExpr:
					if x.Op == token.AND {
						if id := rootIdent(x.X); id != nil {
							if v := isGlobal(id); v != nil {
								p.globalMutated[v] = true
							}
						}
					}
				}
				return true
			})
		}
	}
}
