package main

// C01 — escrowed service fees are always exactly backed.

import (
	"fmt"
	"go/token"
	"strings"
)

func init() {
	rules["C01"] = ruleC01
	explanations["C01"] = "Decides the inductive-step structure of 'escrow balance = Σ pending fees + Σ earnings': inventory of every bank operation on the request escrow; in the new-batch handler " +
		"credit ⇒ issue and issue ⇒ credit (or super mode) on the same path with the issued list and the credited amount being results #0/#1 of one filter call, no issue after a failed credit; " +
		"the charged and the recorded fee come from one pricing routine applied to the same (consumer, binding) roles; every settlement (respond / expiry) releases exactly R.ServiceFee to the right " +
		"party exactly once and extinguishes both markers; the earn function taxes and credits both earnings records by one value; withdrawal pays exactly what it deletes; and the fee-obligation " +
		"families are written only under those role functions. The numeric balance equation itself and bank semantics are not decided (A-SDK)."
}

func ruleC01(c *Check) {
	c.assume("A-SDK: bank methods move exactly the coins they are given or fail; a failing message reverts")
	c.assume("A-HOST: module services and callbacks are opaque external code")
	c.escrowInventory("C01.1")
	c.newBatchRules("C01", map[string]bool{"obligation-without-credit": true, "credit-without-obligation": true, "list-vs-amount": true,
		"supermode-charged": true, "issue-after-pause": true, "payfail-no-pause": true, "skip-with-charge": true})
	c.pricingIdentity("C01.4")
	c.filterTotal("C01.3")
	c.issueLoopOverList("C01.3")
	c.respondRules("C01")
	c.expiredRequestRules("C01")
	c.earnRules("C01")
	c.withdrawRules("C01")
	c.feeWriters("C01")
	c.moduleServicePath("C01.2")
	c.expiryScanGuard("C01.6")
	c.custodyErrorsChecked("C01.11")
	c.startRules("C01")
	c.keyGrammar("C01.12", map[string]bool{"0x05": true})
	// a batch marked COMPLETED is not settled at expiry: that mark may only be written when nothing of the batch is pending
	c.contextFieldRules("C01.6", map[string]bool{"batchstate": true, "state": true, "counts": true})
}

// pricingIdentity (C01.4, C06.8, C07.3): one pricing routine, same roles, recorded = charged.
func (c *Check) pricingIdentity(rule string) {
	u := c.feeUnits(rule)
	if !u.complete() {
		return
	}
	gBinding := c.getterByType("ServiceBinding")
	// (a) the ServiceFee recorded on issued requests is result #0 of the same pricing routine
	found := false
	isSuperFlag := func(t *Term, f *Func) bool {
		if t.Op == "" && strings.HasPrefix(t.At, "P") && isBoolParam(f, t.At) {
			return true
		}
		return strings.HasSuffix(t.Op, ".SuperMode")
	}
	for _, rv := range c.compactRequestValues() {
		found = true
		f := rv.fn
		fee := field("CompactRequest", "ServiceFee", rv.lit)
		sm, nsm := false, false
		for _, fa := range rv.facts {
			if isSuperFlag(fa.T, f) {
				if fa.Neg {
					nsm = true
				} else {
					sm = true
				}
			}
		}
		switch {
		case fee.IsAt("zero"):
			c.req(sm, rule, unitConstruct(f, "fee-zero-only-in-supermode"), rv.pos, "a request is recorded without a fee only on the true edge of the super-mode flag")
		default:
			b, ok := fee.Match("(res 0 $CALL)")
			same := ok && b["$CALL"].Op == u.PR.Name
			c.req(same, rule, unitConstruct(f, "recorded-fee-routine"), rv.pos,
				"the recorded ServiceFee is result #0 of the pricing routine "+u.PR.Name+" that the filter charges with; found "+shortTerm(fee))
			c.req(nsm, rule, unitConstruct(f, "fee-only-without-supermode"), rv.pos, "a fee is recorded only on the false edge of the super-mode flag")
		}
	}
	c.req(found, rule, "request-constructor", token.NoPos, "a function constructing CompactRequest records was found")
	// (b) roles at end-of-block level: every pricing read uses (context.Consumer, binding of (context.ServiceName, provider))
	sum := c.P.SummaryOf(u.EndBlocker)
	nVol, nPricing := 0, 0
	for _, e := range sum.Effs {
		if e.Kind != "store" || e.Op != "Get" {
			continue
		}
		if !strings.Contains(strings.Join(e.Chain, ">"), u.PR.Name) {
			continue
		}
		switch e.Family {
		case "0x17":
			nVol++
			k := keyArgs(e)
			ok := len(k) == 3 && strings.HasSuffix(k[0].Op, ".RequestContext.Consumer") && gBinding != nil &&
				strings.HasPrefix(k[1].String(), "(.ServiceBinding.ServiceName (res 0 ("+gBinding.Name) &&
				strings.HasPrefix(k[2].String(), "(.ServiceBinding.Provider (res 0 ("+gBinding.Name)
			if ok {
				// the binding is that of (context.ServiceName, provider element)
				bterm := k[1].A[0].A[1]
				ok = len(bterm.A) == 2 && strings.HasSuffix(bterm.A[0].Op, ".RequestContext.ServiceName") && bterm.A[1].Op == "elem" &&
					k[0].A[0].Eq(bterm.A[0].A[0])
			}
			c.req(ok, rule, effConstruct("EndBlocker", e)+"#volume-roles", e.Pos,
				"volume discount is read for (context.Consumer, binding(context.ServiceName, provider)): "+fmtTerms(k))
		case "0x06":
			nPricing++
			k := keyArgs(e)
			ok := len(k) == 2 && strings.HasPrefix(k[0].Op, ".ServiceBinding.ServiceName") && strings.HasPrefix(k[1].Op, ".ServiceBinding.Provider") && k[0].A[0].Eq(k[1].A[0])
			c.req(ok, rule, effConstruct("EndBlocker", e)+"#pricing-roles", e.Pos, "pricing is read for the binding's own (ServiceName, Provider): "+fmtTerms(k))
		}
	}
	c.req(nVol >= 2 && nPricing >= 2, rule, "pricing-reads", token.NoPos,
		fmt.Sprintf("%d volume reads and %d pricing reads through %s at end of block (filter and request builder)", nVol, nPricing, u.PR.Name))
}

func isBoolParam(f *Func, atomName string) bool {
	var i int
	if _, err := fmt.Sscanf(atomName, "P%d", &i); err != nil || i >= len(f.Params) {
		return false
	}
	return typeName(f.Params[i].Type()) == "bool"
}

// moduleServicePath: the module-service call path (D11) — credit, issue, expiry.
func (c *Check) moduleServicePath(rule string) {
	u := c.feeUnits(rule)
	if !u.complete() {
		return
	}
	issuers := c.issuerFuncs(u)
	// functions other than the new-batch handler that start a batch
	for _, f := range c.handFuncs("keeper", "service") {
		if f == u.NB.Closure || issuers[f] {
			continue
		}
		for _, pa := range c.P.PathsOf(f) {
			if !pa.OK() {
				continue
			}
			var issue *Event
			for _, ev := range pa.Events {
				if ev.Kind == EvCall && issuers[ev.CI.fn] {
					issue = ev
				}
			}
			if issue == nil {
				continue
			}
			// issued list must be result #0 of the filter whose result #1 is credited
			okList := false
			// the provider list is the batch-start function's parameter of type []AccAddress
			issued := "?"
			if li := c.providerListArg(issue.CI.fn, issue); li != nil {
				issued = shortTerm(li)
				if b, ok := li.Match("(res 0 $CALL)"); ok && b["$CALL"].Op == u.FL.Name {
					okList = true
				}
			}
			c.msReq(okList, rule, unitConstruct(f, "issue-list"), issue.Pos,
				"requests are issued to the filter's result list (the credited amount is the filter total): issued to "+issued)
			_, queued := c.pathHasEffect(f, pa, func(e *Eff) bool { return e.Kind == "store" && e.Op == "Set" && e.Family == "0x09" })
			c.msReq(queued, strings.Replace(rule, "C01.2", "C01.2", 1), unitConstruct(f, "issue-expiry"), issue.Pos, "issuing queues the batch expiry on the same path")
			c.moduleServiceProviders(rule, f, issue)
			return
		}
	}
}

// moduleServiceProviders: the module-service function charges over the context's provider list and issues to
// the module's own provider; the two agree only if every caller creates that context with exactly
// [moduleService.Provider] (the same module service it hands to the function).
func (c *Check) moduleServiceProviders(rule string, ms *Func, issue *Event) {
	// which parameter of ms is the module service whose provider is issued to
	msParam := ""
	if l := c.providerListArg(issue.CI.fn, issue); l != nil {
		if l.Op == "lit" && len(l.A) == 2 && strings.HasSuffix(l.A[1].Op, ".ModuleService.Provider") && len(l.A[1].A) == 1 {
			msParam = l.A[1].A[0].String()
		}
	}
	c.msReq(msParam != "" && strings.HasPrefix(msParam, "P"), rule, unitConstruct(ms, "issue-provider"), issue.Pos,
		"the module-service function issues exactly one request, to the Provider of the module service it is given")
	if msParam == "" || !strings.HasPrefix(msParam, "P") {
		return
	}
	var pi int
	fmt.Sscanf(msParam, "P%d", &pi)
	// the context constructor and the position of its provider-list parameter
	var ctor *Func
	provIdx, superIdx, stateIdx := -1, -1, -1
	for f, pps := range c.persistUnits("0x08", "RequestContext") {
		for _, pp := range pps {
			for _, sv := range pp.Stored {
				if sv.Op != "lit" {
					continue
				}
				for _, kv := range sv.A[1:] {
					if kv.Op == "Providers" && len(kv.A) == 1 && kv.A[0].Op == "" && strings.HasPrefix(kv.A[0].At, "P") {
						ctor = f
						fmt.Sscanf(kv.A[0].At, "P%d", &provIdx)
					}
					if kv.Op == "SuperMode" && len(kv.A) == 1 && kv.A[0].Op == "" && strings.HasPrefix(kv.A[0].At, "P") {
						fmt.Sscanf(kv.A[0].At, "P%d", &superIdx)
					}
					if kv.Op == "State" && len(kv.A) == 1 && kv.A[0].Op == "" && strings.HasPrefix(kv.A[0].At, "P") {
						fmt.Sscanf(kv.A[0].At, "P%d", &stateIdx)
					}
				}
			}
		}
	}
	if ctor == nil || provIdx < 0 {
		c.undecided(rule, "context-constructor", token.NoPos, "no function persists a new RequestContext whose Providers is one of its parameters")
		return
	}
	n := 0
	for _, h := range c.handFuncs("keeper", "service") {
		for _, pa := range c.P.PathsOf(h) {
			var call, create *Event
			for _, ev := range pa.Events {
				if ev.Kind != EvCall {
					continue
				}
				if ev.CI.fn == ms {
					call = ev
				}
				if ev.CI.fn == ctor && call == nil {
					create = ev
				}
			}
			if call == nil || pi >= len(call.CI.args) {
				continue
			}
			n++
			M := stripAddr(call.CI.args[pi])
			ok := false
			got := "no context is created on the path"
			if create != nil && provIdx < len(create.CI.args) {
				l := create.CI.args[provIdx]
				got = shortTerm(l)
				ok = l.Op == "lit" && len(l.A) == 2 && strings.HasSuffix(l.A[1].Op, ".ModuleService.Provider") && len(l.A[1].A) == 1 && l.A[1].A[0].Eq(M)
			}
			c.msReq(ok, rule, unitConstruct(h, "module-context-providers"), call.Pos,
				"the context handed to the module-service function is created with exactly [moduleService.Provider] (the charge is computed over this list, the request is issued to that provider): "+got)
			// the module-service function charges the filter total unconditionally, while the request builder records no
			// fee for a super-mode context: the two agree only if every caller creates the context with SuperMode = false
			if superIdx >= 0 && (c.msOnly == "" || c.msOnly == "super") {
				okS, gotS := false, "no context is created on the path"
				if create != nil && superIdx < len(create.CI.args) {
					gotS = shortTerm(create.CI.args[superIdx])
					okS = isBoolConst(create.CI.args[superIdx], false)
				}
				c.req(okS, rule, unitConstruct(h, "module-context-not-super"), call.Pos,
					"the context handed to the module-service function (which charges without testing the mode) is created with SuperMode = false: "+gotS)
			}
			// the module-service function issues a batch without testing the state: batches are issued only to a running context
			if stateIdx >= 0 && (c.msOnly == "" || c.msOnly == "state") {
				okS, gotS := false, "no context is created on the path"
				if create != nil && stateIdx < len(create.CI.args) {
					gotS = shortTerm(create.CI.args[stateIdx])
					okS = sameConstAs(create.CI.args[stateIdx], c.constTerm("types.RUNNING"))
				}
				c.req(okS, rule, unitConstruct(h, "module-context-running"), call.Pos,
					"the context handed to the module-service function (which issues a batch without testing the state) is created RUNNING: "+gotS)
			}
			break
		}
	}
	c.msReq(n >= 1, rule, "module-service-callers", token.NoPos, fmt.Sprintf("%d callers of the module-service function", n))
}

// msReq: the module-service rules other than the mode rule are switched off when a property asks for the mode rule alone.
func (c *Check) msReq(cond bool, rule, construct string, pos token.Pos, detail string) bool {
	if c.msOnly != "" {
		return cond
	}
	return c.req(cond, rule, construct, pos, detail)
}

// moduleServiceNotSuper: only the mode part of the module-service path (the known D11 findings belong to other properties).
func (c *Check) moduleServiceNotSuper(rule string) {
	c.msOnly = "super"
	defer func() { c.msOnly = "" }()
	c.moduleServicePath(rule)
}

// moduleServiceRunning: only the state part (C09: batches are issued only while the context is running).
func (c *Check) moduleServiceRunning(rule string) {
	c.msOnly = "state"
	defer func() { c.msOnly = "" }()
	c.moduleServicePath(rule)
}

type crValue struct {
	lit   *Term
	facts FactSet
	fn    *Func
	pos   token.Pos
}

// compactRequestValues: every CompactRequest value the module constructs — returned by a builder
// function or stored directly by the batch-start function — with the facts of its path.
func (c *Check) compactRequestValues() []crValue {
	var out []crValue
	seen := map[string]bool{}
	add := func(v crValue) {
		k := v.fn.Name + "|" + v.lit.String() + "|" + strings.Join(v.facts.Sorted(), "&")
		if !seen[k] {
			seen[k] = true
			out = append(out, v)
		}
	}
	for _, f := range c.handFuncs("keeper") {
		for _, pa := range c.P.PathsOf(f) {
			for _, r := range pa.Ret {
				if r.Op == "lit" && len(r.A) > 0 && r.A[0].At == "types.CompactRequest" {
					add(crValue{r, pa.AllFacts(), f, pa.RetPos})
				}
			}
		}
	}
	for f, pps := range c.persistUnits("0x13", "CompactRequest") {
		for _, pp := range pps {
			for i, sv := range pp.Stored {
				if sv.Op == "lit" {
					// facts up to the store event
					idx := len(pp.Path.Events)
					for j, ev := range pp.Path.Events {
						if ev == pp.SetEvs[i] {
							idx = j
						}
					}
					add(crValue{sv, pp.Path.FactsBefore(idx), f, pp.SetEvs[i].Pos})
				}
			}
		}
	}
	return out
}

// issuerFuncs: the batch-start function and the functions that merely hand their own provider list on to it.
func (c *Check) issuerFuncs(u *feeUnits) map[*Func]bool {
	issuers := map[*Func]bool{u.BS: true}
	for changed := true; changed; {
		changed = false
		for _, f := range c.handFuncs("keeper", "service") {
			if issuers[f] || (u.NB != nil && f == u.NB.Closure) {
				continue
			}
			for _, pa := range c.P.PathsOf(f) {
				for _, ev := range pa.Events {
					if ev.Kind == EvCall && issuers[ev.CI.fn] {
						if l := c.providerListArg(ev.CI.fn, ev); l != nil && fromOwnParam(l) && !issuers[f] {
							issuers[f] = true
							changed = true
						}
					}
				}
			}
		}
	}
	return issuers
}
