package main

// Expression evaluation to Terms. Two modes share one evaluator:
//   - flow-insensitive (st == nil): locals expand to the phi of their
//     definitions; used for key builders, constructors, wrappers;
//   - path-sensitive (st != nil): locals map to the term last assigned on the
//     path being walked (paths.go); call events are emitted in evaluation order.

import (
	"fmt"
	"go/ast"
	"go/constant"
	"go/token"
	"go/types"
	"sort"
	"strconv"
	"strings"

	"golang.org/x/tools/go/types/typeutil"
)

type evaluator struct {
	p     *Prog
	f     *Func
	st    *pstate // nil in flow-insensitive mode
	busy  map[*types.Var]bool
	depth int
	quiet bool   // evaluate without emitting events
	sc    []Fact // facts implied by short-circuit evaluation at the current point
}

func (p *Prog) fiEval(f *Func) *evaluator {
	return &evaluator{p: p, f: f, busy: map[*types.Var]bool{}}
}

const (
	pkgSDK    = "github.com/cosmos/cosmos-sdk/types"
	pkgKeeper = modPath + "/keeper"
	pkgTypes  = modPath + "/types"
)

func isNamed(T types.Type, pkg, name string) bool {
	if T == nil {
		return false
	}
	T = types.Unalias(T)
	if pt, ok := T.(*types.Pointer); ok {
		T = types.Unalias(pt.Elem())
	}
	nt, ok := T.(*types.Named)
	if !ok || nt.Obj().Pkg() == nil {
		return false
	}
	return nt.Obj().Pkg().Path() == pkg && nt.Obj().Name() == name
}

func isCtxType(T types.Type) bool    { return isNamed(T, pkgSDK, "Context") }
func isKeeperType(T types.Type) bool { return isNamed(T, pkgKeeper, "Keeper") }

func (e *evaluator) info() *types.Info { return e.f.Pkg.TypesInfo }

func (e *evaluator) typeOf(x ast.Expr) types.Type { return e.info().TypeOf(x) }

func constAtom(v constant.Value) string {
	switch v.Kind() {
	case constant.String:
		return "#" + strconv.Quote(constant.StringVal(v))
	case constant.Bool:
		if constant.BoolVal(v) {
			return "#true"
		}
		return "#false"
	default:
		return "#" + v.ExactString()
	}
}

func (e *evaluator) eval(x ast.Expr) *Term {
	t := e.eval1(x)
	if t != nil && t.Typ == nil {
		t.Typ = e.typeOf(x)
	}
	if t != nil && !t.Pos.IsValid() {
		t.Pos = x.Pos()
	}
	return t
}

func (e *evaluator) eval1(x ast.Expr) *Term {
	info := e.info()
	// untyped / typed constants fold first (but keep named module constants by name)
	if tv, ok := info.Types[x]; ok && tv.Value != nil {
		if id, ok := x.(*ast.Ident); ok {
			if c, ok := info.Uses[id].(*types.Const); ok && c.Pkg() != nil {
				return atom("#" + qname(c)).withObj(c).withType(tv.Type)
			}
		}
		if se, ok := x.(*ast.SelectorExpr); ok {
			if c, ok := info.Uses[se.Sel].(*types.Const); ok && c.Pkg() != nil {
				return atom("#" + qname(c)).withObj(c).withType(tv.Type)
			}
		}
		return atom(constAtom(tv.Value)).withType(tv.Type)
	}
	switch x := x.(type) {
	case *ast.ParenExpr:
		return e.eval(x.X)
	case *ast.BasicLit:
		return atom("#" + x.Value)
	case *ast.Ident:
		return e.evalIdent(x)
	case *ast.SelectorExpr:
		return e.evalSelector(x)
	case *ast.CallExpr:
		return e.evalCall(x)
	case *ast.BinaryExpr:
		if (x.Op == token.LOR || x.Op == token.LAND) && e.st != nil {
			// short circuit: the right operand is evaluated under the left operand's outcome
			l := e.eval(x.X)
			n := len(e.sc)
			e.sc = append(e.sc, condFacts(boolSimplify(l), x.Op == token.LAND)...)
			r := e.eval(x.Y)
			e.sc = e.sc[:n]
			return mk(x.Op.String(), l, r)
		}
		bl, br := e.eval(x.X), e.eval(x.Y)
		if x.Op == token.QUO || x.Op == token.REM {
			// integer division panics on a zero divisor: an event on the path, judged by C20.3 like an index
			if bt, ok := types.Unalias(e.typeOf(x)).Underlying().(*types.Basic); ok && bt.Info()&types.IsInteger != 0 && e.st != nil && !e.quiet {
				if _, isConst := intConst(stripConv(br)); !isConst || func() bool { v, _ := intConst(stripConv(br)); return v == 0 }() {
					e.st.emit(&Event{Kind: EvIndex, Node: x, Pos: x.OpPos, Val: mk("intdiv", bl, br), Local: append([]Fact(nil), e.sc...)})
				}
			}
		}
		return mk(x.Op.String(), bl, br)
	case *ast.UnaryExpr:
		if x.Op == token.AND {
			if cl, ok := x.X.(*ast.CompositeLit); ok {
				return e.eval(cl)
			}
		}
		return mk(x.Op.String(), e.eval(x.X))
	case *ast.StarExpr:
		in := e.eval(x.X)
		if in.Op == "&" && len(in.A) == 1 {
			return in.A[0]
		}
		if namedStruct(e.typeOf(x)) != "" && (in.Op == "" || in.Op == "with") {
			return in // a pointer to a state struct stands for the struct it points to
		}
		return mk("deref", in)
	case *ast.IndexExpr:
		xt, it := e.eval(x.X), e.eval(x.Index)
		if (it.Op == "key" && len(it.A) == 1 && it.A[0].Eq(xt)) || (it.Op == "keyfrom" && len(it.A) == 2 && it.A[1].Eq(xt)) {
			// x[i] with i ranging over x: the element under iteration (in range by construction)
			return simplify(mk("elem", xt).withType(e.typeOf(x)))
		}
		t := mk("idx", xt, it)
		if st := simplify(t); st.Op == "slice" {
			t = st // a half of a byte string cut at its first separator
		}
		e.emitIndex(x, x.X, t)
		return t
	case *ast.SliceExpr:
		lo, hi := atom("_"), atom("_")
		if x.Low != nil {
			lo = e.eval(x.Low)
		}
		if x.High != nil {
			hi = e.eval(x.High)
		}
		t := mk("slice", e.eval(x.X), lo, hi)
		e.emitIndex(x, x.X, t)
		return t
	case *ast.CompositeLit:
		T := e.typeOf(x)
		t := &Term{Op: "lit", A: []*Term{atom(typeName(T))}}
		keyed := false
		for i, el := range x.Elts {
			if kv, ok := el.(*ast.KeyValueExpr); ok {
				if id, ok := kv.Key.(*ast.Ident); ok && isStructType(T) {
					t.A = append(t.A, mk(id.Name, e.eval(kv.Value)))
					keyed = true
					continue
				}
				t.A = append(t.A, mk("kv", e.eval(kv.Key), e.eval(kv.Value)))
				continue
			}
			if st, ok := structOf(T); ok && i < st.NumFields() {
				t.A = append(t.A, mk(st.Field(i).Name(), e.eval(el)))
				keyed = true
				continue
			}
			t.A = append(t.A, e.eval(el))
		}
		_ = keyed
		return t
	case *ast.FuncLit:
		if g := e.p.FuncByLit[x]; g != nil {
			t := mk("func", atom(g.Name))
			// a literal built inside a factory (a function returning function values) leaves with the factory's
			// parameters as they are bound at this point
			if e.f != nil && g.Parent == e.f && returnsFuncValue(e.f) && len(e.f.Params) > 0 {
				env := &Term{Op: "env"}
				for i, pr := range e.f.Params {
					var v *Term
					if e.st != nil {
						v = e.st.vars[pr]
					}
					if v == nil {
						v = atom(fmt.Sprintf("P%d", i)).withType(pr.Type()).withObj(pr)
					}
					env.A = append(env.A, v)
				}
				t.A = append(t.A, env)
			}
			return t
		}
		return mk("func", atom("?"))
	case *ast.TypeAssertExpr:
		if x.Type == nil {
			return e.eval(x.X)
		}
		return mk("assert", atom(typeName(e.typeOf(x.Type))), e.eval(x.X))
	case *ast.KeyValueExpr:
		return mk("kv", e.eval(x.Key), e.eval(x.Value))
	}
	return mk("?", atom(fmt.Sprintf("%T", x)))
}

func isStructType(T types.Type) bool { _, ok := structOf(T); return ok }

func structOf(T types.Type) (*types.Struct, bool) {
	if T == nil {
		return nil, false
	}
	if pt, ok := T.(*types.Pointer); ok {
		T = pt.Elem()
	}
	st, ok := T.Underlying().(*types.Struct)
	return st, ok
}

func (e *evaluator) evalIdent(id *ast.Ident) *Term {
	info := e.info()
	obj := info.Uses[id]
	if obj == nil {
		obj = info.Defs[id]
	}
	switch o := obj.(type) {
	case *types.Nil:
		return atom("#nil")
	case *types.Const:
		if o.Pkg() == nil {
			return atom(constAtom(o.Val()))
		}
		return atom("#" + qname(o)).withObj(o)
	case *types.Func:
		if g := e.p.FuncByObj[o]; g != nil {
			return mk("func", atom(g.Name)).withObj(o)
		}
		return mk("func", atom(qname(o))).withObj(o)
	case *types.Var:
		return e.evalVar(o)
	case *types.Builtin:
		return atom("builtin:" + o.Name())
	case *types.TypeName:
		return atom("type:" + typeName(o.Type()))
	}
	if id.Name == "_" {
		return atom("_blank")
	}
	return mk("?", atom(id.Name))
}

func (e *evaluator) evalVar(v *types.Var) *Term {
	T := v.Type()
	if isCtxType(T) {
		return atom("ctx").withType(T)
	}
	if isKeeperType(T) {
		return atom("K").withType(T)
	}
	if v.Pkg() != nil && v.Parent() == v.Pkg().Scope() {
		// a package variable that only ever holds its literal initialiser (a table of constants / function values)
		if lit := e.p.globalLiteral(v); lit != nil {
			return lit
		}
		return atom("@" + qname(v)).withObj(v).withType(T)
	}
	if e.st != nil {
		if t, ok := e.st.vars[v]; ok {
			// a local list that a function literal of this function appends to: what the path has assigned to it is not
			// all it may hold by now — its construction must not be read as "known empty"
			if _, isSl := types.Unalias(T).Underlying().(*types.Slice); isSl && knownEmptyList(t) && capturedByLiteral(e.f, v) {
				return mk("filled", t).withType(T)
			}
			return t
		}
	}
	owner := e.p.VarOwner[v]
	if owner == nil {
		return mk("var", atom(v.Name())).withType(T)
	}
	// parameters / receiver
	if i, ok := owner.paramIdx[v]; ok {
		a := atom(fmt.Sprintf("P%d", i))
		if owner != e.f {
			a = atom(fmt.Sprintf("U%d", i)) // parameter of an enclosing function
		}
		return a.withObj(v).withType(T)
	}
	if owner.Recv == v {
		return atom("Precv").withObj(v).withType(T)
	}
	// local (or captured) variable: phi of its definitions, flow-insensitively
	return e.fiVar(owner, v)
}

func (e *evaluator) fiVar(owner *Func, v *types.Var) *Term {
	if e.busy[v] {
		return atom("rec").withType(v.Type())
	}
	if owner.addrTaken[v] && len(owner.defs[v]) <= 1 {
		// written through a pointer (decoder out-parameter): opaque
		for _, d := range owner.defs[v] {
			if d.kind != "zero" {
				goto defs
			}
		}
		return mk("var", atom(v.Name())).withType(v.Type()).withObj(v)
	}
defs:
	ds := owner.defs[v]
	if len(ds) == 0 {
		// named result without assignment, or unknown
		return atom("zero").withType(v.Type())
	}
	e.busy[v] = true
	defer delete(e.busy, v)
	sub := e
	if owner != e.f {
		sub = &evaluator{p: e.p, f: owner, busy: e.busy, depth: e.depth}
	} else if e.st != nil {
		sub = &evaluator{p: e.p, f: owner, busy: e.busy, depth: e.depth}
	}
	var alts []*Term
	for _, d := range ds {
		alts = append(alts, sub.defTerm(v, d))
	}
	t := mkPhi(alts...)
	if owner != e.f {
		t = renameParams(t)
	}
	return t
}

// renameParams marks parameter atoms of an enclosing function (P_i -> U_i).
func renameParams(t *Term) *Term {
	m := map[string]*Term{}
	t.Walk(func(x *Term) bool {
		if x.Op == "" && len(x.At) >= 2 && x.At[0] == 'P' && x.At[1] >= '0' && x.At[1] <= '9' {
			m[x.At] = atom("U" + x.At[1:]).withType(x.Typ).withObj(x.Obj)
		}
		return true
	})
	return t.Subst(m)
}

func (e *evaluator) defTerm(v *types.Var, d vdef) *Term {
	switch d.kind {
	case "zero":
		return atom("zero").withType(v.Type())
	case "rangekey":
		return mk("key", e.eval(d.extra)).withType(v.Type())
	case "rangeval":
		return mk("elem", e.eval(d.extra)).withType(v.Type())
	case "incdec":
		return mk("+", atom("rec"), atom("#1")).withType(v.Type())
	case "typeswitch":
		if d.extra != nil {
			return mk("assert", atom(typeName(v.Type())), e.eval(d.extra)).withType(v.Type())
		}
		return mk("assert", atom(typeName(v.Type()))).withType(v.Type())
	case "opassign":
		return mk("op=", atom("rec"), e.eval(d.rhs)).withType(v.Type())
	}
	r := e.eval(d.rhs)
	if d.idx >= 0 {
		return simplify(mk("res", atom(strconv.Itoa(d.idx)), r).withType(v.Type()))
	}
	return r
}

func (e *evaluator) evalSelector(x *ast.SelectorExpr) *Term {
	info := e.info()
	if sel, ok := info.Selections[x]; ok {
		switch sel.Kind() {
		case types.FieldVal:
			fld := sel.Obj().(*types.Var)
			// a context or keeper carried in a struct field is still the context / the keeper
			if isCtxType(fld.Type()) {
				return atom("ctx").withType(fld.Type())
			}
			if isKeeperType(fld.Type()) {
				return atom("K").withType(fld.Type())
			}
			base := e.eval(x.X)
			// k.feeCollectorName etc.: keeper fields
			if base.IsAt("K") {
				return atom("K." + fld.Name()).withObj(fld).withType(fld.Type())
			}
			if base.Is("BlockHeader") {
				switch fld.Name() {
				case "Time":
					return atom("BlockTime").withType(fld.Type())
				case "Height":
					return atom("BlockHeight").withType(fld.Type())
				}
			}
			sn := namedStruct(sel.Recv())
			// promoted fields through embedded structs: use the declaring struct if findable
			name := "." + fld.Name()
			if sn != "" {
				name = "." + sn + "." + fld.Name()
			}
			return simplify((&Term{Op: name, A: []*Term{base}}).withObj(fld).withType(fld.Type()))
		case types.MethodVal:
			// method value (not a call): a module method with a body is a function value bound to its receiver
			if fo, ok := sel.Obj().(*types.Func); ok {
				if g := e.p.FuncByObj[fo]; g != nil && g.Body != nil {
					recv := e.eval(x.X)
					if recv.IsAt("K") || recv.IsAt("ctx") {
						return mk("func", atom(g.Name)).withObj(fo)
					}
					return mk("func", atom(g.Name), recv).withObj(fo)
				}
			}
			return mk("methodval", atom(qname(sel.Obj())), e.eval(x.X))
		}
	}
	// package-qualified identifier
	return e.evalIdent(x.Sel)
}

// inlinePolicy: which module functions have their result term inlined.
func (e *evaluator) inlineable(g *Func) bool {
	if g == nil || !g.isHandWritten() || g.Body == nil || len(g.Res) == 0 {
		return false
	}
	if e.depth > 4 {
		return false
	}
	// key builders and other []byte producers stay opaque calls
	if len(g.Res) == 1 {
		if sl, ok := g.Res[0].Type().Underlying().(*types.Slice); ok {
			if b, ok := sl.Elem().(*types.Basic); ok && b.Kind() == types.Byte {
				if g.pkgName() == "types" {
					return false
				}
			}
		}
	}
	// straight-line body ending in a single return with explicit results
	n := len(g.Body.List)
	if n == 0 {
		return false
	}
	ret, ok := g.Body.List[n-1].(*ast.ReturnStmt)
	if !ok || len(ret.Results) == 0 {
		return false
	}
	for _, s := range g.Body.List[:n-1] {
		switch s.(type) {
		case *ast.AssignStmt, *ast.DeclStmt:
		default:
			return false
		}
	}
	// parameterless one-line value helpers (a named constant written as a function)
	if n == 1 && len(g.Params) == 0 && g.Recv == nil && len(ret.Results) == 1 && g.pkgName() != "service" {
		if c, ok := ast.Unparen(ret.Results[0]).(*ast.CallExpr); ok && len(c.Args) == 0 {
			if fo, ok := typeutil.Callee(g.Pkg.TypesInfo, c).(*types.Func); ok && e.p.FuncByObj[fo] == nil {
				return true
			}
		}
	}
	// unexported one-line value helpers (an expression given a name, e.g. a point in time computed from a record and
	// module parameters): the call is its expression over the arguments
	if len(g.Res) == 1 && len(ret.Results) == 1 && g.Obj != nil && !g.Obj.Exported() && g.pkgName() == "keeper" && !roleValueFunc(g) {
		T := g.Res[0].Type()
		sl, isSlice := T.Underlying().(*types.Slice)
		b, isBasic := T.Underlying().(*types.Basic)
		// an amount (a named list of coins) is a value like any other; byte strings and plain lists stay calls
		amount := false
		if _, named := types.Unalias(T).(*types.Named); named && isSlice {
			if eb, ok := sl.Elem().Underlying().(*types.Basic); !ok || eb.Kind() != types.Byte {
				amount = true
			}
		}
		if !isErrorType(T) && (!isSlice || amount) && !(isBasic && b.Kind() == types.Bool) {
			if _, isCall := ast.Unparen(ret.Results[0]).(*ast.CallExpr); isCall {
				return true
			}
		}
		// a named re-slicing of a parameter ("the key without its family prefix")
		if _, isSl := ast.Unparen(ret.Results[0]).(*ast.SliceExpr); isSl && isSlice && n == 1 {
			return true
		}
	}
	// a one-line computed property of a record (a method of a module struct in package types returning an arithmetic
	// or field expression): the call is that expression over the record
	if n == 1 && len(g.Res) == 1 && len(ret.Results) == 1 && g.Recv != nil && g.pkgName() == "types" && namedStruct(g.Recv.Type()) != "" && !isErrorType(g.Res[0].Type()) {
		if b, isBasic := g.Res[0].Type().Underlying().(*types.Basic); !(isBasic && b.Kind() == types.Bool) {
			switch ast.Unparen(ret.Results[0]).(type) {
			case *ast.BinaryExpr, *ast.SelectorExpr:
				return true
			}
		}
	}
	// unexported straight-line helpers with several results, none of them an error ("the minimum and whether the
	// deposit falls short of it"): each result is its expression over the arguments
	if len(g.Res) >= 2 && len(ret.Results) == len(g.Res) && g.Obj != nil && !g.Obj.Exported() && g.pkgName() == "keeper" {
		pure := true
		for _, r := range g.Res {
			if isErrorType(r.Type()) {
				pure = false
			}
		}
		if pure {
			return true
		}
	}
	// unexported one-line factories of function values ("return func(...) {...}" over the parameters): the call is
	// the literal together with the arguments it captured
	if n == 1 && len(g.Res) == 1 && len(ret.Results) == 1 && g.Obj != nil && !g.Obj.Exported() && (g.pkgName() == "keeper" || g.pkgName() == "types" || g.pkgName() == "service") {
		if _, isLit := ast.Unparen(ret.Results[0]).(*ast.FuncLit); isLit {
			return true
		}
	}
	// only constructors (composite literal results) and iterator wrappers
	for _, r := range g.Res {
		T := r.Type()
		if isNamed(T, pkgSDK, "Iterator") || isNamed(T, "github.com/cosmos/cosmos-sdk/store/types", "Iterator") ||
			isNamed(T, "github.com/tendermint/tm-db", "Iterator") {
			return true
		}
	}
	if len(ret.Results) == 1 {
		r := ret.Results[0]
		if u, ok := r.(*ast.UnaryExpr); ok && u.Op == token.AND {
			r = u.X
		}
		if _, ok := r.(*ast.CompositeLit); ok && n == 1 {
			return true
		}
	}
	return false
}

func (e *evaluator) inlineCall(g *Func, recv *Term, args []*Term) *Term {
	sub := &evaluator{p: e.p, f: g, busy: map[*types.Var]bool{}, depth: e.depth + 1}
	ret := g.Body.List[len(g.Body.List)-1].(*ast.ReturnStmt)
	var rs []*Term
	for _, r := range ret.Results {
		rs = append(rs, sub.eval(r))
	}
	m := map[string]*Term{}
	for i, a := range args {
		m[fmt.Sprintf("P%d", i)] = a
	}
	if recv != nil {
		m["Precv"] = recv
	}
	if len(rs) == 1 {
		r := rs[0].Subst(m)
		// a function literal of g leaves g with its captured parameters bound to this call's arguments
		if r.Is("func") && len(r.A) == 1 && len(g.Params) > 0 {
			if lit := e.p.FuncNamed(r.A[0].At); lit != nil && lit.Parent == g {
				env := &Term{Op: "env"}
				for i := range g.Params {
					if i < len(args) {
						env.A = append(env.A, args[i])
					} else {
						env.A = append(env.A, atom("?"))
					}
				}
				return &Term{Op: "func", A: []*Term{r.A[0], env}, Typ: r.Typ}
			}
		}
		return r
	}
	t := &Term{Op: "tuple"}
	for _, r := range rs {
		t.A = append(t.A, r.Subst(m))
	}
	return t
}

// callInfo describes a resolved call.
type callInfo struct {
	call   *ast.CallExpr
	callee types.Object // *types.Func, *types.Builtin or nil
	name   string       // qualified callee name, or "dyn"
	fn     *Func        // module function with a body, if any
	recv   *Term
	args   []*Term
	fun    *Term // function value for dynamic calls
	spread bool
}

func (e *evaluator) evalCall(call *ast.CallExpr) *Term {
	info := e.info()
	// conversion?
	if tv, ok := info.Types[call.Fun]; ok && tv.IsType() && len(call.Args) == 1 {
		return mk("conv", atom(typeName(tv.Type)), e.eval(call.Args[0])).withType(tv.Type)
	}
	ci := &callInfo{call: call}
	ci.callee = typeutil.Callee(info, call)
	ci.spread = call.Ellipsis.IsValid()

	// receiver
	fun := ast.Unparen(call.Fun)
	if se, ok := fun.(*ast.SelectorExpr); ok {
		if sel, ok := info.Selections[se]; ok && sel.Kind() == types.MethodVal {
			ci.recv = e.eval(se.X)
			// a method promoted from an embedded field is called on that field
			if idx := sel.Index(); len(idx) > 1 {
				T := info.TypeOf(se.X)
				for _, fi := range idx[:len(idx)-1] {
					if pt, ok := T.Underlying().(*types.Pointer); ok {
						T = pt.Elem()
					}
					st, ok := T.Underlying().(*types.Struct)
					if !ok || fi >= st.NumFields() {
						break
					}
					fld := st.Field(fi)
					name := "." + fld.Name()
					if sn := namedStruct(T); sn != "" {
						name = "." + sn + "." + fld.Name()
					}
					if isKeeperType(fld.Type()) {
						ci.recv = atom("K").withType(fld.Type())
					} else if isCtxType(fld.Type()) {
						ci.recv = atom("ctx").withType(fld.Type())
					} else {
						ci.recv = simplify((&Term{Op: name, A: []*Term{ci.recv}}).withObj(fld).withType(fld.Type()))
					}
					T = fld.Type()
				}
			}
		}
	}
	for i, a := range call.Args {
		var t *Term
		if tv, ok := info.Types[a]; ok && tv.IsType() {
			t = atom(typeName(tv.Type)) // make([]byte, n), new(T)
		} else {
			t = e.eval(a)
		}
		if ci.spread && i == len(call.Args)-1 {
			t = mk("spread", t)
		}
		ci.args = append(ci.args, t)
	}

	var result *Term
	switch c := ci.callee.(type) {
	case *types.Builtin:
		ci.name = c.Name()
		result = &Term{Op: c.Name(), A: ci.args}
		if c.Name() == "append" {
			result = simplify(result.withType(e.typeOf(call)))
		}
		if c.Name() == "copy" && len(call.Args) == 2 && len(ci.args) == 2 && e.st != nil && !e.quiet {
			// copy(dst, src) into a local buffer freshly made with exactly the length of src: dst now holds a copy of src
			if id, ok := ast.Unparen(call.Args[0]).(*ast.Ident); ok {
				if v, _ := e.info().Uses[id].(*types.Var); v != nil {
					if cur, known := e.st.vars[v]; known && cur != nil {
						mkT, src := stripConv(cur), stripConv(ci.args[1])
						if mkT.Op == "make" && len(mkT.A) >= 2 {
							n := stripConv(mkT.A[1])
							same := n.Eq(mk("len", src))
							if !same && src.Op == "slice" && len(src.A) == 3 && src.A[2].IsAt("_") {
								// make(T, len(k)-c) and src = k[c:]
								same = n.Eq(mk("-", mk("len", src.A[0]), src.A[1]))
							}
							if same {
								nt := *ci.args[1]
								nt.Typ = v.Type()
								e.st.vars[v] = &nt
							}
						}
					}
				}
			}
		}
	case *types.Func:
		ci.name = qname(c)
		ci.fn = e.p.FuncByObj[c]
		e.normPrefixStore(ci)
		// a method of an iterator over a sub-store: the iterator itself is the parent store's; its keys are relative
		var relP *Term
		if plain, P, ok := relIter(ci.recv); ok && strings.Contains(ci.name, "Iterator.") {
			ci.recv = plain
			if strings.HasSuffix(ci.name, "Iterator.Key") {
				relP = P
			}
		}
		// store.Iterator(p, PrefixEndBytes(p)) is the prefix scan of p (the SDK's own definition of KVStorePrefixIterator)
		if (strings.HasSuffix(ci.name, "KVStore.Iterator") || strings.HasSuffix(ci.name, "KVStore.ReverseIterator")) && len(ci.args) == 2 && ci.recv != nil {
			if end := stripConv(ci.args[1]); end.Op == "sdk.PrefixEndBytes" && len(end.A) == 1 && stripConv(end.A[0]).Eq(stripConv(ci.args[0])) {
				rev := strings.HasSuffix(ci.name, "ReverseIterator")
				ci.name = "sdk.KVStorePrefixIterator"
				if rev {
					ci.name = "sdk.KVStoreReversePrefixIterator"
				}
				ci.args = []*Term{ci.recv, ci.args[0]}
				ci.recv = nil
			}
		}
		result = e.callTerm(ci)
		if relP != nil {
			result = mk("slice", result, mk("len", relP), atom("_")).withType(result.Typ)
		}
		// an expression method of a record type (one return statement over the receiver's fields and the arguments, such as
		// "the instant from which the deposit is refundable"): its value on this receiver and these arguments
		if g := ci.fn; g != nil && g.Recv != nil && ci.recv != nil && g.Body != nil && g.isHandWritten() && g.pkgName() == "types" &&
			len(g.Body.List) == 1 && namedStruct(g.Recv.Type()) != "" && isTimeOrBool(g.Res) && mentionsTime(g) {
			if _, isRet := g.Body.List[0].(*ast.ReturnStmt); isRet {
				if v := e.p.valueSummary(g); v != nil {
					m := map[string]*Term{"Precv": ci.recv}
					for i, a := range ci.args {
						m[fmt.Sprintf("P%d", i)] = a
					}
					result = simplify(v.Subst(m))
				}
			}
		}
	default:
		ci.name = "dyn"
		ci.fun = e.eval(call.Fun)
		// a function value that resolves to a known literal is a static call
		if ci.fun.Is("func") && len(ci.fun.A) >= 1 {
			if g := e.p.FuncNamed(ci.fun.A[0].At); g != nil {
				ci.fn = g
				if len(ci.fun.A) == 2 && ci.fun.A[1].Op != "env" {
					ci.recv = ci.fun.A[1]
				}
			}
		}
		if ci.fn != nil && ci.fn.Decl != nil && ci.fn.Obj != nil {
			// a call through a function value that is a known declared function is that function's call
			ci.name = ci.fn.Name
			ci.callee = ci.fn.Obj
			result = e.callTerm(ci)
			// a record-building helper held in a function value: its value on these arguments
			if result.Op == ci.fn.Name && namedStruct(e.typeOf(call)) != "" {
				if v := e.p.valueSummary(ci.fn); v != nil {
					m := map[string]*Term{}
					for i, a := range ci.args {
						m[fmt.Sprintf("P%d", i)] = a
					}
					if ci.recv != nil {
						m["Precv"] = ci.recv
					}
					result = v.Subst(m)
				}
			}
			break
		}
		result = &Term{Op: "dyn", A: append([]*Term{ci.fun}, ci.args...)}
	}
	result.Typ = e.typeOf(call)
	result.Pos = call.Pos()
	if ci.callee != nil {
		result.Obj = ci.callee
	}
	if e.st != nil && !e.quiet {
		e.st.emitCall(ci, result)
		// a method with a pointer receiver called on a local struct variable may update that variable
		e.recvOut(call, ci, result)
		// out-parameters: &x passed to a call -> x becomes (out call i)
		for i, a := range call.Args {
			if !writesThroughPointer(ci) {
				break
			}
			// a pointer (or an interface holding one) that is known to point at a caller's value, handed on to a
			// decoder: the pointee is what the decoder leaves there
			if id, ok := ast.Unparen(a).(*ast.Ident); ok && ci.fn == nil && ci.name != "dyn" {
				if v, ok := info.Uses[id].(*types.Var); ok {
					if cur := e.st.vars[v]; cur != nil && cur.Op == "&" && len(cur.A) == 1 {
						e.st.vars[v] = mk("&", mk("out", result, atom(strconv.Itoa(i))).withType(cur.A[0].Typ)).withType(cur.Typ)
					}
				}
			}
			// a pointer to a state struct that this function was itself given, handed on to a module function that
			// updates the struct behind it: the struct the pointer stands for is updated
			if id, ok := ast.Unparen(a).(*ast.Ident); ok && ci.fn != nil {
				if v, ok := info.Uses[id].(*types.Var); ok {
					if pt, isPtr := types.Unalias(v.Type()).(*types.Pointer); isPtr && namedStruct(pt.Elem()) != "" {
						if os := e.p.outSummary(ci.fn, i); os != nil {
							m := map[string]*Term{}
							for j, aj := range ci.args {
								m[fmt.Sprintf("P%d", j)] = stripAddr(aj)
							}
							cur := e.evalVar(v)
							nv := os.Subst(m)
							nv.Typ = cur.Typ
							e.st.vars[v] = nv
							was := writtenFields(cur)
							now := writtenFields(nv)
							var flds []string
							for fld := range now {
								flds = append(flds, fld)
							}
							sort.Strings(flds)
							for _, fld := range flds {
								val := now[fld]
								if o, ok := was[fld]; ok && o.Eq(val) {
									continue
								}
								e.st.emit(&Event{Kind: EvWrite, Node: call, Pos: call.Pos(), Var: v, Struct: namedStruct(pt.Elem()), Field: fld, Val: val, Base: cur})
							}
							continue
						}
						// what it leaves there differs from path to path: the value after the call (resolved per path
						// when the callee is walked in place)
						if ci.fn.isHandWritten() && ci.fn.Body != nil && !e.p.neverWritesParam(ci.fn, i) {
							cur := e.evalVar(v)
							e.st.vars[v] = mk("out", result, atom(strconv.Itoa(i))).withType(cur.Typ)
							continue
						}
					}
				}
			}
			if u, ok := ast.Unparen(a).(*ast.UnaryExpr); ok && u.Op == token.AND {
				if id, ok := u.X.(*ast.Ident); ok {
					if v, ok := info.Uses[id].(*types.Var); ok && !isCtxType(v.Type()) {
						// a module function that updates the struct behind its pointer parameter: apply its summary
						if ci.fn != nil {
							if os := e.p.outSummary(ci.fn, i); os != nil {
								m := map[string]*Term{}
								for j, aj := range ci.args {
									m[fmt.Sprintf("P%d", j)] = stripAddr(aj)
								}
								nv := os.Subst(m)
								nv.Typ = v.Type()
								e.st.vars[v] = nv
								continue
							}
							if namedStruct(v.Type()) != "" && e.p.neverWritesParam(ci.fn, i) {
								continue // read-only use of the pointer
							}
						}
						e.st.vars[v] = mk("out", result, atom(strconv.Itoa(i))).withType(v.Type())
					}
				}
			}
		}
	}
	return result
}

func (e *evaluator) callTerm(ci *callInfo) *Term {
	name := ci.name
	// sdk.Context accessors
	if ci.recv != nil && ci.recv.IsAt("ctx") {
		switch name {
		case "sdk.Context.BlockHeight":
			return atom("BlockHeight")
		case "sdk.Context.BlockTime":
			return atom("BlockTime")
		case "sdk.Context.BlockHeader":
			return mk("BlockHeader")
		case "sdk.Context.KVStore":
			return atom("store")
		}
		if isCtxType(e.typeOf(ci.call)) {
			return atom("ctx")
		}
	}
	if ci.fn != nil && e.inlineable(ci.fn) {
		return e.inlineCall(ci.fn, ci.recv, ci.args)
	}
	if ci.fn != nil && e.st != nil {
		if def := e.p.predDef(ci.fn); def != nil {
			m := map[string]*Term{}
			for i, a := range ci.args {
				m[fmt.Sprintf("P%d", i)] = a
			}
			if ci.recv != nil {
				m["Precv"] = ci.recv
			}
			return boolSimplify(def.Subst(m))
		}
		if rt := e.p.retSummary(ci.fn); rt != nil {
			m := map[string]*Term{}
			for i, a := range ci.args {
				m[fmt.Sprintf("P%d", i)] = a
			}
			if ci.recv != nil {
				m["Precv"] = ci.recv
			}
			return rt.Subst(m)
		}
	}
	t := &Term{Op: name}
	if ci.recv != nil && !ci.recv.IsAt("K") && !ci.recv.IsAt("ctx") {
		t.A = append(t.A, ci.recv)
	}
	for i, a := range ci.args {
		if a.IsAt("ctx") || a.IsAt("K") {
			continue
		}
		// a record handed to a module function by address only to be read: the call is a function of the record
		if a.Op == "&" && len(a.A) == 1 && ci.fn != nil && ci.fn.isHandWritten() && ci.fn.Body != nil && i < len(ci.fn.Params) {
			if pt, ok := types.Unalias(ci.fn.Params[i].Type()).(*types.Pointer); ok && namedStruct(pt.Elem()) != "" && e.p.neverWritesParam(ci.fn, i) {
				a = a.A[0]
			}
		}
		t.A = append(t.A, a)
	}
	if ci.fn != nil && e.st != nil {
		if eq := e.p.resEquations(ci.fn); eq != nil {
			// a wrapper that hands through results of other calls: those components are the inner terms
			m := map[string]*Term{}
			for i, a := range ci.args {
				m[fmt.Sprintf("P%d", i)] = a
			}
			if ci.recv != nil {
				m["Precv"] = ci.recv
			}
			tup := &Term{Op: "tuple"}
			for k := range eq {
				if eq[k] != nil {
					tup.A = append(tup.A, eq[k].Subst(m))
				} else {
					tup.A = append(tup.A, mk("res", atom(strconv.Itoa(k)), t).withType(ci.fn.Res[k].Type()))
				}
			}
			return tup
		}
	}
	return t
}

// opName helper for matching keeper method names without the receiver type.
func shortName(q string) string {
	if i := strings.LastIndex(q, "."); i >= 0 {
		return q[i+1:]
	}
	return q
}

// writesThroughPointer: callees that store into their pointer arguments
// (decoders, parameter getters, module functions); encoders do not.
func writesThroughPointer(ci *callInfo) bool {
	if ci.fn != nil {
		return true
	}
	n := ci.name
	return strings.Contains(n, "Unmarshal") || strings.Contains(n, "Decode") ||
		strings.HasSuffix(n, "Subspace.Get") || strings.HasSuffix(n, "Subspace.GetParamSet") ||
		strings.HasSuffix(n, "Subspace.GetIfExists") || n == "dyn"
}

// emitIndex records a bounds-checked access (not map lookups) on the current path.
func (e *evaluator) emitIndex(node ast.Expr, operand ast.Expr, t *Term) {
	if e.st == nil || e.quiet {
		return
	}
	T := e.typeOf(operand)
	if T == nil {
		return
	}
	switch u := types.Unalias(T).Underlying().(type) {
	case *types.Map:
		return
	case *types.Pointer:
		if _, ok := u.Elem().Underlying().(*types.Array); !ok {
			return
		}
	case *types.Slice, *types.Array, *types.Basic:
	default:
		return
	}
	e.st.emit(&Event{Kind: EvIndex, Node: node, Pos: node.Pos(), Val: t, Local: append([]Fact(nil), e.sc...)})
}

// stripAddr: (& x) -> x (a pointer argument stands for its pointee in summaries).
func stripAddr(t *Term) *Term {
	if t != nil && t.Op == "&" && len(t.A) == 1 {
		return t.A[0]
	}
	return t
}

// neverWritesParam: no committed path of g writes the struct behind pointer parameter i.
func (p *Prog) neverWritesParam(g *Func, i int) bool {
	if p.pathsBusy[g] || !g.isHandWritten() || g.Body == nil {
		return false
	}
	for _, pa := range p.PathsOf(g) {
		if _, w := pa.Out[i]; w {
			return false
		}
		// the pointer may also be handed on to a decoder
		for _, ev := range pa.Events {
			if ev.Kind == EvCall && writesThroughPointer(ev.CI) {
				for _, a := range ev.CI.args {
					if a.IsAt(fmt.Sprintf("P%d", i)) {
						return false
					}
				}
			}
		}
	}
	return true
}

// returnsFuncValue: some result of f is a function value.
func returnsFuncValue(f *Func) bool {
	for _, r := range f.Res {
		if _, ok := r.Type().Underlying().(*types.Signature); ok {
			return true
		}
	}
	return false
}

// recvOut: after x.M(...) with M a module method on *T and x a local variable of struct type T, x holds what M
// leaves behind its receiver — M's summary if all its committed paths agree, else an opaque (out call -1).
func (e *evaluator) recvOut(call *ast.CallExpr, ci *callInfo, result *Term) {
	if ci.fn == nil || ci.fn.Recv == nil || ci.fn.Body == nil || !ci.fn.isHandWritten() {
		return
	}
	pt, ok := types.Unalias(ci.fn.Recv.Type()).(*types.Pointer)
	if !ok || namedStruct(pt.Elem()) == "" || isKeeperType(pt.Elem()) {
		return
	}
	sel, ok := ast.Unparen(call.Fun).(*ast.SelectorExpr)
	if !ok {
		return
	}
	x := ast.Unparen(sel.X)
	if u, ok := x.(*ast.UnaryExpr); ok && u.Op == token.AND {
		x = ast.Unparen(u.X)
	}
	id, ok := x.(*ast.Ident)
	if !ok {
		return
	}
	v, ok := e.info().Uses[id].(*types.Var)
	if !ok {
		return
	}
	if vpt, isPtr := types.Unalias(v.Type()).(*types.Pointer); isPtr {
		// the function's own pointer receiver / pointer-to-struct parameters are modelled as the struct they point at
		own := e.f != nil && v == e.f.Recv
		if e.f != nil {
			for _, pr := range e.f.Params {
				if pr == v {
					own = true
				}
			}
		}
		if !own || namedStruct(vpt.Elem()) == "" {
			return
		}
	} else if namedStruct(v.Type()) == "" {
		return
	}
	if e.p.pathsBusy[ci.fn] {
		return
	}
	writes := false
	for _, pa := range e.p.PathsOf(ci.fn) {
		if _, w := pa.Out[-1]; w {
			writes = true
		}
	}
	if !writes {
		return
	}
	if os := e.p.outSummary(ci.fn, -1); os != nil {
		m := map[string]*Term{}
		for j, aj := range ci.args {
			m[fmt.Sprintf("P%d", j)] = stripAddr(aj)
		}
		if ci.recv != nil {
			m["Precv"] = stripAddr(ci.recv)
		}
		nv := os.Subst(m)
		nv.Typ = v.Type()
		e.st.vars[v] = nv
		if e.f != nil && v == e.f.Recv {
			e.st.recvWritten = true
		}
		return
	}
	e.st.vars[v] = mk("out", result, atom("-1")).withType(v.Type())
	if e.f != nil && v == e.f.Recv {
		e.st.recvWritten = true
	}
}

const prefixStorePkg = "github.com/cosmos/cosmos-sdk/store/prefix"

// isPrefixStore: t is prefix.NewStore(S, P) — returns S and P.
func isPrefixStore(t *Term) (*Term, *Term, bool) {
	t = stripConv(t)
	if t != nil && t.Op == prefixStorePkg+".NewStore" && len(t.A) == 2 {
		return t.A[0], t.A[1], true
	}
	return nil, nil, false
}

// fullKey: the key of the parent store that a prefix store with prefix P uses for the relative key rel.
func (e *evaluator) fullKey(P, rel *Term) *Term {
	if rel == nil || rel.IsAt("#nil") {
		return P
	}
	r := stripConv(rel)
	// K[len(P):] of a key K of P's own family is K again
	if r.Op == "slice" && len(r.A) == 3 && r.A[2].IsAt("_") {
		lo := stripConv(r.A[1])
		if lo.Op == "len" && len(lo.A) == 1 && stripConv(lo.A[0]).Eq(stripConv(P)) {
			return r.A[0]
		}
	}
	return mk("append", P, mk("spread", rel)).withType(rel.Typ)
}

// normPrefixStore rewrites operations on a prefix store to the same operations on its parent store under the full
// key: Get/Has/Set/Delete(rel) → parent.Op(P‖rel); Iterator(nil, nil) → prefix scan of P; a prefix scan of rel inside
// the sub-store → prefix scan of P‖rel. The iterator of a sub-store returns relative keys: its term carries the
// marker (rel P), which the Key() call turns into Key()[len(P):].
func (e *evaluator) normPrefixStore(ci *callInfo) {
	name := ci.name
	switch {
	case strings.HasPrefix(name, prefixStorePkg+".Store.") && ci.recv != nil:
		S, P, ok := isPrefixStore(ci.recv)
		if !ok {
			return
		}
		op := shortName(name)
		switch op {
		case "Get", "Has", "Delete", "Set":
			if len(ci.args) == 0 {
				return
			}
			ci.name = ifaceKVStore + "." + op
			ci.recv = S
			ci.args = append([]*Term{e.fullKey(P, ci.args[0])}, ci.args[1:]...)
		case "Iterator", "ReverseIterator":
			if len(ci.args) == 2 && ci.args[0].IsAt("#nil") && ci.args[1].IsAt("#nil") {
				ci.name = "sdk.KVStorePrefixIterator"
				if op == "ReverseIterator" {
					ci.name = "sdk.KVStoreReversePrefixIterator"
				}
				ci.recv = nil
				ci.args = []*Term{S, P, mk("rel", P)}
			}
		}
	case (name == "sdk.KVStorePrefixIterator" || name == "sdk.KVStoreReversePrefixIterator") && len(ci.args) == 2:
		if S, P, ok := isPrefixStore(ci.args[0]); ok {
			ci.args = []*Term{S, e.fullKey(P, ci.args[1]), mk("rel", P)}
		}
	case strings.HasSuffix(name, "Iterator.Key") || strings.HasSuffix(name, "Iterator.Value") || strings.HasSuffix(name, "Iterator.Valid") ||
		strings.HasSuffix(name, "Iterator.Next") || strings.HasSuffix(name, "Iterator.Close") || strings.HasSuffix(name, "Iterator.Error"):
		// handled by the caller through relIter (the receiver keeps its marker only as a variable's value)
	}
}

// relIter: an iterator term that carries the relative-key marker — returns the plain iterator term and the prefix.
func relIter(t *Term) (*Term, *Term, bool) {
	if t == nil || !(t.Op == "sdk.KVStorePrefixIterator" || t.Op == "sdk.KVStoreReversePrefixIterator") || len(t.A) != 3 || t.A[2].Op != "rel" {
		return nil, nil, false
	}
	return &Term{Op: t.Op, A: t.A[:2], Typ: t.Typ, Obj: t.Obj, Pos: t.Pos}, t.A[2].A[0], true
}

// isTimeOrBool: the single result of an expression method is a time or a truth value.
func isTimeOrBool(res []*types.Var) bool {
	if len(res) != 1 {
		return false
	}
	tn := typeName(res[0].Type())
	return tn == "time.Time" || tn == "bool"
}

// mentionsTime: the method takes or returns a time (the expression methods made transparent are the time computations of
// the records; other one-line predicates keep their own name, which rules refer to).
func mentionsTime(g *Func) bool {
	if len(g.Res) == 1 && typeName(g.Res[0].Type()) == "time.Time" {
		return true
	}
	for _, pr := range g.Params {
		if tn := typeName(pr.Type()); tn == "time.Time" || tn == "time.Duration" {
			return true
		}
	}
	return false
}
