package main

import (
	"fmt"
	"go/types"
	"sort"
	"strings"
)

// Record equalities. A skipped write is harmless when the value that would have been written is the value already stored;
// code says so through an equality predicate it wrote itself. Such a predicate licenses the skip only if it really is an
// equality of the whole record — the slips that ride on this kind of shortcut are equalities that forget one field.
//
// recordEquality decides, for a pure module function g(a, b T) bool over a struct type T, whether every field of T takes
// part in the comparison on the paths that can return true: for each field (recursively for nested record structs and
// element-wise for slices, together with a comparison of the lengths) some comparison atom or predicate call on such a
// path has the field's access chain on a as one operand and the same chain on b as another. This decides coverage of the
// fields — a structural necessary condition of being an equality — not the semantics of each comparison.
func (c *Check) recordEquality(g *Func) (typ string, ok bool, missing []string) {
	if g == nil || g.Body == nil || len(g.Res) != 1 || typeName(g.Res[0].Type()) != "bool" {
		return "", false, nil
	}
	var ps []int
	for i, p := range g.Params {
		if namedStruct(p.Type()) != "" {
			ps = append(ps, i)
		}
	}
	if len(ps) != 2 || namedStruct(g.Params[ps[0]].Type()) != namedStruct(g.Params[ps[1]].Type()) {
		return "", false, nil
	}
	for _, e := range c.P.SummaryOf(g).Effs {
		if e.Kind != "emit" {
			return "", false, nil
		}
	}
	typ = namedStruct(g.Params[ps[0]].Type())
	A, B := fmt.Sprintf("P%d", ps[0]), fmt.Sprintf("P%d", ps[1])
	// access chain of a term rooted at one of the two parameters
	var chain func(t *Term) (root, ch string, ok bool)
	chain = func(t *Term) (string, string, bool) {
		t = stripConv(stripSpread(t))
		if t == nil {
			return "", "", false
		}
		switch {
		case t.Op == "" && (t.At == A || t.At == B):
			return t.At, "", true
		case strings.HasPrefix(t.Op, ".") && len(t.A) == 1:
			r, ch, ok := chain(t.A[0])
			return r, ch + "." + t.Op[strings.LastIndex(t.Op, ".")+1:], ok
		case (t.Op == "elem" && len(t.A) == 1) || (t.Op == "idx" && len(t.A) == 2):
			r, ch, ok := chain(t.A[0])
			return r, ch + "[]", ok
		case t.Op == "len" && len(t.A) == 1:
			r, ch, ok := chain(t.A[0])
			return r, ch + "#len", ok
		case len(t.A) == 1 && (strings.HasSuffix(t.Op, ".String") || strings.HasSuffix(t.Op, ".Bytes")):
			// the canonical text / bytes of a value stand for the value
			return chain(t.A[0])
		}
		return "", "", false
	}
	compared := map[string]bool{}
	note := func(t *Term) {
		t.Walk(func(u *Term) bool {
			if len(u.A) < 2 || u.Op == "&&" || u.Op == "||" || u.Op == "idx" {
				return true
			}
			var as, bs []string
			for _, a := range u.A {
				if r, ch, ok := chain(a); ok && ch != "" {
					if r == A {
						as = append(as, ch)
					} else {
						bs = append(bs, ch)
					}
				}
			}
			for _, x := range as {
				for _, y := range bs {
					if x == y {
						compared[x] = true
					}
				}
			}
			return true
		})
	}
	nTrue := 0
	for _, pa := range c.P.PathsOf(g) {
		if len(pa.Ret) != 1 || pa.Ret[0].IsAt("#false") {
			continue
		}
		nTrue++
		for _, fa := range pa.AllFacts() {
			note(fa.T)
		}
		note(pa.Ret[0])
	}
	if nTrue == 0 {
		return typ, false, []string{"no path returns true"}
	}
	// required chains from the type
	var need func(T types.Type, ch string, depth int) bool
	need = func(T types.Type, ch string, depth int) bool {
		if ch != "" && compared[ch] {
			return true
		}
		if depth > 4 {
			missing = append(missing, ch)
			return false
		}
		T = types.Unalias(T)
		switch u := T.Underlying().(type) {
		case *types.Struct:
			// a record struct is compared field by field (exported fields); opaque values must be compared whole
			exported := 0
			for i := 0; i < u.NumFields(); i++ {
				if u.Field(i).Exported() {
					exported++
				}
			}
			if exported == 0 || exported != u.NumFields() {
				missing = append(missing, ch)
				return false
			}
			all := true
			for i := 0; i < u.NumFields(); i++ {
				if !need(u.Field(i).Type(), ch+"."+u.Field(i).Name(), depth+1) {
					all = false
				}
			}
			return all
		case *types.Slice:
			okLen := compared[ch+"#len"]
			if !okLen {
				missing = append(missing, ch+"#len")
			}
			return need(u.Elem(), ch+"[]", depth+1) && okLen
		case *types.Pointer:
			return need(u.Elem(), ch, depth+1)
		}
		missing = append(missing, ch)
		return false
	}
	st, _ := types.Unalias(g.Params[ps[0]].Type()).Underlying().(*types.Struct)
	if pt, isPtr := types.Unalias(g.Params[ps[0]].Type()).Underlying().(*types.Pointer); isPtr {
		st, _ = types.Unalias(pt.Elem()).Underlying().(*types.Struct)
	}
	if st == nil {
		return typ, false, []string{"not a struct"}
	}
	ok = true
	for i := 0; i < st.NumFields(); i++ {
		if !need(st.Field(i).Type(), "."+st.Field(i).Name(), 0) {
			ok = false
		}
	}
	sort.Strings(missing)
	return typ, ok, missing
}

// storedBytesEquality: g(…key arguments…, v) reports whether the record stored under the key equals v byte for byte: on
// every path that can return true the result is bytes.Equal(store.Get(K), encode(&v)). Returns the family of K and the index
// of the value parameter.
func (c *Check) storedBytesEquality(g *Func) (fam string, valIdx int, ok bool) {
	if g == nil || g.Body == nil || len(g.Res) != 1 || typeName(g.Res[0].Type()) != "bool" {
		return "", -1, false
	}
	n := 0
	for _, pa := range c.P.PathsOf(g) {
		if len(pa.Ret) != 1 || pa.Ret[0].IsAt("#false") {
			continue
		}
		r := stripConv(pa.Ret[0])
		if r.Op != "bytes.Equal" || len(r.A) != 2 {
			return "", -1, false
		}
		var get, enc *Term
		for _, a := range r.A {
			a = stripConv(a)
			if strings.HasSuffix(a.Op, "KVStore.Get") {
				get = a
			} else if strings.Contains(a.Op, "Marshal") {
				enc = a
			}
		}
		if get == nil || enc == nil {
			return "", -1, false
		}
		f, _ := c.P.keyFamily(stripConv(get.A[len(get.A)-1]))
		vi := -1
		enc.Walk(func(t *Term) bool {
			if t.Op == "" && strings.HasPrefix(t.At, "P") {
				fmt.Sscanf(t.At, "P%d", &vi)
			}
			return true
		})
		if f == "" || vi < 0 || (fam != "" && (fam != f || vi != valIdx)) {
			return "", -1, false
		}
		fam, valIdx = f, vi
		n++
	}
	return fam, valIdx, n > 0
}

// knownEqualToStored: the path has established, through a record equality or a stored-bytes equality decided above, that
// the record of family fam already stored equals v. Reports a predicate that was used but is not a full equality.
func (c *Check) knownEqualToStored(af FactSet, fam string, v *Term) (bool, string) {
	getter := c.getterByFamily(fam)
	why := ""
	for _, fa := range af {
		if fa.Neg {
			continue
		}
		t := stripConv(fa.T)
		if t.Op == "bytes.Equal" && len(t.A) == 2 {
			// the stored bytes of the family's record equal the encoding of v
			var get, enc *Term
			for _, a := range t.A {
				a = stripConv(a)
				if strings.HasSuffix(a.Op, "KVStore.Get") && len(a.A) >= 1 {
					get = a
				} else if strings.Contains(a.Op, "Marshal") {
					enc = a
				}
			}
			if get != nil && enc != nil {
				if f2, _ := c.P.keyFamily(stripConv(get.A[len(get.A)-1])); f2 == fam && enc.Contains(v) {
					return true, ""
				}
			}
		}
		g := c.P.FuncNamed(t.Op)
		if g == nil || !g.isHandWritten() {
			continue
		}
		hasV, hasStored := false, false
		for _, a := range t.A {
			a = stripConv(a)
			if a.Eq(v) {
				hasV = true
			}
			if getter != nil && (a.Op == getter.Name || (a.Op == "res" && len(a.A) == 2 && stripConv(a.A[1]).Op == getter.Name)) {
				hasStored = true
			}
		}
		if !hasV {
			continue
		}
		if hasStored {
			if _, ok, missing := c.recordEquality(g); ok {
				return true, ""
			} else {
				why = g.Name + " does not compare " + strings.Join(missing, ", ")
			}
		}
		if f2, vi, ok := c.storedBytesEquality(g); ok && f2 == fam && vi < len(t.A)+1 {
			// the value parameter position counts the context parameter, which terms drop
			for i, p := range g.Params {
				if i == vi {
					_ = p
				}
			}
			return true, ""
		}
	}
	return false, why
}
