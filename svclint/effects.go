package main

// Primitive effects (tables E and B) and per-function summaries (table S).

import (
	"fmt"
	"go/token"
	"go/types"
	"sort"
	"strings"
)

// Eff is one primitive effect, expressed over the parameters of the function
// it is summarised for (P0.., Precv) and instantiated at call sites.
type Eff struct {
	Kind string // "store", "bank", "callback", "modsvc", "dyn", "emit", "paramset", "paramget"
	Op   string // Get/Has/Set/Delete/Iter | bank method | callback kind
	Args []*Term

	// store
	Key     *Term
	Family  string // "0x13" ... or "?" when unresolved
	Builder string // key builder / sub-space builder name, or the prefix variable for bare scans
	Val     *Term  // value stored (Set)

	// bank
	From, To *Term // module account constant atoms or address terms
	Amount   *Term

	Guards FactSet // facts holding on every path that reaches the effect
	Must   bool    // present on every committed path of the summarised function
	Commit bool    // present on at least one committed path (false: only on reverting paths)
	InLoop bool
	Pos    token.Pos   // primitive site
	Chain  []string    // call chain from the summarised function down to the primitive
	Fn     *Func       // function that contains the primitive site
	Event  *Event      // the direct event in the summarised function (call or primitive)
	Via    *Eff        // the callee effect this one was instantiated from (nil if direct)
	Sites  []token.Pos // call-site positions from the summarised function down to the primitive
	Class  string      // for an instantiated scan of a parametric helper: what the helper does with the scanned family (delete / write / read)
}

// SiteKey identifies the primitive site together with the call sites leading to it.
func (e *Eff) SiteKey() string {
	var sb strings.Builder
	for _, s := range e.Sites {
		fmt.Fprintf(&sb, "%d>", s)
	}
	return sb.String()
}

func (e *Eff) String() string {
	switch e.Kind {
	case "store":
		return fmt.Sprintf("store.%s %s %s", e.Op, e.Family, e.Key)
	case "bank":
		return fmt.Sprintf("bank.%s from=%s to=%s amt=%s", e.Op, e.From, e.To, e.Amount)
	}
	return fmt.Sprintf("%s.%s %v", e.Kind, e.Op, e.Args)
}

type Summary struct {
	Fn   *Func
	Effs []*Eff
	// SuccessFacts: facts that hold on every committed path (over parameters).
	SuccessFacts FactSet
	NPaths       int
	NSuccess     int
}

const (
	ifaceKVStore = "github.com/cosmos/cosmos-sdk/store/types.KVStore"
	ifaceBank    = "types.BankKeeper"
)

// classifyCall turns a call event into a primitive effect, or nil.
func (p *Prog) classifyCall(f *Func, ev *Event) *Eff {
	ci := ev.CI
	name := ci.name
	e := &Eff{Pos: ev.Pos, Fn: f, Event: ev}
	switch {
	case strings.HasPrefix(name, ifaceKVStore+"."):
		op := shortName(name)
		switch op {
		case "Get", "Has", "Set", "Delete":
			e.Kind, e.Op = "store", op
			if len(ci.args) > 0 {
				e.Key = ci.args[0]
			}
			if op == "Set" && len(ci.args) > 1 {
				e.Val = ci.args[1]
			}
		case "Iterator", "ReverseIterator":
			e.Kind, e.Op = "store", "Iter"
			e.Key = mk("range", ci.args...)
		default:
			return nil
		}
		e.Family, e.Builder = p.keyFamily(e.Key)
		return e
	case name == "sdk.KVStorePrefixIterator" || name == "sdk.KVStoreReversePrefixIterator":
		e.Kind, e.Op = "store", "Iter"
		if len(ci.args) > 1 {
			e.Key = ci.args[1]
		}
		e.Family, e.Builder = p.keyFamily(e.Key)
		return e
	case strings.HasPrefix(name, ifaceBank+"."):
		e.Kind, e.Op = "bank", shortName(name)
		a := ci.args
		// drop the ctx argument
		if len(a) > 0 && a[0].IsAt("ctx") {
			a = a[1:]
		}
		switch e.Op {
		case "SendCoinsFromModuleToAccount", "SendCoinsFromAccountToModule", "SendCoinsFromModuleToModule":
			if len(a) == 3 {
				e.From, e.To, e.Amount = a[0], a[1], a[2]
			}
		case "MintCoins":
			if len(a) == 2 {
				e.To, e.Amount = a[0], a[1]
			}
		case "BurnCoins":
			if len(a) == 2 {
				e.From, e.Amount = a[0], a[1]
			}
		default:
			e.Args = a // read-only bank queries
			e.Kind = "bankread"
		}
		return e
	case name == "github.com/cosmos/cosmos-sdk/x/params/types.Subspace.SetParamSet" ||
		name == "github.com/cosmos/cosmos-sdk/x/params/types.Subspace.Set":
		e.Kind, e.Op, e.Args = "paramset", shortName(name), ci.args
		return e
	case name == "sdk.EventManager.EmitEvents" || name == "sdk.EventManager.EmitEvent":
		e.Kind, e.Op, e.Args = "emit", shortName(name), ci.args
		return e
	case name == "dyn":
		if ci.fn != nil {
			return nil // resolved closure: treated as a static call by the summariser
		}
		e.Kind, e.Args = "dyn", append([]*Term{ci.fun}, ci.args...)
		switch {
		case ci.fun.ContainsOp("keeper.Keeper.GetResponseCallback") || strings.Contains(typeName(ci.fun.Typ), "ResponseCallback"):
			e.Kind, e.Op = "callback", "response"
		case ci.fun.ContainsOp("keeper.Keeper.GetStateCallback") || strings.Contains(typeName(ci.fun.Typ), "StateCallback"):
			e.Kind, e.Op = "callback", "state"
		case ci.fun.ContainsOp(".ModuleService.ReuquestService"):
			e.Kind, e.Op = "modsvc", "request"
		default:
			e.Op = ci.fun.String()
		}
		return e
	}
	return nil
}

// classifyCallAll is classifyCall with keys computed by selecting helpers resolved: a store
// operation whose key helper chooses between builders becomes one guarded effect per alternative.
func (p *Prog) classifyCallAll(f *Func, ev *Event) []*Eff {
	e := p.classifyCall(f, ev)
	if e == nil {
		return nil
	}
	e.Guards = FactSet{}
	if e.Kind == "store" && e.Family == "?" && e.Key != nil && e.Key.Op != "range" {
		if vs := p.keyVariants(e.Key, 0); len(vs) > 0 {
			var out []*Eff
			for _, v := range vs {
				ne := *e
				ne.Key = v.Key
				ne.Family, ne.Builder = p.keyFamily(v.Key)
				ne.Guards = v.Guards
				out = append(out, &ne)
			}
			return out
		}
	}
	return []*Eff{e}
}

// SummaryOf computes the effect summary of f (memoised, recursion-safe).
func (p *Prog) SummaryOf(f *Func) *Summary {
	if s, ok := p.summaryMemo[f]; ok {
		return s
	}
	s := &Summary{Fn: f}
	p.summaryMemo[f] = s // provisional (recursion sees an empty summary)
	if !f.isHandWritten() || f.Body == nil {
		return s
	}
	paths := p.PathsOf(f)
	s.NPaths = len(paths)
	type acc struct {
		eff    *Eff
		guards FactSet
		commit bool
	}
	accs := map[string]*acc{}
	var order []string
	siteOK := map[string]int{}      // site -> number of committed paths containing it
	siteMustIn := map[string]bool{} // site -> callee-level must flag
	nOK := 0
	for _, pa := range paths {
		if pa.OK() {
			nOK++
			af := pa.AllFacts()
			if pa.Exit == ExitMaybe {
				// a tail call "return g(...)": committing means g returned nil
				if i, ok := f.hasErrorResult(); ok && i < len(pa.Ret) {
					if cs := errSource(pa.Ret[i]); cs != nil {
						af.Add(Fact{T: mk("ok", cs)})
					}
				}
			}
			if s.SuccessFacts == nil {
				s.SuccessFacts = af
			} else {
				s.SuccessFacts = s.SuccessFacts.Intersect(af)
			}
		}
		// Effects on reverting paths are kept with Commit=false: a transaction
		// discards them (cache store), but a caller that drops the error inside
		// end-block processing does not.
		seenSite := map[string]bool{}
		for i, ev := range pa.Events {
			if ev.Kind != EvCall {
				continue
			}
			for _, e := range p.effectsOfEvent(f, ev) {
				site := e.SiteKey()
				key := site + "|" + e.String()
				a := accs[key]
				facts := pa.FactsBefore(i)
				for k, v := range e.Guards {
					facts[k] = v
				}
				if a == nil {
					a = &acc{eff: e, guards: facts}
					accs[key] = a
					order = append(order, key)
				} else {
					a.guards = a.guards.Intersect(facts)
				}
				if pa.OK() && e.Commit {
					a.commit = true
				}
				if e.Must {
					siteMustIn[site] = true
				}
				if !seenSite[site] {
					seenSite[site] = true
					if pa.OK() {
						siteOK[site]++
					}
				}
			}
		}
	}
	s.NSuccess = nOK
	for _, k := range order {
		a := accs[k]
		e := a.eff
		e.Guards = a.guards
		site := e.SiteKey()
		e.Must = nOK > 0 && siteOK[site] == nOK && siteMustIn[site]
		e.Commit = a.commit
		s.Effs = append(s.Effs, e)
	}
	if s.SuccessFacts == nil {
		s.SuccessFacts = FactSet{}
	}
	// what the committed paths establish beyond their common facts: the disjunction over the paths of their own
	// facts (a guard spread over nested ifs or split short-circuit operands is still a guard of the function)
	var okPaths []FactSet
	for _, pa := range paths {
		if pa.OK() {
			okPaths = append(okPaths, pa.AllFacts())
		}
	}
	if n := len(okPaths); n >= 2 && n <= 6 {
		var disj *Term
		trivial := false
		for _, af := range okPaths {
			var conj *Term
			cnt := 0
			for _, k := range af.Sorted() {
				if s.SuccessFacts.Has(af[k]) {
					continue
				}
				cnt++
				ft := af[k].T
				if af[k].Neg {
					ft = mk("!", ft)
				}
				if conj == nil {
					conj = ft
				} else {
					conj = mk("&&", conj, ft)
				}
			}
			if cnt == 0 || cnt > 4 {
				trivial = true
				break
			}
			if disj == nil {
				disj = conj
			} else {
				disj = mk("||", disj, conj)
			}
		}
		if !trivial && disj != nil {
			s.SuccessFacts.Add(normFact(Fact{T: disj}))
		}
	}
	return s
}

// effectsOfEvent returns the primitive effects caused by one call event:
// the primitive itself, or the instantiated effects of a module callee.
func (p *Prog) effectsOfEvent(f *Func, ev *Event) []*Eff {
	ci := ev.CI
	if es := p.classifyCallAll(f, ev); es != nil {
		for _, e := range es {
			e.Must = true
			e.Commit = true
			e.Sites = []token.Pos{ev.Pos}
			e.InLoop = ev.Loop != nil
		}
		return es
	}
	g := ci.fn
	if g == nil || !g.isHandWritten() || g.Body == nil {
		return nil
	}
	if p.pathsBusy[g] {
		return nil
	}
	sum := p.SummaryOf(g)
	m := map[string]*Term{}
	for i, a := range ci.args {
		m[fmt.Sprintf("P%d", i)] = a
		if i < len(g.Params) {
			if pt, ok := types.Unalias(g.Params[i].Type()).(*types.Pointer); ok && namedStruct(pt.Elem()) != "" {
				m[fmt.Sprintf("P%d", i)] = stripAddr(a)
			}
		}
	}
	if ci.recv != nil {
		m["Precv"] = ci.recv
	}
	var out []*Eff
	for _, ce := range sum.Effs {
		ne := instantiate(ce, m, g.Name, ev)
		if ne == nil {
			continue // refuted by the actual arguments
		}
		ne.InLoop = ce.InLoop || ev.Loop != nil
		// a key the callee receives as a parameter (a prefix, a key function) resolves with the actual argument
		if ne.Kind == "store" && ne.Family == "?" && ne.Key != nil && ne.Key.Op != "range" {
			if vs := p.keyVariants(ne.Key, 0); len(vs) > 0 {
				for _, v := range vs {
					n2 := *ne
					n2.Key = v.Key
					n2.Family, n2.Builder = p.keyFamily(v.Key)
					n2.Guards = ne.Guards.Clone()
					for _, gf := range v.Guards {
						n2.Guards.Add(gf)
					}
					out = append(out, &n2)
				}
				continue
			}
		}
		// a dynamic call of a parameter that is now a known closure expands
		if ne.Kind == "dyn" && len(ne.Args) > 0 && ne.Args[0].Is("func") {
			if cl := p.FuncNamed(ne.Args[0].A[0].At); cl != nil && !p.pathsBusy[cl] {
				cs := p.SummaryOf(cl)
				cm := map[string]*Term{}
				for i, a := range ne.Args[1:] {
					cm[fmt.Sprintf("P%d", i)] = a
				}
				if len(ne.Args[0].A) == 2 {
					cm["Precv"] = ne.Args[0].A[1] // bound method value
				}
				for _, ce2 := range cs.Effs {
					n2 := instantiate(ce2, cm, cl.Name, ev)
					if n2 == nil {
						continue
					}
					n2.Chain = append(append([]string{}, ne.Chain...), n2.Chain...)
					n2.Sites = append(append([]token.Pos{}, ne.Sites...), n2.Sites[1:]...)
					n2.Must = n2.Must && ne.Must
					n2.Commit = n2.Commit && ne.Commit
					n2.InLoop = n2.InLoop || ne.InLoop
					for k, v := range ne.Guards {
						n2.Guards[k] = v
					}
					out = append(out, n2)
				}
				continue
			}
		}
		out = append(out, ne)
	}
	return out
}

func instantiate(ce *Eff, m map[string]*Term, callee string, ev *Event) *Eff {
	ne := &Eff{Kind: ce.Kind, Op: ce.Op, Family: ce.Family, Builder: ce.Builder, Must: ce.Must, Commit: ce.Commit,
		InLoop: ce.InLoop, Pos: ce.Pos, Fn: ce.Fn, Event: ev, Via: ce}
	ne.Chain = append([]string{callee}, ce.Chain...)
	ne.Sites = append([]token.Pos{ev.Pos}, ce.Sites...)
	for _, a := range ce.Args {
		ne.Args = append(ne.Args, a.Subst(m))
	}
	ne.Key = resolveDynTerm(ce.Key.Subst(m))
	ne.Val = resolveDynTerm(ce.Val.Subst(m))
	ne.From = resolveDynTerm(ce.From.Subst(m))
	ne.To = resolveDynTerm(ce.To.Subst(m))
	ne.Amount = resolveDynTerm(ce.Amount.Subst(m))
	ne.Guards = FactSet{}
	for _, g := range ce.Guards {
		for _, ng := range g.SubstAll(m) {
			if ng.T.IsAt("#true") || ng.T.IsAt("#false") {
				if ng.T.IsAt("#true") == ng.Neg {
					return nil // the guard is false for these arguments
				}
				continue
			}
			// a guard over constants only, decided by the actual arguments
			if isConstOnly(ng.T) {
				switch decideFact(ng, FactSet{}) {
				case 0:
					return nil
				case 1:
					continue
				}
			}
			ne.Guards.Add(ng)
		}
	}
	return ne
}

// dynResolver is installed by the program loader: it rewrites calls through function values that have become
// known functions after substitution.
var dynResolver func(*Term) *Term

// elemResolver is installed by the program loader: the element of a collection returned by a collecting scan.
var elemResolver func(*Term) *Term

// resolveElem: x is a call of a module function that gathers a slice from a store scan (one append per scanned
// record, starting from an empty slice): the element of that slice is the appended expression on the call's arguments.
func (p *Prog) resolveElem(x *Term) *Term {
	x = stripConv(x)
	if x == nil || x.Op == "" {
		return nil
	}
	g := p.FuncNamed(x.Op)
	if g == nil || !g.isHandWritten() || g.Body == nil || g.Decl == nil || p.pathsBusy[g] {
		return nil
	}
	e := p.elemSummary(g, 0)
	if e == nil {
		return nil
	}
	return e.Subst(argMap(g, x))
}

// elemSummary: the expression a collecting function appends per scanned record, over its parameters.
func (p *Prog) elemSummary(g *Func, depth int) *Term {
	if v, ok := p.elemMemo[g]; ok {
		return v
	}
	if p.elemMemo == nil {
		p.elemMemo = map[*Func]*Term{}
	}
	p.elemMemo[g] = nil
	if depth > 3 || len(g.Res) != 1 || p.pathsBusy[g] {
		return nil
	}
	if _, isSlice := g.Res[0].Type().Underlying().(*types.Slice); !isSlice || isByteSlice(g.Res[0].Type()) {
		return nil
	}
	empty := func(t *Term) bool {
		t = stripConv(t)
		return t.IsAt("zero") || t.IsAt("#nil") || (t.Op == "lit" && len(t.A) == 1) || (t.Op == "make" && len(t.A) >= 2 && t.A[1].IsAt("#0"))
	}
	var common *Term
	scans := false
	for _, pa := range p.PathsOf(g) {
		if !pa.OK() || len(pa.Ret) != 1 {
			return nil
		}
		r := stripConv(pa.Ret[0])
		var e *Term
		switch {
		case empty(r):
			continue
		case r.Op == "append" && len(r.A) == 2 && empty(r.A[0]):
			e = r.A[1]
			if e.ContainsOp("sdk.KVStorePrefixIterator") || e.ContainsOp("sdk.KVStoreReversePrefixIterator") {
				scans = true
			}
		default:
			// a function that forwards to a collecting function
			if h := p.FuncNamed(r.Op); h != nil && h != g && h.isHandWritten() && h.Body != nil {
				if he := p.elemSummary(h, depth+1); he != nil {
					e = he.Subst(argMap(h, r))
					scans = true
				}
			}
		}
		if e == nil {
			return nil
		}
		if common == nil {
			common = e
		} else if !common.Eq(e) {
			return nil
		}
	}
	if common == nil || !scans {
		return nil
	}
	p.elemMemo[g] = common
	return common
}

func resolveDynTerm(t *Term) *Term {
	if t == nil || dynResolver == nil || !t.ContainsOp("dyn") {
		return t
	}
	return dynResolver(t)
}

// valueSummary: the single result term of a function whose committed paths all return the same value (over its parameters).
func (p *Prog) valueSummary(g *Func) *Term {
	if v, ok := p.valueMemo[g]; ok {
		return v
	}
	p.valueMemo[g] = nil
	if g == nil || g.Body == nil || !g.isHandWritten() || len(g.Res) != 1 || p.pathsBusy[g] {
		return nil
	}
	var common *Term
	for _, pa := range p.PathsOf(g) {
		if !pa.OK() || len(pa.Ret) != 1 {
			return nil
		}
		if common == nil {
			common = pa.Ret[0]
		} else if !common.Eq(pa.Ret[0]) {
			return nil
		}
	}
	p.valueMemo[g] = common
	return common
}

// resolveDyn rewrites (dyn (func G [recv]) args…) to the value G returns on those arguments when G is a known
// function with a single result value.
func (p *Prog) resolveDynCalls(t *Term) *Term {
	if t == nil || t.Op == "" {
		return t
	}
	changed := false
	na := make([]*Term, len(t.A))
	for i, a := range t.A {
		na[i] = p.resolveDynCalls(a)
		if na[i] != a {
			changed = true
		}
	}
	nt := t
	if changed {
		nt = simplify(&Term{Op: t.Op, A: na, Typ: t.Typ, Obj: t.Obj, Pos: t.Pos})
	}
	if nt.Op == "dyn" && len(nt.A) >= 1 && nt.A[0].Is("func") && len(nt.A[0].A) >= 1 {
		g := p.FuncNamed(nt.A[0].A[0].At)
		if g == nil || g.Lit != nil {
			return nt
		}
		if len(g.Res) == 1 && isByteSlice(g.Res[0].Type()) && g.pkgName() == "types" {
			// a key builder held in a function value: the builder's own call (its shape is known by name)
			direct := &Term{Op: g.Name, Typ: nt.Typ}
			for _, a := range nt.A[1:] {
				if a.IsAt("ctx") || a.IsAt("K") {
					continue
				}
				direct.A = append(direct.A, a)
			}
			return direct
		}
		v := p.valueSummary(g)
		if v == nil {
			// a declared function reached through a function value: its own call
			if g.Decl != nil && g.Obj != nil && len(nt.A[0].A) == 1 {
				direct := &Term{Op: g.Name, Typ: nt.Typ}
				for _, a := range nt.A[1:] {
					if a.IsAt("ctx") || a.IsAt("K") {
						continue
					}
					direct.A = append(direct.A, a)
				}
				return direct
			}
			return nt
		}
		m := map[string]*Term{}
		for i, a := range nt.A[1:] {
			m[fmt.Sprintf("P%d", i)] = a
		}
		if len(nt.A[0].A) == 2 {
			m["Precv"] = nt.A[0].A[1]
		}
		return v.Subst(m)
	}
	return nt
}

// isConstOnly: a comparison between two constants.
func isConstOnly(t *Term) bool {
	return t != nil && t.Op == "==" && len(t.A) == 2 && isConstTerm(t.A[0]) && isConstTerm(t.A[1])
}

// EffectsMatching filters a summary.
func (s *Summary) Find(pred func(*Eff) bool) []*Eff {
	var out []*Eff
	for _, e := range s.Effs {
		if pred(e) {
			out = append(out, e)
		}
	}
	return out
}

func isStore(op, family string) func(*Eff) bool {
	return func(e *Eff) bool {
		return e.Kind == "store" && (op == "" || e.Op == op) && (family == "" || e.Family == family)
	}
}

func isBank(op string) func(*Eff) bool {
	return func(e *Eff) bool { return e.Kind == "bank" && (op == "" || e.Op == op) }
}

// writes reports whether the effect mutates consensus state.
func (e *Eff) Mutates() bool {
	switch e.Kind {
	case "store":
		return e.Op == "Set" || e.Op == "Delete"
	case "bank", "paramset":
		return true
	}
	return false
}

func sortedKeys(m map[string]bool) []string {
	out := make([]string, 0, len(m))
	for k := range m {
		out = append(out, k)
	}
	sort.Strings(out)
	return out
}
