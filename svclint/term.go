package main

// Terms: the provenance language (DESIGN.md §2.3 table T).
//
// A Term denotes a *value* (not a location). Terms are printed as
// s-expressions; equality is string equality of the canonical print.
// Patterns use the same syntax with $X variables and _ wildcards.

import (
	"fmt"
	"go/constant"
	"go/token"
	"go/types"
	"sort"
	"strings"
)

type Term struct {
	Op  string  // head symbol ("" for atoms)
	At  string  // atom text when Op == ""
	A   []*Term // operands
	Typ types.Type
	Obj types.Object // callee / field / param / const object when known
	Pos token.Pos
	str string
}

func atom(s string) *Term { return &Term{At: s} }

func mk(op string, args ...*Term) *Term { return &Term{Op: op, A: args} }

func (t *Term) withType(T types.Type) *Term  { t.Typ = T; return t }
func (t *Term) withObj(o types.Object) *Term { t.Obj = o; return t }
func (t *Term) withPos(p token.Pos) *Term    { t.Pos = p; return t }

func (t *Term) IsAtom() bool { return t != nil && t.Op == "" }

func (t *Term) String() string {
	if t == nil {
		return "<nil>"
	}
	if t.str != "" {
		return t.str
	}
	if t.Op == "" {
		t.str = t.At
		return t.str
	}
	var sb strings.Builder
	sb.WriteByte('(')
	sb.WriteString(t.Op)
	for _, a := range t.A {
		sb.WriteByte(' ')
		sb.WriteString(a.String())
	}
	sb.WriteByte(')')
	t.str = sb.String()
	return t.str
}

func (t *Term) Eq(u *Term) bool {
	if t == nil || u == nil {
		return t == u
	}
	return t.String() == u.String()
}

// Is reports whether t's head symbol is op.
func (t *Term) Is(op string) bool { return t != nil && t.Op == op }

func (t *Term) IsAt(s string) bool { return t != nil && t.Op == "" && t.At == s }

func (t *Term) Arg(i int) *Term {
	if t == nil || i >= len(t.A) {
		return nil
	}
	return t.A[i]
}

// Walk visits t and all sub-terms; stops descending when f returns false.
func (t *Term) Walk(f func(*Term) bool) {
	if t == nil {
		return
	}
	if !f(t) {
		return
	}
	for _, a := range t.A {
		a.Walk(f)
	}
}

// Contains reports whether some sub-term equals u.
func (t *Term) Contains(u *Term) bool {
	found := false
	us := u.String()
	t.Walk(func(x *Term) bool {
		if found {
			return false
		}
		if x.String() == us {
			found = true
			return false
		}
		return true
	})
	return found
}

// ContainsOp reports whether some sub-term has head op.
func (t *Term) ContainsOp(op string) bool {
	found := false
	t.Walk(func(x *Term) bool {
		if x.Op == op {
			found = true
		}
		return !found
	})
	return found
}

func (t *Term) ContainsAtom(s string) bool {
	found := false
	t.Walk(func(x *Term) bool {
		if x.Op == "" && x.At == s {
			found = true
		}
		return !found
	})
	return found
}

// Subst replaces atoms by terms (used to instantiate callee summaries).
func (t *Term) Subst(m map[string]*Term) *Term {
	if t == nil || len(m) == 0 {
		return t
	}
	if t.Op == "" {
		if r, ok := m[t.At]; ok {
			return r
		}
		return t
	}
	changed := false
	na := make([]*Term, len(t.A))
	for i, a := range t.A {
		na[i] = a.Subst(m)
		if na[i] != a {
			changed = true
		}
	}
	if !changed {
		return t
	}
	n := &Term{Op: t.Op, A: na, Typ: t.Typ, Obj: t.Obj, Pos: t.Pos}
	return simplify(n)
}

// simplify applies the few algebraic reductions the engine relies on.
func simplify(t *Term) *Term {
	if t == nil || t.Op == "" {
		return t
	}
	// field of a composite literal / with-update
	if strings.HasPrefix(t.Op, ".") && len(t.A) == 1 {
		fld := t.Op[strings.LastIndex(t.Op, ".")+1:]
		base := t.A[0]
		for base != nil {
			if base.Op == "with" {
				// (with base (F v) ...)
				for _, kv := range base.A[1:] {
					if kv.Op == fld && len(kv.A) == 1 {
						return kv.A[0]
					}
				}
				base = base.A[0]
				continue
			}
			if base.Op == "lit" {
				for _, kv := range base.A[1:] {
					if kv.Op == fld && len(kv.A) == 1 {
						return kv.A[0]
					}
				}
				// field absent from a struct literal: zero value
				if b, ok := typeUnderlyingBasic(t.Typ); ok && b.Kind() == types.Bool {
					return &Term{At: "#false", Typ: t.Typ}
				} else if ok && b.Info()&types.IsInteger != 0 {
					return &Term{At: "#0", Typ: t.Typ}
				}
				return &Term{At: "zero", Typ: t.Typ}
			}
			if (base.Op == "&" || base.Op == "deref") && len(base.A) == 1 { // (&x).F, (*p).F
				base = base.A[0]
				continue
			}
			if base.Op == "" && base.At == "zero" {
				// a field of the zero value of a struct is the zero value of the field
				if b, ok := typeUnderlyingBasic(t.Typ); ok && b.Kind() == types.Bool {
					return &Term{At: "#false", Typ: t.Typ}
				} else if ok && b.Info()&types.IsInteger != 0 {
					return &Term{At: "#0", Typ: t.Typ}
				}
				if t.Typ != nil {
					return &Term{At: "zero", Typ: t.Typ}
				}
			}
			break
		}
		if base != t.A[0] {
			return &Term{Op: t.Op, A: []*Term{base}, Typ: t.Typ, Obj: t.Obj, Pos: t.Pos}
		}
	}
	// append(<empty>, x...) is a copy of x: the same value
	if t.Op == "append" && len(t.A) == 2 && t.A[1].Op == "spread" && len(t.A[1].A) == 1 && isByteSliceTerm(t) && knownEmptyList(t.A[0]) {
		return t.A[1].A[0]
	}
	// the element of a list that consists of one element appended to an empty list is that element
	if t.Op == "elem" && len(t.A) == 1 {
		if l := stripConv(t.A[0]); l.Op == "append" && len(l.A) == 2 && l.A[1].Op != "spread" && knownEmptyList(l.A[0]) {
			return l.A[1]
		}
	}
	// the element of a collection that a module function gathers from a store scan is the scanned record
	if t.Op == "elem" && len(t.A) == 1 && elemResolver != nil {
		if r := elemResolver(t.A[0]); r != nil {
			if r.Typ == nil {
				r = r.withType(t.Typ)
			}
			return r
		}
	}
	// x[i] with i the index under which x is being ranged (known after a helper's result was substituted)
	if t.Op == "idx" && len(t.A) == 2 {
		it := t.A[1]
		if (it.Op == "key" && len(it.A) == 1 && it.A[0].Eq(t.A[0])) || (it.Op == "keyfrom" && len(it.A) == 2 && it.A[1].Eq(t.A[0])) {
			return &Term{Op: "elem", A: []*Term{t.A[0]}, Typ: t.Typ, Pos: t.Pos}
		}
	}
	// the two halves of a byte string cut at the first separator: bytes.SplitN(x, sep, 2)[i] and bytes.Cut(x, sep)
	// are the slicings x[:Index(x, sep)] and x[Index(x, sep)+len(sep):] (sep a one-byte separator here)
	if t.Op == "idx" && len(t.A) == 2 && t.A[0].Op == "bytes.SplitN" && len(t.A[0].A) == 3 && t.A[0].A[2].IsAt("#2") && t.A[0].A[1].IsAt("@types.EmptyByte") {
		x, sep := t.A[0].A[0], t.A[0].A[1]
		switch {
		case t.A[1].IsAt("#0"):
			return &Term{Op: "slice", A: []*Term{x, atom("#0"), mk("bytes.Index", x, sep)}, Typ: t.Typ, Pos: t.Pos}
		case t.A[1].IsAt("#1"):
			return &Term{Op: "slice", A: []*Term{x, mk("+", mk("bytes.Index", x, sep), atom("#1")), atom("_")}, Typ: t.Typ, Pos: t.Pos}
		}
	}
	if t.Op == "res" && len(t.A) == 2 && t.A[1].Op == "bytes.Cut" && len(t.A[1].A) == 2 && t.A[1].A[1].IsAt("@types.EmptyByte") {
		x, sep := t.A[1].A[0], t.A[1].A[1]
		switch {
		case t.A[0].IsAt("0"):
			return &Term{Op: "slice", A: []*Term{x, atom("#0"), mk("bytes.Index", x, sep)}, Typ: t.Typ, Pos: t.Pos}
		case t.A[0].IsAt("1"):
			return &Term{Op: "slice", A: []*Term{x, mk("+", mk("bytes.Index", x, sep), atom("#1")), atom("_")}, Typ: t.Typ, Pos: t.Pos}
		}
	}
	if t.Op == "res" && len(t.A) == 2 && t.A[1].Op == "tuple" {
		// (res i (tuple a b c)) -> element
		var i int
		fmt.Sscanf(t.A[0].At, "%d", &i)
		if i < len(t.A[1].A) {
			return t.A[1].A[i]
		}
	}
	if t.Op == "phi" {
		return mkPhi(t.A...)
	}
	return t
}

// mkPhi builds a canonical (sorted, flattened, de-duplicated) phi.
func mkPhi(ts ...*Term) *Term {
	seen := map[string]*Term{}
	var add func(x *Term)
	add = func(x *Term) {
		if x == nil {
			return
		}
		if x.Op == "phi" {
			for _, a := range x.A {
				add(a)
			}
			return
		}
		seen[x.String()] = x
	}
	for _, x := range ts {
		add(x)
	}
	keys := make([]string, 0, len(seen))
	for k := range seen {
		keys = append(keys, k)
	}
	sort.Strings(keys)
	if len(keys) == 1 {
		return seen[keys[0]]
	}
	out := &Term{Op: "phi"}
	for _, k := range keys {
		out.A = append(out.A, seen[k])
	}
	if len(ts) > 0 && ts[0] != nil {
		out.Typ = ts[0].Typ
	}
	return out
}

// ---------------------------------------------------------------- patterns

// parseTerm parses the s-expression syntax (used for patterns in rule tables).
func parseTerm(s string) *Term {
	p := &tparser{s: s}
	t := p.parse()
	p.skip()
	if p.i != len(p.s) {
		panic("parseTerm: trailing input in " + s)
	}
	return t
}

type tparser struct {
	s string
	i int
}

func (p *tparser) skip() {
	for p.i < len(p.s) && (p.s[p.i] == ' ' || p.s[p.i] == '\n' || p.s[p.i] == '\t') {
		p.i++
	}
}

func (p *tparser) tok() string {
	p.skip()
	st := p.i
	if p.i < len(p.s) && p.s[p.i] == '#' && p.i+1 < len(p.s) && p.s[p.i+1] == '"' {
		// string constant: #"...": read to closing quote
		p.i += 2
		for p.i < len(p.s) && p.s[p.i] != '"' {
			if p.s[p.i] == '\\' {
				p.i++
			}
			p.i++
		}
		p.i++
		return p.s[st:p.i]
	}
	for p.i < len(p.s) && !strings.ContainsRune(" \n\t()", rune(p.s[p.i])) {
		p.i++
	}
	return p.s[st:p.i]
}

func (p *tparser) parse() *Term {
	p.skip()
	if p.i >= len(p.s) {
		panic("parseTerm: unexpected end in " + p.s)
	}
	if p.s[p.i] == '(' {
		p.i++
		op := p.tok()
		t := &Term{Op: op}
		for {
			p.skip()
			if p.i >= len(p.s) {
				panic("parseTerm: missing ) in " + p.s)
			}
			if p.s[p.i] == ')' {
				p.i++
				return t
			}
			t.A = append(t.A, p.parse())
		}
	}
	return atom(p.tok())
}

// Bindings of pattern variables.
type Bind map[string]*Term

// match unifies pattern pat against t. Pattern atoms: "$X" binds (consistent
// across occurrences), "_" matches anything, "..." as last operand matches any
// remaining operands. A pattern head "$F" would bind the head symbol (unused).
func match(pat, t *Term, b Bind) bool {
	if pat == nil || t == nil {
		return pat == t
	}
	if pat.Op == "" {
		switch {
		case pat.At == "_":
			return true
		case strings.HasPrefix(pat.At, "$"):
			if old, ok := b[pat.At]; ok {
				return old.Eq(t)
			}
			b[pat.At] = t
			return true
		default:
			return t.Op == "" && t.At == pat.At
		}
	}
	if t.Op != pat.Op {
		return false
	}
	n := len(pat.A)
	if n > 0 && pat.A[n-1].IsAt("...") {
		if len(t.A) < n-1 {
			return false
		}
		for i := 0; i < n-1; i++ {
			if !match(pat.A[i], t.A[i], b) {
				return false
			}
		}
		return true
	}
	if len(t.A) != n {
		return false
	}
	for i := range pat.A {
		if !match(pat.A[i], t.A[i], b) {
			return false
		}
	}
	return true
}

// Match is a convenience wrapper: parse pattern, match, return bindings.
func (t *Term) Match(pattern string) (Bind, bool) {
	b := Bind{}
	if match(parsePat(pattern), t, b) {
		return b, true
	}
	return nil, false
}

var patCache = map[string]*Term{}

func parsePat(s string) *Term {
	if p, ok := patCache[s]; ok {
		return p
	}
	p := parseTerm(s)
	patCache[s] = p
	return p
}

// Find returns the first sub-term matching pattern.
func (t *Term) Find(pattern string) (*Term, Bind) {
	var hit *Term
	var hb Bind
	pat := parsePat(pattern)
	t.Walk(func(x *Term) bool {
		if hit != nil {
			return false
		}
		b := Bind{}
		if match(pat, x, b) {
			hit, hb = x, b
			return false
		}
		return true
	})
	return hit, hb
}

// stripConv removes value-preserving conversions for comparison purposes.
func stripConv(t *Term) *Term {
	for t != nil && t.Op == "conv" && len(t.A) == 2 {
		t = t.A[1]
	}
	return t
}

// deepStripConv removes all conversions inside t.
func deepStripConv(t *Term) *Term {
	if t == nil {
		return nil
	}
	t = stripConv(t)
	if t.Op == "" {
		return t
	}
	na := make([]*Term, len(t.A))
	for i, a := range t.A {
		na[i] = deepStripConv(a)
	}
	return &Term{Op: t.Op, A: na, Typ: t.Typ, Obj: t.Obj, Pos: t.Pos}
}

// ---------------------------------------------------------------- facts

// Fact is a (possibly negated) boolean term known on a path.
type Fact struct {
	T   *Term
	Neg bool
}

func (f Fact) String() string {
	if f.Neg {
		return "(! " + f.T.String() + ")"
	}
	return f.T.String()
}

func (f Fact) Not() Fact { return Fact{f.T, !f.Neg} }

func (f Fact) Subst(m map[string]*Term) Fact {
	return normFact(Fact{boolSimplify(f.T.Subst(m)), f.Neg})
}

// SubstAll substitutes and re-decomposes (a substituted conjunction may split).
func (f Fact) SubstAll(m map[string]*Term) []Fact {
	t := boolSimplify(f.T.Subst(m))
	return condFacts(t, !f.Neg)
}

// boolSimplify folds boolean constants introduced by substitution.
func boolSimplify(t *Term) *Term {
	if t == nil || t.Op == "" {
		return t
	}
	switch t.Op {
	case "&&", "||":
		if len(t.A) != 2 {
			return t
		}
		a, b := boolSimplify(t.A[0]), boolSimplify(t.A[1])
		unit, zero := "#true", "#false"
		if t.Op == "||" {
			unit, zero = "#false", "#true"
		}
		switch {
		case a.IsAt(zero) || b.IsAt(zero):
			return atom(zero)
		case a.IsAt(unit):
			return b
		case b.IsAt(unit):
			return a
		}
		return mk(t.Op, a, b)
	case "!":
		a := boolSimplify(t.A[0])
		if a.IsAt("#true") {
			return atom("#false")
		}
		if a.IsAt("#false") {
			return atom("#true")
		}
		return mk("!", a)
	}
	return t
}

// normFact canonicalises comparison operators and polarity.
func normFact(f Fact) Fact {
	t := f.T
	if t == nil {
		return f
	}
	for t.Op == "!" && len(t.A) == 1 {
		t = t.A[0]
		f.Neg = !f.Neg
	}
	switch t.Op {
	case "!=":
		t = mk("==", t.A...)
		f.Neg = !f.Neg
	case ">":
		t = mk("<", t.A[1], t.A[0])
	case ">=":
		t = mk("<", t.A[0], t.A[1])
		f.Neg = !f.Neg
	case "<=":
		t = mk("<", t.A[1], t.A[0])
		f.Neg = !f.Neg
	}
	if t.Op == "==" && len(t.A) == 2 {
		a, b := t.A[0], t.A[1]
		// constants to the right; otherwise order by string
		ac, bc := isConstTerm(a), isConstTerm(b)
		if (ac && !bc) || (ac == bc && a.String() > b.String()) {
			a, b = b, a
		}
		t = mk("==", a, b)
		// boolean equality with constant
		if b.IsAt("#true") {
			t = a
		} else if b.IsAt("#false") {
			t = a
			f.Neg = !f.Neg
		}
		// err == nil  ->  (ok call)
		if b.IsAt("#nil") {
			if c := errSource(a); c != nil {
				t = mk("ok", c)
			}
		}
	}
	// symmetric predicates: arguments in a fixed order (a.Equals(b) and b.Equals(a) are one fact)
	if (t.Op == "sdk.AccAddress.Equals" || t.Op == "bytes.Equal") && len(t.A) == 2 && t.A[0].String() > t.A[1].String() {
		t = &Term{Op: t.Op, A: []*Term{t.A[1], t.A[0]}, Typ: t.Typ, Obj: t.Obj, Pos: t.Pos}
	}
	// 0 < x for an unsigned x is x != 0
	if t.Op == "<" && len(t.A) == 2 && t.A[0].IsAt("#0") && t.A[1].Op != "len" && isUnsigned(t.A[1].Typ) {
		t = mk("==", t.A[1], atom("#0"))
		f.Neg = !f.Neg
	}
	// len(x) tests -> (nonempty x)
	if t.Op == "<" && len(t.A) == 2 {
		a, b := stripConv(t.A[0]), stripConv(t.A[1])
		if a.IsAt("#0") && b.Op == "len" { // 0 < len(x)
			t = mk("nonempty", b.A[0])
		} else if a.Op == "len" && b.IsAt("#1") { // len(x) < 1
			t = mk("nonempty", a.A[0])
			f.Neg = !f.Neg
		}
	}
	if t.Op == "==" && len(t.A) == 2 {
		a, b := stripConv(t.A[0]), stripConv(t.A[1])
		if a.Op == "len" && b.IsAt("#0") {
			t = mk("nonempty", a.A[0])
			f.Neg = !f.Neg
		}
	}
	// s == "" on strings
	if t.Op == "==" && len(t.A) == 2 && t.A[1].IsAt(`#""`) {
		t = mk("nonempty", t.A[0])
		f.Neg = !f.Neg
	}
	// x.Empty() on Coins / AccAddress
	if (t.Op == "sdk.Coins.Empty" || t.Op == "sdk.AccAddress.Empty") && len(t.A) == 1 {
		t = mk("nonempty", t.A[0])
		f.Neg = !f.Neg
	}
	for t.Op == "!" && len(t.A) == 1 {
		t = t.A[0]
		f.Neg = !f.Neg
	}
	if (t.Op == "&&" || t.Op == "||") && len(t.A) >= 2 {
		// negation normal form with flattened, sorted operands: ¬(A ∧ B) and (¬A ∨ ¬B) are one fact
		op := t.Op
		neg := f.Neg
		if neg {
			if op == "&&" {
				op = "||"
			} else {
				op = "&&"
			}
		}
		var parts []*Term
		var collect func(x *Term, negate bool)
		collect = func(x *Term, negate bool) {
			for x.Op == "!" && len(x.A) == 1 {
				x = x.A[0]
				negate = !negate
			}
			src := t.Op
			if (x.Op == "&&" || x.Op == "||") && ((x.Op == src) != (negate != neg)) {
				// same connective after pushing the negation: flatten
				for _, a := range x.A {
					collect(a, negate)
				}
				return
			}
			nf := normFact(Fact{T: x, Neg: negate})
			if nf.Neg {
				parts = append(parts, mk("!", nf.T))
			} else {
				parts = append(parts, nf.T)
			}
		}
		for _, a := range t.A {
			collect(a, neg)
		}
		sort.Slice(parts, func(i, j int) bool { return parts[i].String() < parts[j].String() })
		t = &Term{Op: op, A: parts}
		f.Neg = false
	}
	return Fact{t, f.Neg}
}

// Disjuncts returns the operand fact strings of a disjunction fact (nil otherwise).
func (f Fact) Disjuncts() []string {
	if f.Neg || f.T.Op != "||" {
		return nil
	}
	var out []string
	for _, a := range f.T.A {
		out = append(out, a.String())
	}
	sort.Strings(out)
	return out
}

// normTerm normalises a boolean sub-term (the term form of normFact).
func normTerm(t *Term) *Term {
	f := normFact(Fact{T: t})
	if f.Neg {
		return mk("!", f.T)
	}
	return f.T
}

// conjuncts flattens a normalised conjunction into fact strings.
func conjuncts(t *Term) []string {
	if t.Op == "&&" {
		var out []string
		for _, a := range t.A {
			out = append(out, conjuncts(a)...)
		}
		return out
	}
	return []string{t.String()}
}

func isConstTerm(t *Term) bool {
	return t != nil && t.Op == "" && strings.HasPrefix(t.At, "#")
}

// errSource: if t is the error result of a call, return the call term.
func errSource(t *Term) *Term {
	if t == nil {
		return nil
	}
	if t.Op == "res" && len(t.A) == 2 && isErrorType(t.Typ) {
		return t.A[1]
	}
	if isErrorType(t.Typ) && t.Op != "" && t.Op != "phi" && t.Op != "res" && t.Op != "conv" && !strings.HasPrefix(t.Op, ".") {
		return t // a call returning only an error
	}
	return nil
}

func isErrorType(T types.Type) bool {
	if T == nil {
		return false
	}
	n, ok := types.Unalias(T).(*types.Named)
	return ok && n.Obj().Pkg() == nil && n.Obj().Name() == "error"
}

// condFacts decomposes a boolean term into the facts implied when it
// evaluates to val (DESIGN.md B.1).
func condFacts(t *Term, val bool) []Fact {
	if t == nil {
		return nil
	}
	switch {
	case t.Op == "!" && len(t.A) == 1:
		return condFacts(t.A[0], !val)
	case (t.Op == "&&" && val) || (t.Op == "||" && !val):
		var out []Fact
		for _, a := range t.A {
			out = append(out, condFacts(a, val)...)
		}
		return out
	}
	return []Fact{normFact(Fact{t, !val})}
}

// FactSet is a set of facts keyed by canonical string.
type FactSet map[string]Fact

func (s FactSet) Add(f Fact) { s[f.String()] = f }

func (s FactSet) Has(f Fact) bool { _, ok := s[f.String()]; return ok }

func (s FactSet) Clone() FactSet {
	n := make(FactSet, len(s))
	for k, v := range s {
		n[k] = v
	}
	return n
}

func (s FactSet) Intersect(o FactSet) FactSet {
	n := FactSet{}
	for k, v := range s {
		if _, ok := o[k]; ok {
			n[k] = v
		}
	}
	return n
}

func (s FactSet) Sorted() []string {
	out := make([]string, 0, len(s))
	for k := range s {
		out = append(out, k)
	}
	sort.Strings(out)
	return out
}

// FindFact returns the first fact (in sorted order) whose term matches
// pattern with the requested polarity.
func (s FactSet) FindFact(pattern string, neg bool) (Fact, Bind, bool) {
	pat := parsePat(pattern)
	for _, k := range s.Sorted() {
		f := s[k]
		if f.Neg != neg {
			continue
		}
		b := Bind{}
		if match(pat, f.T, b) {
			return f, b, true
		}
	}
	return Fact{}, nil, false
}

// Holds reports whether the set establishes the boolean term t with the given polarity: first
// syntactically (splitting conjunctions / disjunctions as condFacts does), then by propositional
// entailment over the comparison leaves (so a restated condition — distributed, factored, moved
// into a predicate helper — is recognised).
func (s FactSet) Holds(t *Term, val bool) bool {
	if t == nil {
		return false
	}
	if s.holdsSyntactic(t, val) {
		return true
	}
	return s.entails(t, val)
}

func (s FactSet) holdsSyntactic(t *Term, val bool) bool {
	if t.Op == "!" && len(t.A) == 1 {
		return s.holdsSyntactic(t.A[0], !val)
	}
	if s.Has(normFact(Fact{T: t, Neg: !val})) {
		return true
	}
	all := func(v bool) bool {
		for _, a := range t.A {
			if !s.holdsSyntactic(a, v) {
				return false
			}
		}
		return len(t.A) > 0
	}
	any := func(v bool) bool {
		for _, a := range t.A {
			if s.holdsSyntactic(a, v) {
				return true
			}
		}
		return false
	}
	switch {
	case t.Op == "&&" && val:
		return all(true)
	case t.Op == "||" && !val:
		return all(false)
	case t.Op == "&&" && !val:
		return any(false)
	case t.Op == "||" && val:
		return any(true)
	}
	return false
}

// propLeaves collects the propositional leaves of a boolean term (normalised, polarity-free).
func propLeaves(t *Term, into map[string]*Term) {
	for t.Op == "!" && len(t.A) == 1 {
		t = t.A[0]
	}
	if (t.Op == "&&" || t.Op == "||") && len(t.A) > 0 {
		for _, a := range t.A {
			propLeaves(a, into)
		}
		return
	}
	nf := normFact(Fact{T: t})
	if nf.T.Op == "&&" || nf.T.Op == "||" || nf.T.Op == "!" {
		if nf.T != t {
			propLeaves(nf.T, into)
			return
		}
	}
	k := nf.T.String()
	if old, ok := into[k]; ok && old != nil && termHasObj(old) && !termHasObj(nf.T) {
		return
	}
	into[k] = nf.T
}

func termHasObj(t *Term) bool {
	if t.Op == "==" && len(t.A) == 2 {
		return t.A[1].Obj != nil
	}
	return t.Obj != nil
}

// propEval evaluates a boolean term under an assignment of its leaves.
func propEval(t *Term, asg map[string]bool) bool {
	if t.Op == "!" && len(t.A) == 1 {
		return !propEval(t.A[0], asg)
	}
	if t.Op == "&&" && len(t.A) > 0 {
		for _, a := range t.A {
			if !propEval(a, asg) {
				return false
			}
		}
		return true
	}
	if t.Op == "||" && len(t.A) > 0 {
		for _, a := range t.A {
			if propEval(a, asg) {
				return true
			}
		}
		return false
	}
	if t.IsAt("#true") {
		return true
	}
	if t.IsAt("#false") {
		return false
	}
	nf := normFact(Fact{T: t})
	if nf.T.Op == "&&" || nf.T.Op == "||" {
		return propEval(nf.T, asg) != nf.Neg
	}
	return asg[nf.T.String()] != nf.Neg
}

// entails: every assignment of the leaves that satisfies the facts sharing a leaf with t gives t the value val.
func (s FactSet) entails(t *Term, val bool) bool {
	leaves := map[string]*Term{}
	propLeaves(t, leaves)
	if len(leaves) == 0 {
		return false
	}
	var rel []Fact
	used := map[string]bool{}
	// facts connected to t's leaves (two rounds of closure are enough for the conditions met here)
	for round := 0; round < 2; round++ {
		for _, k := range s.Sorted() {
			if used[k] {
				continue
			}
			f := s[k]
			fl := map[string]*Term{}
			propLeaves(f.T, fl)
			share := false
			for l, lt := range fl {
				if leaves[l] != nil {
					share = true
				}
				// another value of a subject already compared with a constant (the enumeration axioms connect them)
				if lt.Op == "==" && len(lt.A) == 2 && isConstTerm(lt.A[1]) {
					for _, ot := range leaves {
						if ot.Op == "==" && len(ot.A) == 2 && isConstTerm(ot.A[1]) && ot.A[0].Eq(lt.A[0]) {
							share = true
						}
					}
				}
			}
			if !share {
				continue
			}
			used[k] = true
			rel = append(rel, f)
			for l, lt := range fl {
				if old := leaves[l]; old == nil || !termHasObj(old) {
					leaves[l] = lt
				}
			}
		}
	}
	if len(rel) == 0 || len(leaves) > 16 {
		return false
	}
	names := make([]string, 0, len(leaves))
	for l := range leaves {
		names = append(names, l)
	}
	sort.Strings(names)
	// domain axioms: x == c and x == d exclude each other for distinct constants; when every constant of
	// a declared enumeration occurs, one of them holds
	type eqGroup struct {
		leaves []string
		consts []*Term
	}
	groups := map[string]*eqGroup{}
	for _, n := range names {
		lt := leaves[n]
		if lt.Op == "==" && len(lt.A) == 2 && isConstTerm(lt.A[1]) {
			k := lt.A[0].String()
			if groups[k] == nil {
				groups[k] = &eqGroup{}
			}
			groups[k].leaves = append(groups[k].leaves, n)
			groups[k].consts = append(groups[k].consts, lt.A[1])
		}
	}
	domainOK := func(asg map[string]bool) bool {
		for _, g := range groups {
			nTrue := 0
			for i, l := range g.leaves {
				if !asg[l] {
					continue
				}
				nTrue++
				for j := 0; j < i; j++ {
					if asg[g.leaves[j]] {
						if eq, ok := constEq(g.consts[i], g.consts[j]); ok && !eq {
							return false
						}
					}
				}
			}
			if nTrue == 0 && len(g.consts) > 0 {
				if n := enumSize(g.consts[0]); n > 0 && n == len(g.consts) {
					distinct := true
					for i := range g.consts {
						for j := 0; j < i; j++ {
							if eq, ok := constEq(g.consts[i], g.consts[j]); !ok || eq {
								distinct = false
							}
						}
					}
					if distinct {
						return false
					}
				}
			}
		}
		return true
	}
	asg := map[string]bool{}
	sat := false
	for m := 0; m < 1<<uint(len(names)); m++ {
		for i, n := range names {
			asg[n] = m&(1<<uint(i)) != 0
		}
		ok := domainOK(asg)
		for _, f := range rel {
			if !ok {
				break
			}
			if propEval(f.T, asg) == f.Neg {
				ok = false
				break
			}
		}
		if !ok {
			continue
		}
		sat = true
		if propEval(t, asg) != val {
			return false
		}
	}
	return sat
}

func isUnsigned(T types.Type) bool {
	if T == nil {
		return false
	}
	b, ok := T.Underlying().(*types.Basic)
	return ok && b.Info()&types.IsUnsigned != 0
}

func typeUnderlyingBasic(T types.Type) (*types.Basic, bool) {
	if T == nil {
		return nil, false
	}
	b, ok := T.Underlying().(*types.Basic)
	return b, ok
}

// isBoolConst: t is the boolean literal, or a named constant whose value is that boolean.
func isBoolConst(t *Term, want bool) bool {
	t = stripConv(t)
	if t == nil || t.Op != "" {
		return false
	}
	if t.IsAt("#true") {
		return want
	}
	if t.IsAt("#false") {
		return !want
	}
	if k, ok := t.Obj.(*types.Const); ok && k.Val().Kind() == constant.Bool {
		return constant.BoolVal(k.Val()) == want
	}
	return false
}

// sameConstAs: t is the named constant ref (an atom such as "#types.RUNNING"), or another named constant of the same type
// with the same value (an alias introduced for readability).
func sameConstAs(t, ref *Term) bool {
	t, ref = stripConv(t), stripConv(ref)
	if t == nil || ref == nil || t.Op != "" {
		return false
	}
	if t.At == ref.At {
		return true
	}
	k1, ok1 := t.Obj.(*types.Const)
	k2, ok2 := ref.Obj.(*types.Const)
	if ok1 && ok2 && types.Identical(k1.Type(), k2.Type()) {
		return constant.Compare(k1.Val(), token.EQL, k2.Val())
	}
	return false
}

// listElems: the elements of a list value built as a composite literal, or by appends onto one (or onto a made / empty
// slice); ok is false for any other shape (a spread argument, an unknown base).
func listElems(t *Term) ([]*Term, bool) {
	t = stripConv(t)
	if t == nil {
		return nil, false
	}
	switch {
	case t.Op == "lit":
		return t.A[1:], true
	case t.Op == "make" || t.IsAt("zero") || t.IsAt("#nil"):
		return nil, true
	case t.Op == "append" && len(t.A) >= 1:
		base, ok := listElems(t.A[0])
		if !ok {
			return nil, false
		}
		out := append([]*Term{}, base...)
		for _, a := range t.A[1:] {
			if a.Op == "spread" {
				inner, ok := listElems(a.A[0])
				if !ok {
					return nil, false
				}
				out = append(out, inner...)
				continue
			}
			out = append(out, a)
		}
		return out, true
	}
	return nil, false
}

// knownEmptyList / knownNonEmptyList: what a list value is known to be on a path.
func knownEmptyList(t *Term) bool {
	t = stripConv(t)
	if t == nil {
		return false
	}
	switch {
	case t.IsAt("zero") || t.IsAt("#nil"):
		return true
	case t.Op == "lit" && len(t.A) == 1:
		return strings.HasPrefix(t.A[0].At, "[]")
	case t.Op == "make" && len(t.A) >= 2:
		return t.A[1].IsAt("#0")
	}
	return false
}

func knownNonEmptyList(t *Term) bool {
	t = stripConv(t)
	if t == nil {
		return false
	}
	if t.Op == "append" && len(t.A) >= 2 {
		for _, a := range t.A[1:] {
			if a.Op != "spread" {
				return true
			}
		}
		return knownNonEmptyList(t.A[0])
	}
	return t.Op == "lit" && len(t.A) >= 2 && strings.HasPrefix(t.A[0].At, "[]")
}

// isByteSliceTerm: the term is typed []byte (or carries a []byte conversion at its base).
func isByteSliceTerm(t *Term) bool {
	if t.Typ != nil {
		return isByteSlice(t.Typ)
	}
	b := t.A[0]
	if b.Op == "conv" && len(b.A) >= 1 && b.A[0].IsAt("[]byte") {
		return true
	}
	return b.Typ != nil && isByteSlice(b.Typ)
}

// isSliceTypeTerm: a list-valued construction (not a struct literal).
func isSliceTypeTerm(t *Term) bool {
	switch t.Op {
	case "append":
		return true
	case "lit", "make":
		return len(t.A) >= 1 && t.A[0].Op == "" && strings.HasPrefix(t.A[0].At, "[]")
	}
	return false
}
