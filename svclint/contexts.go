package main

// Request-context field discipline (RK9) and lifecycle rules shared by
// C02, C08, C09, C10, C11, C12, C16.

import (
	"fmt"
	"go/token"
	"sort"
	"strings"
)

type ctxWrite struct {
	Fn     *Func
	PP     *PersistPath
	B      *Term // stored value
	L      *Term // base value
	W      map[string]*Term
	Helper bool // base is a parameter (the function modifies the value it was given)
}

func (c *Check) contextWrites() []*ctxWrite {
	if c.cw != nil {
		return c.cw
	}
	units := c.persistUnits("0x08", "RequestContext")
	var fs []*Func
	for f := range units {
		fs = append(fs, f)
	}
	sort.Slice(fs, func(i, j int) bool { return fs[i].Name < fs[j].Name })
	for _, f := range fs {
		for _, pp := range units[f] {
			for _, B := range pp.Stored {
				L := baseOf(B)
				w := &ctxWrite{Fn: f, PP: pp, B: B, L: L, W: writtenFields(B)}
				if L.Op == "" && (strings.HasPrefix(L.At, "P") || strings.HasPrefix(L.At, "U")) {
					w.Helper = true
				}
				// a value returned by a helper keeps the helper's writes (ret summaries are inlined as with-terms)
				c.cw = append(c.cw, w)
			}
		}
	}
	return c.cw
}

var immutableCtxFields = []string{"ServiceName", "Consumer", "Input", "SuperMode", "Repeated", "ModuleName"}
var updatableCtxFields = []string{"ResponseThreshold", "ServiceFeeCap", "Providers", "Timeout", "RepeatedFrequency", "RepeatedTotal"}

func fieldL(w *ctxWrite, f string) *Term { return field("RequestContext", f, w.L) }
func fieldB(w *ctxWrite, f string) *Term { return field("RequestContext", f, w.B) }

func hasEq(fs FactSet, t *Term, c string, neg bool) bool {
	return fs.Has(Fact{T: mk("==", t, atom(c)), Neg: neg})
}

// pauseForFunds: the helper that stores State=PAUSED ∧ BatchState=BATCHCOMPLETED on the value it was given.
func (c *Check) pauseForFundsFn() *Func {
	for _, w := range c.contextWrites() {
		if !w.Helper {
			continue
		}
		if s, ok := w.W["State"]; ok && s.IsAt("#types.PAUSED") {
			if b, ok := w.W["BatchState"]; ok && b.IsAt("#types.BATCHCOMPLETED") {
				return w.Fn
			}
		}
	}
	return nil
}

// completeFn: the helper returning its context with BatchState=BATCHCOMPLETED.
func (c *Check) completeFn() *Func {
	for _, f := range c.handFuncs("keeper") {
		if rt := c.P.retSummary(f); rt != nil {
			if w := writtenFields(rt); len(w) == 1 {
				if b, ok := w["BatchState"]; ok && b.IsAt("#types.BATCHCOMPLETED") {
					return f
				}
			}
		}
		// the same helper written to update the context through a pointer
		for i := range f.Params {
			if os := c.P.outSummary(f, i); os != nil {
				if w := writtenFields(os); len(w) == 1 {
					if b, ok := w["BatchState"]; ok && b.IsAt("#types.BATCHCOMPLETED") {
						return f
					}
				}
			}
		}
	}
	return nil
}

// isZeroHeightOnly: f is reachable only from PrepForZeroHeightGenesis.
func (c *Check) isZeroHeightOnly(f *Func) bool {
	var prep *Func = c.P.FuncNamed("service.PrepForZeroHeightGenesis")
	if prep == nil {
		return false
	}
	reachFrom := func(root *Func) map[*Func]bool {
		seen := map[*Func]bool{}
		var visit func(g *Func)
		visit = func(g *Func) {
			if seen[g] {
				return
			}
			seen[g] = true
			for _, h := range c.P.callees(g) {
				visit(h)
			}
		}
		if root != nil {
			visit(root)
		}
		return seen
	}
	if !reachFrom(prep)[f] {
		return false
	}
	for _, n := range []string{"service.NewHandler", "service.EndBlocker", "service.InitGenesis"} {
		if reachFrom(c.P.FuncNamed(n))[f] {
			return false
		}
	}
	return true
}

// contextFieldRules checks the write inventory; which selects the rule groups.
func (c *Check) contextFieldRules(prefix string, which map[string]bool) {
	ws := c.contextWrites()
	c.Sites += len(ws)
	u := c.feeUnits(prefix)
	if !u.complete() {
		return
	}
	pff := c.pauseForFundsFn()
	cf := c.completeFn()
	if pff == nil || cf == nil {
		c.undecided(prefix+".fields", "helpers", token.NoPos, fmt.Sprintf("pause-for-funds helper found=%v, complete-batch helper found=%v", pff != nil, cf != nil))
		return
	}
	type verdict struct {
		ok     bool
		detail string
		pos    token.Pos
	}
	res := map[string]verdict{}
	put := func(rule, construct string, ok bool, detail string, pos token.Pos) {
		k := rule + "|" + construct
		if old, dup := res[k]; dup && !old.ok {
			return
		}
		if old, dup := res[k]; dup && old.ok && ok {
			return
		}
		res[k] = verdict{ok, detail, pos}
	}
	counts := map[string]int{}
	for _, w := range ws {
		pos := w.PP.Path.RetPos
		creation := w.L.Op == "lit"
		genesis := w.L.Op == "deref" || (w.Helper && len(w.W) == 0)
		if creation || genesis {
			continue
		}
		facts := w.PP.Facts
		zeroHeight := c.isZeroHeightOnly(w.Fn.root())
		// C09.1 immutable fields
		if which["immutable"] {
			for _, f := range immutableCtxFields {
				if v, ok := w.W[f]; ok {
					put(prefix+".immutable", unitConstruct(w.Fn, "write:"+f), false, "immutable context field "+f+" is rewritten with "+shortTerm(v), pos)
				}
			}
			counts["immutable"]++
		}
		// State
		if v, ok := w.W["State"]; ok && which["state"] {
			counts["state"]++
			okv, why := false, ""
			switch {
			case v.IsAt("#types.PAUSED"):
				switch {
				case w.Fn == pff:
					okv, why = true, "pause-for-funds helper (call sites checked separately)"
				case zeroHeight:
					okv, why = true, "zero-height reset"
				default:
					okv = facts.Has(Fact{T: fieldL(w, "Repeated")}) && hasEq(facts, fieldL(w, "State"), "#types.RUNNING", false)
					why = "user pause requires Repeated ∧ State==RUNNING"
				}
			case v.IsAt("#types.RUNNING"):
				okv = hasEq(facts, fieldL(w, "State"), "#types.PAUSED", false)
				why = "start requires State==PAUSED"
			case v.IsAt("#types.COMPLETED"):
				okv = facts.Has(Fact{T: fieldL(w, "Repeated")})
				why = "kill requires Repeated"
			default:
				why = "State is written with " + shortTerm(v)
			}
			put(prefix+".state", unitConstruct(w.Fn, "State="+constName(v)), okv, why, pos)
			// completed is final: no State write on a value known COMPLETED
			if hasEq(facts, fieldL(w, "State"), "#types.COMPLETED", false) {
				put(prefix+".state", unitConstruct(w.Fn, "write-on-completed"), false, "State is rewritten on a context known to be COMPLETED", pos)
			}
		}
		// BatchCounter
		if v, ok := w.W["BatchCounter"]; ok && which["counter"] {
			counts["counter"]++
			okv := v.String() == fmt.Sprintf("(+ %s #1)", fieldL(w, "BatchCounter"))
			put(prefix+".counter", unitConstruct(w.Fn, "BatchCounter"), okv, "BatchCounter is written as load+1: "+shortTerm(v), pos)
			// only in functions that also mark the batch running
			bs, ok2 := w.W["BatchState"]
			put(prefix+".counter", unitConstruct(w.Fn, "BatchCounter-with-batch-start"), ok2 && bs.IsAt("#types.BATCHRUNNING"), "the counter advances only together with BatchState=BATCHRUNNING (issue or skip)", pos)
		}
		// BatchState
		if v, ok := w.W["BatchState"]; ok && which["batchstate"] {
			counts["batchstate"]++
			okv, why := false, ""
			switch {
			case v.IsAt("#types.BATCHRUNNING"):
				_, cnt := w.W["BatchCounter"]
				okv, why = cnt, "BATCHRUNNING is written only while advancing the counter (issue / skip)"
			case v.IsAt("#types.BATCHCOMPLETED"):
				switch {
				case w.Fn == pff:
					okv, why = true, "pause-for-funds helper: no request was issued (call sites checked separately)"
				case zeroHeight:
					okv, why = true, "zero-height reset after refunding all pending requests"
				case w.Fn == u.RF:
					eq := Fact{T: mk("==", mk("+", fieldL(w, "BatchResponseCount"), atom("#1")), fieldL(w, "BatchRequestCount"))}
					okv = facts.Has(normFact(eq))
					why = "respond completes the batch only when BatchResponseCount+1 == BatchRequestCount of the same context"
				case w.Fn == u.EB.Closure:
					okv = hasEq(facts, fieldL(w, "BatchState"), "#types.BATCHCOMPLETED", true)
					why = "expiry completes a batch only if it is not completed yet (after the marker scan)"
				default:
					why = "BATCHCOMPLETED is written outside {complete-on-all-answered, expiry, pause-for-funds, zero-height reset}"
				}
			default:
				why = "BatchState is written with " + shortTerm(v)
			}
			put(prefix+".batchstate", unitConstruct(w.Fn, "BatchState="+constName(v)), okv, why, pos)
		}
		// counts
		if which["counts"] {
			// opening a batch (the counter advances) resets the whole batch bookkeeping in the same stored value
			if _, opens := w.W["BatchCounter"]; opens && !zeroHeight {
				var missing []string
				for _, fld := range []string{"BatchState", "BatchRequestCount", "BatchResponseCount", "BatchResponseThreshold"} {
					if _, ok := w.W[fld]; !ok {
						missing = append(missing, fld)
					}
				}
				put(prefix+".counts", unitConstruct(w.Fn, "batch-open-resets"), len(missing) == 0,
					"a stored value that advances BatchCounter also sets BatchState, BatchRequestCount, BatchResponseCount and BatchResponseThreshold"+condStr(len(missing) > 0, "; not set: "+strings.Join(missing, ", ")), pos)
			}
			if v, ok := w.W["BatchRequestCount"]; ok && !zeroHeight && w.Fn != pff {
				counts["counts"]++
				_, issue := w.W["BatchCounter"]
				okv := false
				d := ""
				issuesRequests := w.Fn == u.BS
				for _, e := range c.P.SummaryOf(w.Fn).Effs {
					if e.Kind == "store" && e.Op == "Set" && e.Family == "0x13" {
						issuesRequests = true
					}
				}
				if issuesRequests {
					// the number of providers the loop issues to
					okv = v.Op == "conv" && len(v.A) == 2 && v.A[1].Op == "len" && len(v.A[1].A) == 1 && isParamTerm(v.A[1].A[0]) && isAddrSlice(v.A[1].A[0].Typ)
					d = "BatchRequestCount = len(issued provider list): " + shortTerm(v)
				} else {
					okv = issue && (stripConv(v).IsAt("#0") || v.IsAt("zero"))
					d = "a skipped batch records 0 requests: " + shortTerm(v)
				}
				put(prefix+".counts", unitConstruct(w.Fn, "BatchRequestCount"), okv, d, pos)
			}
			if v, ok := w.W["BatchResponseCount"]; ok && !zeroHeight && w.Fn != pff {
				counts["counts"]++
				okv := false
				if w.Fn == u.RF {
					okv = v.String() == fmt.Sprintf("(+ %s #1)", fieldL(w, "BatchResponseCount"))
				} else {
					_, issue := w.W["BatchCounter"]
					okv = issue && v.IsAt("#0")
				}
				put(prefix+".counts", unitConstruct(w.Fn, "BatchResponseCount"), okv, "BatchResponseCount is reset to 0 at batch start and incremented by one per accepted response: "+shortTerm(v), pos)
			}
			if v, ok := w.W["BatchResponseThreshold"]; ok {
				put(prefix+".counts", unitConstruct(w.Fn, "BatchResponseThreshold"), v.Eq(fieldL(w, "ResponseThreshold")), "the batch threshold is copied from the context's ResponseThreshold: "+shortTerm(v), pos)
			}
		}
		// updatable fields
		if which["update"] {
			anyUpd := false
			for _, f := range updatableCtxFields {
				if _, ok := w.W[f]; ok {
					anyUpd = true
				}
			}
			if anyUpd {
				counts["update"]++
				put(prefix+".update", unitConstruct(w.Fn, "not-completed"), hasEq(facts, fieldL(w, "State"), "#types.COMPLETED", true),
					"updatable fields are written only under State ≠ COMPLETED", pos)
				tv, tw := w.W["Timeout"]
				fv, fw := w.W["RepeatedFrequency"]
				// rewriting a field with its own stored value is not a change
				tw = tw && !tv.Eq(fieldL(w, "Timeout"))
				fw = fw && !fv.Eq(fieldL(w, "RepeatedFrequency"))
				// a negative timeout argument is excluded by stateless validation (C10.3 checks the validator)
				for _, fa := range facts {
					if fa.Neg && fa.T.Op == "<" && fa.T.A[0].IsAt("#0") && isParamTerm(fa.T.A[1]) && !isUnsigned(fa.T.A[1].Typ) {
						if facts.Has(Fact{T: mk("==", fa.T.A[1], atom("#0")), Neg: true}) {
							tw, fw = false, false
						}
					}
				}
				if tw || fw {
					fr, to := fieldB(w, "RepeatedFrequency"), fieldB(w, "Timeout")
					need := normFact(Fact{T: mk("<", fr, mk("conv", atom("uint64"), to)), Neg: true})
					put(prefix+".update", unitConstruct(w.Fn, "frequency>=timeout"), facts.Has(need),
						"the stored RepeatedFrequency and Timeout satisfy frequency ≥ timeout (checked on the values that are stored): "+need.String(), pos)
				}
				if v, ok := w.W["RepeatedTotal"]; ok {
					need := Fact{T: mk("&&", normTerm(mk(">=", v, atom("#1"))), normTerm(mk("<", v, mk("conv", atom("int64"), fieldL(w, "BatchCounter"))))), Neg: true}
					put(prefix+".update", unitConstruct(w.Fn, "total>=counter"), facts.Has(need) || facts.Has(normFact(need)),
						"a positive new RepeatedTotal is not below the current BatchCounter", pos)
				}
			}
		}
		// any other field
		if which["immutable"] {
			known := map[string]bool{"State": true, "BatchCounter": true, "BatchState": true, "BatchRequestCount": true, "BatchResponseCount": true, "BatchResponseThreshold": true}
			for _, f := range updatableCtxFields {
				known[f] = true
			}
			for _, f := range immutableCtxFields {
				known[f] = true
			}
			for f := range w.W {
				if !known[f] {
					put(prefix+".immutable", unitConstruct(w.Fn, "write:"+f), false, "write of an unclassified context field "+f, pos)
				}
			}
		}
	}
	var keys []string
	for k := range res {
		keys = append(keys, k)
	}
	sort.Strings(keys)
	for _, k := range keys {
		v := res[k]
		parts := strings.SplitN(k, "|", 2)
		c.req(v.ok, parts[0], parts[1], v.pos, v.detail)
	}
	for g := range which {
		c.req(counts[g] >= 1, prefix+"."+g, "writes-seen:"+g, token.NoPos, fmt.Sprintf("%d stored context values examined for rule group %s", counts[g], g))
	}
	// helper call sites
	if which["state"] || which["batchstate"] {
		c.helperCallSites(prefix, pff, u)
	}
}

// helperCallSites: the pause-for-funds helper is called only on the pay-failure edge of the new-batch handler.
func (c *Check) helperCallSites(prefix string, pff *Func, u *feeUnits) {
	n := 0
	for _, f := range c.handFuncs("keeper", "service") {
		for _, pa := range c.P.PathsOf(f) {
			for i, ev := range pa.Events {
				if ev.Kind != EvCall || ev.CI.fn != pff {
					continue
				}
				n++
				ok := false
				// the handler itself, or the function the handler has handed its decisions to (walked in place there)
				if f == u.NB.Closure || c.P.forceSplice[u.NB.Closure][f] {
					for _, fa := range pa.FactsBefore(i) {
						if fa.Neg && fa.T.Op == "ok" {
							// the failed call is the escrow credit
							if g := c.P.FuncNamed(fa.T.A[0].Op); g != nil {
								for _, e := range c.P.SummaryOf(g).Effs {
									if isEscrowCredit(e) {
										ok = true
									}
								}
							}
						}
					}
				}
				c.req(ok, prefix+".state", unitConstruct(f, "calls-pause-for-funds"), ev.Pos,
					"the helper that stores State=PAUSED ∧ BatchState=COMPLETED is called only on the failed-credit edge of the new-batch handler (no request of the batch can be pending)")
				// the context it pauses is the one the handler loaded: no batch has been opened on it (a context paused
				// with its counter already advanced loses a batch it never issued)
				for _, a := range ev.CI.args {
					if namedStruct(a.Typ) != "RequestContext" && a.Op != "with" {
						continue
					}
					wf := writtenFields(stripAddr(a))
					_, adv := wf["BatchCounter"]
					c.req(!adv, prefix+".state", unitConstruct(f, "pauses-unadvanced-context"), ev.Pos,
						"the context handed to the pause-for-funds helper has not been advanced to the next batch")
				}
			}
		}
	}
	c.req(n >= 1, prefix+".state", "pause-for-funds-call-sites", token.NoPos, fmt.Sprintf("%d call sites", n))
}

// batchStateInventory is the C02/C12 view of the same table.
func (c *Check) batchStateInventory(prefix string) {
	c.contextFieldRules(prefix, map[string]bool{"batchstate": true})
}

// updatesTakeEffect: an accepted update changes what it was asked to change. For the function that stores the updatable
// fields of a context from its own parameters (found by those writes), on every committed path and for every such
// (field, parameter) pair: either the path has established that the parameter was left empty / zero ("not provided"), or
// the context stored on that path carries the parameter in that field. A committed path that returns without storing,
// or stores the old value, while the parameter may have been provided, drops an accepted update (a fee cap that was
// lowered but keeps being applied, a provider list that was narrowed but keeps being used).
func (c *Check) updatesTakeEffect(rule string) {
	pairs := map[*Func]map[string]*Term{}
	for _, w := range c.contextWrites() {
		if w.L.Op == "lit" || w.Helper {
			continue
		}
		for _, f := range []string{"ServiceFeeCap", "Providers", "Timeout", "RepeatedFrequency", "RepeatedTotal"} {
			if v, ok := w.W[f]; ok {
				v = stripConv(stripSpread(v))
				if v.Op == "" && strings.HasPrefix(v.At, "P") {
					if pairs[w.Fn] == nil {
						pairs[w.Fn] = map[string]*Term{}
					}
					pairs[w.Fn][f] = v
				}
			}
		}
	}
	var fs []*Func
	for f, m := range pairs {
		if len(m) >= 3 {
			fs = append(fs, f)
		}
	}
	sort.Slice(fs, func(i, j int) bool { return fs[i].Name < fs[j].Name })
	if len(fs) == 0 {
		c.undecided(rule, "update-function", token.NoPos, "no function stores at least three updatable context fields from its own parameters")
		return
	}
	for _, f := range fs {
		var fields []string
		for k := range pairs[f] {
			fields = append(fields, k)
		}
		sort.Strings(fields)
		bad := map[string]token.Pos{}
		badSrc := map[string]string{}
		badSrcPos := map[string]token.Pos{}
		nPaths := 0
		for _, pa := range c.P.PathsOf(f) {
			if pa.Exit != ExitSuccess {
				continue
			}
			nPaths++
			af := pa.AllFacts()
			var stored *Term
			for _, e := range c.pathEffects(f, pa) {
				if e.Kind == "store" && e.Op == "Set" && e.Family == "0x08" && e.Val != nil {
					if sv := structIn(e.Val, "RequestContext"); sv != nil {
						stored = sv
					}
				}
			}
			// whatever is stored in an updatable field is the caller's value for that field or the field's own old value
			// (a kept threshold taken from the batch's snapshot silently reverts an earlier accepted change)
			if stored != nil {
				L := baseOf(stored)
				for _, fld := range updatableCtxFields {
					v := stripConv(stripSpread(field("RequestContext", fld, stored)))
					old := stripConv(field("RequestContext", fld, L))
					isParam := v.Op == "" && strings.HasPrefix(v.At, "P")
					// ... or a value computed from those two alone (a list with duplicates removed): it mentions one of them
					// and no other field of the stored record
					derived := false
					if !(isParam || v.Eq(old)) {
						mentions, foreign := false, false
						v.Walk(func(t *Term) bool {
							if t.Eq(old) {
								mentions = true
								return false
							}
							if t.Op == "" && strings.HasPrefix(t.At, "P") {
								mentions = true
							}
							if strings.HasPrefix(t.Op, ".RequestContext.") && t.Op != ".RequestContext."+fld {
								foreign = true
							}
							return true
						})
						derived = mentions && !foreign
					}
					if !(isParam || v.Eq(old) || derived) {
						if _, dup := badSrc[fld]; !dup {
							badSrc[fld] = "stored " + fld + " = " + shortTerm(v)
							badSrcPos[fld] = pa.RetPos
						}
					}
				}
			}
			for _, fld := range fields {
				p := pairs[f][fld]
				notProvided := af.Holds(mk("nonempty", p), false) || af.Holds(mk("==", p, atom("#0")), true) || af.Holds(mk("sdk.Coins.Empty", p), true)
				// a signed argument that is not positive: zero is "not provided", a negative value is excluded by stateless validation (C10.3 decides that validator)
				if !notProvided && !isUnsigned(p.Typ) && af.Holds(mk("<", atom("#0"), p), false) {
					notProvided = true
				}
				if notProvided {
					continue
				}
				if stored != nil && stripConv(stripSpread(field("RequestContext", fld, stored))).Eq(p) {
					continue
				}
				if _, dup := bad[fld]; !dup {
					bad[fld] = pa.RetPos
				}
			}
		}
		for _, fld := range updatableCtxFields {
			why, isBad := badSrc[fld]
			pos := f.Body.Pos()
			if isBad {
				pos = badSrcPos[fld]
			}
			c.req(!isBad, rule, unitConstruct(f, "update-source:"+fld), pos,
				"the stored "+fld+" is the caller's value for it or its own previous value"+condStr(isBad, ": "+why))
		}
		c.Sites += nPaths * len(fields)
		for _, fld := range fields {
			pos, isBad := bad[fld]
			if !isBad {
				pos = f.Body.Pos()
			}
			c.req(!isBad, rule, unitConstruct(f, "update-takes-effect:"+fld), pos,
				"on every committed path the new "+fld+" is stored unless the path has established that none was given"+condStr(isBad, ": a committed path ends at "+c.pos(pos)+" without storing the given value"))
		}
	}
}

// constructorRules: what the function that stores a newly built request context guarantees about the stored value.
//
//	frequency (C10/C11): a repeated context is stored with a usable frequency — on every committed path that has established
//	  Repeated, the stored RepeatedFrequency is either established non-zero or is the stored Timeout itself (the documented
//	  default); a zero frequency schedules the next batch in the past and the context is never processed again;
//	callbacks (C12/C20): a context with an owning module is stored only on paths that have established that the module has
//	  registered BOTH callbacks (response and state) — block processing calls them without a nil test.
func (c *Check) constructorRules(rule string, which map[string]bool) {
	var respG, stateG *Func
	for _, f := range c.handFuncs("keeper") {
		if len(f.Res) == 2 && f.Body != nil {
			switch typeName(f.Res[0].Type()) {
			case "types.ResponseCallback":
				respG = f
			case "types.StateCallback":
				stateG = f
			}
		}
	}
	n := 0
	for _, w := range c.contextWrites() {
		if w.L.Op != "lit" {
			continue
		}
		n++
		facts := c.closeFacts(w.PP.Facts)
		if which["frequency"] {
			R, F, T := fieldB(w, "Repeated"), stripConv(fieldB(w, "RepeatedFrequency")), stripConv(fieldB(w, "Timeout"))
			repeated := facts.Holds(R, true) || R.IsAt("#true")
			if repeated {
				ok := F.Eq(T) || facts.Holds(mk("==", F, atom("#0")), false) || facts.Holds(mk("<", atom("#0"), F), true)
				c.req(ok, rule, unitConstruct(w.Fn, "repeated-frequency-usable"), w.PP.Path.RetPos,
					"a repeated context is stored with a frequency the path has established to be non-zero, or with its timeout as the default: RepeatedFrequency = "+shortTerm(F))
			}
		}
		if which["callbacks"] {
			M := fieldB(w, "ModuleName")
			if facts.Holds(mk("nonempty", M), true) {
				if respG == nil || stateG == nil {
					c.undecided(rule, "callback-getters", token.NoPos, "functions returning the registered response / state callback not found")
				} else {
					okR := facts.Holds(mk("ok", mk(respG.Name, M)), true)
					okS := facts.Holds(mk("ok", mk(stateG.Name, M)), true)
					c.req(okR && okS, rule, unitConstruct(w.Fn, "module-callbacks-registered"), w.PP.Path.RetPos,
						fmt.Sprintf("a context with an owning module is stored only after both of the module's callbacks were found registered (response: %v, state: %v)", okR, okS))
				}
			}
		}
	}
	c.req(n >= 1, rule, "constructor-paths", token.NoPos, fmt.Sprintf("%d committed paths store a newly built context", n))
}
