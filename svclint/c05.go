package main

// C05 — only the rightful party can act; a message debits only its signer.

import (
	"fmt"
	"go/token"
	"strings"
)

func init() {
	rules["C05"] = ruleC05
	explanations["C05"] = "For every message type (exhaustive over sdk.Msg implementations and handler cases) the handler's effect summary is computed " +
		"interprocedurally in the handler's own vocabulary (message fields). Every state-changing effect must be dominated by the authority fact of its class " +
		"(owner of the stored binding / owner of the provider / consumer of the stored context and no owning module / designated provider of the stored request / " +
		"bind: provider unowned or owned by the signer, service not reserved by a module), and every transfer out of an ordinary account must have the message signer " +
		"(or, at end of block, the consumer of the context dequeued from the new-batch queue) as payer. Decides the guard structure on all paths; bank-side authority is A-SDK."
}

// getterByFamily: the keeper function that only reads one record of the family by key.
func (c *Check) getterByFamily(fam string) *Func {
	var best *Func
	for _, f := range c.handFuncs("keeper") {
		if f.Obj == nil {
			continue
		}
		effs := c.P.SummaryOf(f).Effs
		n := 0
		ok := true
		for _, e := range effs {
			if e.Kind == "emit" {
				continue
			}
			n++
			if !(e.Kind == "store" && e.Op == "Get" && e.Family == fam && len(e.Chain) == 0) {
				ok = false
			}
		}
		if ok && n == 1 {
			if best == nil || f.Name < best.Name {
				best = f
			}
		}
	}
	return best
}

// getterByType: the read-only keeper function returning (T, bool) for a state struct T.
func (c *Check) getterByType(typ string) *Func {
	var best *Func
	for _, f := range c.handFuncs("keeper") {
		if f.Obj == nil || len(f.Res) != 2 || namedStruct(f.Res[0].Type()) != typ {
			continue
		}
		mut, gets, iters := false, 0, 0
		for _, e := range c.P.SummaryOf(f).Effs {
			if e.Mutates() {
				mut = true
			}
			if e.Kind == "store" && e.Op == "Get" {
				gets++
			}
			if e.Kind == "store" && e.Op == "Iter" {
				iters++
			}
		}
		if !mut && gets > 0 && iters == 0 {
			if best == nil || f.Name < best.Name {
				best = f
			}
		}
	}
	return best
}

// equalsFact looks for Equals(a,b) in either argument order with positive polarity.
func equalsFact(fs FactSet, a, b string) bool {
	for _, f := range fs {
		if f.Neg || f.T.Op != "sdk.AccAddress.Equals" || len(f.T.A) != 2 {
			continue
		}
		x, y := f.T.A[0].String(), f.T.A[1].String()
		if (x == a && y == b) || (x == b && y == a) {
			return true
		}
	}
	return false
}

func (c *Check) mutating(sum *Summary) []*Eff {
	var out []*Eff
	for _, e := range sum.Effs {
		if e.Mutates() && e.Commit {
			out = append(out, e)
		}
	}
	return out
}

func effConstruct(unit string, e *Eff) string {
	return unit + ":" + effDesc(e) + "@" + chainStr(e)
}

func ruleC05(c *Check) {
	c.assume("A-SDK: ValidateBasic runs before the handler; a failing message leaves no state behind")
	// the owner records that the authority checks consult exist for every binding, also for one that came in through genesis
	c.genesisBindingSetter("C05.9")
	ents := c.entries("C05.1")
	// C05.1 exhaustiveness and signer fields
	have := map[string]*Entry{}
	for _, e := range ents {
		have[e.Msg] = e
	}
	msgs := c.msgTypes()
	c.req(len(msgs) >= 1 && len(ents) >= 1, "C05.1", "message-table", token.NoPos, fmt.Sprintf("%d message types, %d handler cases", len(msgs), len(ents)))
	for _, m := range msgs {
		e := have[m]
		if !c.req(e != nil, "C05.1", m+"#handled", token.NoPos, "message type has a handler case") {
			continue
		}
		c.req(e.Signer != "" && e.MsgArg != "", "C05.1", m+"#signer", e.Pos, "single signer field: "+e.Signer)
	}
	for _, e := range ents {
		found := false
		for _, m := range msgs {
			if m == e.Msg {
				found = true
			}
		}
		c.req(found, "C05.1", e.Msg+"#is-msg", e.Pos, "handler case is an sdk.Msg of package types")
	}
	c.setInfo("entries", len(ents))

	gBinding := c.getterByType("ServiceBinding")
	gContext := c.getterByType("RequestContext")
	gRequest := c.getterByType("Request")
	gOwner := c.getterByFamily("0x04")
	for n, g := range map[string]*Func{"binding": gBinding, "context": gContext, "request": gRequest, "owner": gOwner} {
		if g == nil {
			c.undecided("C05.1", "getter:"+n, token.NoPos, "no read-only getter found for "+n)
		}
	}
	if gBinding == nil || gContext == nil || gRequest == nil || gOwner == nil {
		return
	}

	for _, en := range ents {
		sum := c.P.SummaryOf(en.Handler)
		muts := c.mutating(sum)
		c.Sites += len(sum.Effs)
		S := en.SignerTerm()
		switch en.Msg {
		case "MsgUpdateServiceBinding", "MsgDisableServiceBinding", "MsgEnableServiceBinding", "MsgRefundServiceDeposit":
			load := fmt.Sprintf("(res 0 (%s %s %s))", gBinding.Name, en.Field("ServiceName"), en.Field("Provider"))
			found := fmt.Sprintf("(res 1 (%s %s %s))", gBinding.Name, en.Field("ServiceName"), en.Field("Provider"))
			owner := "(.ServiceBinding.Owner " + load + ")"
			c.req(len(muts) > 0, "C05.2", en.Msg+"#effects", en.Pos, fmt.Sprintf("%d state-changing effects", len(muts)))
			for _, e := range muts {
				g := c.closeFacts(e.Guards)
				_, f1 := hasFact(g, found, false)
				ok := equalsFact(g, S, owner) && f1
				c.req(ok, "C05.2", effConstruct(en.Msg, e), e.Pos, "dominated by found ∧ Equals(signer "+en.Signer+", stored binding.Owner)")
			}
		case "MsgWithdrawEarnedFees":
			c.withdrawAuthority("C05.3", en, gOwner)
		case "MsgPauseRequestContext", "MsgStartRequestContext", "MsgKillRequestContext", "MsgUpdateRequestContext":
			load := fmt.Sprintf("(res 0 (%s %s))", gContext.Name, en.Field("RequestContextId"))
			consumer := "(.RequestContext.Consumer " + load + ")"
			module := "(nonempty (.RequestContext.ModuleName " + load + "))"
			c.req(len(muts) > 0, "C05.4", en.Msg+"#effects", en.Pos, fmt.Sprintf("%d state-changing effects", len(muts)))
			for _, e := range muts {
				g := c.closeFacts(e.Guards)
				_, noModule := hasFact(g, module, true)
				ok := equalsFact(g, S, consumer) && noModule
				c.req(ok, "C05.4", effConstruct(en.Msg, e), e.Pos, "dominated by Equals(signer, stored context.Consumer) ∧ context has no owning module")
			}
		case "MsgRespondService":
			load := fmt.Sprintf("(res 0 (%s %s))", gRequest.Name, en.Field("RequestId"))
			provider := "(.Request.Provider " + load + ")"
			c.req(len(muts) > 0, "C05.5", en.Msg+"#effects", en.Pos, fmt.Sprintf("%d state-changing effects", len(muts)))
			for _, e := range muts {
				g := c.closeFacts(e.Guards)
				c.req(equalsFact(g, S, provider), "C05.5", effConstruct(en.Msg, e), e.Pos, "dominated by Equals(signer, stored request.Provider)")
			}
		case "MsgBindService":
			prov := en.Field("Provider")
			cur := fmt.Sprintf("(res 0 (%s %s))", gOwner.Name, prov)
			curFound := fmt.Sprintf("(res 1 (%s %s))", gOwner.Name, prov)
			c.req(len(muts) > 0, "C05.6", en.Msg+"#effects", en.Pos, fmt.Sprintf("%d state-changing effects", len(muts)))
			for _, e := range muts {
				g := c.closeFacts(e.Guards)
				ok := false
				for _, f := range g {
					// ¬(found ∧ ¬Equals(signer, currentOwner)) in normal form: ¬found ∨ Equals(signer, currentOwner)
					ds := f.Disjuncts()
					if len(ds) != 2 {
						continue
					}
					hasNF, hasEq := false, false
					for _, d := range ds {
						if d == "(! "+curFound+")" {
							hasNF = true
						}
						if d == "(sdk.AccAddress.Equals "+S+" "+cur+")" || d == "(sdk.AccAddress.Equals "+cur+" "+S+")" {
							hasEq = true
						}
					}
					if hasNF && hasEq {
						ok = true
					}
				}
				// or the positive forms: not found, or Equals
				if _, nf := hasFact(g, curFound, true); nf {
					ok = true
				}
				if equalsFact(g, S, cur) {
					ok = true
				}
				c.req(ok, "C05.6", effConstruct(en.Msg, e), e.Pos, "dominated by ¬(provider has an owner ∧ owner ≠ signer), owner looked up for the message's provider")
				reserved := false
				for _, f := range g {
					if f.Neg && f.T.Op == "res" && f.T.ContainsOp("keeper.Keeper.GetModuleServiceByServiceName") && f.T.Contains(parseTerm(en.Field("ServiceName"))) {
						reserved = true
					}
					// or through a bool wrapper that returns the lookup's found-result for the name it is given
					if f.Neg && len(f.T.A) == 1 && f.T.A[0].Eq(parseTerm(en.Field("ServiceName"))) {
						if g := c.P.FuncNamed(f.T.Op); g != nil && g.Body != nil && len(g.Res) == 1 && typeName(g.Res[0].Type()) == "bool" {
							if ps := c.P.PathsOf(g); len(ps) == 1 && len(ps[0].Ret) == 1 {
								r := stripConv(ps[0].Ret[0])
								if r.Op == "res" && r.ContainsOp("keeper.Keeper.GetModuleServiceByServiceName") && !r.A[0].IsAt("0") && !r.A[0].IsAt("1") {
									reserved = true
								}
							}
						}
					}
				}
				c.req(reserved, "C05.6", effConstruct(en.Msg, e)+"#module", e.Pos, "dominated by: the service is not reserved by a module")
			}
		case "MsgSetWithdrawAddress":
			n := 0
			for _, e := range muts {
				if e.Kind == "store" && e.Op == "Set" && e.Family == "0x07" {
					n++
					key := stripConv(stripSpread(e.Key))
					ok := len(key.A) == 1 && key.A[0].String() == S
					c.req(ok, "C05.8", effConstruct(en.Msg, e), e.Pos, "withdraw-address record is keyed by the signer: "+shortTerm(e.Key))
				} else {
					c.fail("C05.8", effConstruct(en.Msg, e), e.Pos, "unexpected state change in set-withdraw-address")
				}
			}
			c.req(n == 1, "C05.8", en.Msg+"#effects", en.Pos, fmt.Sprintf("%d withdraw-address writes", n))
		default:
			c.ok("C05.1", en.Msg+"#class", en.Pos, "creation message: no pre-existing owner (define: C15.1; call: payer rule C05.7)")
		}
		// C05.7 payer
		for _, e := range sum.Effs {
			if e.Kind != "bank" || !e.Commit {
				continue
			}
			switch e.Op {
			case "SendCoinsFromAccountToModule":
				c.req(e.From.String() == S || equalsFact(c.closeFacts(e.Guards), S, e.From.String()), "C05.7", effConstruct(en.Msg, e), e.Pos, "payer "+shortTerm(e.From)+" is the signer "+en.Signer)
			case "SendCoinsFromModuleToAccount", "SendCoinsFromModuleToModule", "BurnCoins":
				// lowers only module accounts
				c.req(isConstTerm(e.From), "C05.7", effConstruct(en.Msg, e), e.Pos, "debits module account "+shortTerm(e.From))
			default:
				c.fail("C05.7", effConstruct(en.Msg, e), e.Pos, "unexpected bank operation "+e.Op)
			}
		}
	}
	// end-block payer
	if eb := c.mustFn("C05.7", "service.EndBlocker"); eb != nil {
		sum := c.P.SummaryOf(eb)
		n := 0
		for _, e := range sum.Effs {
			if e.Kind != "bank" {
				continue
			}
			n++
			if e.Op == "SendCoinsFromAccountToModule" {
				b, ok := e.From.Match("(.RequestContext.Consumer (res 0 (" + gContext.Name + " $ID)))")
				fromQueue := ok && c.P.scansFamily(b["$ID"], "0x10")
				c.req(fromQueue, "C05.7", effConstruct("EndBlocker", e), e.Pos, "payer "+shortTerm(e.From)+" is the consumer of the context dequeued from the new-batch queue")
			} else {
				c.req(isConstTerm(e.From), "C05.7", effConstruct("EndBlocker", e), e.Pos, "debits module account "+shortTerm(e.From))
			}
		}
		c.req(n > 0, "C05.7", "EndBlocker#bank", eb.Body.Pos(), fmt.Sprintf("%d bank effects at end of block", n))
	}
	// end-of-block lowers a consumer's balance only together with issuing its batch in that block
	c.newBatchRules("C05.7", map[string]bool{"credit-without-obligation": true, "skip-with-charge": true})
	c.handlerAddressArgs("C05.8")
	c.ownerRecordsStable("C05.6")
	c.exhaustiveLookup("C05.6")
	c.addressRoles("C05.7")
	c.issueLoopOverList("C05.5")
}

func effMentions(e *Eff, term string) bool {
	t := parseTerm(term)
	for _, x := range []*Term{e.Key, e.Val, e.From, e.To, e.Amount} {
		if x != nil && x.Contains(t) {
			return true
		}
	}
	for _, a := range e.Args {
		if a.Contains(t) {
			return true
		}
	}
	return false
}

var _ = strings.Contains

// withdrawAuthority (C05.3, C13.3): a withdrawal that names a provider touches that provider's records only if the
// provider has a stored owner and the signer is that owner; owner-keyed records are addressed by the signer.
func (c *Check) withdrawAuthority(rule string, en *Entry, gOwner *Func) {
	sum := c.P.SummaryOf(en.Handler)
	muts := c.mutating(sum)
	S := en.SignerTerm()
	prov := en.Field("Provider")
	owner := fmt.Sprintf("(res 0 (%s %s))", gOwner.Name, prov)
	found := fmt.Sprintf("(res 1 (%s %s))", gOwner.Name, prov)
	for _, e := range muts {
		g := c.closeFacts(e.Guards)
		mentionsProv := effMentions(e, prov)
		if mentionsProv {
			c.req(equalsFact(g, S, owner), rule, effConstruct(en.Msg, e), e.Pos, "effect on the named provider's records is dominated by Equals(signer, stored owner of the provider)")
			if len(gOwner.Res) == 2 {
				// an address without an owner record owns nothing: its "records" are other providers' (prefix scans)
				_, f1 := hasFact(g, found, false)
				ownerNonEmpty := false
				for _, fa := range g {
					if !fa.Neg && fa.T.Op == "nonempty" && fa.T.A[0].String() == owner {
						ownerNonEmpty = true
					}
					if fa.Neg && strings.HasSuffix(fa.T.Op, "AccAddress.Empty") && len(fa.T.A) == 1 && fa.T.A[0].String() == owner {
						ownerNonEmpty = true
					}
				}
				// Equals(signer, owner) with a valid (non-empty) signer implies a stored owner as well
				c.req(f1 || ownerNonEmpty || equalsFact(g, S, owner), rule, effConstruct(en.Msg, e)+"#owned", e.Pos, "the named provider has a stored owner")
			}
		} else {
			c.ok(rule, effConstruct(en.Msg, e), e.Pos, "owner-wide effect (does not name the message's provider)")
		}
		// owner-keyed accesses use the signer
		if e.Kind == "store" && (e.Family == "0x19" || e.Family == "0x05" || e.Family == "0x07") {
			c.req(effMentions(e, S), rule, effConstruct(en.Msg, e)+"#key", e.Pos, "owner-keyed record is addressed by the signer: "+shortTerm(e.Key))
		}
	}
	c.req(len(muts) > 0, rule, en.Msg+"#effects", en.Pos, fmt.Sprintf("%d state-changing effects", len(muts)))
}
