package main

// C15 — definitions and bindings are unique, stable and consistently indexed.
// C17 — queries return exactly the stored state.

import (
	"fmt"
	"go/ast"
	"go/token"
	"go/types"
	"os"
	"sort"
	"strings"
)

func init() {
	rules["C15"] = ruleC15
	rules["C17"] = ruleC17
	explanations["C15"] = "Decides: definitions are stored only by the create message under not-found and by genesis, never deleted or rewritten; the message validators cover the record validators field for field and the stored " +
		"record is built from the message fields unmodified; bind is dominated by definition found ∧ binding not found ∧ owner consistent; ServiceName/Provider/Owner of a binding are never rewritten; owner records are written only " +
		"when the provider has no owner (and by genesis) and nothing in families 0x01–0x06 is deleted; every stored pricing text is paired with the parsed pricing of that text; create writes primary + owner index + pricing " +
		"(+ owner maps) and the genesis setter covers the same families; records are stored under keys built from their own fields; listing scans are exact (key grammar). JSON-schema validity is not decided."
	explanations["C17"] = "Decides: the gRPC query methods and the legacy routes are in bijection by effect signature (operation, key family, builder, request-field roles feeding each key parameter); every query entry is " +
		"read-only transitively; GetRequest reconstructs each field from the right source; request ids are length-checked before the lookup on both sides; scanned families are exact sub-spaces (key grammar). " +
		"Marshalled bytes and pagination are not decided."
}

func ruleC15(c *Check) {
	c.addressRoles("C15.9")
	c.bindOwnerGuard("C15.3")
	c.indexEntriesCarryNoRecord("C15.11")
	c.genesisImportValidates("C15.12")
	c.genesisCoverage("C15.13")
	// stored price terms correspond to the pricing text also for a price of zero (kept as an explicit zero coin)
	c.priceNonEmpty("C15.14", c.handFuncs("keeper"))
	// the module's own pricing rule (ordered, disjoint promotions) is enforced for every stored binding
	c.tiersOrdered("C15.15")
	c.windowsDisjoint("C15.15")
	c.genesisImportsAll("C15.13")
	ents := map[string]*Entry{}
	for _, e := range c.entries("C15.1") {
		ents[e.Msg] = e
	}
	gDef := c.getterByType("ServiceDefinition")
	gBinding := c.getterByType("ServiceBinding")
	gOwner := c.getterByFamily("0x04")
	if gDef == nil || gBinding == nil || gOwner == nil {
		c.undecided("C15.1", "getters", token.NoPos, "definition / binding / owner getters not found")
		return
	}
	// C15.1 definitions: writers and guards
	nSet := 0
	for name, en := range ents {
		for _, e := range c.P.SummaryOf(en.Handler).Effs {
			if e.Kind != "store" || !e.Commit {
				continue
			}
			if e.Family == "0x01" && (e.Op == "Set" || e.Op == "Delete") {
				nSet++
				ok := name == "MsgDefineService" && e.Op == "Set"
				if ok {
					_, nf := hasFact(e.Guards, fmt.Sprintf("(res 1 (%s %s))", gDef.Name, en.Field("Name")), true)
					if !nf {
						_, nf = c.recordExistence(e.Guards, "0x01", []string{en.Field("Name")})
					}
					ok = nf
				}
				c.req(ok, "C15.1", effConstruct(name, e), e.Pos, "a definition is stored only by the define message, under 'no definition with this name exists'")
				if ok {
					c.recordFromMessage("C15.2", en, e, "ServiceDefinition", []string{"Name", "Description", "Tags", "Author", "AuthorDescription", "Schemas"}, nil)
					k := keyArgs(e)
					c.req(len(k) == 1 && k[0].String() == en.Field("Name"), "C15.1", effConstruct(name, e)+"#key", e.Pos, "the definition is stored under its own name")
				}
			}
		}
	}
	c.req(nSet == 1, "C15.1", "definition-writes", token.NoPos, fmt.Sprintf("%d message-reachable writes of the definition family", nSet))
	// no deletes in 0x01..0x06 anywhere; end-block writes none of 0x01, 0x03..0x06
	stable := map[string]bool{"0x01": true, "0x02": true, "0x03": true, "0x04": true, "0x05": true, "0x06": true}
	nd := 0
	for _, f := range c.handFuncs("keeper", "service") {
		for _, e := range c.directEffects(f) {
			if e.Kind == "store" && e.Op == "Delete" && stable[e.Family] {
				nd++
				c.fail("C15.5", unitConstruct(f, "Delete "+e.Family), e.Pos, "a definition/binding/owner/pricing record is deleted")
			}
		}
	}
	c.req(nd == 0, "C15.5", "no-deletes", token.NoPos, "no Delete on families 0x01–0x06 in any function")
	if eb := c.P.FuncNamed("service.EndBlocker"); eb != nil {
		for _, e := range c.P.SummaryOf(eb).Effs {
			if e.Kind == "store" && e.Op == "Set" && stable[e.Family] && e.Family != "0x02" {
				c.fail("C15.5", effConstruct("EndBlocker", e), e.Pos, "end-of-block processing writes a definition/index/owner/pricing record")
			}
		}
	}
	// C15.2 validators agree
	c.validatorAgreement("C15.2", "MsgDefineService", "ServiceDefinition")
	c.validatorAgreement("C15.2", "MsgBindService", "ServiceBinding")
	c.validatorsOnEveryPath("C15.10")
	// C15.3 / C15.7 bind
	if en := ents["MsgBindService"]; en != nil {
		sum := c.P.SummaryOf(en.Handler)
		name, prov := en.Field("ServiceName"), en.Field("Provider")
		fams := map[string]*Eff{}
		for _, e := range c.mutating(sum) {
			g := c.closeFacts(e.Guards)
			_, a := hasFact(g, fmt.Sprintf("(res 1 (%s %s))", gDef.Name, name), false)
			_, b := hasFact(g, fmt.Sprintf("(res 1 (%s %s %s))", gBinding.Name, name, prov), true)
			c.req(a && b, "C15.3", effConstruct("MsgBindService", e), e.Pos, "dominated by: definition exists ∧ no binding for (service, provider) exists")
			if e.Kind == "store" && e.Op == "Set" {
				fams[e.Family] = e
			}
		}
		for _, fam := range []string{"0x02", "0x03", "0x06"} {
			e := fams[fam]
			c.req(e != nil && e.Must, "C15.7", "MsgBindService#writes-"+fam, en.Pos, "a successful bind always writes family "+fam+" (primary record / owner index / parsed pricing)")
		}
		for _, fam := range []string{"0x04", "0x05"} {
			e := fams[fam]
			if !c.req(e != nil, "C15.7", "MsgBindService#writes-"+fam, en.Pos, "bind can write the owner maps "+fam) {
				continue
			}
			// only when the provider has no owner yet
			cur := fmt.Sprintf("(res 0 (%s %s))", gOwner.Name, prov)
			_, empty := hasFact(e.Guards, "(nonempty "+cur+")", true)
			_, nf := hasFact(e.Guards, fmt.Sprintf("(res 1 (%s %s))", gOwner.Name, prov), true)
			// or entailed: e.g. (¬found ∨ ¬equal) from the write's own guard with (¬found ∨ equal) from the owner check
			if !nf {
				nf = e.Guards.Holds(parseTerm(fmt.Sprintf("(res 1 (%s %s))", gOwner.Name, prov)), false)
			}
			c.req(empty || nf, "C15.5", effConstruct("MsgBindService", e), e.Pos, "the owner of a provider is recorded only when the provider has no owner yet")
		}
		if e := fams["0x02"]; e != nil {
			c.recordFromMessage("C15.2", en, e, "ServiceBinding", []string{"ServiceName", "Provider", "Deposit", "Pricing", "QoS", "Options", "Owner"},
				map[string]string{"Available": "#true"})
		}
		// keys built from the record's own fields
		if e := fams["0x03"]; e != nil {
			k := keyArgs(e)
			ok := len(k) == 3 && k[0].String() == en.SignerTerm() && k[1].String() == name && k[2].String() == prov
			c.req(ok, "C15.7", effConstruct("MsgBindService", e)+"#key", e.Pos, "the owner index entry is (owner, service, provider) of the new binding: "+fmtTerms(k))
		}
		if e := fams["0x06"]; e != nil {
			k := keyArgs(e)
			ok := len(k) == 2 && k[0].String() == name && k[1].String() == prov
			c.req(ok, "C15.7", effConstruct("MsgBindService", e)+"#key", e.Pos, "the parsed pricing is stored under (service, provider) of the new binding: "+fmtTerms(k))
		}
	} else {
		c.undecided("C15.3", "MsgBindService", token.NoPos, "bind entry not found")
	}
	// other messages never write owner maps or definitions
	for name, en := range ents {
		if name == "MsgBindService" {
			continue
		}
		for _, e := range c.mutating(c.P.SummaryOf(en.Handler)) {
			if e.Kind == "store" && (e.Family == "0x03" || e.Family == "0x04" || e.Family == "0x05") {
				c.fail("C15.5", effConstruct(name, e), e.Pos, "owner/index record written outside bind")
			}
		}
	}
	// C15.4 immutable binding fields + setter keys
	units := c.persistUnits("0x02", "ServiceBinding")
	nW := 0
	for f, pps := range units {
		for _, pp := range pps {
			for _, B := range pp.Stored {
				if baseOf(B).Op == "lit" {
					continue
				}
				nW++
				for _, fld := range []string{"ServiceName", "Provider", "Owner"} {
					if v, ok := writtenFields(B)[fld]; ok {
						c.fail("C15.4", unitConstruct(f, "write:"+fld), pp.Path.RetPos, "immutable binding field "+fld+" is rewritten with "+shortTerm(v))
					}
				}
			}
		}
	}
	c.req(nW >= 4, "C15.4", "binding-writes", token.NoPos, fmt.Sprintf("%d stored binding updates examined, none rewrites ServiceName/Provider/Owner", nW))
	c.setterKeys("C15.7")
	c.depositPairing("C15.2")
	// C15.6
	c.pricingTextPairs("C15.6")
	// genesis setter covers create's families
	c.genesisBindingSetter("C15.7")
	// every stored binding satisfies the module's own validity rules: the values the module itself stores are accepted by the record validator
	c.storedValuesValidate("C15.2")
	c.keyGrammar("C15.8", map[string]bool{"0x01": true, "0x02": true, "0x03": true, "0x04": true, "0x05": true, "0x06": true})
}

// recordFromMessage: the stored record's fields are the like-named message fields, unmodified.
func (c *Check) recordFromMessage(rule string, en *Entry, e *Eff, typ string, fields []string, consts map[string]string) {
	sv := structIn(e.Val, typ)
	if sv == nil {
		c.undecided(rule, effConstruct(en.Msg, e)+"#record", e.Pos, "stored "+typ+" value not found in "+shortTerm(e.Val))
		return
	}
	var wrong []string
	for _, f := range fields {
		got := field(typ, f, sv)
		if got.String() != en.Field(f) {
			wrong = append(wrong, f+" = "+shortTerm(got))
		}
	}
	for f, v := range consts {
		if got := field(typ, f, sv); !got.IsAt(v) {
			wrong = append(wrong, f+" = "+shortTerm(got))
		}
	}
	sort.Strings(wrong)
	c.req(len(wrong) == 0, rule, effConstruct(en.Msg, e)+"#record", e.Pos,
		"the stored "+typ+" is built from the like-named message fields unmodified"+condStr(len(wrong) > 0, "; differing: "+strings.Join(wrong, "; ")))
}

// validatorAgreement: Msg.ValidateBasic applies every (validator, field) that Record.Validate applies.
func (c *Check) validatorAgreement(rule, msg, rec string) {
	collect := func(fn string, typ string) map[string]bool {
		f := c.P.FuncNamed(fn)
		if f == nil {
			return nil
		}
		out := map[string]bool{}
		// validators on the success path(s): all calls of Validate* functions over fields of the receiver,
		// made directly or inside a shared helper of package types the fields are handed to
		var walk func(g *Func, m map[string]*Term, depth int)
		walk = func(g *Func, m map[string]*Term, depth int) {
			for _, pa := range c.P.PathsOf(g) {
				if !pa.OK() {
					continue
				}
				for _, ev := range pa.Events {
					if ev.Kind != EvCall {
						continue
					}
					var args []*Term
					for _, a := range ev.CI.args {
						if m != nil {
							a = a.Subst(m)
						}
						args = append(args, a)
					}
					if strings.HasPrefix(ev.CI.name, "types.Validate") {
						for _, a := range args {
							a = stripConv(a)
							if strings.HasPrefix(a.Op, "."+typ+".") && len(a.A) == 1 && a.A[0].IsAt("Precv") {
								out[ev.CI.name+"("+strings.TrimPrefix(a.Op, "."+typ+".")+")"] = true
							}
						}
						continue
					}
					if h := ev.CI.fn; h != nil && depth > 0 && h != g && h.isHandWritten() && h.Body != nil && h.pkgName() == "types" {
						if _, hasErr := h.hasErrorResult(); hasErr {
							hm := map[string]*Term{}
							for i, a := range args {
								hm[fmt.Sprintf("P%d", i)] = a
							}
							walk(h, hm, depth-1)
						}
					}
				}
			}
		}
		walk(f, nil, 2)
		return out
	}
	m := collect("types."+msg+".ValidateBasic", msg)
	r := collect("types."+rec+".Validate", rec)
	if m == nil || r == nil {
		c.undecided(rule, msg+"~"+rec, token.NoPos, "validators not found")
		return
	}
	var missing []string
	for k := range r {
		if !m[k] {
			missing = append(missing, k)
		}
	}
	sort.Strings(missing)
	if len(r) < 3 || len(missing) > 0 {
		// the same comparison on what the validators establish rather than on which functions they call (checks written
		// in place on one side, through named validators on the other)
		leaf := func(fn, typ string) map[string]bool {
			f := c.P.FuncNamed(fn)
			if f == nil {
				return nil
			}
			out := map[string]bool{}
			for _, fa := range c.closeFacts(c.P.SummaryOf(f).SuccessFacts) {
				if fa.T.Op == "ok" && len(fa.T.A) == 1 {
					if h := c.P.FuncNamed(fa.T.A[0].Op); h != nil && h.isHandWritten() && h.Body != nil && len(c.P.SummaryOf(h).SuccessFacts) > 0 {
						continue // expanded into what it establishes
					}
				}
				k := strings.ReplaceAll(fa.String(), "(."+typ+".", "(.$.")
				if !strings.Contains(k, "(.$.") {
					continue
				}
				out[k] = true
			}
			return out
		}
		ml, rl := leaf("types."+msg+".ValidateBasic", msg), leaf("types."+rec+".Validate", rec)
		var miss2 []string
		for k := range rl {
			if !ml[k] {
				miss2 = append(miss2, k)
			}
		}
		sort.Strings(miss2)
		if os.Getenv("SVCLINT_DEBUG") != "" {
			fmt.Fprintf(os.Stderr, "DEBUG validators %s~%s rec=%d msg=%d missing=%v\n", msg, rec, len(rl), len(ml), miss2)
		}
		if len(rl) >= 3 && len(miss2) == 0 {
			c.ok(rule, msg+"~"+rec+"#validators", token.NoPos, fmt.Sprintf("%s.ValidateBasic establishes all %d conditions that %s.Validate establishes on the like-named fields", msg, len(rl), rec))
			return
		}
		if len(rl) >= 3 && len(miss2) > 0 {
			missing = append(missing, miss2...)
		}
	}
	c.req(len(r) >= 3 && len(missing) == 0, rule, msg+"~"+rec+"#validators", token.NoPos,
		fmt.Sprintf("%s.ValidateBasic applies all %d field validators of %s.Validate", msg, len(r), rec)+condStr(len(missing) > 0, "; missing: "+strings.Join(missing, ", ")))
}

// setterKeys: plain setters store a record under the key built from the record's own fields.
func (c *Check) setterKeys(rule string) {
	want := map[string][]string{
		"0x01": {"(.ServiceDefinition.Name P1)"},
		"0x02": {"(.ServiceBinding.ServiceName P1)", "(.ServiceBinding.Provider P1)"},
		"0x03": {"(.ServiceBinding.Owner P1)", "(.ServiceBinding.ServiceName P1)", "(.ServiceBinding.Provider P1)"},
	}
	n := 0
	for _, f := range c.handFuncs("keeper") {
		for _, e := range c.directEffects(f) {
			if e.Kind != "store" || e.Op != "Set" {
				continue
			}
			w, ok := want[e.Family]
			if !ok {
				continue
			}
			k := keyArgs(e)
			// only setters whose key comes from a struct parameter
			isSetter := false
			for _, a := range k {
				if strings.HasPrefix(a.Op, ".") && len(a.A) == 1 && isParamTerm(a.A[0]) {
					isSetter = true
				}
			}
			if !isSetter {
				continue
			}
			n++
			okk := len(k) == len(w)
			for i := range w {
				if okk && k[i].String() != w[i] {
					okk = false
				}
			}
			c.req(okk, rule, unitConstruct(f, "key-of-own-fields:"+e.Family), e.Pos, "the record is stored under the key built from its own fields: "+fmtTerms(k))
		}
	}
	c.req(n >= 2, rule, "setters", token.NoPos, fmt.Sprintf("%d record setters keyed by the record's own fields", n))
}

func (c *Check) genesisBindingSetter(rule string) {
	ig := c.mustFn(rule, "service.InitGenesis")
	if ig == nil {
		return
	}
	fams := map[string]bool{}
	var pricingOK bool
	for _, e := range c.P.SummaryOf(ig).Effs {
		if e.Kind == "store" && e.Op == "Set" {
			fams[e.Family] = true
			if e.Family == "0x06" {
				if sv := structIn(e.Val, "Pricing"); sv != nil && strings.Contains(sv.String(), c.nParsePricing()+" (.ServiceBinding.Pricing ") {
					pricingOK = true
				}
			}
		}
	}
	var missing []string
	for _, f := range []string{"0x01", "0x02", "0x03", "0x04", "0x05", "0x06", "0x07", "0x08"} {
		if !fams[f] {
			missing = append(missing, f)
		}
	}
	c.req(len(missing) == 0, rule, "service.InitGenesis#families", ig.Body.Pos(), "genesis import rebuilds definitions, bindings, owner index, owner maps, parsed pricing, withdraw addresses and contexts"+condStr(len(missing) > 0, "; missing families: "+strings.Join(missing, ",")))
	c.req(pricingOK, rule, "service.InitGenesis#pricing", ig.Body.Pos(), "the imported binding's pricing terms are parsed from its own pricing text")
	// per imported binding: what runs for each element of Bindings — one function called with the element, or the
	// body of the import loop itself — writes the record and every index on every committed path
	type effSet struct {
		effs  []*Eff
		facts FactSet
	}
	// the two owner maps are kept per provider, not per binding: a path may leave them alone where it has found them
	// already in place (a positive answer of a function that reads the map)
	inPlace := func(fs FactSet, fam string) bool {
		hit := false
		for _, fa := range fs {
			if fa.Neg {
				continue
			}
			fa.T.Walk(func(t *Term) bool {
				if g := c.P.FuncNamed(t.Op); g != nil && g.Body != nil && g.isHandWritten() {
					for _, e := range c.P.SummaryOf(g).Effs {
						if e.Kind == "store" && e.Family == fam && (e.Op == "Get" || e.Op == "Has") {
							hit = true
						}
					}
				}
				return true
			})
		}
		return hit
	}
	judge := func(unit *Func, construct string, pos token.Pos, B *Term, perPath []effSet) {
		var lacking []string
		for _, ps := range perPath {
			got := map[string]bool{}
			for _, e := range ps.effs {
				if e.Kind == "store" && e.Op == "Set" {
					got[e.Family] = true
				}
			}
			for _, fam := range []string{"0x02", "0x03", "0x04", "0x05", "0x06"} {
				if !got[fam] {
					if (fam == "0x04" || fam == "0x05") && ps.facts != nil {
						// (the inverse index is written wherever the owner record is, and neither is ever deleted — C15.5 —
						// so finding the owner record answers for both)
						read := inPlace(ps.facts, fam) || inPlace(ps.facts, "0x04")
						for _, e := range ps.effs {
							if e.Kind == "store" && (e.Family == fam || e.Family == "0x04") && (e.Op == "Get" || e.Op == "Has") {
								read = true // looked up on this very path (a helper written out in place)
							}
						}
						if read {
							continue
						}
					}
					lacking = append(lacking, fam)
				}
			}
		}
		// the rebuilt records are those of the imported binding: each is keyed by (and holds) the binding's own fields
		if B != nil {
			fo, fs, fp := field("ServiceBinding", "Owner", B).String(), field("ServiceBinding", "ServiceName", B).String(), field("ServiceBinding", "Provider", B).String()
			want := map[string][]string{"0x02": {fs, fp}, "0x03": {fo, fs, fp}, "0x04": {fp}, "0x05": {fo, fp}, "0x06": {fs, fp}}
			var wrong []string
			for _, ps := range perPath {
				for _, e := range ps.effs {
					if e.Kind != "store" || e.Op != "Set" || want[e.Family] == nil {
						continue
					}
					var got []string
					for _, k := range keyArgs(e) {
						got = append(got, stripConv(k).String())
					}
					if strings.Join(got, " ") != strings.Join(want[e.Family], " ") {
						wrong = append(wrong, fmt.Sprintf("%s is keyed by %s", e.Family, fmtTerms(keyArgs(e))))
					}
					if e.Family == "0x04" && e.Val != nil && !(e.Val.ContainsOp(".ServiceBinding.Owner") && !e.Val.ContainsOp(".ServiceBinding.Provider")) {
						wrong = append(wrong, "the owner recorded for the provider is "+shortTerm(e.Val))
					}
				}
			}
			wrong = uniq(sortStrings(wrong))
			c.req(len(wrong) == 0, rule, construct+"#per-binding-keys", pos,
				"the records rebuilt for an imported binding are keyed by its own service name, provider and owner (owner map: provider → owner)"+condStr(len(wrong) > 0, ": "+strings.Join(wrong, "; ")))
		} else {
			c.undecided(rule, construct+"#per-binding-keys", pos, "the per-binding import takes no binding record")
		}
		lacking = uniq(sortStrings(lacking))
		c.req(len(perPath) > 0 && len(lacking) == 0, rule, construct+"#per-binding-writes", pos,
			"every committed path of the per-binding import writes the record, the owner index, both owner maps and the parsed pricing"+condStr(len(lacking) > 0, "; some path lacks families "+strings.Join(lacking, ",")))
	}
	unref := func(a *Term) *Term {
		for (a.Op == "deref" || a.Op == "&") && len(a.A) == 1 {
			a = a.A[0]
		}
		return a
	}
	isElem := func(a *Term) bool {
		a = unref(a)
		return a.Op == "elem" && len(a.A) == 1 && strings.HasSuffix(a.A[0].Op, ".GenesisState.Bindings")
	}
	for _, pa := range c.P.PathsOf(ig) {
		for _, ev := range pa.Events {
			if ev.Kind != EvCall || ev.CI.fn == nil || ev.Loop == nil {
				continue
			}
			var elem *Term
			for _, a := range ev.CI.args {
				if isElem(a) {
					elem = unref(a)
				}
			}
			if elem == nil {
				continue
			}
			g := ev.CI.fn
			// one function does the whole import of a binding
			var perPath []effSet
			covers := false
			for _, pb := range c.P.PathsOf(g) {
				if !pb.OK() {
					continue
				}
				es := effSet{effs: c.pathEffects(g, pb), facts: pb.AllFacts()}
				perPath = append(perPath, es)
				for _, e := range es.effs {
					if e.Kind == "store" && e.Op == "Set" && e.Family != "0x02" {
						covers = true
					}
				}
			}
			if covers {
				var B *Term
				for i, pr := range g.Params {
					if namedStruct(pr.Type()) == "ServiceBinding" {
						B = atom(fmt.Sprintf("P%d", i)).withType(pr.Type())
					}
				}
				judge(g, g.Name, g.Body.Pos(), B, perPath)
				return
			}
			// the import is written out in the loop: the loop body, once per committed path that enters it
			loop := ev.Loop
			perPath = nil
			for _, pb := range c.P.PathsOf(ig) {
				if !pb.OK() {
					continue
				}
				var es effSet
				entered := false
				for _, e2 := range pb.Events {
					if e2.Kind == EvLoop && e2.Node == ast.Node(loop) {
						entered = true
					}
					if e2.Kind == EvCall && e2.Loop == loop {
						es.effs = append(es.effs, c.P.effectsOfEvent(ig, e2)...)
					}
				}
				if entered {
					perPath = append(perPath, es)
				}
			}
			judge(ig, ig.Name+"$import-loop", loop.Pos(), elem, perPath)
			return
		}
	}
	c.undecided(rule, "service.InitGenesis#per-binding", ig.Body.Pos(), "no per-binding import call found")
}

// ------------------------------------------------------------------ C17

type querySig struct {
	fn   *Func
	name string
	sig  string
	mut  []string
}

func lastField(t *Term) string {
	t = stripConv(t)
	if strings.HasPrefix(t.Op, ".") {
		parts := strings.Split(t.Op, ".")
		f := strings.ToLower(parts[len(parts)-1])
		// a field of the query's own request (gRPC request message / legacy params) is a role; a field of a stored record
		// read on the way keeps its record type, so that "the batch the request names" and "the context's current batch" differ
		if len(parts) >= 3 {
			switch parts[1] {
			case "RequestContext", "ServiceBinding", "ServiceDefinition", "Request", "Response", "Pricing":
				return strings.ToLower(parts[1]) + "." + f
			}
		}
		return f
	}
	if t.Op == "slice" || strings.HasSuffix(t.Op, "Iterator.Key") || strings.HasSuffix(t.Op, "Iterator.Value") || t.Op == "out" {
		return "<scanned>"
	}
	if t.Op == "" {
		return t.At
	}
	for _, a := range t.A {
		if f := lastField(a); f != "" && f != "<scanned>" {
			return t.Op + ":" + f
		}
	}
	return t.Op
}

func (c *Check) signatureOf(f *Func) querySig {
	qs := querySig{fn: f, name: f.Name}
	set := map[string]bool{}
	for _, e := range c.P.SummaryOf(f).Effs {
		switch e.Kind {
		case "store":
			var roles []string
			for _, a := range keyArgs(e) {
				roles = append(roles, lastField(a))
			}
			set[fmt.Sprintf("%s %s %s(%s)", e.Op, e.Family, e.Builder, strings.Join(roles, ","))] = true
		case "emit":
		default:
			set[e.Kind+"."+e.Op] = true
		}
		if e.Mutates() {
			qs.mut = append(qs.mut, effDesc(e)+"@"+chainStr(e))
		}
	}
	// parameter / schema queries: distinguish by the module functions they call
	reach := map[*Func]bool{}
	var visit func(g *Func, d int)
	visit = func(g *Func, d int) {
		if g == nil || reach[g] || d > 3 {
			return
		}
		reach[g] = true
		for _, h := range c.P.callees(g) {
			visit(h, d+1)
		}
	}
	visit(f, 0)
	for g := range reach {
		if g != f && g.pkgName() == "keeper" && g.Obj != nil && (strings.HasSuffix(g.Name, ".GetParams")) {
			set["call:"+g.Name] = true
		}
	}
	for _, pa := range c.P.PathsOf(f) {
		for _, r := range pa.Ret {
			r.Walk(func(t *Term) bool {
				if t.Op == "" && (t.At == "#types.PricingSchema" || t.At == "#types.ResultSchema") {
					set["const:"+t.At] = true
				}
				return true
			})
		}
		for _, ev := range pa.Events {
			if ev.Kind == EvAssign && ev.Val != nil && ev.Val.Op == "" && (ev.Val.At == "#types.PricingSchema" || ev.Val.At == "#types.ResultSchema") {
				set["const:"+ev.Val.At] = true
			}
		}
	}
	var ss []string
	for k := range set {
		ss = append(ss, k)
	}
	sort.Strings(ss)
	qs.sig = strings.Join(ss, " ; ")
	return qs
}

func ruleC17(c *Check) {
	// gRPC methods: Keeper methods taking (context.Context, *types.QueryXRequest)
	var grpc []querySig
	for _, f := range c.handFuncs("keeper") {
		if f.Obj == nil || f.Recv == nil || len(f.Params) != 2 {
			continue
		}
		if typeName(f.Params[0].Type()) != "context.Context" {
			continue
		}
		if pt, ok := f.Params[1].Type().(*types.Pointer); ok && strings.HasPrefix(typeName(pt.Elem()), "types.Query") {
			grpc = append(grpc, c.signatureOf(f))
		}
	}
	// legacy routes: functions called from the querier literal's switch
	var legacy []querySig
	nq := c.mustFn("C17.1", "keeper.NewQuerier")
	if nq == nil {
		return
	}
	seen := map[*Func]bool{}
	// the dispatcher is the function value NewQuerier returns (a literal, a named function or a bound method);
	// its routes are the keeper-package functions it calls that are not methods of the keeper itself
	var dispatchers []*Func
	for _, pa := range c.P.PathsOf(nq) {
		if len(pa.Ret) == 1 {
			r := stripConv(pa.Ret[0])
			if r.Is("func") && len(r.A) >= 1 {
				if g := c.P.FuncNamed(r.A[0].At); g != nil && g.Body != nil {
					dispatchers = append(dispatchers, g)
				}
			}
		}
	}
	if len(dispatchers) == 0 {
		for _, f := range c.P.Funcs {
			if f.Parent == nq {
				dispatchers = append(dispatchers, f)
			}
		}
	}
	for _, f := range dispatchers {
		for _, pa := range c.P.PathsOf(f) {
			for _, ev := range pa.Events {
				if ev.Kind == EvCall && ev.CI.fn != nil && ev.CI.fn.pkgName() == "keeper" && ev.CI.fn.Body != nil &&
					(ev.CI.fn.Recv == nil || !isKeeperType(ev.CI.fn.Recv.Type())) && !seen[ev.CI.fn] {
					seen[ev.CI.fn] = true
					legacy = append(legacy, c.signatureOf(ev.CI.fn))
				}
			}
		}
	}
	c.req(len(grpc) >= 1 && len(legacy) >= len(grpc), "C17.1", "query-tables", token.NoPos, fmt.Sprintf("%d gRPC methods, %d legacy routes (every gRPC method has a legacy counterpart; further legacy-only routes are judged by the read-only rule)", len(grpc), len(legacy)))
	c.setInfo("grpc_methods", len(grpc))
	c.setInfo("legacy_routes", len(legacy))
	// the QueryServer interface is implemented exhaustively
	if obj := c.P.ByPkg[pkgTypes].Types.Scope().Lookup("QueryServer"); obj != nil {
		if it, ok := obj.Type().Underlying().(*types.Interface); ok {
			c.req(it.NumMethods() == len(grpc), "C17.1", "types.QueryServer", token.NoPos, fmt.Sprintf("QueryServer declares %d methods, %d implemented by the keeper", it.NumMethods(), len(grpc)))
		}
	}
	// bijection by signature
	bySig := map[string][]string{}
	for _, g := range grpc {
		bySig[g.sig] = append(bySig[g.sig], "grpc:"+g.name)
	}
	for _, l := range legacy {
		bySig[l.sig] = append(bySig[l.sig], "legacy:"+l.name)
	}
	var sigs []string
	for s := range bySig {
		sigs = append(sigs, s)
	}
	sort.Strings(sigs)
	for _, s := range sigs {
		ng, nl := 0, 0
		for _, n := range bySig[s] {
			if strings.HasPrefix(n, "grpc:") {
				ng++
			} else {
				nl++
			}
		}
		sort.Strings(bySig[s])
		if ng == 0 {
			// a legacy route without a gRPC counterpart: nothing to agree with (it must still be read-only)
			c.ok("C17.1", "legacy-only:"+strings.Join(bySig[s], "~"), token.NoPos, "legacy-only route(s), read set {"+s+"}")
			continue
		}
		// further legacy-only routes may read the same records (a derived value of a record another route returns)
		var gs, ls []string
		for _, n := range bySig[s] {
			if strings.HasPrefix(n, "grpc:") {
				gs = append(gs, n)
			} else {
				ls = append(ls, n)
			}
		}
		c.req(nl >= ng, "C17.1", "pair:"+strings.Join(gs, "~"), token.NoPos, fmt.Sprintf("every gRPC method has a legacy route reading the same records with the same request-field roles: {%s} — legacy: %s", s, strings.Join(ls, ", ")))
	}
	// read-only
	for _, q := range append(append([]querySig{}, grpc...), legacy...) {
		c.Sites++
		c.req(len(q.mut) == 0, "C17.2", q.name+"#read-only", q.fn.Body.Pos(), "query entry performs no state change"+condStr(len(q.mut) > 0, ": "+strings.Join(q.mut, ", ")))
	}
	c.reconstruction("C17.4")
	c.paramSetExact("C17.9")
	var qfns []*Func
	grpcSigs := map[string]bool{}
	for _, g := range grpc {
		grpcSigs[g.sig] = true
		qfns = append(qfns, g.fn)
	}
	for _, l := range legacy {
		// a legacy route without a gRPC counterpart is not one of the property's queries (a derived, read-only extra): it
		// is judged by the read-only and keys-from-request rules alone
		if grpcSigs[l.sig] {
			qfns = append(qfns, l.fn)
		}
	}
	var grpcFns []*Func
	for _, g := range grpc {
		grpcFns = append(grpcFns, g.fn)
	}
	c.grpcQueryFns = grpcFns
	c.lookupsIndependentOfConfiguration("C17.10", qfns)
	c.schemaNameNormalisation("C17.11", qfns)
	c.answersNotCut("C17.12", qfns)
	c.indexEntriesCarryNoRecord("C17.13")
	c.notFoundAgreement("C17.14", grpc, legacy)
	// C17.6 id length checks before point lookups by request id
	for _, q := range append(append([]querySig{}, grpc...), legacy...) {
		for _, e := range c.P.SummaryOf(q.fn).Effs {
			if e.Kind == "store" && e.Op == "Get" && (e.Family == "0x13" || e.Family == "0x16") {
				k := keyArgs(e)
				if len(k) != 1 || !strings.HasPrefix(stripConv(k[0]).Op, ".") || k[0].ContainsOp("github.com/tendermint/tm-db.Iterator.Value") || k[0].ContainsOp("github.com/tendermint/tm-db.Iterator.Key") {
					continue // ids taken from scanned records
				}
				ok := false
				for _, gf := range c.closeFacts(e.Guards) {
					if !gf.Neg && gf.T.Op == "==" && gf.T.A[0].Op == "len" && stripConv(gf.T.A[0].A[0]).Eq(stripConv(k[0])) && gf.T.A[1].IsAt("#types.RequestIDLen") {
						ok = true
					}
				}
				c.req(ok, "C17.6", q.name+"#id-length:"+e.Family, e.Pos, "the request id is length-checked before the lookup")
			}
		}
	}
	// C17.8: which records a query reads is decided by the request (and by records read on the way) alone: no key
	// segment is taken from a module parameter, the block height or the block time — a lookup keyed by the current
	// value of a parameter leaves out the records stored while the parameter had another value
	nKeys := 0
	for _, q := range append(append([]querySig{}, grpc...), legacy...) {
		bad := map[string]bool{}
		for _, e := range c.P.SummaryOf(q.fn).Effs {
			if e.Kind != "store" || e.Key == nil || !(e.Op == "Get" || e.Op == "Has" || e.Op == "Iter") {
				continue
			}
			nKeys++
			e.Key.Walk(func(t *Term) bool {
				if strings.HasSuffix(t.Op, "Subspace.Get") || strings.HasSuffix(t.Op, "Subspace.GetParamSet") {
					bad["a module parameter ("+shortTerm(t)+") in the key of "+effDesc(e)+" at "+c.pos(e.Pos)] = true
				}
				if g := c.P.FuncNamed(t.Op); g != nil && g.isHandWritten() && g.Body != nil && !c.P.pathsBusy[g] {
					for _, gp := range c.P.PathsOf(g) {
						for _, r := range gp.Ret {
							r.Walk(func(x *Term) bool {
								if strings.HasSuffix(x.Op, "Subspace.Get") || strings.HasSuffix(x.Op, "Subspace.GetParamSet") {
									bad["a module parameter ("+shortTerm(t)+") in the key of "+effDesc(e)+" at "+c.pos(e.Pos)] = true
								}
								return true
							})
						}
					}
				}
				if t.IsAt("BlockHeight") || t.IsAt("BlockTime") {
					bad["the block "+strings.ToLower(strings.TrimPrefix(t.At, "Block"))+" in the key of "+effDesc(e)+" at "+c.pos(e.Pos)] = true
				}
				return true
			})
		}
		// one read site, one key: the record looked up for a given request is not chosen among alternatives
		// by other stored state (e.g. "the owner's record, unless the address is also a provider — then its owner's")
		siteKeys := map[string]map[string]bool{}
		for _, e := range c.P.SummaryOf(q.fn).Effs {
			if e.Kind != "store" || e.Key == nil || e.Op != "Get" || e.InLoop {
				continue
			}
			k := e.SiteKey() + " " + e.Family
			if siteKeys[k] == nil {
				siteKeys[k] = map[string]bool{}
			}
			siteKeys[k][stripConv(e.Key).String()] = true
			if len(siteKeys[k]) == 2 {
				bad["the lookup "+effDesc(e)+" at "+c.pos(e.Pos)+" is made under alternative keys for the same request"] = true
			}
		}
		var bs []string
		for b := range bad {
			bs = append(bs, b)
		}
		sort.Strings(bs)
		c.req(len(bs) == 0, "C17.8", q.name+"#keys-from-request", q.fn.Body.Pos(), "every key the query reads is built from the request, constants and records read on the way"+condStr(len(bs) > 0, ": "+strings.Join(bs, "; ")))
	}
	c.req(nKeys >= 10, "C17.8", "query-reads", token.NoPos, fmt.Sprintf("%d store reads reachable from query entries", nKeys))
	c.keyGrammar("C17.5", map[string]bool{"0x02": true, "0x03": true, "0x13": true, "0x14": true, "0x16": true, "0x18": true})
	c.queryIndexMaintained("C17.6")
	c.enumTables("C17.7")
}

// recordExistence: what the facts establish about the presence of the record of a family under the given key
// arguments — read through a getter's found flag or directly from the store (Get compared with nil, Has).
func (c *Check) recordExistence(fs FactSet, fam string, args []string) (exists, absent bool) {
	keyMatches := func(k *Term) bool {
		for _, v := range c.P.keyVariants(k, 0) {
			f2, _ := c.P.keyFamily(v.Key)
			if f2 != fam {
				return false
			}
			ka := stripConv(stripSpread(v.Key)).A
			if len(ka) != len(args) {
				return false
			}
			for i := range ka {
				if ka[i].String() != args[i] {
					return false
				}
			}
			return true
		}
		return false
	}
	for _, f := range fs {
		t := f.T
		switch {
		case t.Op == "==" && len(t.A) == 2 && t.A[1].IsAt("#nil") && strings.HasSuffix(stripConv(t.A[0]).Op, "KVStore.Get"):
			g := stripConv(t.A[0])
			if len(g.A) >= 1 && keyMatches(g.A[len(g.A)-1]) {
				if f.Neg {
					exists = true
				} else {
					absent = true
				}
			}
		case strings.HasSuffix(t.Op, "KVStore.Has") && len(t.A) >= 1 && keyMatches(t.A[len(t.A)-1]):
			if f.Neg {
				absent = true
			} else {
				exists = true
			}
		case c.P.FuncNamed(t.Op) != nil && len(args) == len(t.A):
			// a Has-style wrapper: a bool function that returns, on its single path, the found-result of the getter of
			// this family called on its own parameters in order
			g := c.P.FuncNamed(t.Op)
			if g.Body == nil || !g.isHandWritten() || len(g.Res) != 1 || typeName(g.Res[0].Type()) != "bool" || c.P.pathsBusy[g] {
				break
			}
			okArgs := true
			for i, a := range t.A {
				if a.String() != args[i] {
					okArgs = false
				}
			}
			ps := c.P.PathsOf(g)
			if !okArgs || len(ps) != 1 || len(ps[0].Ret) != 1 {
				break
			}
			r := stripConv(ps[0].Ret[0])
			if r.Op == "res" && len(r.A) == 2 && !r.A[0].IsAt("0") {
				call := stripConv(r.A[1])
				if gg := c.P.FuncNamed(call.Op); gg != nil {
					fam2 := ""
					for _, e := range c.P.SummaryOf(gg).Effs {
						if e.Kind == "store" && e.Op == "Get" {
							fam2 = e.Family
						}
					}
					inOrder := len(call.A) == len(t.A)
					for i, a := range call.A {
						if inOrder && !a.IsAt(fmt.Sprintf("P%d", i+len(g.Params)-len(t.A))) {
							inOrder = false
						}
					}
					if fam2 == fam && inOrder {
						if f.Neg {
							absent = true
						} else {
							exists = true
						}
					}
				}
			}
		case t.Op == "nonempty" && len(t.A) == 1 && strings.HasSuffix(stripConv(t.A[0]).Op, "KVStore.Get"):
			g := stripConv(t.A[0])
			if len(g.A) >= 1 && keyMatches(g.A[len(g.A)-1]) {
				if f.Neg {
					absent = true
				} else {
					exists = true
				}
			}
		}
	}
	return
}

// queryIndexMaintained: the owner-filtered binding list is answered from the owner index (family 0x03), so it
// agrees with the stored bindings only if every creation of a binding record writes its index entry too.
func (c *Check) queryIndexMaintained(rule string) {
	var en *Entry
	for _, e := range c.entries(rule) {
		if e.Msg == "MsgBindService" {
			en = e
		}
	}
	if en == nil {
		c.undecided(rule, "MsgBindService", token.NoPos, "bind entry not found")
		return
	}
	name, prov := en.Field("ServiceName"), en.Field("Provider")
	var prim, idx *Eff
	for _, e := range c.mutating(c.P.SummaryOf(en.Handler)) {
		if e.Kind == "store" && e.Op == "Set" {
			switch e.Family {
			case "0x02":
				prim = e
			case "0x03":
				idx = e
			}
		}
	}
	c.req(prim != nil && prim.Must && idx != nil && idx.Must, rule, "MsgBindService#index-with-record", en.Pos,
		"every successful bind writes the binding record and its owner-index entry (the index the owner-filtered query scans)")
	if idx != nil {
		k := keyArgs(idx)
		ok := len(k) == 3 && k[0].String() == en.SignerTerm() && k[1].String() == name && k[2].String() == prov
		c.req(ok, rule, "MsgBindService#index-key", idx.Pos, "the index entry is keyed by (owner, service, provider) of the new binding: "+fmtTerms(k))
	}
	c.genesisBindingSetter(rule)
}

// mutableRecordFields: fields of stored records that messages and block processing rewrite during the record's life
// (the immutable identity fields and the batch counter, which only grows, are not listed).
var mutableRecordFields = map[string]bool{
	".ServiceBinding.Available": true, ".ServiceBinding.Deposit": true, ".ServiceBinding.Pricing": true, ".ServiceBinding.QoS": true,
	".ServiceBinding.Options": true, ".ServiceBinding.DisabledTime": true,
	".RequestContext.Providers": true, ".RequestContext.ServiceFeeCap": true, ".RequestContext.Timeout": true,
	".RequestContext.RepeatedFrequency": true, ".RequestContext.RepeatedTotal": true, ".RequestContext.State": true,
	".RequestContext.BatchState": true, ".RequestContext.BatchRequestCount": true, ".RequestContext.BatchResponseCount": true,
	".RequestContext.BatchResponseThreshold": true, ".RequestContext.ResponseThreshold": true,
}

// lookupsIndependentOfConfiguration (C17.10): whether a query finds a record, and which records a list query returns,
// depends on the records asked for alone. No branch in a query entry or in a read-only keeper function it reaches tests
// a field that the life of ANOTHER stored record rewrites (a binding's availability, a context's provider list, fee cap,
// timeout, state, ...): such a test makes stored records vanish from the answers when that configuration changes
// (pending requests of a binding that was disabled, the request of a provider dropped from its context by an update).
// Tests of presence (found), of the request's own arguments and of immutable identity fields are not concerned.
func (c *Check) lookupsIndependentOfConfiguration(rule string, entries []*Func) {
	reach := map[*Func]bool{}
	var visit func(g *Func)
	visit = func(g *Func) {
		if g == nil || reach[g] || g.Body == nil || !g.isHandWritten() {
			return
		}
		reach[g] = true
		for _, h := range c.P.callees(g) {
			visit(h)
		}
	}
	// helpers are followed from the gRPC methods (the QueryServer interface is the list of the property's queries); a
	// legacy route contributes its own body — a helper that only an additional legacy route uses (a derived read-only extra
	// such as "when is this deposit refundable") answers a different question
	isGrpc := map[*Func]bool{}
	for _, g := range c.grpcQueryFns {
		isGrpc[g] = true
	}
	for _, f := range entries {
		if len(c.grpcQueryFns) == 0 || isGrpc[f] {
			visit(f)
		} else if f.Body != nil && f.isHandWritten() {
			reach[f] = true
		}
	}
	var fs []*Func
	for f := range reach {
		mut := false
		for _, e := range c.directEffects(f) {
			if e.Mutates() {
				mut = true
			}
		}
		if !mut && (f.pkgName() == "keeper" || f.pkgName() == "types") {
			fs = append(fs, f)
		}
	}
	sort.Slice(fs, func(i, j int) bool { return fs[i].Name < fs[j].Name })
	n := 0
	for _, f := range fs {
		bad := map[string]token.Pos{}
		isPred := len(f.Res) == 1 && typeName(f.Res[0].Type()) == "bool"
		for _, pa := range c.P.PathsOf(f) {
			var conds []*Event
			for _, ev := range pa.Events {
				if ev.Kind == EvFact {
					conds = append(conds, ev)
				}
			}
			if isPred && len(pa.Ret) == 1 {
				// a predicate's returned expression is a condition of its callers
				conds = append(conds, &Event{Kind: EvFact, Fact: Fact{T: pa.Ret[0]}, Pos: pa.RetPos})
			}
			for _, ev := range conds {
				n++
				ev.Fact.T.Walk(func(t *Term) bool {
					if mutableRecordFields[t.Op] {
						// the field of a record read from the store (not of a value the caller handed in to be stored or validated)
						fromStore := false
						t.Walk(func(u *Term) bool {
							if u.Op != "" && (strings.Contains(u.Op, "keeper.Keeper.Get") || strings.HasSuffix(u.Op, "KVStore.Get") || strings.Contains(u.Op, "Unmarshal")) {
								fromStore = true
							}
							return true
						})
						if fromStore {
							if _, dup := bad[t.Op]; !dup {
								bad[t.Op] = ev.Pos
							}
						}
					}
					return true
				})
			}
		}
		var ks []string
		for k := range bad {
			ks = append(ks, k)
		}
		sort.Strings(ks)
		for _, k := range ks {
			c.fail(rule, unitConstruct(f, "answer-depends-on:"+strings.TrimPrefix(k, ".")), bad[k],
				"a function on the query path branches on "+strings.TrimPrefix(k, ".")+" of a record read from the store — a field rewritten during that record's life: which records a query finds would change with it")
		}
		if len(ks) == 0 {
			c.ok(rule, unitConstruct(f, "configuration-free"), f.Body.Pos(), "no branch on a rewritable field of a stored record")
		}
	}
	// list queries return every record they scan: in the query entry functions themselves no branch tests a field of a
	// record read from the store at all (rewritable or not) — a filter on the record's content makes the answer a subset
	// ("the responses of a batch" without those that carry no output), and the two query interfaces drift apart
	recordField := func(t *Term) bool {
		if !strings.HasPrefix(t.Op, ".") || len(t.A) != 1 {
			return false
		}
		for _, ty := range []string{".Response.", ".Request.", ".CompactRequest.", ".ServiceBinding.", ".ServiceDefinition.", ".RequestContext.", ".Pricing."} {
			if strings.HasPrefix(t.Op, ty) {
				return true
			}
		}
		return false
	}
	for _, f := range entries {
		bad := map[string]token.Pos{}
		for _, pa := range c.P.PathsOf(f) {
			for _, ev := range pa.Events {
				if ev.Kind != EvFact {
					continue
				}
				n++
				ev.Fact.T.Walk(func(t *Term) bool {
					if recordField(t) {
						fromStore := false
						t.Walk(func(u *Term) bool {
							if u.Op != "" && (strings.Contains(u.Op, "keeper.Keeper.Get") || strings.HasSuffix(u.Op, "KVStore.Get") || strings.Contains(u.Op, "Unmarshal") || strings.HasSuffix(u.Op, "Iterator.Value")) {
								fromStore = true
							}
							return true
						})
						if fromStore {
							if _, dup := bad[t.Op]; !dup {
								bad[t.Op] = ev.Pos
							}
						}
					}
					return true
				})
			}
		}
		var ks []string
		for k := range bad {
			ks = append(ks, k)
		}
		sort.Strings(ks)
		for _, k := range ks {
			c.fail(rule, unitConstruct(f, "answer-filtered-on:"+strings.TrimPrefix(k, ".")), bad[k],
				"the query branches on "+strings.TrimPrefix(k, ".")+" of a record read from the store: records would be left out of (or added to) the answer depending on their content")
		}
	}
	c.Sites += n
	c.req(len(fs) >= 10 && n >= 20, rule, "query-path-functions", token.NoPos, fmt.Sprintf("%d read-only functions on the query paths, %d branch facts examined", len(fs), n))
}

// validatorsOnEveryPath: stateless validation does not depend on which optional fields a message happens to carry. In every
// ValidateBasic of a message type, a single-field validator types.ValidateX(msg.F) that is applied on some accepting path
// is applied on every accepting path — except paths that have established that F is empty (an optional field left out).
// A guard clause that returns early for one empty field and thereby skips the validators of the fields checked after it
// lets an invalid value of those fields through (an unparseable or out-of-schema pricing text stored by an update
// that adds no deposit).
func (c *Check) validatorsOnEveryPath(rule string) {
	nFn, nPairs := 0, 0
	for _, f := range c.handFuncs("types") {
		if f.Obj == nil || f.Obj.Name() != "ValidateBasic" || f.Recv == nil || !strings.HasPrefix(namedStruct(f.Recv.Type()), "Msg") {
			continue
		}
		msg := namedStruct(f.Recv.Type())
		nFn++
		type pair struct{ v, fld string }
		applied := map[pair]bool{}
		type pinfo struct {
			pa   *Path
			have map[pair]bool
		}
		var infos []pinfo
		for _, pa := range c.P.PathsOf(f) {
			if pa.Exit == ExitRevert || pa.Exit == ExitPanic {
				continue
			}
			have := map[pair]bool{}
			note := func(t *Term) {
				t = stripConv(t)
				if t == nil || !strings.HasPrefix(t.Op, "types.Validate") || len(t.A) != 1 {
					return
				}
				a := stripConv(t.A[0])
				if strings.HasPrefix(a.Op, "."+msg+".") && len(a.A) == 1 {
					have[pair{t.Op, strings.TrimPrefix(a.Op, "."+msg+".")}] = true
				}
			}
			for _, ev := range pa.Events {
				if ev.Kind == EvCall && strings.HasPrefix(ev.CI.name, "types.Validate") && len(ev.CI.args) == 1 {
					note(mk(ev.CI.name, ev.CI.args[0]))
				}
			}
			for _, r := range pa.Ret {
				note(r)
			}
			for k := range have {
				applied[k] = true
			}
			infos = append(infos, pinfo{pa, have})
		}
		var ps []pair
		for k := range applied {
			ps = append(ps, k)
		}
		sort.Slice(ps, func(i, j int) bool { return ps[i].v+ps[i].fld < ps[j].v+ps[j].fld })
		for _, k := range ps {
			nPairs++
			var badPos token.Pos
			bad := false
			for _, in := range infos {
				if in.have[k] {
					continue
				}
				// the path accepts (or may accept) without applying the validator: it must know the field to be empty,
				// or it rejects for another reason (a tail call of another validator is a possible rejection, not an acceptance)
				fldT := field(msg, k.fld, atom("Precv"))
				af := in.pa.AllFacts()
				if af.Holds(mk("nonempty", fldT), false) || af.Holds(mk("sdk.Coins.Empty", fldT), true) || af.Holds(mk("==", fldT, atom("#0")), true) {
					continue
				}
				bad, badPos = true, in.pa.RetPos
				break
			}
			pos := f.Body.Pos()
			if bad {
				pos = badPos
			}
			c.req(!bad, rule, f.Name+"#"+strings.TrimPrefix(k.v, "types.")+"("+k.fld+")", pos,
				"the field validator is applied on every accepting path that has not established the field to be empty"+condStr(bad, ": the path ending at "+c.pos(badPos)+" accepts without it"))
		}
	}
	c.Sites += nPairs
	c.req(nFn >= 10 && nPairs >= 10, rule, "message-validators", token.NoPos, fmt.Sprintf("%d ValidateBasic functions, %d (validator, field) pairs", nFn, nPairs))
}

// schemaNameNormalisation (C17.11): the schema query answers by a switch on the requested schema name. Both query
// interfaces compare the same function of that name with the same constants (today: the lower-cased name with "pricing" and
// "result"): the set of (shape of the compared term, constant) pairs, with the request's own name field abstracted, is equal
// for every function that returns the schema constants.
func (c *Check) schemaNameNormalisation(rule string, entries []*Func) {
	type shape map[string]bool
	got := map[*Func]shape{}
	for _, f := range entries {
		returnsSchema := false
		sh := shape{}
		for _, pa := range c.P.PathsOf(f) {
			for _, r := range pa.Ret {
				r.Walk(func(t *Term) bool {
					if t.Op == "" && (t.At == "#types.PricingSchema" || t.At == "#types.ResultSchema") {
						returnsSchema = true
					}
					return true
				})
			}
			for _, fa := range pa.AllFacts() {
				fa.T.Walk(func(t *Term) bool {
					if t.Op != "==" || len(t.A) != 2 {
						return true
					}
					for i := 0; i < 2; i++ {
						k, o := t.A[i], t.A[1-i]
						if k.Op == "" && strings.HasPrefix(k.At, "#\"") {
							// abstract the request's name field (a field selector on a parameter or on a decoded value)
							os := o.String()
							o.Walk(func(u *Term) bool {
								if strings.HasPrefix(u.Op, ".") && len(u.A) == 1 {
									os = strings.ReplaceAll(os, u.String(), "$NAME")
									return false
								}
								return true
							})
							sh[os+" == "+k.At] = true
						}
					}
					return true
				})
			}
		}
		if returnsSchema {
			got[f] = sh
		}
	}
	var fs []*Func
	for f := range got {
		fs = append(fs, f)
	}
	sort.Slice(fs, func(i, j int) bool { return fs[i].Name < fs[j].Name })
	if len(fs) < 2 {
		// the schema constants are not returned by the query functions themselves (a table, a helper): nothing to compare here;
		// the route agreement of C17.1 still pairs the two interfaces
		c.note(fmt.Sprintf("%s: %d query functions return the schema constants directly; name normalisation not compared", rule, len(fs)))
		return
	}
	key := func(s shape) string {
		var ks []string
		for k := range s {
			ks = append(ks, k)
		}
		sort.Strings(ks)
		return strings.Join(ks, " ; ")
	}
	ref := key(got[fs[0]])
	for _, f := range fs[1:] {
		c.Sites++
		c.req(key(got[f]) == ref && ref != "", rule, "schema-name:"+fs[0].Name+"~"+f.Name, f.Body.Pos(),
			"both schema queries compare the same function of the requested name with the same constants: {"+ref+"} vs {"+key(got[f])+"}")
	}
}

// answersNotCut (C17.12): a list query returns every record it has collected. In the query entry functions no slice
// expression is applied to a list of module records (or pointers to them): cutting the collected list to a page that the
// request cannot move (the legacy parameters carry no page) silently drops the records beyond it. Store-level pagination
// driven by the request's own page fields (the SDK's query.Paginate over the prefix store) is a call, not a slice of results.
func (c *Check) answersNotCut(rule string, entries []*Func) {
	n := 0
	for _, f := range entries {
		if f.Body == nil {
			continue
		}
		info := f.Pkg.TypesInfo
		ast.Inspect(f.Body, func(nd ast.Node) bool {
			se, ok := nd.(*ast.SliceExpr)
			if !ok {
				return true
			}
			tv, ok := info.Types[se.X]
			if !ok {
				return true
			}
			sl, ok := types.Unalias(tv.Type).Underlying().(*types.Slice)
			if !ok {
				return true
			}
			el := types.Unalias(sl.Elem())
			if pt, isPtr := el.(*types.Pointer); isPtr {
				el = pt.Elem()
			}
			if namedStructAny(el) == "" {
				return true
			}
			n++
			c.fail(rule, unitConstruct(f, "result-list-sliced:"+types.ExprString(se.X)), se.Pos(),
				"the query cuts the list of records "+types.ExprString(se)+": records outside the slice are dropped from the answer")
			return true
		})
	}
	c.Sites += len(entries)
	c.req(len(entries) >= 10, rule, "query-entries", token.NoPos, fmt.Sprintf("%d query entry functions scanned for slicing of record lists (%d found)", len(entries), n))
}

// indexEntriesCarryNoRecord (C17.13 / C15.11): the owner index and the owner-provider index locate records, they do not
// duplicate them: the value stored under an index key is not the encoding of a binding. A copy kept in the index is
// written when the binding is created and by nothing that changes the binding afterwards (update, disable, enable, refund,
// slash), so a query answered from it serves the binding as it once was.
func (c *Check) indexEntriesCarryNoRecord(rule string) {
	n := 0
	for _, f := range c.handFuncs("keeper") {
		for _, e := range c.directEffects(f) {
			if e.Kind != "store" || e.Op != "Set" || !(e.Family == "0x03" || e.Family == "0x05") || e.Val == nil {
				continue
			}
			n++
			carries := false
			e.Val.Walk(func(t *Term) bool {
				if strings.Contains(t.Op, "Marshal") {
					for _, a := range t.A {
						if structIn(a, "ServiceBinding") != nil || strings.Contains(a.String(), "ServiceBinding") {
							carries = true
						}
					}
				}
				return true
			})
			c.req(!carries, rule, unitConstruct(f, "index-value:"+e.Family), e.Pos, "the value of an index entry is not an encoded binding: "+shortTerm(e.Val))
		}
	}
	c.req(n >= 2, rule, "index-writers", token.NoPos, fmt.Sprintf("%d writes of owner-index entries", n))
}

// notFoundAgreement (C17.14): for a record that is not in the store the two query interfaces answer alike — both with an
// error, or both with the empty record. For every gRPC method, some legacy route with the same read signature rejects on
// "not found" for exactly the same record families (the families whose found-result, or nil stored value, is the cause of a
// rejecting exit).
func (c *Check) notFoundAgreement(rule string, grpc, legacy []querySig) {
	var collect func(f *Func, set map[string]bool, depth int)
	collect = func(f *Func, set map[string]bool, depth int) {
		for _, pa := range c.P.PathsOf(f) {
			if pa.Exit != ExitRevert {
				continue
			}
			var last *Event
			for _, ev := range pa.Events {
				if ev.Kind == EvFact {
					last = ev
				}
			}
			if last == nil {
				continue
			}
			// rejected because a hand-written callee (the sibling route it delegates to) rejected: that callee's causes
			if ft := last.Fact.T; last.Fact.Neg && ft.Op == "ok" && len(ft.A) == 1 && depth < 2 {
				if h := c.P.FuncNamed(stripConv(ft.A[0]).Op); h != nil && h.Body != nil && h.isHandWritten() && h != f {
					collect(h, set, depth+1)
				}
			}
			last.Fact.T.Walk(func(t *Term) bool {
				t = stripConv(t)
				if t.Op == "res" && len(t.A) == 2 && !t.A[0].IsAt("0") {
					if g := c.P.FuncNamed(stripConv(t.A[1]).Op); g != nil && g.Body != nil {
						if fam, _ := c.foundGetter(g); fam != "" {
							set[fam] = true
						}
					}
				}
				return true
			})
		}
	}
	causes := func(f *Func) string {
		set := map[string]bool{}
		collect(f, set, 0)
		var ks []string
		for k := range set {
			ks = append(ks, k)
		}
		sort.Strings(ks)
		return strings.Join(ks, ",")
	}
	// tests of the request's own fields (a length, an address format) that reject: the same on both routes, written over
	// the lower-cased field names
	var normArg func(t *Term) *Term
	normArg = func(t *Term) *Term {
		t = stripConv(t)
		if strings.HasPrefix(t.Op, ".Query") && len(t.A) == 1 {
			return atom("$" + strings.ToLower(t.Op[strings.LastIndex(t.Op, ".")+1:]))
		}
		if len(t.A) == 0 {
			return t
		}
		n := &Term{Op: t.Op, At: t.At}
		for _, a := range t.A {
			n.A = append(n.A, normArg(a))
		}
		return n
	}
	var argTests func(f *Func, set map[string]bool, depth int)
	argTests = func(f *Func, set map[string]bool, depth int) {
		for _, pa := range c.P.PathsOf(f) {
			if pa.Exit != ExitRevert {
				continue
			}
			var last *Event
			for _, ev := range pa.Events {
				if ev.Kind == EvFact {
					last = ev
				}
			}
			if last == nil {
				continue
			}
			ft := last.Fact.T
			if last.Fact.Neg && ft.Op == "ok" && len(ft.A) == 1 && depth < 2 {
				if h := c.P.FuncNamed(stripConv(ft.A[0]).Op); h != nil && h.Body != nil && h.isHandWritten() && h != f && (h.pkgName() == "keeper" || h.pkgName() == "service") {
					argTests(h, set, depth+1)
					continue
				}
			}
			mentionsField, isLookup := false, false
			nt := normArg(ft)
			nt.Walk(func(t *Term) bool {
				if t.Op == "" && strings.HasPrefix(t.At, "$") {
					mentionsField = true
				}
				if t.Op == "res" && len(t.A) == 2 {
					if g := c.P.FuncNamed(stripConv(t.A[1]).Op); g != nil && g.Body != nil && g.pkgName() == "keeper" {
						isLookup = true
					}
				}
				if strings.Contains(t.Op, "MarshalJSON") || strings.Contains(t.Op, "UnmarshalJSON") || strings.Contains(t.Op, "Paginate") {
					isLookup = true
				}
				return true
			})
			if !mentionsField || isLookup {
				continue
			}
			k := nt.String()
			if last.Fact.Neg {
				k = "¬" + k
			}
			set[k] = true
		}
	}
	argSet := func(f *Func) string {
		set := map[string]bool{}
		argTests(f, set, 0)
		var ks []string
		for k := range set {
			ks = append(ks, k)
		}
		sort.Strings(ks)
		return strings.Join(ks, " ; ")
	}
	n := 0
	for _, g := range grpc {
		var cands []querySig
		for _, l := range legacy {
			if l.sig == g.sig {
				cands = append(cands, l)
			}
		}
		if len(cands) == 0 {
			continue
		}
		n++
		ga := argSet(g.fn)
		okA := false
		var gotA []string
		for _, l := range cands {
			la := argSet(l.fn)
			gotA = append(gotA, l.name+":{"+la+"}")
			if la == ga {
				okA = true
			}
		}
		c.req(okA, rule, "argument-checks:"+g.name, g.fn.Body.Pos(), "the gRPC method turns a request away on the tests {"+ga+"} of its fields; its legacy counterpart on the same — "+strings.Join(gotA, " "))
		gc := causes(g.fn)
		ok := false
		var got []string
		for _, l := range cands {
			lc := causes(l.fn)
			got = append(got, l.name+":{"+lc+"}")
			if lc == gc {
				ok = true
			}
		}
		c.req(ok, rule, "not-found:"+g.name, g.fn.Body.Pos(), "the gRPC method rejects on a missing record of families {"+gc+"}; its legacy counterpart rejects alike — "+strings.Join(got, " "))
	}
	c.Sites += n
	c.req(n >= 8, rule, "not-found-pairs", token.NoPos, fmt.Sprintf("%d gRPC methods compared with their legacy routes", n))
}
