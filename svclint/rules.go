package main

// Shared rule helpers: entry table (ENTRY), closure roles, fact closure.

import (
	"flag"
	"fmt"
	"go/ast"
	"go/token"
	"go/types"
	"os"
	"sort"
	"strings"
	"time"

	"golang.org/x/tools/go/types/typeutil"
)

type Entry struct {
	Msg     string // message type name, e.g. MsgBindService
	Handler *Func  // handleMsgX
	MsgArg  string // parameter atom of the message in Handler (e.g. "P2")
	Signer  string // signer field name
	Pos     token.Pos
}

// SignerTerm is the signer of the message in the handler's vocabulary.
func (e *Entry) SignerTerm() string {
	return fmt.Sprintf("(.%s.%s %s)", e.Msg, e.Signer, e.MsgArg)
}

func (e *Entry) Field(f string) string { return fmt.Sprintf("(.%s.%s %s)", e.Msg, f, e.MsgArg) }

var rules = map[string]func(*Check){}

func cmdCheck(args []string) {
	fs := flag.NewFlagSet("check", flag.ExitOnError)
	prop := fs.String("p", "", "property id")
	tier := fs.String("tier", "quick", "quick|thorough")
	fs.Parse(args)
	if t := os.Getenv("VERIF_TIER"); t != "" && *tier == "" {
		*tier = t
	}
	if *prop == "all" {
		// development aid: one load, every property (used by tools/mut.sh and the matrix)
		p := loadProg(repoDir(), false, "")
		var ids []string
		for id := range rules {
			ids = append(ids, id)
		}
		sort.Strings(ids)
		rc := 0
		for _, id := range ids {
			c := &Check{P: p, Prop: id, Tier: *tier, start: time.Now(), info: map[string]interface{}{}, assum: map[string]bool{}}
			p.undecided = nil
			rules[id](c)
			commonPreconditions(c)
			if r := c.finish(explanations[id]); r > rc {
				rc = r
			}
		}
		os.Exit(rc)
	}
	rule, ok := rules[*prop]
	if !ok {
		fmt.Fprintf(os.Stderr, "svclint: unknown property %q\n", *prop)
		os.Exit(2)
	}
	start := time.Now()
	p := loadProg(repoDir(), false, "")
	c := &Check{P: p, Prop: *prop, Tier: *tier, start: start, info: map[string]interface{}{}, assum: map[string]bool{}}
	rule(c)
	commonPreconditions(c)
	if debugHook != nil {
		debugHook(c)
	}
	if *tier == "thorough" {
		thoroughExtras(c)
	}
	os.Exit(c.finish(explanations[*prop]))
}

var explanations = map[string]string{}

var debugHook func(*Check)

func cmdExplain(args []string) {
	for _, a := range args {
		bz, err := os.ReadFile(a)
		if err != nil {
			fmt.Fprintln(os.Stderr, err)
			os.Exit(2)
		}
		os.Stdout.Write(bz)
		fmt.Println()
	}
}

// ------------------------------------------------------------------ anchors

func (c *Check) fn(name string) *Func {
	f := c.P.FuncNamed(name)
	return f
}

// mustFn resolves an anchor function; a vanished anchor is a violation.
func (c *Check) mustFn(rule, name string) *Func {
	f := c.P.FuncNamed(name)
	if f == nil {
		c.undecided(rule, name, token.NoPos, "anchor function "+name+" no longer resolves")
	}
	return f
}

// ------------------------------------------------------------------ ENTRY

func (c *Check) entries(rule string) []*Entry {
	p := c.P
	nh := c.mustFn(rule, "service.NewHandler")
	if nh == nil {
		return nil
	}
	// the dispatcher is the function value NewHandler returns: a literal, a named function or a bound method
	var lit *Func
	for _, pa := range p.PathsOf(nh) {
		if len(pa.Ret) == 1 {
			r := stripConv(pa.Ret[0])
			if r.Is("func") && len(r.A) >= 1 {
				if g := p.FuncNamed(r.A[0].At); g != nil && g.Body != nil {
					lit = g
				}
			}
		}
	}
	if lit == nil {
		for _, f := range p.Funcs {
			if f.Parent == nh {
				lit = f
			}
		}
	}
	if lit == nil {
		c.undecided(rule, "service.NewHandler", nh.Body.Pos(), "handler literal not found")
		return nil
	}
	var out []*Entry
	seen := map[string]bool{}
	for _, pa := range p.PathsOf(lit) {
		var tc string
		for _, ev := range pa.Events {
			if ev.Kind == EvFact && ev.Fact.T.Op == "typecase" && !ev.Fact.Neg {
				tc = ev.Fact.T.A[0].At
			}
			if ev.Kind == EvCall && tc != "" && ev.CI.fn != nil && ev.CI.fn.pkgName() == "service" {
				msg := strings.TrimPrefix(tc, "*types.")
				if seen[msg] {
					break
				}
				seen[msg] = true
				e := &Entry{Msg: msg, Handler: ev.CI.fn, Pos: ev.Pos}
				for i, a := range ev.CI.args {
					if a.Op == "assert" {
						e.MsgArg = fmt.Sprintf("P%d", i)
					}
				}
				e.Signer = c.signerField(msg)
				out = append(out, e)
				break
			}
		}
	}
	sort.Slice(out, func(i, j int) bool { return out[i].Msg < out[j].Msg })
	return out
}

// signerField reads the field returned by <Msg>.GetSigners.
func (c *Check) signerField(msg string) string {
	f := c.P.FuncNamed("types." + msg + ".GetSigners")
	if f == nil {
		return ""
	}
	fields := map[string]bool{}
	for _, pa := range c.P.PathsOf(f) {
		for _, r := range pa.Ret {
			r.Walk(func(t *Term) bool {
				if strings.HasPrefix(t.Op, "."+msg+".") && len(t.A) == 1 && t.A[0].IsAt("Precv") {
					fields[strings.TrimPrefix(t.Op, "."+msg+".")] = true
				}
				return true
			})
		}
	}
	if len(fields) != 1 {
		return ""
	}
	for k := range fields {
		return k
	}
	return ""
}

// msgTypes lists the sdk.Msg implementations of package types (by GetSigners).
func (c *Check) msgTypes() []string {
	var out []string
	for _, f := range c.P.Funcs {
		if f.isHandWritten() && f.pkgName() == "types" && f.Recv != nil && f.Obj != nil && f.Obj.Name() == "GetSigners" {
			parts := strings.Split(f.Name, ".")
			out = append(out, parts[1])
		}
	}
	sort.Strings(out)
	return out
}

// ------------------------------------------------------------------ closures

type Binding struct {
	Closure *Func
	Caller  *Func  // function containing the binding call
	Call    *Event // the call event that passes the closure
	Iter    *Func  // the iterating callee
	Args    []*Term
	// IdP and ValP name the unit's parameters that receive the scanned key part and the scanned
	// record. They are P0/P1 for a closure handed to the scan directly and differ when the closure
	// is a forwarding adapter around a named handler.
	IdP, ValP string
	Adapters  []*Func
	// Inline: the scan is a loop written in Closure itself (no handler literal): the unit's paths are those of
	// Closure that enter Loop; IdP and ValP are the terms of the scanned id and of the record loaded for it.
	Inline bool
	Loop   ast.Stmt
}

func (b *Binding) id() *Term {
	if b.Inline {
		return parseTerm(b.IdP)
	}
	return atom(b.IdP)
}
func (b *Binding) val() *Term {
	if b.Inline {
		return parseTerm(b.ValP)
	}
	return atom(b.ValP)
}

// unitPaths: the paths on which the unit handles one scanned element.
func (c *Check) unitPaths(b *Binding) []*Path {
	ps := c.P.PathsOf(b.Closure)
	if !b.Inline {
		return ps
	}
	var out []*Path
	for _, pa := range ps {
		for _, ev := range pa.Events {
			if ev.Kind == EvLoop && ev.Node == ast.Node(b.Loop) {
				out = append(out, pa)
				break
			}
		}
	}
	return out
}

// isID: the term is the scanned id of the unit.
func (b *Binding) isID(t *Term) bool {
	if b.Inline {
		return stripConv(t).String() == b.IdP
	}
	return t.IsAt(b.IdP)
}

// inlineScanUnits: functions that scan the family in a loop of their own and change state for each element there
// (a handler literal and the iterating function it was handed to, written as one function).
func (c *Check) inlineScanUnits(family string) []*Binding {
	p := c.P
	var out []*Binding
	for _, f := range p.Funcs {
		if !f.isHandWritten() || f.Body == nil || f.Parent != nil {
			continue
		}
		if pk := f.pkgName(); pk != "service" && pk != "keeper" {
			continue
		}
		scans := false
		for _, e := range p.SummaryOf(f).Effs {
			if e.Kind == "store" && e.Op == "Iter" && e.Family == family && len(e.Chain) <= 1 {
				scans = true
			}
			if e.Kind == "dyn" && len(e.Chain) == 0 {
				scans = false // hands the elements to a function value: an iterating function
				break
			}
		}
		if !scans {
			continue
		}
		var b *Binding
		for _, pa := range p.PathsOf(f) {
			var loop ast.Stmt
			var id, val, decoded *Term
			mutates := false
			for _, ev := range pa.Events {
				if ev.Kind != EvCall || ev.Loop == nil {
					continue
				}
				for _, a := range ev.CI.args {
					if id == nil && p.scansFamily(a, family) && isByteSlice(a.Typ) && !strings.HasSuffix(stripConv(a).Op, "Iterator.Value") && !strings.HasSuffix(stripConv(a).Op, "Iterator.Key") {
						id = stripConv(a)
						loop = ev.Loop
					}
				}
				if id != nil && val == nil && ev.CI.fn != nil && len(ev.CI.fn.Res) >= 1 && namedStruct(ev.CI.fn.Res[0].Type()) != "" {
					n := 0
					same := false
					for _, a := range ev.CI.args {
						if a.IsAt("ctx") {
							continue
						}
						n++
						if stripConv(a).String() == id.String() {
							same = true
						}
					}
					if n == 1 && same {
						val = mk("res", atom("0"), ev.Result).withType(ev.CI.fn.Res[0].Type())
					}
				}
				// the record decoded from the scanned value itself
				if decoded == nil && (strings.HasSuffix(ev.CI.name, ".MustUnmarshalBinaryBare") || strings.HasSuffix(ev.CI.name, ".UnmarshalBinaryBare")) && len(ev.CI.args) == 2 {
					if a0 := stripConv(ev.CI.args[0]); strings.HasSuffix(a0.Op, "Iterator.Value") && p.scansFamily(a0, family) {
						if pt, ok := ev.CI.args[1].Typ.(*types.Pointer); ok && namedStruct(pt.Elem()) != "" {
							decoded = mk("out", ev.Result, atom("1")).withType(pt.Elem())
							if loop == nil {
								loop = ev.Loop
							}
						}
					}
				}
				for _, e := range p.effectsOfEvent(f, ev) {
					if e.Mutates() && (e.Kind == "store" || e.Kind == "bank") {
						mutates = true
					}
				}
			}
			if val == nil && decoded != nil {
				val = decoded
				if id == nil {
					id = atom("?")
				}
			}
			if id != nil && val != nil && mutates {
				b = &Binding{Closure: f, Iter: f, Inline: true, Loop: loop, IdP: id.String(), ValP: val.String(), Args: []*Term{id, val}}
				break
			}
		}
		if b == nil {
			continue
		}
		// the call that starts the scan
		for _, g := range p.Funcs {
			if b.Call != nil || !g.isHandWritten() || g.Body == nil || g == f {
				continue
			}
			if pk := g.pkgName(); pk != "service" && pk != "keeper" {
				continue
			}
			for _, pa := range p.PathsOf(g) {
				for _, ev := range pa.Events {
					if ev.Kind == EvCall && ev.CI.fn == f && b.Call == nil {
						b.Caller, b.Call = g, ev
					}
				}
			}
		}
		if b.Call != nil {
			out = append(out, b)
		}
	}
	return out
}

// resolveAdapter looks through closures that do nothing but forward their parameters to one
// module function: the unit that handles the scanned element is that function.
func (c *Check) resolveAdapter(b *Binding) {
	for depth := 0; depth < 3; depth++ {
		paths := c.P.PathsOf(b.Closure)
		if len(paths) != 1 || !paths[0].OK() {
			return
		}
		var call *Event
		for _, ev := range paths[0].Events {
			switch ev.Kind {
			case EvCall:
				if call != nil {
					return
				}
				call = ev
			case EvFact, EvReturn:
			default:
				return
			}
		}
		if call == nil || call.CI.fn == nil || !call.CI.fn.isHandWritten() || call.CI.fn.Body == nil {
			return
		}
		g := call.CI.fn
		if len(c.P.SummaryOf(g).Effs) == 0 {
			return
		}
		ip, vp := "", ""
		for i, a := range call.CI.args {
			if a.IsAt(b.IdP) {
				ip = fmt.Sprintf("P%d", i)
			}
			if a.IsAt(b.ValP) {
				vp = fmt.Sprintf("P%d", i)
			}
		}
		if ip == "" || vp == "" {
			return
		}
		b.Adapters = append(b.Adapters, b.Closure)
		b.Closure, b.IdP, b.ValP = g, ip, vp
	}
}

// closuresBoundToScan finds closures passed to a function that scans the
// given key family and invokes its function parameter per element.
func (c *Check) closuresBoundToScan(family string) []*Binding {
	p := c.P
	var out []*Binding
	seen := map[string]bool{}
	for _, f := range p.Funcs {
		if !f.isHandWritten() || f.Body == nil {
			continue
		}
		if pk := f.pkgName(); pk != "service" && pk != "keeper" {
			continue
		}
		for _, pa := range p.PathsOf(f) {
			for _, ev := range pa.Events {
				if ev.Kind != EvCall || ev.CI.fn == nil {
					continue
				}
				// a function literal of f called directly on a record gathered from the scan beforehand
				if ev.CI.name == "dyn" && ev.CI.fn.Lit != nil && ev.CI.fn.Parent == f && !seen[ev.CI.fn.Name+"|direct"] {
					hit := false
					for _, a := range ev.CI.args {
						if p.scansFamily(a, family) {
							hit = true
						}
					}
					if hit {
						seen[ev.CI.fn.Name+"|direct"] = true
						b := &Binding{Closure: ev.CI.fn, Caller: f, Call: ev, Iter: f, Args: ev.CI.args, IdP: "P0", ValP: "P1"}
						c.resolveAdapter(b)
						out = append(out, b)
					}
					continue
				}
				g := ev.CI.fn
				sum := p.SummaryOf(g)
				scans := false
				var twoPass map[string]*Term
				for _, e := range sum.Effs {
					if e.Kind == "store" && e.Op == "Iter" && e.Family == family && len(e.Chain) <= 1 {
						scans = true
					}
				}
				if !scans {
					// a driver over a collection gathered from the scan beforehand (two-pass form): what it hands to its
					// function parameter, on this call's arguments, is an element of the scanned family
					m := map[string]*Term{}
					for i, a := range ev.CI.args {
						m[fmt.Sprintf("P%d", i)] = a
					}
					for _, e := range sum.Effs {
						if e.Kind != "dyn" || len(e.Args) < 2 || len(e.Chain) > 1 {
							continue
						}
						for _, a := range e.Args[1:] {
							if ia := a.Subst(m); ia != a && p.scansFamily(ia, family) {
								scans = true
								twoPass = m
							}
						}
					}
				}
				if !scans {
					continue
				}
				for _, e := range sum.Effs {
					if e.Kind != "dyn" || len(e.Args) == 0 || len(e.Chain) > 1 {
						continue
					}
					a0 := e.Args[0]
					if a0.Op != "" || !strings.HasPrefix(a0.At, "P") {
						continue
					}
					var i int
					fmt.Sscanf(a0.At, "P%d", &i)
					if i >= len(ev.CI.args) {
						continue
					}
					arg := ev.CI.args[i]
					if arg.Is("func") {
						cl := p.FuncNamed(arg.A[0].At)
						if cl != nil && !seen[cl.Name+"|"+g.Name] {
							seen[cl.Name+"|"+g.Name] = true
							b := &Binding{Closure: cl, Caller: f, Call: ev, Iter: g, Args: e.Args[1:], IdP: "P0", ValP: "P1"}
							if twoPass != nil {
								// what the driver hands to the handler, on the collection gathered from the scan
								b.Args = nil
								for _, a := range e.Args[1:] {
									b.Args = append(b.Args, a.Subst(twoPass))
								}
							}
							c.resolveAdapter(b)
							out = append(out, b)
						}
					}
				}
			}
		}
	}
	if len(out) == 0 {
		out = c.inlineScanUnits(family)
	}
	// a literal that only gathers the scanned records for a later pass is not the handler of the scan
	if len(out) > 1 {
		var keep []*Binding
		for _, b := range out {
			mut := false
			for _, e := range p.SummaryOf(b.Closure).Effs {
				if e.Mutates() {
					mut = true
				}
			}
			if mut {
				keep = append(keep, b)
			}
		}
		if len(keep) > 0 {
			out = keep
		}
	}
	return out
}

// ------------------------------------------------------------------ facts

// closeFacts expands (ok (f args)) facts of module functions with the
// callee's success facts instantiated on the call's arguments (guard summaries).
func (c *Check) closeFacts(fs FactSet) FactSet {
	out := fs.Clone()
	work := []Fact{}
	for _, f := range fs {
		work = append(work, f)
	}
	depth := map[string]int{}
	for len(work) > 0 {
		f := work[0]
		work = work[1:]
		if f.T.Op != "ok" || len(f.T.A) != 1 {
			continue
		}
		call := f.T.A[0]
		g := c.P.FuncNamed(call.Op)
		if g == nil || !g.isHandWritten() || depth[f.String()] > 3 {
			continue
		}
		m := argMap(g, call)
		if f.Neg {
			// a check with a single cause of failure: it fails exactly when that one condition fails
			if x, ok := c.singleFailureCause(g); ok {
				for _, nf := range x.Not().SubstAll(m) {
					if !out.Has(nf) && !nf.T.IsAt("#true") && !nf.T.IsAt("#false") {
						out.Add(nf)
					}
				}
			}
			// what every failing exit of the check has established (it rejects only under these conditions)
			for _, ff := range c.failureFacts(g) {
				for _, nf := range ff.SubstAll(m) {
					if !out.Has(nf) && !nf.T.IsAt("#true") && !nf.T.IsAt("#false") {
						out.Add(nf)
					}
				}
			}
			continue
		}
		for _, sf := range c.P.SummaryOf(g).SuccessFacts {
			for _, nf := range sf.SubstAll(m) {
				if nf.T.IsAt("#true") || nf.T.IsAt("#false") {
					continue
				}
				if !out.Has(nf) {
					out.Add(nf)
					depth[nf.String()] = depth[f.String()] + 1
					work = append(work, nf)
				}
			}
		}
	}
	expandDisjunctions(out)
	return out
}

// expandDisjunctions: a fact (D1 ∨ … ∨ Dn) whose disjuncts are conjunctions — what a callee with several returning paths
// has established, one disjunct per path — yields every conjunct that all its feasible disjuncts share (a disjunct with a
// conjunct that the other facts refute, like ¬true for a mode flag passed as a constant, is not feasible).
func expandDisjunctions(fs FactSet) {
	conj := func(t *Term) []*Term {
		if t.Op == "&&" {
			return t.A
		}
		return []*Term{t}
	}
	var add []Fact
	for _, f := range fs {
		if f.Neg || f.T.Op != "||" || len(f.T.A) < 2 {
			continue
		}
		var common map[string]Fact
		for _, d := range f.T.A {
			cs := conj(d)
			feasible := true
			cur := map[string]Fact{}
			for _, ct := range cs {
				cf := normFact(Fact{T: ct})
				if isConstTerm(cf.T) {
					if cf.T.IsAt("#true") == cf.Neg {
						feasible = false
					}
					continue
				}
				if decideFact(cf, fs) == 0 || fs.Holds(cf.T, cf.Neg) {
					feasible = false
				}
				cur[cf.String()] = cf
			}
			if !feasible {
				continue
			}
			if common == nil {
				common = cur
				continue
			}
			for k := range common {
				if _, ok := cur[k]; !ok {
					delete(common, k)
				}
			}
		}
		for _, cf := range common {
			if !fs.Has(cf) {
				add = append(add, cf)
			}
		}
	}
	for _, cf := range add {
		fs.Add(cf)
	}
}

// argMap maps callee parameter atoms to the argument terms of a call term
// (call terms omit ctx and Keeper arguments).
func argMap(g *Func, call *Term) map[string]*Term {
	m := map[string]*Term{}
	args := call.A
	if g.Recv != nil && !isKeeperType(g.Recv.Type()) && !isCtxType(g.Recv.Type()) {
		if len(args) > 0 {
			m["Precv"] = args[0]
			args = args[1:]
		}
	}
	j := 0
	for i, pr := range g.Params {
		if isCtxType(pr.Type()) {
			m[fmt.Sprintf("P%d", i)] = atom("ctx")
			continue
		}
		if isKeeperType(pr.Type()) {
			m[fmt.Sprintf("P%d", i)] = atom("K")
			continue
		}
		if j < len(args) {
			m[fmt.Sprintf("P%d", i)] = args[j]
			j++
		}
	}
	return m
}

// constTerm: the atom of a named constant of package types, carrying its object (so that constant
// comparison and enumeration size are available to fact reasoning).
func (c *Check) constTerm(q string) *Term {
	a := atom("#" + q)
	if i := strings.Index(q, "."); i > 0 && q[:i] == "types" {
		if tp := c.P.ByPkg[pkgTypes]; tp != nil {
			if o := tp.Types.Scope().Lookup(q[i+1:]); o != nil {
				return a.withObj(o).withType(o.Type())
			}
		}
	}
	return a
}

// hasFactMatching searches facts (after closure) for pattern with polarity.
func hasFact(fs FactSet, pattern string, neg bool) (Bind, bool) {
	_, b, ok := fs.FindFact(pattern, neg)
	return b, ok
}

// ------------------------------------------------------------------ misc

func fnNames(fs []*Func) []string {
	var out []string
	for _, f := range fs {
		out = append(out, f.Name)
	}
	sort.Strings(out)
	return out
}

// effDesc is a short, line-free description of an effect for construct keys.
func effDesc(e *Eff) string {
	switch e.Kind {
	case "store":
		return fmt.Sprintf("%s(%s)", e.Op, e.Family)
	case "bank":
		return fmt.Sprintf("bank.%s", e.Op)
	}
	return e.Kind + "." + e.Op
}

func chainStr(e *Eff) string {
	if len(e.Chain) == 0 {
		return e.Fn.Name
	}
	return strings.Join(e.Chain, ">")
}

// constName returns the name of a constant atom without '#'.
func constName(t *Term) string {
	if t != nil && t.Op == "" && strings.HasPrefix(t.At, "#") {
		return t.At[1:]
	}
	return ""
}

func isModuleAccount(t *Term, name string) bool { return constName(t) == "types."+name }

// handFuncs iterates hand-written functions of the consensus packages.
func (c *Check) handFuncs(pkgs ...string) []*Func {
	want := map[string]bool{}
	for _, p := range pkgs {
		want[p] = true
	}
	var out []*Func
	for _, f := range c.P.Funcs {
		if f.isHandWritten() && f.Body != nil && want[f.pkgName()] && !c.P.inlineTarget(f) && !c.P.localBlock(f) {
			out = append(out, f)
		}
	}
	return out
}

// directEffects returns the primitive effects written directly in f's body.
func (c *Check) directEffects(f *Func) []*Eff {
	var out []*Eff
	for _, e := range c.P.SummaryOf(f).Effs {
		if len(e.Chain) == 0 {
			out = append(out, e)
		}
	}
	return out
}

func typeOfTerm(t *Term) types.Type {
	if t == nil {
		return nil
	}
	return t.Typ
}

func thoroughExtras(c *Check) {
	thoroughRun(c)
}

// deepCall is a call reachable from a function, with arguments expressed in that function's vocabulary.
type deepCall struct {
	Name string
	Fn   *Func
	Args []*Term
	Recv *Term
	Pos  token.Pos
}

// deepCalls lists the calls made by f and (transitively, depth-limited) by the module functions it calls,
// with callee parameters substituted by the actual arguments.
func (c *Check) deepCalls(f *Func, depth int) []*deepCall {
	var out []*deepCall
	seen := map[string]bool{}
	for _, pa := range c.P.PathsOf(f) {
		for _, ev := range pa.Events {
			if ev.Kind != EvCall {
				continue
			}
			k := fmt.Sprintf("%d|%s", ev.Pos, fmt.Sprint(ev.CI.args))
			if seen[k] {
				continue
			}
			seen[k] = true
			out = append(out, &deepCall{Name: ev.CI.name, Fn: ev.CI.fn, Args: ev.CI.args, Recv: ev.CI.recv, Pos: ev.Pos})
			g := ev.CI.fn
			if g == nil || depth <= 0 || !g.isHandWritten() || g.Body == nil || g == f {
				continue
			}
			m := map[string]*Term{}
			for i, a := range ev.CI.args {
				m[fmt.Sprintf("P%d", i)] = a
			}
			if ev.CI.recv != nil {
				m["Precv"] = ev.CI.recv
			}
			for _, dc := range c.deepCalls(g, depth-1) {
				nd := &deepCall{Name: dc.Name, Fn: dc.Fn, Pos: dc.Pos, Recv: dc.Recv.Subst(m)}
				for _, a := range dc.Args {
					nd.Args = append(nd.Args, a.Subst(m))
				}
				out = append(out, nd)
			}
		}
	}
	return out
}

// ---- role lookups for helper functions that rules used to name (kept refactor-stable) ----

// scannerOf: the read-only keeper function whose only store effect is a scan of the family (e.g. earned-fee totals).
func (c *Check) scannerOf(fam string) *Func {
	var best *Func
	for _, f := range c.handFuncs("keeper") {
		if f.Obj == nil || len(f.Res) == 0 || isNamed(f.Res[0].Type(), "github.com/tendermint/tm-db", "Iterator") {
			continue
		}
		n, ok := 0, true
		for _, e := range c.P.SummaryOf(f).Effs {
			if e.Kind == "emit" {
				continue
			}
			n++
			if !(e.Kind == "store" && e.Op == "Iter" && e.Family == fam && len(e.Chain) == 0) {
				ok = false
			}
		}
		if ok && n == 1 && (best == nil || f.Name < best.Name) {
			best = f
		}
	}
	return best
}

// fnBySignature: the keeper method with the given parameter / result type names (after ctx).
func (c *Check) fnBySignature(params []string, results []string) *Func {
	var best *Func
	for _, f := range c.handFuncs("keeper") {
		if f.Obj == nil || f.Recv == nil {
			continue
		}
		var ps []string
		for _, pr := range f.Params {
			if isCtxType(pr.Type()) {
				continue
			}
			ps = append(ps, typeName(pr.Type()))
		}
		var rs []string
		for _, r := range f.Res {
			rs = append(rs, typeName(r.Type()))
		}
		if strings.Join(ps, ",") == strings.Join(params, ",") && strings.Join(rs, ",") == strings.Join(results, ",") {
			if best == nil || f.Name < best.Name {
				best = f
			}
		}
	}
	return best
}

func nameOf(f *Func, fallback string) string {
	if f == nil {
		return fallback
	}
	return f.Name
}

func (c *Check) nEarned() string { return nameOf(c.scannerOf("0x18"), "keeper.Keeper.GetEarnedFees") }
func (c *Check) nOwnerEarned() string {
	return nameOf(c.scannerOf("0x19"), "keeper.Keeper.GetOwnerEarnedFees")
}
func (c *Check) nWithdrawAddr() string {
	return nameOf(c.getterByFamily("0x07"), "keeper.Keeper.GetWithdrawAddress")
}
func (c *Check) nVolume() string {
	return nameOf(c.getterByFamily("0x17"), "keeper.Keeper.GetRequestVolume")
}
func (c *Check) nParsePricing() string {
	return nameOf(c.fnBySignature([]string{"string"}, []string{"types.Pricing", "error"}), "keeper.Keeper.ParsePricing")
}

// singleFailureCause: g returns only an error and has one committed and one rejecting path that differ in exactly
// one fact x (x on success, ¬x on failure, everything else alike): ok(g) ⇔ x.
// failureFacts: the facts over g's parameters common to every exit of g that may return an error (a path that
// returns another call's error unexamined counts as such an exit).
func (c *Check) failureFacts(g *Func) []Fact {
	if g == nil || g.Body == nil || c.P.pathsBusy[g] || len(g.Res) == 0 || !isErrorType(g.Res[len(g.Res)-1].Type()) {
		return nil
	}
	if v, ok := c.failMemo[g]; ok {
		return v
	}
	if c.failMemo == nil {
		c.failMemo = map[*Func][]Fact{}
	}
	c.failMemo[g] = nil
	var common FactSet
	n := 0
	for _, pa := range c.P.PathsOf(g) {
		if pa.Exit != ExitRevert && pa.Exit != ExitMaybe {
			continue
		}
		n++
		if common == nil {
			common = pa.AllFacts()
		} else {
			common = common.Intersect(pa.AllFacts())
		}
	}
	var out []Fact
	if n > 0 {
		for _, k := range common.Sorted() {
			fa := common[k]
			// only conditions on the parameters themselves
			local := false
			fa.T.Walk(func(t *Term) bool {
				if t.Op == "res" || t.Op == "out" || t.Op == "key" || t.Op == "elem" {
					local = true
				}
				return !local
			})
			if !local {
				out = append(out, fa)
			}
		}
	}
	c.failMemo[g] = out
	return out
}

func (c *Check) singleFailureCause(g *Func) (Fact, bool) {
	if g == nil || g.Body == nil || c.P.pathsBusy[g] || len(g.Res) == 0 || !isErrorType(g.Res[len(g.Res)-1].Type()) {
		return Fact{}, false
	}
	var okP, badP *Path
	for _, pa := range c.P.PathsOf(g) {
		switch {
		case pa.Exit == ExitSuccess && okP == nil:
			okP = pa
		case pa.Exit == ExitRevert && badP == nil:
			badP = pa
		default:
			return Fact{}, false
		}
	}
	if okP == nil || badP == nil {
		return Fact{}, false
	}
	fs, fr := okP.AllFacts(), badP.AllFacts()
	var x *Fact
	for _, f := range fs {
		if fr.Has(f) {
			continue
		}
		if !fr.Has(f.Not()) || x != nil {
			return Fact{}, false
		}
		ff := f
		x = &ff
	}
	if x == nil || len(fr) != len(fs) {
		return Fact{}, false
	}
	return *x, true
}

// liftCallArgs: the arguments of a call made by function f, expressed over the arguments of f's own single caller
// while they are bare parameters of f (a wrapper that hands its parameters on): returns the lifted arguments and the
// function they are finally expressed in.
func (c *Check) liftCallArgs(f *Func, args []*Term) ([]*Term, *Func) {
	for depth := 0; depth < 3 && f != nil && f.Obj != nil; depth++ {
		bare := false
		for _, a := range args {
			if a != nil && a.Op == "" && strings.HasPrefix(a.At, "P") && !a.IsAt("Precv") {
				bare = true
			}
		}
		if !bare || c.P.refCount()[f.Obj] != 1 || c.P.refsOther[f.Obj] > 0 {
			return args, f
		}
		caller := c.P.refCaller[f.Obj]
		if caller == nil {
			return args, f
		}
		var call *Event
		hosts := []*Func{caller}
		for _, h := range c.P.Funcs {
			// the reference may sit in a function literal of the caller
			for q := h.Parent; q != nil; q = q.Parent {
				if q == caller {
					hosts = append(hosts, h)
				}
			}
		}
		for _, h := range hosts {
			for _, pa := range c.P.PathsOf(h) {
				for _, ev := range pa.Events {
					if ev.Kind == EvCall && ev.CI.fn == f && call == nil {
						call = ev
						caller = h
					}
				}
			}
		}
		var callArgs []*Term
		if call != nil {
			callArgs = call.CI.args
		} else {
			// the call may have been walked in place: read its arguments off the source
			for _, h := range hosts {
				if h.Body == nil || callArgs != nil {
					continue
				}
				info := h.Pkg.TypesInfo
				ast.Inspect(h.Body, func(nd ast.Node) bool {
					if ce, ok := nd.(*ast.CallExpr); ok && callArgs == nil {
						if fo, _ := typeutil.Callee(info, ce).(*types.Func); fo == f.Obj {
							ev := c.P.fiEval(h)
							for _, a := range ce.Args {
								callArgs = append(callArgs, ev.eval(a))
							}
							caller = h
						}
					}
					return callArgs == nil
				})
			}
		}
		if callArgs == nil {
			return args, f
		}
		m := map[string]*Term{}
		for i, a := range callArgs {
			m[fmt.Sprintf("P%d", i)] = a
		}
		var na []*Term
		for _, a := range args {
			na = append(na, a.Subst(m))
		}
		args, f = na, caller
	}
	return args, f
}
