package main

// C18 — identifiers and store keys are unambiguous (RK6 key grammar, id layout).
// The grammar rules are shared with C13, C15, C16, C17, C19.

import (
	"fmt"
	"go/token"
	"go/types"
	"sort"
	"strings"
)

func init() {
	rules["C18"] = ruleC18
	explanations["C18"] = "Key grammar decided over all byte strings under the segment typing of DESIGN.md §3: " +
		"K1 distinct one-byte prefixes and every store operation resolved to a family; K2 unique parse of every record key shape; " +
		"K3 every prefix scan is a segment-prefix of its family ending at a self-delimiting boundary; K4 every slicing of iterator.Key() " +
		"cuts at segment boundaries and yields exactly one segment; K5 no ignored builder parameter; K6 point operations of a family share one builder; " +
		"plus writer/reader layout agreement of request and context ids, issue-order = index, and id length checks in ValidateBasic. " +
		"Not decided: collision-freeness of the transaction hash."
}

// widthOf returns the fixed width of a segment, or 0 if variable.
func segFixed(s Seg) bool {
	switch s.Kind {
	case "Const", "Sep", "U64":
		return true
	case "Raw":
		return true // request / context ids: fixed length under A-ID (checked by C18.8 at the message boundary)
	}
	return false
}

func segSepFree(s Seg) bool { return s.Kind == "Str" || s.Kind == "Bech32" }

// signer20Roles: address segments whose value is always a transaction signer
// (A-SIGNER20). Provenance is verified by rule K7 (ownerIsSigner).
func (c *Check) addrFixed(fam string, s Seg) bool {
	return s.Kind == "Addr" && s.Role == "owner"
}

// K2 verdict for a record shape: "" if uniquely parsable, else the reason.
func (c *Check) uniqueParse(fam string, sh Shape) (reason string, assumptions []string) {
	n := len(sh)
	for i, s := range sh {
		if s.Kind == "Unknown" {
			return "segment " + s.String() + " is not understood", nil
		}
		if segFixed(s) || i == n-1 {
			continue
		}
		// variable-length, not last
		if segSepFree(s) && i+1 < n && sh[i+1].Kind == "Sep" {
			continue // self-delimiting under A-NAME / bech32 alphabet
		}
		if c.addrFixed(fam, s) {
			assumptions = append(assumptions, fmt.Sprintf("A-SIGNER20(%s in %s)", s.Role, fam))
			continue
		}
		return fmt.Sprintf("variable-length segment %s is followed by %s without a terminator", s, sh[i+1]), assumptions
	}
	return "", assumptions
}

// K3: is scan prefix shape pre an exact sub-space of record shape rec?
func (c *Check) scanExact(fam string, pre, rec Shape) (reason string, assumptions []string) {
	if len(pre) <= len(rec)+1 {
		// a fixed-width id segment scanned by its leading fields (context id ‖ batch counter)
		for i := range rec {
			if i < len(pre) && rec[i].Kind == "Raw" && pre[i].Kind == "Raw" && i == len(rec)-1 && len(pre) == i+2 && pre[i+1].Kind == "U64" {
				same := true
				for j := 0; j < i; j++ {
					if pre[j].Kind != rec[j].Kind || (pre[j].Kind == "Const" && pre[j].Byte != rec[j].Byte) {
						same = false
					}
				}
				if !same {
					break
				}
				if why := c.requestIDLeads(fam); why != "" {
					return "record id is scanned by context‖batch but " + why, nil
				}
				return "", []string{"A-ID"}
			}
		}
	}
	if len(pre) > len(rec) {
		return "scan prefix is longer than the record key", nil
	}
	for i := range pre {
		if pre[i].Kind != rec[i].Kind || (pre[i].Kind == "Const" && pre[i].Byte != rec[i].Byte) {
			return fmt.Sprintf("segment %d of the scan prefix (%s) differs from the record key (%s)", i, pre[i], rec[i]), nil
		}
	}
	last := pre[len(pre)-1]
	if segFixed(last) {
		return "", nil
	}
	if c.addrFixed(fam, last) {
		return "", []string{fmt.Sprintf("A-SIGNER20(%s in %s)", last.Role, fam)}
	}
	return fmt.Sprintf("scan prefix ends inside the variable-length segment %s: keys of a longer %s with the same leading bytes are returned too", last, last.Role), nil
}

// recordShapes returns the shapes used by Set operations per family.
func (c *Check) storeSites() (sites []*Eff) {
	var parametric []*Eff
	for _, f := range c.handFuncs("keeper", "service") {
		for _, e := range c.directEffects(f) {
			if e.Kind != "store" {
				continue
			}
			if e.Family == "?" && e.Key != nil && mentionsParam(e.Key) {
				parametric = append(parametric, e)
				continue
			}
			sites = append(sites, e)
		}
	}
	// a site whose key is (computed from) a parameter of its function stands for its instantiations in the callers
	for _, pe := range parametric {
		seen := map[string]bool{}
		n := 0
		for _, h := range c.handFuncs("keeper", "service") {
			for _, x := range c.P.SummaryOf(h).Effs {
				if x.Kind != "store" || x.Pos != pe.Pos || len(x.Chain) == 0 || x.Op != pe.Op {
					continue
				}
				if x.Family == "?" && mentionsParam(x.Key) {
					continue // handed further up
				}
				k := x.Family + "|" + x.Key.String()
				if seen[k] {
					continue
				}
				seen[k] = true
				n++
				if x.Op == "Iter" {
					// what the helper does with the family it scans, under this instantiation
					cp := *x
					cp.Class = "read"
					for _, y := range c.P.SummaryOf(h).Effs {
						if y.Kind == "store" && y.Family == x.Family && strings.Join(y.Chain, ">") == strings.Join(x.Chain, ">") {
							if y.Op == "Delete" {
								cp.Class = "delete"
							} else if y.Op == "Set" && cp.Class != "delete" {
								cp.Class = "write"
							}
						}
					}
					x = &cp
				}
				sites = append(sites, x)
			}
		}
		if n == 0 {
			sites = append(sites, pe)
		}
	}
	return
}

func mentionsParam(t *Term) bool {
	hit := false
	t.Walk(func(x *Term) bool {
		if x.Op == "" && len(x.At) >= 2 && x.At[0] == 'P' && x.At[1] >= '0' && x.At[1] <= '9' {
			hit = true
		}
		return !hit
	})
	return hit
}

func (c *Check) keyGrammar(prefix string, families map[string]bool) {
	p := c.P
	kt := p.keys()
	in := func(f string) bool { return families == nil || families[f] }
	sites := c.storeSites()
	c.Sites += len(sites)

	// K1
	if families == nil {
		byVal := map[byte][]string{}
		for q, b := range kt.Prefixes {
			byVal[b] = append(byVal[b], q)
		}
		for _, q := range kt.PrefixVars {
			b := kt.Prefixes[q]
			c.req(len(byVal[b]) == 1, prefix+".K1", q, token.NoPos,
				fmt.Sprintf("prefix 0x%02x is used by %v", b, byVal[b]))
		}
		c.req(len(kt.PrefixVars) >= 2, prefix+".K1", "prefix-table", token.NoPos, fmt.Sprintf("%d prefix variables found", len(kt.PrefixVars)))
		c.req(kt.SepVar != "", prefix+".K1", "separator", token.NoPos, "separator variable "+kt.SepVar)
		for _, e := range sites {
			c.req(e.Family != "?", prefix+".K1", "site:"+e.Fn.Name+"#"+e.Op, e.Pos,
				fmt.Sprintf("store.%s key %s resolves to family %s", e.Op, e.Key, e.Family))
		}
		// every []byte builder of types/keys.go must be understood
		for _, f := range c.P.Funcs {
			if f.pkgName() != "types" || !f.isHandWritten() || f.Obj == nil || f.Recv != nil || len(f.Res) != 1 || !isByteSlice(f.Res[0].Type()) {
				continue
			}
			if !strings.HasSuffix(c.P.Fset.Position(f.Body.Pos()).Filename, "keys.go") {
				continue
			}
			b := kt.Builders[f.Name]
			if b == nil && c.listParametric(f) {
				// a helper over a list of parts (join, separator join): it has no shape of its own and is
				// interpreted at each call with the list it is given; the builders that use it must be understood
				c.ok(prefix+".K1", f.Name, f.Body.Pos(), "list-parametric key helper: interpreted at its call sites")
				continue
			}
			if b == nil {
				// a key fragment helper (no prefix of its own): it must be fully understood
				if sh, ok := c.P.shapeOfBuilder(kt, f); ok && len(sh) > 0 {
					bad := ""
					for _, sg := range sh {
						if sg.Kind == "Unknown" {
							bad = sg.Text
						}
					}
					c.req(bad == "", prefix+".K1", f.Name, f.Body.Pos(), "key fragment "+sh.String()+condStr(bad != "", " — segment not understood: "+bad))
					continue
				}
				c.undecided(prefix+".K1", f.Name, f.Body.Pos(), "key builder is not a single append-chain over a prefix variable")
				continue
			}
			bad := ""
			for _, s := range b.Shape {
				if s.Kind == "Unknown" {
					bad = s.Text
				}
			}
			c.req(bad == "", prefix+".K1", f.Name, f.Body.Pos(), "shape "+b.Shape.String()+condStr(bad != "", " — segment not understood: "+bad))
		}
	}

	// record shape per family = shape of builders used in Set
	rec := map[string]map[string]*Builder{}
	point := map[string]map[string]bool{} // family -> builders used by point ops
	for _, e := range sites {
		if e.Op == "Iter" {
			continue
		}
		if b := kt.Builders[e.Builder]; b != nil && stripConv(stripSpread(e.Key)).Op == b.Name {
			if point[e.Family] == nil {
				point[e.Family] = map[string]bool{}
			}
			point[e.Family][b.Name] = true
			if e.Op == "Set" {
				if rec[e.Family] == nil {
					rec[e.Family] = map[string]*Builder{}
				}
				rec[e.Family][b.Name] = b
			}
		}
	}
	fams := []string{}
	for f := range rec {
		fams = append(fams, f)
	}
	sort.Strings(fams)
	shapes := map[string]string{}
	for _, fam := range fams {
		if !in(fam) {
			continue
		}
		for name, b := range rec[fam] {
			shapes[fam] = b.Shape.String()
			reason, as := c.uniqueParse(fam, b.Shape)
			for _, a := range as {
				c.assume(a)
			}
			_ = name
			c.req(reason == "", prefix+".K2", "key:"+b.Shape.kinds(), b.Fn.Body.Pos(), b.Name+": record key "+b.Shape.String()+condStr(reason != "", ": "+reason)+condStr(len(as) > 0, " under "+strings.Join(as, ",")))
			// K5
			c.req(len(b.Unused) == 0, prefix+".K5", "key:"+b.Shape.kinds(), b.Fn.Body.Pos(), b.Name+": "+condStr(len(b.Unused) > 0, "parameters ignored by the key: "+strings.Join(b.Unused, ","))+condStr(len(b.Unused) == 0, "all parameters occur in the key"))
		}
		// K6
		c.req(len(point[fam]) == 1, prefix+".K6", "family:"+fam, token.NoPos, "point operations use builders "+strings.Join(sortedKeys(point[fam]), ","))
	}
	c.setInfo("key_shapes", shapes)

	// K3
	nscan := 0
	for _, e := range sites {
		if e.Op != "Iter" || !in(e.Family) {
			continue
		}
		nscan++
		construct := "scan:" + e.Fn.Name
		if b := kt.Builders[e.Builder]; b != nil {
			construct = "scan:" + b.Shape.kinds() + ":" + c.scanClassOf(e)
		} else {
			construct = "scan:" + e.Family + ":" + c.scanClassOf(e) + ":" + e.Fn.Name
		}
		if e.Family == "?" {
			continue // reported under K1
		}
		if _, isPrefix := kt.Prefixes[e.Builder]; isPrefix {
			c.ok(prefix+".K3", construct, e.Pos, "bare family prefix "+e.Family)
			continue
		}
		b := kt.Builders[e.Builder]
		if b == nil || len(rec[e.Family]) == 0 {
			c.undecided(prefix+".K3", construct, e.Pos, "scan prefix "+e.Key.String()+" has no understood shape or the family has no record writer")
			continue
		}
		for _, rb := range rec[e.Family] {
			reason, as := c.scanExact(e.Family, b.Shape, rb.Shape)
			for _, a := range as {
				c.assume(a)
			}
			c.req(reason == "", prefix+".K3", construct, e.Pos, e.Fn.Name+": "+fmt.Sprintf("scan %s of %s", b.Shape, rb.Shape)+condStr(reason != "", ": "+reason)+condStr(len(as) > 0, " under "+strings.Join(as, ",")))
		}
	}
	c.setInfo("scan_sites", nscan)

	// K4 parse sites
	c.parseSites(prefix, rec, in)
}

func condStr(b bool, s string) string {
	if b {
		return s
	}
	return ""
}

// listParametric: a key helper with a slice-of-strings / slice-of-byte-strings (or variadic) parameter.
func (c *Check) listParametric(f *Func) bool {
	for _, pr := range f.Params {
		if sl, ok := pr.Type().Underlying().(*types.Slice); ok && !isByteSlice(pr.Type()) {
			_ = sl
			return true
		}
	}
	return false
}

// checkStringsKey verifies getStringsKey against its model "join with Sep".
func (c *Check) checkStringsKey(prefix string, f *Func) {
	// structural: one range loop over the parameter appending elem then Sep; result trimmed by one byte
	okLoop, okTrim := false, false
	for _, pa := range c.P.PathsOf(f) {
		for _, r := range pa.Ret {
			b, ok := r.Match("(slice $J $LO (- (len $J) #1))")
			if !ok || !(b["$LO"].IsAt("#0") || b["$LO"].IsAt("_")) {
				continue
			}
			okTrim = true
			if _, ok := b["$J"].Match("(append (append $Z (spread (conv []byte (elem P0)))) (spread @types.EmptyByte))"); ok {
				okLoop = true
			}
		}
	}
	c.req(okLoop && okTrim, prefix+".K1", f.Name, f.Body.Pos(),
		fmt.Sprintf("join-with-separator model: loop appends element then separator=%v, result drops the trailing separator=%v", okLoop, okTrim))
}

// parseSites checks every slicing of iterator.Key().
func (c *Check) parseSites(prefix string, rec map[string]map[string]*Builder, in func(string) bool) {
	p := c.P
	type use struct {
		t   *Term
		fn  *Func
		pos token.Pos
	}
	seen := map[string]bool{}
	var uses []use
	isKeyTerm := func(t *Term) bool { return strings.HasSuffix(t.Op, "Iterator.Key") && len(t.A) == 1 }
	// collect maximal slice terms over iterator keys that are used as values
	var collect func(t *Term, fn *Func, pos token.Pos, underSlice bool)
	collect = func(t *Term, fn *Func, pos token.Pos, underSlice bool) {
		if t == nil {
			return
		}
		if t.Op == "slice" && t.ContainsOp("slice") {
			root := t
			for root.Op == "slice" || root.Op == "conv" {
				if root.Op == "conv" {
					root = root.A[1]
				} else {
					root = root.A[0]
				}
			}
			if isKeyTerm(root) && !underSlice {
				k := fn.Name + "|" + t.String()
				if !seen[k] {
					seen[k] = true
					uses = append(uses, use{t, fn, pos})
				}
			}
			// the bounds may contain bytes.Index/len over inner slices: those are intermediates
			return
		}
		if t.Op == "len" || t.Op == "bytes.Index" || t.Op == "bytes.SplitN" || t.Op == "bytes.Cut" {
			return
		}
		for _, a := range t.A {
			collect(a, fn, pos, false)
		}
	}
	for _, f := range c.handFuncs("keeper", "service") {
		for _, pa := range p.PathsOf(f) {
			for _, ev := range pa.Events {
				switch ev.Kind {
				case EvCall:
					if ev.CI.name == "bytes.Index" || ev.CI.name == "len" || ev.CI.name == "bytes.SplitN" || ev.CI.name == "bytes.Cut" {
						continue
					}
					for _, a := range ev.CI.args {
						collect(a, f, ev.Pos, false)
					}
					if ev.CI.recv != nil {
						collect(ev.CI.recv, f, ev.Pos, false)
					}
					// a key handed to a module helper (a parser in package types, a keeper helper) is sliced there
					if g := ev.CI.fn; g != nil && g.isHandWritten() && g.Body != nil && g != f {
						m := map[string]*Term{}
						keyed := false
						for i, a := range ev.CI.args {
							m[fmt.Sprintf("P%d", i)] = a
							root := stripConv(a)
							for root.Op == "slice" {
								root = stripConv(root.A[0])
							}
							if isKeyTerm(root) {
								keyed = true
							}
						}
						if keyed {
							for _, qa := range p.PathsOf(g) {
								for _, qe := range qa.Events {
									switch qe.Kind {
									case EvCall:
										if qe.CI.name == "bytes.Index" || qe.CI.name == "len" || qe.CI.name == "bytes.SplitN" || qe.CI.name == "bytes.Cut" {
											continue
										}
										for _, a := range qe.CI.args {
											collect(a.Subst(m), g, qe.Pos, false)
										}
									case EvAssign, EvWrite:
										if qe.Val != nil {
											collect(qe.Val.Subst(m), g, qe.Pos, false)
										}
									}
								}
								for _, r := range qa.Ret {
									collect(r.Subst(m), g, qa.RetPos, false)
								}
							}
						}
					}
				}
			}
			for _, r := range pa.Ret {
				collect(r, f, pa.RetPos, false)
			}
		}
	}
	c.Sites += len(uses)
	n := 0
	for _, u := range uses {
		fam, a, b, shape, why := c.regionOf(u.t, rec)
		if !in(fam) {
			continue
		}
		n++
		construct := "parse:" + u.fn.Name + ":" + fam
		if why != "" {
			c.fail(prefix+".K4", construct, u.pos, "key slice "+shortTerm(u.t)+": "+why)
			continue
		}
		if b-a != 1 {
			c.fail(prefix+".K4", construct, u.pos, fmt.Sprintf("key slice %s covers segments %s of %s — used as one value", shortTerm(u.t), shape[a:b], shape))
			continue
		}
		c.ok(prefix+".K4", construct, u.pos, fmt.Sprintf("key slice yields segment %s of %s", shape[a], shape))
	}
	c.setInfo("parse_sites", n)
}

func shortTerm(t *Term) string {
	s := t.String()
	s = strings.ReplaceAll(s, "github.com/tendermint/tm-db.", "")
	if len(s) > 160 {
		s = s[:160] + "…"
	}
	return s
}

// regionOf interprets nested slices of iterator.Key() over the family's record shape.
func (c *Check) regionOf(t *Term, rec map[string]map[string]*Builder) (fam string, a, b int, shape Shape, why string) {
	t = stripConv(t)
	if strings.HasSuffix(t.Op, "Iterator.Key") && len(t.A) == 1 {
		it := t.A[0]
		if len(it.A) != 2 {
			return "?", 0, 0, nil, "iterator is not a prefix iterator"
		}
		fam, _ = c.P.keyFamily(it.A[1])
		var bl *Builder
		for _, x := range rec[fam] {
			bl = x
		}
		if bl == nil {
			return fam, 0, 0, nil, "family " + fam + " has no record writer"
		}
		return fam, 0, len(bl.Shape), bl.Shape, ""
	}
	if t.Op != "slice" || len(t.A) != 3 {
		return "?", 0, 0, nil, "not a slice of an iterator key"
	}
	fam, a, b, shape, why = c.regionOf(t.A[0], rec)
	if why != "" {
		return
	}
	base := stripConv(t.A[0])
	lo, hi := stripConv(t.A[1]), stripConv(t.A[2])
	// len(prefix variable of this family): the one-byte family prefix
	if lo.Op == "len" && len(lo.A) == 1 {
		if pv := stripConv(lo.A[0]); pv.Op == "" && strings.HasPrefix(pv.At, "@types.") {
			if pf, _ := c.P.keyFamily(pv); pf == fam && a < b && shape[a].Kind == "Const" {
				lo = atom("#1")
			}
		}
	}
	// low bound
	switch {
	case lo.IsAt("_") || lo.IsAt("#0"):
	case isConstTerm(lo):
		n, okn := litInt(lo)
		if !okn {
			return fam, a, b, shape, "low bound " + lo.String() + " is not understood"
		}
		i := a
		for n > 0 && i < b {
			w := 0
			switch shape[i].Kind {
			case "Const", "Sep":
				w = 1
			case "U64":
				w = 8
			case "Addr":
				if c.addrFixed(fam, shape[i]) {
					w = 20
					c.assume(fmt.Sprintf("A-SIGNER20(%s in %s)", shape[i].Role, fam))
				}
			}
			if w == 0 || w > n {
				return fam, a, b, shape, fmt.Sprintf("constant offset %s does not end at a segment boundary of %s", lo, shape)
			}
			n -= w
			i++
		}
		if n != 0 {
			return fam, a, b, shape, fmt.Sprintf("constant offset %s runs past the key shape %s", lo, shape)
		}
		a = i
	default:
		// (+ (bytes.Index base Sep) #1)
		if bd, ok := lo.Match("(+ (bytes.Index $X @types.EmptyByte) #1)"); ok && stripConv(bd["$X"]).Eq(base) {
			s := firstSep(shape, a, b)
			if s < 0 {
				return fam, a, b, shape, "no separator-terminated segment at the cut"
			}
			a = s + 1
		} else {
			return fam, a, b, shape, "low bound " + shortTerm(lo) + " is not an accepted cut"
		}
	}
	// high bound
	switch {
	case hi.IsAt("_"):
	default:
		if bd, ok := hi.Match("(bytes.Index $X @types.EmptyByte)"); ok && stripConv(bd["$X"]).Eq(base) {
			s := firstSep(shape, a, b)
			if s < 0 {
				return fam, a, b, shape, "no separator-terminated segment at the cut"
			}
			b = s
		} else if bd, ok := hi.Match("(- (len $X) (len $D))"); ok && stripConv(bd["$X"]).Eq(base) {
			// trailing datum read back from the record's own value
			d := bd["$D"]
			last := shape[b-1]
			if last.Kind == "Str" && d.ContainsOp("github.com/tendermint/tm-db.Iterator.Value") && sameIterator(d, base) {
				b = b - 1
			} else {
				return fam, a, b, shape, "trailing length " + shortTerm(d) + " is not the record's own trailing datum"
			}
		} else {
			return fam, a, b, shape, "high bound " + shortTerm(hi) + " is not an accepted cut"
		}
	}
	if a >= b {
		return fam, a, b, shape, "empty region"
	}
	return fam, a, b, shape, ""
}

func firstSep(sh Shape, a, b int) int {
	for i := a; i < b; i++ {
		if sh[i].Kind == "Sep" {
			return i
		}
		if !segSepFree(sh[i]) {
			return -1
		}
	}
	return -1
}

func sameIterator(d, key *Term) bool {
	var it *Term
	key.Walk(func(x *Term) bool {
		if strings.HasSuffix(x.Op, "Iterator.Key") && len(x.A) == 1 {
			it = x.A[0]
			return false
		}
		return true
	})
	if it == nil {
		return false
	}
	same := false
	d.Walk(func(x *Term) bool {
		if strings.HasSuffix(x.Op, "Iterator.Value") && len(x.A) == 1 && x.A[0].Eq(it) {
			same = true
		}
		return !same
	})
	return same
}

func ruleC18(c *Check) {
	c.assume("A-NAME: service names match reServiceName (no 0x00); bech32 strings contain no 0x00")
	c.assume("A-ID: transaction hashes are 32 bytes, so context ids are 40 and request ids 58 bytes")
	c.keyGrammar("C18", nil)
	c.nameRegexpImpl("C18")
	c.idLayout()
	c.issueOrder()
	c.idLengthChecks()
	c.ownerIsSigner("C18")
	c.recordKeysFromMessage("C18.9")
	c.clientRecovery("C18.10")
	c.clientContextRecovery("C18.10")
	c.idInputsPresent("C18.11")
	c.createRejectsBeforeStore("C18.12")
	c.addressRoles("C18.13")
	// records of different roles live under different keys: a queue entry is always written and removed together with
	// the per-context record of its own queue (a builder of the sibling queue would make two records one store entry)
	c.queuePairs("C18")
}

// recordKeysFromMessage: a definition / binding record is stored under the key built from the very name (and
// provider) the message carries and the existence check looked up — not from a transformed copy, which would
// make distinct names share a key or store a record where lookups by its name do not find it.
func (c *Check) recordKeysFromMessage(rule string) {
	want := map[string]struct {
		fam    string
		fields []string
	}{
		"MsgDefineService": {"0x01", []string{"Name"}},
		"MsgBindService":   {"0x02", []string{"ServiceName", "Provider"}},
	}
	n := 0
	for _, en := range c.entries(rule) {
		w, ok := want[en.Msg]
		if !ok {
			continue
		}
		for _, e := range c.P.SummaryOf(en.Handler).Effs {
			if e.Kind != "store" || e.Op != "Set" || e.Family != w.fam || !e.Commit {
				continue
			}
			n++
			k := keyArgs(e)
			okk := len(k) == len(w.fields)
			for i := 0; okk && i < len(k); i++ {
				if k[i].String() != en.Field(w.fields[i]) {
					okk = false
				}
			}
			c.req(okk, rule, effConstruct(en.Msg, e)+"#key-from-message", e.Pos,
				"the record key is built from the message's own "+strings.Join(w.fields, ", ")+": "+fmtTerms(k))
		}
	}
	c.req(n >= 2, rule, "record-key-sites", token.NoPos, fmt.Sprintf("%d record writes of define / bind checked", n))
}

// requestIDLeads: the family's trailing id is a request id (generated by the
// id writer, or admitted only when the request record for the same id exists)
// and the id layout starts with context id ‖ 8-byte batch counter.
func (c *Check) requestIDLeads(fam string) string {
	g := c.typesFn("GenerateRequestID")
	if g == nil {
		return "the request-id writer is missing"
	}
	pp, _, fields, why := c.writerLayout(g)
	if why != "" {
		return "the request-id layout is not understood: " + why
	}
	if pp != 0 || len(fields) == 0 || fields[0].off != 0 || fields[0].width != 8 {
		return "the request id does not start with context id ‖ 8-byte counter"
	}
	// every Set of the family stores a generated id, or is guarded by the existence of the request record
	found := false
	for _, f := range c.handFuncs("keeper", "service") {
		for _, e := range c.P.SummaryOf(f).Effs {
			if e.Kind != "store" || e.Op != "Set" || e.Family != fam {
				continue
			}
			key := stripConv(stripSpread(e.Key))
			if len(key.A) == 0 {
				continue
			}
			id := key.A[len(key.A)-1]
			if id.ContainsOp(c.typesName("GenerateRequestID")) {
				found = true
				continue
			}
			guarded := false
			for _, gf := range e.Guards {
				if !gf.Neg && gf.T.Op == "res" && (gf.T.ContainsOp(nameOf(c.getterByType("Request"), "keeper.Keeper.GetRequest")) || gf.T.ContainsOp(nameOf(c.getterByType("CompactRequest"), "keeper.Keeper.GetCompactRequest"))) && gf.T.Contains(id) {
					guarded = true
				}
			}
			if guarded {
				found = true
				continue
			}
			if id.Op == "" && strings.HasPrefix(id.At, "P") {
				continue // a plain setter: judged at its callers
			}
			found = true
			if !guarded {
				return "a record of family " + fam + " is stored under an id that is neither generated nor tied to an existing request (" + f.Name + ")"
			}
		}
	}
	if !found {
		return "no writer of family " + fam + " found"
	}
	return ""
}

// kinds prints a shape without role names (rename-stable construct keys).
func (sh Shape) kinds() string {
	parts := make([]string, len(sh))
	for i, s := range sh {
		if s.Kind == "Const" {
			parts[i] = fmt.Sprintf("0x%02x", s.Byte)
		} else {
			parts[i] = s.Kind
		}
	}
	return strings.Join(parts, "·")
}

// scanClass: what the function containing a scan does with the scanned family.
func (c *Check) scanClassOf(e *Eff) string {
	if e.Class != "" {
		return e.Class
	}
	return c.scanClass(e.Fn, e.Family)
}

func (c *Check) scanClass(f *Func, fam string) string {
	del, set := false, false
	for _, e := range c.directEffectsDepth(f, 1) {
		if e.Kind == "store" && e.Family == fam {
			if e.Op == "Delete" {
				del = true
			}
			if e.Op == "Set" {
				set = true
			}
		}
	}
	switch {
	case del:
		return "delete"
	case set:
		return "write"
	}
	return "read"
}
