package main

// C08, C09, C10, C11, C12, C16 — rule assemblies and the remaining lifecycle rules.

import (
	"fmt"
	"go/ast"
	"go/token"
	"go/types"
	"sort"
	"strings"

	"golang.org/x/tools/go/types/typeutil"
)

func init() {
	rules["C08"] = ruleC08
	rules["C09"] = ruleC09
	rules["C10"] = ruleC10
	rules["C11"] = ruleC11
	rules["C12"] = ruleC12
	rules["C16"] = ruleC16
	explanations["C08"] = "Decides: the three expiry expressions (request record, pending marker, batch-expiry queue) are BlockHeight+Timeout of the same context and the reconstructed request copies the stored " +
		"expiration height; acceptance of a response is dominated by found ∧ designated-provider match ∧ active marker for the same id and every rejecting return precedes all effects; the marker is deleted on acceptance " +
		"(at most one response) and on every path of the expired-request handler, which is bound to the scan of the expiry queue at exactly the current height; the respond function reads no height; " +
		"starting a context never queues a batch while an expiry is pending."
	explanations["C09"] = "Decides the context state machine as a write inventory over every stored RequestContext value on every committed path: immutable fields are never rewritten; State is written only as " +
		"PAUSED (user pause under Repeated ∧ RUNNING, pay-failure helper called only from the failed-credit edge, zero-height reset), RUNNING (under PAUSED), COMPLETED (under Repeated); no write on a value known COMPLETED; " +
		"updatable fields only under State≠COMPLETED; BatchCounter only as load+1 together with BATCHRUNNING; requests are issued only on RUNNING paths that did not pause; a COMPLETED context is removed at its batch expiry."
	explanations["C10"] = "Decides: creation enqueues the first batch at the block of the call iff created RUNNING; the expiry handler is the only place deciding continuation and a context survives its batch expiry " +
		"iff it is not COMPLETED and (Repeated ∧ (total<0 ∨ counter<total)) — finite case analysis over the handler's feasible paths; next height skeleton BlockHeight−Timeout+Frequency; frequency ≥ timeout guards every stored " +
		"Timeout/Frequency; new total ≥ counter; start enqueues only when neither an expiry nor a new batch is pending; dequeue before enqueue. Not decided: exact cadence arithmetic, the bound over unbounded histories."
	explanations["C11"] = "Decides the safety invariant standing in for liveness: queue entry and pointer (and the two marker indexes) are written and deleted together on every path; every exit of the new-batch handler " +
		"dequeues its entry and every RUNNING path ends with an expiry queued or a pause; every exit of the expiry handler dequeues and RUNNING ⇒ next batch or removal; start ⇒ pending or enqueue at the current height; " +
		"enqueue heights have the shapes BlockHeight, BlockHeight+Timeout, BlockHeight−Timeout+Frequency with frequency ≥ timeout on every stored pair; markers are created only with the batch expiry queued; " +
		"contexts are deleted only by the expiry handler after their queue entry. Known findings: D4 (no-exchange-rate return), D11."
	explanations["C12"] = "Decides: BatchRequestCount = len(issued list) with one request+marker pair per element; BatchResponseCount +1 per accepted response then compared for equality with the request count of the same value; " +
		"BatchState inventory with the two mutually exclusive completion sites; callback dispatch iff ModuleName≠\"\", outputs = non-empty outputs of the batch's responses, error iff fewer than the threshold; " +
		"state callback on the pay-failure edge; response stored before completion, completion before cleaning. External callbacks are opaque."
	explanations["C16"] = "Decides that no transition creates an orphan: the expiry handler cleans on every path after settling markers and completing; the clean function deletes request and response for every key of the " +
		"batch scan; the marker pair is added and deleted together with keys of the same roles; a context with no batch left (or COMPLETED) is removed at batch expiry; request records are created only by batch-start with the " +
		"expiry queued, responses only under found ∧ active; the cleaned counter is the context's current BatchCounter; start never opens a second batch. Absence of orphans in a given store is a runtime scan and not decided."
}

func ruleC08(c *Check) {
	c.assume("A-ID: request ids are 58 bytes (checked at the message boundary by C18.8)")
	c.heightSkeletons("C08.1")
	c.reconstruction("C08.1")
	c.respondRules("C08")
	c.expiredRequestRules("C08")
	c.expiredBatchBinding("C08.4")
	c.expiryScanGuard("C08.4")
	c.respondNoHeight("C08.5")
	c.startRules("C08")
	c.handlersAddNoRejection("C08.6", "MsgRespondService")
	c.issueLoopOverList("C08.2")
	c.queuePairs("C08")
	c.contextDeleters("C08")
	c.queueDeleters("C08")
	// "once block h+t has ended it is no longer pending": pending requests are deactivated by the expiry of their batch, which is queued on every path that issues them
	c.newBatchRules("C08", map[string]bool{"issue-without-expiry": true, "issue-after-pause": true})
	c.contextFieldRules("C08", map[string]bool{"state": true, "counts": true, "batchstate": true})
}

func ruleC09(c *Check) {
	c.contextFieldRules("C09", map[string]bool{"immutable": true, "state": true, "counter": true, "update": true, "batchstate": true})
	c.newBatchRules("C09", map[string]bool{"issue-while-not-running": true, "issue-after-pause": true, "payfail-no-pause": true})
	c.expiredBatchRules("C09", map[string]bool{"continuation": true, "persist": true})
	c.startRules("C09")
	c.contextDeleters("C09")
	c.callbackRules("C09")
	c.moduleServiceRunning("C09.7")
	c.expiredBatchBinding("C09.8")
	// a consumer that cannot pay is paused: the filter judges providers by availability, response time and price against
	// the fee cap — not by the consumer's balance, which would turn the pause into a silent skip
	c.filterRules("C09.9")
	// ... and it is paused exactly when the deduction is refused for lack of funds (a stricter affordability test pauses a
	// context whose consumer can pay)
	c.payRefusals("C09.10")
}

func ruleC10(c *Check) {
	c.startRules("C10")
	c.expiredBatchRules("C10", map[string]bool{"continuation": true, "next-height": true, "dequeue-before-enqueue": true, "dequeue": true})
	c.contextFieldRules("C10", map[string]bool{"update": true, "counter": true})
	c.requestValidation("C10.3")
	c.updatesTakeEffect("C10.7")
	c.constructorRules("C10.8", map[string]bool{"frequency": true})
	c.queueDeleters("C10")
	c.heightSkeletons("C10.2")
	c.paramGettersExact("C10.3", "KeyMaxRequestTimeout")
	c.newBatchRules("C10", map[string]bool{"issue-without-expiry": true, "expiry-without-batch": true})
	c.keyGrammar("C10.6", map[string]bool{"0x09": true, "0x10": true, "0x11": true, "0x12": true})
	c.newBatchDequeue("C10")
	c.contextDeleters("C10")
	// the batch of a running context is issued or skipped — not aborted by the pricing of a provider that would be filtered out
	c.filterRules("C10.9")
}

func ruleC11(c *Check) {
	c.queuePairs("C11")
	c.newBatchDequeue("C11")
	c.newBatchRules("C11", map[string]bool{"running-no-successor": true, "issue-without-expiry": true, "expiry-without-batch": true})
	c.expiredBatchRules("C11", map[string]bool{"dequeue": true, "continuation": true, "delete-after-dequeue": true, "dequeue-before-enqueue": true})
	c.startRules("C11")
	c.heightSkeletons("C11.5")
	c.scanOrder("C11.1")
	c.contextFieldRules("C11", map[string]bool{"update": true, "batchstate": true, "state": true})
	c.requestValidation("C11.5")
	c.contextDeleters("C11")
	c.queueDeleters("C11")
	c.moduleServicePath("C11.6")
	c.expiredBatchBinding("C11.3")
	c.moduleWiring("C11.8", map[string]bool{"endblock": true})
	c.keyGrammar("C11.7", map[string]bool{"0x09": true, "0x10": true, "0x11": true, "0x12": true})
	c.resetConstants("C11.9")
	c.expiredRequestRules("C11")
	c.constructorRules("C11.10", map[string]bool{"frequency": true})
	c.contextFieldRules("C11.4", map[string]bool{"counts": true})
	c.reconstruction("C11.5")
}

func ruleC12(c *Check) {
	c.assume("A-HOST: module callbacks are opaque external code")
	c.contextFieldRules("C12", map[string]bool{"counts": true, "batchstate": true})
	c.issueOrder()
	c.callbackRules("C12")
	c.respondRules("C12")
	c.expiredBatchRules("C12", map[string]bool{"clean-order": true, "complete-at-expiry": true})
	c.expiryScanGuard("C12.3")
	// "otherwise when its expiry block ends, and never earlier": the batch expiry is queued at the height its requests expire
	c.heightSkeletons("C12.3")
	// a batch that is opened, with or without requests, is completed (and its callback made) at its expiry: the expiry is queued on every path that opens one
	c.newBatchRules("C12", map[string]bool{"running-no-successor": true, "issue-without-expiry": true})
	c.startRules("C12")
	c.constructorRules("C12.7", map[string]bool{"callbacks": true})
	c.completeCallers("C12.8")
}

func ruleC16(c *Check) {
	c.expiredBatchRules("C16", map[string]bool{"clean": true, "clean-order": true, "clean-args": true, "continuation": true, "dequeue": true})
	c.cleanRules("C16.2")
	c.queuePairs("C16")
	c.expiredRequestRules("C16")
	c.respondRules("C16")
	c.expiryScanGuard("C16.1")
	c.feeWriters("C16")
	c.contextFieldRules("C16", map[string]bool{"counter": true, "state": true, "batchstate": true, "counts": true})
	c.heightSkeletons("C16.3")
	c.startRules("C16")
	c.moduleServicePath("C16.5")
	c.reconstruction("C16.3")
	c.contextDeleters("C16")
	c.queueDeleters("C16")
	c.keyGrammar("C16.2", map[string]bool{"0x13": true, "0x15": true, "0x16": true, "0x14": true})
	// the by-binding marker is filed under the provider the request is addressed to (the one deleted on response / expiry)
	c.issueLoopOverList("C16.6")
}

// respondNoHeight (C08.5): acceptance depends on the marker alone.
func (c *Check) respondNoHeight(rule string) {
	u := c.feeUnits(rule)
	if !u.complete() {
		return
	}
	f := u.RF
	bad := ""
	for _, pa := range c.P.PathsOf(f) {
		for _, fa := range pa.AllFacts() {
			if fa.T.ContainsAtom("BlockHeight") || fa.T.ContainsAtom("BlockTime") {
				bad = fa.String()
			}
		}
	}
	c.req(bad == "", rule, unitConstruct(f, "no-height-test"), f.Body.Pos(),
		"no branch of the respond function tests the block height or time (a response in block h+t, before that block's end-blocker, is accepted)"+condStr(bad != "", ": "+bad))
}

// reconstruction (C17.4, C08.1): GetRequest copies every field from the right source.
func (c *Check) reconstruction(rule string) {
	g := c.getterByType("Request")
	gc := c.getterByType("CompactRequest")
	gx := c.getterByType("RequestContext")
	if g == nil || gc == nil || gx == nil {
		c.undecided(rule, "getters", token.NoPos, "request getters not found")
		return
	}
	n := 0
	for _, pa := range c.P.PathsOf(g) {
		// a path that reports "found": the flag is the constant true or a value the path has established to be true
		if len(pa.Ret) != 2 || pa.Ret[0].Op != "lit" {
			continue
		}
		if !pa.Ret[1].IsAt("#true") && !pa.AllFacts().Holds(pa.Ret[1], true) {
			continue
		}
		n++
		r := pa.Ret[0]
		idP := ""
		for i, pr := range g.Params {
			if isByteSlice(pr.Type()) {
				idP = fmt.Sprintf("P%d", i)
			}
		}
		C := fmt.Sprintf("(res 0 (%s %s))", gc.Name, idP)
		X := fmt.Sprintf("(res 0 (%s (.CompactRequest.RequestContextId %s)))", gx.Name, C)
		want := map[string]string{
			"Id": idP, "ServiceName": "(.RequestContext.ServiceName " + X + ")", "Provider": "(.CompactRequest.Provider " + C + ")",
			"Consumer": "(.RequestContext.Consumer " + X + ")", "Input": "(.RequestContext.Input " + X + ")",
			"ServiceFee": "(.CompactRequest.ServiceFee " + C + ")", "SuperMode": "(.RequestContext.SuperMode " + X + ")",
			"RequestHeight": "(.CompactRequest.RequestHeight " + C + ")", "ExpirationHeight": "(.CompactRequest.ExpirationHeight " + C + ")",
			"RequestContextId": "(.CompactRequest.RequestContextId " + C + ")", "RequestContextBatchCounter": "(.CompactRequest.RequestContextBatchCounter " + C + ")",
		}
		var wrong []string
		for f, w := range want {
			got := field("Request", f, r)
			if got.String() != w {
				wrong = append(wrong, f+" = "+shortTerm(got))
			}
		}
		c.req(len(wrong) == 0, rule, g.Name+"#reconstruction", pa.RetPos,
			"each field of the reconstructed request is the like-named field of the compact record (Provider, ServiceFee, heights, context id, batch counter) or of its context (ServiceName, Consumer, Input, SuperMode)"+
				condStr(len(wrong) > 0, "; wrong: "+strings.Join(sortStrings(wrong), "; ")))
		af := pa.AllFacts()
		_, f1 := hasFact(af, fmt.Sprintf("(res 1 (%s %s))", gc.Name, idP), false)
		_, f2 := hasFact(af, fmt.Sprintf("(res 1 (%s (.CompactRequest.RequestContextId %s)))", gx.Name, C), false)
		c.req(f1 && f2, rule, g.Name+"#found", pa.RetPos, "a request is returned as found only if both the compact record and its context exist")
	}
	c.req(n == 1, rule, g.Name+"#paths", g.Body.Pos(), fmt.Sprintf("%d reconstructing paths", n))
}

// requestValidation (C10.3): the stateless validators guarantee frequency ≥ timeout and timeout > 0.
func (c *Check) requestValidation(rule string) {
	f := c.mustFn(rule, c.typesName("ValidateRequest"))
	if f == nil {
		return
	}
	// parameters by type/position: timeout int64, repeated bool, frequency uint64
	var tP, rP, fP string
	for i, pr := range f.Params {
		switch typeName(pr.Type()) {
		case "int64":
			if tP == "" {
				tP = fmt.Sprintf("P%d", i)
			}
		case "bool":
			rP = fmt.Sprintf("P%d", i)
		case "uint64":
			fP = fmt.Sprintf("P%d", i)
		}
	}
	pt := func(a string) *Term {
		var i int
		fmt.Sscanf(a, "P%d", &i)
		return atom(a).withType(f.Params[i].Type())
	}
	bad := ""
	n := 0
	for _, pa := range c.P.PathsOf(f) {
		if pa.Exit != ExitSuccess {
			continue
		}
		n++
		af := pa.AllFacts()
		if !af.Holds(mk("<=", pt(tP), atom("#0")), false) {
			bad = "a valid request may have timeout ≤ 0"
		}
		if af.Has(Fact{T: atom(rP)}) {
			// repeated: not (frequency > 0 ∧ frequency < timeout)
			cmp := mk("&&", mk(">", pt(fP), atom("#0")), mk("<", pt(fP), mk("conv", atom("uint64"), pt(tP))))
			if !af.Holds(cmp, false) {
				bad = "a valid repeated request may have 0 < frequency < timeout"
			}
		}
	}
	c.req(bad == "" && n >= 2, rule, f.Name, f.Body.Pos(), "stateless validation: timeout > 0, and for repeated requests frequency = 0 (defaulted to the timeout) or frequency ≥ timeout"+condStr(bad != "", ": "+bad))
	// the update validator excludes negative timeouts (used by the update rule to discard that case)
	if g := c.mustFn(rule, c.typesName("ValidateRequestContextUpdating")); g != nil {
		var tq string
		for i, pr := range g.Params {
			if typeName(pr.Type()) == "int64" && tq == "" {
				tq = fmt.Sprintf("P%d", i)
			}
		}
		okNeg := tq != ""
		for _, pa := range c.P.PathsOf(g) {
			if pa.Exit == ExitSuccess && tq != "" {
				var i int
				fmt.Sscanf(tq, "P%d", &i)
				if !pa.AllFacts().Holds(mk("<", atom(tq).withType(g.Params[i].Type()), atom("#0")), false) {
					okNeg = false
				}
			}
		}
		c.req(okNeg, rule, g.Name, g.Body.Pos(), "the stateless update validator rejects a negative timeout")
	}
}

// callbackRules (C12.4, C12.5).
func (c *Check) callbackRules(prefix string) {
	cf := c.completeFn()
	pff := c.pauseForFundsFn()
	if cf == nil || pff == nil {
		c.undecided(prefix+".callback", "helpers", token.NoPos, "complete / pause-for-funds helpers not found")
		return
	}
	// the positions of the context and of its id among the complete function's parameters
	ctxP, idP := "P1", "P2"
	for i, pr := range cf.Params {
		if namedStruct(pr.Type()) == "RequestContext" {
			ctxP = fmt.Sprintf("P%d", i)
		}
		if isByteSlice(pr.Type()) {
			idP = fmt.Sprintf("P%d", i)
		}
	}
	// response callback variants reachable from the complete function
	sum := c.P.SummaryOf(cf)
	nNil, nErr := 0, 0
	for _, e := range sum.Effs {
		if e.Kind != "callback" || e.Op != "response" {
			continue
		}
		c.Sites++
		_, mod := hasFact(e.Guards, "(nonempty (.RequestContext.ModuleName "+ctxP+"))", false)
		c.req(mod, prefix+".callback.dispatch", effConstruct(cf.Name, e), e.Pos, "the response callback is invoked only for a context with an owning module")
		if len(e.Args) != 5 {
			c.fail(prefix+".callback.args", effConstruct(cf.Name, e), e.Pos, "unexpected callback arity")
			continue
		}
		outs, errArg := e.Args[3], e.Args[4]
		// outputs = GetResponseOutputs(id, BatchCounter of the stored context)
		okOut := outs.Op != "" && strings.Contains(outs.String(), ".RequestContext.BatchCounter") && e.Args[2].IsAt(idP)
		c.req(okOut, prefix+".callback.outputs", effConstruct(cf.Name, e)+condStr(errArg.IsAt("#nil") || errArg.IsAt("zero"), "#ok")+condStr(!(errArg.IsAt("#nil") || errArg.IsAt("zero")), "#err"), e.Pos,
			"the callback receives the outputs of the context's current batch: "+shortTerm(outs))
		lt := fmt.Sprintf("(< (len %s) (conv int (.RequestContext.BatchResponseThreshold ", outs)
		var pos, neg bool
		for _, gf := range e.Guards {
			if strings.HasPrefix(gf.T.String(), lt) {
				if gf.Neg {
					neg = true
				} else {
					pos = true
				}
			}
		}
		isNil := errArg.IsAt("#nil") || errArg.IsAt("zero")
		if isNil {
			nNil++
			c.req(neg, prefix+".callback.threshold", effConstruct(cf.Name, e)+"#nil", e.Pos, "no error iff len(outputs) ≥ BatchResponseThreshold")
		} else {
			nErr++
			c.req(pos, prefix+".callback.threshold", effConstruct(cf.Name, e)+"#error", e.Pos, "an error iff len(outputs) < BatchResponseThreshold")
		}
	}
	c.req(nNil == 1 && nErr == 1, prefix+".callback.variants", unitConstruct(cf, "callback-variants"), cf.Body.Pos(), fmt.Sprintf("callback without error ×%d, with error ×%d", nNil, nErr))
	// exactly one callback per completion: the dispatching function calls back once per path,
	// and the complete function reaches it once iff the context has an owning module
	var cb *Func
	for _, f := range c.handFuncs("keeper") {
		for _, e := range c.directEffects(f) {
			if e.Kind == "callback" && e.Op == "response" {
				cb = f
			}
		}
	}
	if cb == nil {
		c.undecided(prefix+".callback.once", "dispatch-function", token.NoPos, "no function invokes the response callback directly")
	} else {
		for _, pa := range c.P.PathsOf(cb) {
			n := 0
			for _, ev := range pa.Events {
				if ev.Kind == EvCall {
					if e := c.P.classifyCall(cb, ev); e != nil && e.Kind == "callback" {
						n++
					}
				}
			}
			c.req(n == 1, prefix+".callback.once", unitConstruct(cb, "one-callback-per-path"), pa.RetPos, fmt.Sprintf("the dispatching function invokes the callback %d time(s) on this path", n))
		}
		for _, pa := range c.P.PathsOf(cf) {
			n := 0
			for _, ev := range pa.Events {
				if ev.Kind == EvCall && ev.CI.fn != nil {
					reach := ev.CI.fn == cb
					for _, e := range c.P.SummaryOf(ev.CI.fn).Effs {
						if e.Kind == "callback" && e.Op == "response" {
							reach = true
						}
					}
					if reach {
						n++
					}
				}
			}
			modT := parseTerm("(nonempty (.RequestContext.ModuleName " + ctxP + "))")
			af := pa.AllFacts()
			_, mod := hasFact(af, modT.String(), false)
			mod = mod || af.Holds(modT, true)
			want := 0
			if mod {
				want = 1
			} else if !af.Holds(modT, false) {
				// the path is open to a context with an owning module (a further condition sits beside the module test):
				// a module context completing its batch here is not called back, or a context without a module is
				c.fail(prefix+".callback.once", unitConstruct(cf, "callbacks:module=undetermined"), pa.RetPos,
					fmt.Sprintf("a path that completes a batch neither establishes nor excludes an owning module and dispatches the callback %d time(s): the callback must depend on the owning module alone (once per batch, issued or skipped)", n))
				continue
			}
			c.req(n == want, prefix+".callback.once", unitConstruct(cf, fmt.Sprintf("callbacks:module=%v", mod)), pa.RetPos, fmt.Sprintf("completing a batch dispatches the callback %d time(s) (module context=%v)", n, mod))
		}
	}
	// outputs function: scan of responses of (id, batch) filtered on non-empty output
	for _, f := range c.handFuncs("keeper") {
		if len(f.Res) != 1 || typeName(f.Res[0].Type()) != "[]string" {
			continue
		}
		scan := false
		for _, e := range c.P.SummaryOf(f).Effs {
			if e.Kind == "store" && e.Op == "Iter" && e.Family == "0x16" {
				scan = true
			}
		}
		if !scan {
			continue
		}
		okFilter := false
		var extraCond []string
		// the accumulation is written in the function itself or in a closure it hands to the scan
		units := []*Func{f}
		for _, g := range c.P.Funcs {
			if g.Parent == f {
				units = append(units, g)
			}
		}
		var allPaths []*Path
		for _, g := range units {
			allPaths = append(allPaths, c.P.PathsOf(g)...)
		}
		for _, pa := range allPaths {
			for i, ev := range pa.Events {
				if ev.Kind == EvAssign && ev.Val != nil && ev.Val.Op == "append" && len(ev.Val.A) == 2 && strings.HasSuffix(ev.Val.A[1].Op, ".Response.Output") {
					for _, fa := range pa.FactsBefore(i) {
						if !fa.Neg && fa.T.Op == "nonempty" && fa.T.A[0].Eq(ev.Val.A[1]) {
							okFilter = true
						}
					}
					// and under no further condition on the output: every non-empty output of a stored response is handed on
					for _, fa := range pa.FactsBefore(i) {
						if fa.T.Contains(ev.Val.A[1]) && !(!fa.Neg && fa.T.Op == "nonempty" && fa.T.A[0].Eq(ev.Val.A[1])) {
							extraCond = append(extraCond, fa.String())
						}
					}
				}
			}
		}
		sort.Strings(extraCond)
		c.req(okFilter && len(extraCond) == 0, prefix+".callback.nonempty", f.Name, f.Body.Pos(), "outputs are exactly the non-empty Output fields of the scanned responses"+condStr(len(extraCond) > 0, ": an output is collected only under "+strings.Join(uniq(extraCond), " ∧ ")))
	}
	// state callback in the pause-for-funds helper iff module context
	for _, pa := range c.P.PathsOf(pff) {
		n := 0
		for _, e := range c.pathEffects(pff, pa) {
			if e.Kind == "callback" && e.Op == "state" {
				n++
			}
		}
		mod := false
		af := pa.AllFacts()
		var modT *Term
		for _, fa := range af {
			if !fa.Neg && fa.T.Op == "nonempty" && strings.HasSuffix(fa.T.A[0].Op, ".RequestContext.ModuleName") {
				mod = true
			}
			fa.T.Walk(func(t *Term) bool {
				if t.Op == "nonempty" && len(t.A) == 1 && strings.HasSuffix(t.A[0].Op, ".RequestContext.ModuleName") {
					modT = t
				}
				return true
			})
		}
		want := 0
		if mod {
			want = 1
		}
		// the module's presence is mentioned only inside a compound condition that the path has refuted as a whole
		// ("module-owned and repeated"): the callback is skipped although the context may well be module-owned
		if !mod && modT != nil && !af.Holds(modT, false) && pa.OK() {
			c.req(n == 1, prefix+".callback.state", unitConstruct(pff, "state-callback:module=undetermined"), pa.RetPos,
				"a path that has not established that the context has no owning module invokes the state callback (it is skipped under a further condition)")
			continue
		}
		c.req(n == want, prefix+".callback.state", unitConstruct(pff, fmt.Sprintf("state-callback:module=%v", mod)), pa.RetPos, fmt.Sprintf("pausing for insufficient balance invokes the state callback %d time(s) (module context=%v)", n, mod))
		// the paused state is stored before the owning module is told about it (the callback may read or change the context)
		iSet, iCb := -1, -1
		for i, ev := range pa.Events {
			if ev.Kind != EvCall {
				continue
			}
			for _, e := range c.P.effectsOfEvent(pff, ev) {
				if e.Kind == "store" && e.Op == "Set" && e.Family == "0x08" && iSet < 0 {
					iSet = i
				}
				if e.Kind == "callback" && e.Op == "state" && iCb < 0 {
					iCb = i
				}
			}
		}
		if iCb >= 0 {
			c.req(iSet >= 0 && iSet < iCb, prefix+".callback.state-order", unitConstruct(pff, "store-before-state-callback"), pa.RetPos,
				"the PAUSED context is stored before the state callback runs (a stale copy written afterwards would overwrite what the callback did)")
		}
	}
}

// cleanRules (C16.2): the clean function deletes request and response for every scanned key.
func (c *Check) cleanRules(rule string) {
	var clean *Func
	for _, f := range c.handFuncs("keeper") {
		d13, d16 := false, false
		for _, e := range c.directEffectsDepth(f, 1) {
			if e.Kind == "store" && e.Op == "Delete" && e.InLoop {
				if e.Family == "0x13" {
					d13 = true
				}
				if e.Family == "0x16" {
					d16 = true
				}
			}
		}
		if d13 && d16 {
			clean = f
		}
	}
	if clean == nil {
		c.undecided(rule, "clean-function", token.NoPos, "no function deletes requests and responses of a scanned batch")
		return
	}
	n := 0
	for _, pa := range c.P.PathsOf(clean) {
		entered := false
		for _, ev := range pa.Events {
			if ev.Kind == EvLoop {
				entered = true
			}
		}
		if !entered {
			continue
		}
		n++
		var k13, k16 *Term
		for _, e := range c.pathEffects(clean, pa) {
			if e.Kind == "store" && e.Op == "Delete" && e.Family == "0x13" {
				k13 = keyArgs(e)[0]
			}
			if e.Kind == "store" && e.Op == "Delete" && e.Family == "0x16" {
				k16 = keyArgs(e)[0]
			}
		}
		ok := k13 != nil && k16 != nil && termsEq(k13, k16)
		if ok {
			_, ok = stripConv(k13).Match("(slice $K #1 _)")
			ok = ok && c.P.scansFamily(k13, "0x13")
		}
		c.req(ok, rule, unitConstruct(clean, "per-key"), pa.RetPos, "each iteration deletes the request and the response stored under the scanned request key's id"+condStr(!ok, ": request key "+shortTerm(k13)+", response key "+shortTerm(k16)))
	}
	c.req(n >= 1, rule, unitConstruct(clean, "iterations"), clean.Body.Pos(), fmt.Sprintf("%d iterating paths", n))
}

// completeCallers (C12.8): a batch is completed — and the owning module called back — in two situations only: the response
// that answers its last open request, and the end of its expiry block. The function that marks a batch completed and
// dispatches the callback is therefore called from the respond function and from the expired-batch handler (or from helpers
// that only those two reach) and from nowhere else: routing the pause-for-funds helper through it calls the module back a
// second time for a batch that was completed long ago.
func (c *Check) completeCallers(rule string) {
	cf := c.completeFn()
	u := c.feeUnits(rule)
	if cf == nil || !u.complete() {
		if cf == nil {
			c.undecided(rule, "complete-function", token.NoPos, "the function that completes a batch was not found")
		}
		return
	}
	// callers by call site in the syntax tree (a path may carry the callee's events in place of the call when a
	// single-use helper was spliced in, so call events alone miss such callers)
	callersOf := func(t *Func) []*Func {
		var out []*Func
		if t.Obj == nil {
			return nil
		}
		for _, g := range c.P.Funcs {
			if g.Body == nil || !g.isHandWritten() {
				continue
			}
			info := g.Pkg.TypesInfo
			hit := false
			ast.Inspect(g.Body, func(n ast.Node) bool {
				if lit, ok := n.(*ast.FuncLit); ok && lit != g.Lit {
					return false
				}
				if call, ok := n.(*ast.CallExpr); ok {
					if fo, _ := typeutil.Callee(info, call).(*types.Func); fo != nil && fo == t.Obj {
						hit = true
					}
				}
				return true
			})
			if hit {
				out = append(out, g)
			}
		}
		return out
	}
	var allowed func(g *Func, depth int) bool
	allowed = func(g *Func, depth int) bool {
		if g == u.RF || g == u.EB.Closure {
			return true
		}
		if depth >= 3 {
			return false
		}
		cs := callersOf(g)
		if len(cs) == 0 {
			return false
		}
		for _, h := range cs {
			if !allowed(h, depth+1) {
				return false
			}
		}
		return true
	}
	n := 0
	for _, g := range callersOf(cf) {
		n++
		c.req(allowed(g, 0), rule, unitConstruct(g, "completes-a-batch"), g.Body.Pos(),
			"the batch-completing function (state = completed, module callback) is called only from the respond function and the expired-batch handler (or helpers only they reach)")
	}
	c.req(n >= 2, rule, "complete-callers", token.NoPos, fmt.Sprintf("%d functions call the batch-completing function", n))
}
