package main

// Fee-flow units and rules shared by C01, C02, C06, C07, C13.

import (
	"fmt"
	"go/token"
	"sort"
	"strings"
)

type feeUnits struct {
	NB, EB, ER *Binding // new-batch, expired-batch, expired-request closures
	RF         *Func    // respond function (stores responses)
	BS         *Func    // batch-start function (stores requests)
	FL         *Func    // provider filter
	PR         *Func    // pricing routine
	EF         *Func    // earn function (taxes and credits earnings)
	WF         *Func    // withdraw function
	EndBlocker *Func
}

func isEscrowCredit(e *Eff) bool {
	return e.Kind == "bank" && e.Op == "SendCoinsFromAccountToModule" && isModuleAccount(e.To, "RequestAccName")
}

func (c *Check) feeUnits(rule string) *feeUnits {
	if c.fu != nil {
		return c.fu
	}
	u := &feeUnits{}
	one := func(fam, what string) *Binding {
		bs := c.closuresBoundToScan(fam)
		if len(bs) != 1 {
			c.undecided(rule, "unit:"+what, token.NoPos, fmt.Sprintf("%d closures bound to the scan of family %s (need exactly 1)", len(bs), fam))
			return nil
		}
		return bs[0]
	}
	u.NB = one("0x10", "new-batch-handler")
	u.EB = one("0x09", "expired-batch-handler")
	u.ER = one("0x15", "expired-request-handler")
	u.EndBlocker = c.mustFn(rule, "service.EndBlocker")
	// functions by direct effect (setter at distance <= 1, not the setter itself)
	byStore := func(fam, typ string) *Func {
		units := c.persistUnits(fam, typ)
		var fs []*Func
		for f := range units {
			fs = append(fs, f)
		}
		sort.Slice(fs, func(i, j int) bool { return fs[i].Name < fs[j].Name })
		if len(fs) == 1 {
			return fs[0]
		}
		c.undecided(rule, "unit:writer-of-"+fam, token.NoPos, fmt.Sprintf("%d functions persist %s records (need exactly 1): %v", len(fs), typ, fnNames(fs)))
		return nil
	}
	u.RF = byStore("0x16", "Response")
	u.BS = byStore("0x13", "CompactRequest")
	for _, f := range c.handFuncs("keeper") {
		for _, e := range c.directEffects(f) {
			if e.Kind == "bank" && e.Op == "SendCoinsFromModuleToModule" && isModuleAccount(e.From, "RequestAccName") {
				u.EF = f
			}
		}
	}
	if u.EF == nil {
		c.undecided(rule, "unit:earn-function", token.NoPos, "no function transfers tax out of the request escrow")
	}
	// withdraw: the function that pays earnings out of escrow after deleting earnings records
	for _, f := range c.handFuncs("keeper") {
		pays, deletes := false, false
		for _, e := range c.P.SummaryOf(f).Effs {
			// directly, or through a helper that looks up the address to pay to
			if isFeeRefund(e) && len(e.Chain) <= 1 {
				pays = true
			}
			if e.Kind == "store" && e.Op == "Delete" && e.Family == "0x18" {
				deletes = true
			}
		}
		if pays && deletes {
			u.WF = f
		}
	}
	if u.WF == nil {
		c.undecided(rule, "unit:withdraw-function", token.NoPos, "no function pays out of escrow and deletes earnings records")
	}
	// filter: the callee in NB whose result #1 is the credited amount
	if u.NB != nil {
		for _, e := range c.P.SummaryOf(u.NB.Closure).Effs {
			if isEscrowCredit(e) {
				if b, ok := e.Amount.Match("(res 1 $CALL)"); ok {
					u.FL = c.P.FuncNamed(b["$CALL"].Op)
				}
			}
		}
		if u.FL == nil {
			c.undecided(rule, "unit:filter", u.NB.Closure.Body.Pos(), "the escrow credit of the new-batch handler is not result #1 of a filter call")
		}
	}
	// pricing routine: the callee in FL whose result is accumulated into the total
	if u.FL != nil {
		for _, pa := range c.P.PathsOf(u.FL) {
			for _, ev := range pa.Events {
				if ev.Kind == EvAssign && ev.Val != nil && ev.Val.Op == "sdk.Coins.Add" && len(ev.Val.A) == 2 {
					if b, ok := stripSpread(ev.Val.A[1]).Match("(res 0 $CALL)"); ok {
						if g := c.P.FuncNamed(b["$CALL"].Op); g != nil {
							u.PR = g
						}
					}
				}
			}
		}
		if u.PR == nil {
			c.undecided(rule, "unit:pricing-routine", u.FL.Body.Pos(), "the filter does not accumulate result #0 of a pricing call")
		}
	}
	c.fu = u
	c.expandHandlerDecisions(u)
	return u
}

// expandHandlerDecisions: where an end-block handler has handed its decisions to a singly-referenced function (the
// handler body moved into a keeper method that charges, pauses, issues or skips), that function is walked in place
// whenever the handler's paths are enumerated, so that the handler's rules see each decision with the facts it is
// taken under. Handlers that decide in their own code are left as they are.
func (c *Check) expandHandlerDecisions(u *feeUnits) {
	role := func(e *Eff) bool { return e.Mutates() && (e.Kind == "store" || e.Kind == "bank") }
	changed := false
	for _, b := range []*Binding{u.NB, u.EB, u.ER} {
		if b == nil || b.Closure == nil || b.Inline {
			continue
		}
		f := b.Closure
		if c.P.forceSplice[f] != nil {
			continue
		}
		rc := c.P.refCount()
		force := map[*Func]bool{}
		for _, pa := range c.P.PathsOf(f) {
			for _, ev := range pa.Events {
				if ev.Kind != EvCall || ev.CI.fn == nil {
					continue
				}
				g := ev.CI.fn
				if force[g] || g == f || !g.isHandWritten() || g.Body == nil || g.Obj == nil || c.P.inlineTarget(g) || c.P.pathsBusy[g] {
					continue
				}
				if rc[g.Obj] != 1 || c.P.refsOther[g.Obj] > 0 || g == u.BS || g == u.RF || g == u.EF || g == u.FL || g == u.PR {
					continue
				}
				guards := map[string]bool{}
				kinds := map[string]bool{}
				credits := false
				scansItself := false
				for _, e := range c.P.SummaryOf(g).Effs {
					if e.Kind == "store" && e.Op == "Iter" && len(e.Chain) <= 1 {
						scansItself = true // a scan with its per-element handling written in place is a unit, not a decision of the handler
					}
				}
				if scansItself {
					continue
				}
				for _, e := range c.P.SummaryOf(g).Effs {
					if !role(e) {
						continue
					}
					guards[strings.Join(e.Guards.Sorted(), " & ")] = true
					kinds[e.Kind+e.Op+e.Family] = true
					if isEscrowCredit(e) {
						credits = true
					}
				}
				// several kinds of state change under different conditions: the callee takes a decision
				if len(guards) >= 3 && len(kinds) >= 3 {
					force[g] = true
				}
				// the charge of a batch together with what is done when it fails
				if credits && len(guards) >= 2 && len(kinds) >= 2 {
					force[g] = true
				}
			}
		}
		if len(force) == 0 {
			continue
		}
		if c.P.forceSplice == nil {
			c.P.forceSplice = map[*Func]map[*Func]bool{}
		}
		c.P.forceSplice[f] = force
		delete(c.P.pathsMemo, f)
		changed = true
	}
	if changed {
		c.P.summaryMemo = map[*Func]*Summary{}
	}
}

func (u *feeUnits) complete() bool {
	return u != nil && u.NB != nil && u.EB != nil && u.ER != nil && u.RF != nil && u.BS != nil && u.FL != nil && u.PR != nil && u.EF != nil && u.WF != nil && u.EndBlocker != nil
}

// ---------------------------------------------------------------- inventory

// escrowInventory (C01.1): every direct bank call naming RequestAccName.
func (c *Check) escrowInventory(rule string) {
	credit, refund, tax := 0, 0, 0
	for _, f := range c.handFuncs("keeper", "service") {
		for _, e := range c.directEffects(f) {
			if e.Kind != "bank" {
				continue
			}
			fromR, toR := isModuleAccount(e.From, "RequestAccName"), isModuleAccount(e.To, "RequestAccName")
			if !fromR && !toR {
				continue
			}
			c.Sites++
			construct := unitConstruct(f, "bank."+e.Op)
			switch {
			case e.Op == "SendCoinsFromAccountToModule" && toR:
				credit++
				c.ok(rule, construct, e.Pos, "escrow credit")
			case e.Op == "SendCoinsFromModuleToAccount" && fromR:
				refund++
				c.ok(rule, construct, e.Pos, "escrow release to account "+shortTerm(e.To))
			case e.Op == "SendCoinsFromModuleToModule" && fromR && e.To.IsAt("K.feeCollectorName"):
				tax++
				c.ok(rule, construct, e.Pos, "tax to the fee collector")
			default:
				c.fail(rule, construct, e.Pos, "bank operation "+e.Op+" on the request escrow is not credit / release-to-account / tax-to-fee-collector")
			}
		}
	}
	c.req(credit >= 1 && refund >= 2 && tax >= 1, rule, "roles", token.NoPos, fmt.Sprintf("credit ×%d, release ×%d, tax ×%d", credit, refund, tax))
	// coins enter the request escrow only where requests are issued: an entry point (message handler or end blocker) whose
	// effects include a committed credit of the escrow also creates request records — a deposit or any other payment
	// routed to the escrow account is custody without an obligation
	type ent struct {
		name string
		fn   *Func
	}
	var ents []ent
	for _, en := range c.entries(rule) {
		ents = append(ents, ent{en.Msg, en.Handler})
	}
	if eb := c.P.FuncNamed("service.EndBlocker"); eb != nil {
		ents = append(ents, ent{"EndBlocker", eb})
	}
	nCred := 0
	for _, en := range ents {
		var cred *Eff
		issues := false
		for _, e := range c.P.SummaryOf(en.fn).Effs {
			if e.Kind == "bank" && e.Op == "SendCoinsFromAccountToModule" && isModuleAccount(e.To, "RequestAccName") && e.Commit && cred == nil {
				cred = e
			}
			if e.Kind == "store" && e.Op == "Set" && e.Family == "0x13" {
				issues = true
			}
		}
		if cred == nil {
			continue
		}
		nCred++
		c.req(issues, rule, effConstruct(en.name, cred)+"#credit-only-with-issue", cred.Pos, "an entry point that credits the request escrow also issues requests (creates request records)")
	}
	c.req(nCred >= 1, rule, "crediting-entries", token.NoPos, fmt.Sprintf("%d entry points credit the request escrow", nCred))
}

// ---------------------------------------------------------------- new-batch handler

type nbPath struct {
	pa                                            *Path
	issue, creditOK, creditFail, skip, pause, deq bool
	expiryQueued, running, superMode, notSuper    bool
	enough, notEnough, filterErr                  bool
	issueEv, creditEv                             *Event
	opened                                        int // stores of the context with its batch counter advanced
}

func (c *Check) analyseNB(u *feeUnits) []*nbPath {
	f := u.NB.Closure
	var out []*nbPath
	for _, pa := range c.P.PathsOf(f) {
		if !pa.OK() {
			continue
		}
		n := &nbPath{pa: pa}
		af := c.closeFacts(pa.AllFacts())
		skipEv := false
		nOpened := 0
		for _, ev := range pa.Events {
			if ev.Kind != EvCall {
				continue
			}
			hasSet13, hasSet09, hasSetCtxBatch := false, false, false
			for _, e := range c.P.effectsOfEvent(f, ev) {
				switch {
				case isEscrowCredit(e):
					n.creditEv = ev
					okf := Fact{T: mk("ok", ev.Result)}
					if af.Has(okf) {
						n.creditOK = true
					}
					if af.Has(okf.Not()) {
						n.creditFail = true
					}
				case e.Kind == "store" && e.Op == "Set" && e.Family == "0x13":
					hasSet13 = true
				case e.Kind == "store" && e.Op == "Set" && e.Family == "0x09":
					hasSet09 = true
				case e.Kind == "store" && e.Op == "Delete" && e.Family == "0x10":
					n.deq = true
				case e.Kind == "store" && e.Op == "Set" && e.Family == "0x08":
					if sv := structIn(e.Val, "RequestContext"); sv != nil {
						st := field("RequestContext", "State", sv)
						if st.IsAt("#types.PAUSED") {
							n.pause = true
						}
						if _, ok := writtenFields(sv)["BatchCounter"]; ok {
							hasSetCtxBatch = true
						}
					}
				}
			}
			if hasSet13 {
				n.issue = true
				n.issueEv = ev
			}
			if hasSet09 {
				n.expiryQueued = true
			}
			// a batch opened without requests; its expiry may be queued by the same call or later on the path
			if hasSetCtxBatch && !hasSet13 {
				skipEv = true
			}
			if hasSetCtxBatch {
				nOpened++
			}
		}
		n.skip = skipEv && n.expiryQueued && !n.issue
		n.opened = nOpened
		for _, fa := range af {
			t := fa.T
			switch {
			case t.Op == "==" && strings.HasSuffix(t.A[0].Op, ".RequestContext.State") && t.A[1].IsAt("#types.RUNNING") && !fa.Neg:
				n.running = true
			case strings.HasSuffix(t.Op, ".RequestContext.SuperMode"):
				if fa.Neg {
					n.notSuper = true
				} else {
					n.superMode = true
				}
			case t.Op == "ok" && u.FL != nil && t.A[0].Op == u.FL.Name && fa.Neg:
				n.filterErr = true
			}
		}
		// the mode fixed by a combination of conditions (charged under "enough providers and not super", issued
		// after the uncharged branch with enough providers)
		if !n.superMode && !n.notSuper {
			seen := map[string]bool{}
			for _, fa := range af {
				fa.T.Walk(func(t *Term) bool {
					if strings.HasSuffix(t.Op, ".RequestContext.SuperMode") && !seen[t.String()] {
						seen[t.String()] = true
						if af.Holds(t, true) {
							n.superMode = true
						} else if af.Holds(t, false) {
							n.notSuper = true
						}
					}
					return true
				})
			}
		}
		out = append(out, n)
	}
	return out
}

// newBatchRules: C01.2, C01.3, C01.5, C06.4, C06.5, C06.6, C09.4, C11.2 (shared).
func (c *Check) newBatchRules(prefix string, want map[string]bool) {
	u := c.feeUnits(prefix)
	if !u.complete() {
		return
	}
	f := u.NB.Closure
	paths := c.analyseNB(u)
	c.Sites += len(paths)
	flCall := ""
	var bad = map[string][]string{}
	add := func(rule, msg string, pa *Path) {
		bad[rule] = append(bad[rule], msg+" (path ending "+c.pos(pa.RetPos)+")")
	}
	nIssue, nSkip, nPause := 0, 0, 0
	for _, n := range paths {
		if n.issue {
			nIssue++
			if !(n.creditOK || n.superMode) {
				add("obligation-without-credit", "requests are issued without a successful escrow credit and not in super mode", n.pa)
			}
			if !n.running {
				add("issue-while-not-running", "requests are issued on a path where the context is not known RUNNING", n.pa)
			}
			if !n.expiryQueued {
				add("issue-without-expiry", "requests are issued without queuing the batch expiry on the same path", n.pa)
			}
			if n.pause {
				add("issue-after-pause", "requests are issued on a path that paused the context", n.pa)
			}
			// provider list = result #0 of the filter call whose result #1 was credited
			if li := c.providerListArg(u.BS, n.issueEv); li != nil {
				if b, ok := li.Match("(res 0 $CALL)"); ok {
					flCall = b["$CALL"].String()
					if n.creditEv != nil {
						amt := n.creditEv.CI.args[len(n.creditEv.CI.args)-1]
						if b2, ok2 := amt.Match("(res 1 $CALL)"); !ok2 || b2["$CALL"].String() != flCall {
							add("list-vs-amount", "issued list and credited amount come from different filter calls", n.pa)
						}
					}
				} else {
					add("list-vs-amount", "issued provider list "+shortTerm(li)+" is not result #0 of the filter", n.pa)
				}
			}
		}
		if n.creditOK && !n.issue {
			add("credit-without-obligation", "escrow is credited but no request is issued", n.pa)
		}
		if n.creditFail {
			if !n.pause {
				add("payfail-no-pause", "the consumer cannot pay but the context is not paused", n.pa)
			} else {
				nPause++
			}
		}
		if n.creditEv != nil && !n.notSuper {
			add("supermode-charged", "escrow credit is not dominated by ¬SuperMode", n.pa)
		}
		if n.skip {
			nSkip++
			if n.creditEv != nil || n.issue {
				add("skip-with-charge", "a skipped batch charges or issues", n.pa)
			}
		}
		if n.expiryQueued && !n.issue && !skipOpened(n) {
			add("expiry-without-batch", "a batch expiry is queued on a path that opened no batch (neither issued nor skipped)", n.pa)
		}
		if n.opened > 1 {
			add("skip-with-charge", "two batches are opened on one path (one skipped, one issued)", n.pa)
		}
		if n.running && !n.filterErr && !n.issue && !n.skip && !n.pause {
			add("running-no-successor", "a RUNNING context leaves the handler with neither an expiry queued nor a pause", n.pa)
		}
	}
	rulesOut := []struct{ key, rule, text string }{
		{"obligation-without-credit", ".3", "every path that issues requests passes a successful escrow credit or the true edge of SuperMode"},
		{"credit-without-obligation", ".2", "every successful escrow credit is followed by the issue of the batch"},
		{"list-vs-amount", ".2", "the issued provider list is result #0 of the filter call whose result #1 is the credited amount"},
		{"supermode-charged", ".5", "escrow is credited only under ¬SuperMode"},
		{"issue-after-pause", "pause", "no request is issued on a path that paused the context for insufficient balance"},
		{"payfail-no-pause", "pause", "the pay-failure edge pauses the context"},
		{"issue-while-not-running", "running", "requests are issued only on paths where the context is RUNNING"},
		{"issue-without-expiry", "expiry", "issuing queues the batch expiry on the same path"},
		{"skip-with-charge", "skip", "a skipped batch neither charges nor issues"},
		{"running-no-successor", "successor", "every RUNNING path ends with an expiry queued (issue or skip) or the context paused"},
		{"expiry-without-batch", "expiry", "a batch expiry is queued only on a path that opened a batch (a context paused for lack of funds has none in flight: a pending expiry keeps it from being started again)"},
	}
	for _, r := range rulesOut {
		if want != nil && !want[r.key] {
			continue
		}
		c.req(len(bad[r.key]) == 0, prefix+"."+r.key, unitConstruct(f, r.key), f.Body.Pos(), r.text+condStr(len(bad[r.key]) > 0, ": "+strings.Join(bad[r.key], "; ")))
	}
	c.req(nIssue >= 1 && nSkip >= 1 && nPause >= 1, prefix+".nb-roles", unitConstruct(f, "roles"), f.Body.Pos(),
		fmt.Sprintf("issue paths ×%d, skip paths ×%d, pay-failure paths ×%d", nIssue, nSkip, nPause))
}

// skipOpened: the path opened a batch (advanced the batch counter in the stored context).
func skipOpened(n *nbPath) bool { return n.opened > 0 }

// providerListArg: the argument of a call of the batch-start function that is bound to its []AccAddress parameter.
func (c *Check) providerListArg(bs *Func, call *Event) *Term {
	return c.providerListArgD(bs, call, 0)
}

func (c *Check) providerListArgD(bs *Func, call *Event, depth int) *Term {
	if bs == nil || call == nil || call.CI == nil || depth > 3 {
		return nil
	}
	for i, pr := range bs.Params {
		if isAddrSlice(pr.Type()) && i < len(call.CI.args) {
			return call.CI.args[i]
		}
	}
	// a function that hands the list on inside a record it was given (a plan): the list it issues to, over its own
	// parameters, on this call's arguments
	if c.fu == nil || c.fu.BS == nil || bs.Body == nil || c.P.pathsBusy[bs] {
		return nil
	}
	for _, pa := range c.P.PathsOf(bs) {
		for _, ev := range pa.Events {
			if ev.Kind != EvCall || ev.CI.fn == nil || ev.CI.fn == bs {
				continue
			}
			if ev.CI.fn != c.fu.BS && !c.handsListOn(ev.CI.fn, depth+1) {
				continue
			}
			inner := c.providerListArgD(ev.CI.fn, ev, depth+1)
			if inner == nil {
				continue
			}
			m := map[string]*Term{}
			for i, a := range call.CI.args {
				m[fmt.Sprintf("P%d", i)] = a
			}
			if call.CI.recv != nil {
				m["Precv"] = call.CI.recv
			}
			return simplify(inner.Subst(m))
		}
	}
	return nil
}

// handsListOn: g calls the batch-start function (or such a function) with a provider list taken from its own parameters.
func (c *Check) handsListOn(g *Func, depth int) bool {
	if g == nil || g.Body == nil || depth > 3 || c.P.pathsBusy[g] || !g.isHandWritten() {
		return false
	}
	for _, pa := range c.P.PathsOf(g) {
		for _, ev := range pa.Events {
			if ev.Kind == EvCall && ev.CI.fn != nil && ev.CI.fn != g && (ev.CI.fn == c.fu.BS || c.handsListOn(ev.CI.fn, depth+1)) {
				if l := c.providerListArgD(ev.CI.fn, ev, depth+1); l != nil && fromOwnParam(l) {
					return true
				}
			}
		}
	}
	return false
}

// fromOwnParam: a parameter, or a field of a parameter.
func fromOwnParam(t *Term) bool {
	t = stripConv(t)
	for strings.HasPrefix(t.Op, ".") && len(t.A) == 1 {
		t = stripConv(t.A[0])
	}
	return t.Op == "" && strings.HasPrefix(t.At, "P")
}

// issueLoopOverList: the batch-start function creates its requests for the members of the provider list it is given
// (the eligible providers the caller has charged for), not for any other list: every request record it stores names the
// element under the cursor of that parameter as Provider, the pending marker is keyed by the same element, and the index
// in the request id is the position in that parameter. A loop over the context's own configured Providers issues
// requests to providers that were filtered out (ineligible, over the fee cap) and that the consumer was not charged for.
func (c *Check) issueLoopOverList(rule string) {
	u := c.feeUnits(rule)
	if u.BS == nil {
		return
	}
	bs := u.BS
	pk := ""
	for i, pr := range bs.Params {
		if isAddrSlice(pr.Type()) {
			pk = fmt.Sprintf("P%d", i)
		}
	}
	if pk == "" {
		c.undecided(rule, unitConstruct(bs, "issue-loop"), bs.Body.Pos(), "the batch-start function has no provider-list parameter")
		return
	}
	el := "(elem " + pk + ")"
	n13, n14 := 0, 0
	for _, e := range c.P.SummaryOf(bs).Effs {
		if e.Kind != "store" || e.Op != "Set" {
			continue
		}
		switch e.Family {
		case "0x13":
			n13++
			prov := "?"
			if e.Val != nil {
				if sv := structIn(e.Val, "CompactRequest"); sv != nil {
					prov = field("CompactRequest", "Provider", sv).String()
				}
			}
			idx := false
			e.Key.Walk(func(t *Term) bool {
				if t.Op == "key" && len(t.A) == 1 && t.A[0].IsAt(pk) {
					idx = true
				}
				return true
			})
			c.req(prov == el, rule, effConstruct(bs.Name, e)+"#provider", e.Pos, "the stored request names the member of the given provider list under the cursor: Provider = "+prov)
			c.req(idx, rule, effConstruct(bs.Name, e)+"#index", e.Pos, "the index in the request id is the position in the given provider list: "+shortTerm(e.Key))
		case "0x14":
			n14++
			k := keyArgs(e)
			c.req(len(k) >= 2 && k[1].String() == el, rule, effConstruct(bs.Name, e)+"#provider", e.Pos, "the pending marker is keyed by the member of the given provider list under the cursor: "+fmtTerms(k))
		}
	}
	c.Sites += n13 + n14
	c.req(n13 >= 1 && n14 >= 1, rule, unitConstruct(bs, "issue-loop"), bs.Body.Pos(), fmt.Sprintf("request records ×%d and pending markers ×%d written by the batch-start function", n13, n14))
}
