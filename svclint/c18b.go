package main

// C18 continued: name regexp (A-NAME), id layout agreement, issue order,
// id length checks, provenance of Signer20-typed key segments (K7).

import (
	"fmt"
	"go/ast"
	"go/constant"
	"go/token"
	"go/types"
	"golang.org/x/tools/go/types/typeutil"
	"regexp/syntax"
	"sort"
	"strconv"
	"strings"
)

func (c *Check) nameRegexpImpl(prefix string) {
	tp := c.P.ByPkg[pkgTypes]
	found := false
	for _, file := range tp.Syntax {
		if isGenerated(file) {
			continue
		}
		ast.Inspect(file, func(n ast.Node) bool {
			vs, ok := n.(*ast.ValueSpec)
			if !ok {
				return true
			}
			for i, id := range vs.Names {
				if id.Name != "reServiceName" || i >= len(vs.Values) {
					continue
				}
				call, ok := vs.Values[i].(*ast.CallExpr)
				if !ok || len(call.Args) != 1 {
					continue
				}
				tv, ok := tp.TypesInfo.Types[call.Args[0]]
				if !ok || tv.Value == nil || tv.Value.Kind() != constant.String {
					continue
				}
				found = true
				pat := constant.StringVal(tv.Value)
				ok2, why := patternExcludesNUL(pat)
				c.req(ok2, prefix+".K2", "types.reServiceName", vs.Pos(), "A-NAME: "+strconv.Quote(pat)+": "+why)
				// a service name is also joined with other identifiers into composite strings that block processing splits again
				// (the per-provider event key "<service>.<provider>"): the separator of every such split is outside the names' alphabet
				for _, sep := range c.compositeSeparators() {
					ok3, why3 := patternExcludesRune(pat, sep)
					c.req(ok3, prefix+".K2", fmt.Sprintf("types.reServiceName#excludes-separator:%q", sep), vs.Pos(),
						fmt.Sprintf("service names exclude %q, on which end-of-block code splits an identifier composed of a service name: %s", sep, why3))
				}
			}
			return true
		})
	}
	if !found {
		c.undecided(prefix+".K2", "types.reServiceName", token.NoPos, "service-name regexp constant not found")
	}
	// the validator that applies it must be called by ValidateServiceName
	if f := c.P.FuncNamed("types.ValidateServiceName"); f != nil {
		uses := false
		for _, pa := range c.P.PathsOf(f) {
			for _, ev := range pa.Events {
				if ev.Kind == EvCall && ev.CI.name == "regexp.Regexp.MatchString" && ev.CI.recv != nil && ev.CI.recv.IsAt("@types.reServiceName") {
					uses = true
				}
			}
		}
		c.req(uses, prefix+".K2", "types.ValidateServiceName", f.Body.Pos(), "service names are matched against reServiceName")
	} else {
		c.undecided(prefix+".K2", "types.ValidateServiceName", token.NoPos, "validator not found")
	}
}

func patternExcludesNUL(pat string) (bool, string) {
	return patternExcludesRune(pat, 0)
}

// patternExcludesRune: no string the anchored pattern matches contains the rune.
func patternExcludesRune(pat string, x rune) (bool, string) {
	re, err := syntax.Parse(pat, syntax.Perl)
	if err != nil {
		return false, "cannot parse: " + err.Error()
	}
	re = re.Simplify()
	begin, end := false, false
	bad := ""
	var walk func(r *syntax.Regexp)
	walk = func(r *syntax.Regexp) {
		switch r.Op {
		case syntax.OpAnyChar, syntax.OpAnyCharNotNL:
			bad = "matches any character"
		case syntax.OpCharClass:
			for i := 0; i+1 < len(r.Rune); i += 2 {
				if r.Rune[i] <= x && x <= r.Rune[i+1] {
					bad = fmt.Sprintf("character class includes %q", x)
				}
			}
		case syntax.OpLiteral:
			for _, ru := range r.Rune {
				if ru == x {
					bad = fmt.Sprintf("literal %q", x)
				}
			}
		case syntax.OpBeginText:
			begin = true
		case syntax.OpEndText:
			end = true
		}
		for _, s := range r.Sub {
			walk(s)
		}
	}
	walk(re)
	if bad != "" {
		return false, bad
	}
	if !begin || !end {
		return false, "pattern is not anchored at both ends"
	}
	return true, fmt.Sprintf("anchored, no character class admits %q", x)
}

// ------------------------------------------------------------- id layout

type wfield struct {
	off, width int
	val        *Term
}

func constInt(c *Check, name string) (int, bool) {
	o := c.P.ByPkg[pkgTypes].Types.Scope().Lookup(name)
	k, ok := o.(*types.Const)
	if !ok {
		return 0, false
	}
	n, ok := constant.Int64Val(k.Val())
	return int(n), ok
}

func litInt(t *Term) (int, bool) {
	t = stripConv(t)
	if t == nil || t.Op != "" || !strings.HasPrefix(t.At, "#") {
		return 0, false
	}
	if k, ok := t.Obj.(*types.Const); ok {
		n, ok := constant.Int64Val(k.Val())
		return int(n), ok
	}
	n, err := strconv.Atoi(t.At[1:])
	return n, err == nil
}

// writerLayout extracts (offset,width,value) of big-endian puts into a made buffer
// and the returned concatenation prefix‖buffer.
func (c *Check) writerLayout(f *Func) (prefixParam int, size int, fields []wfield, why string) {
	paths := c.P.PathsOf(f)
	if len(paths) != 1 {
		return 0, 0, nil, fmt.Sprintf("%d paths (expected straight-line code)", len(paths))
	}
	pa := paths[0]
	// one buffer of len(prefix)+N bytes: the prefix is copied to its start and the fields are put behind it
	if len(pa.Ret) == 1 {
		buf := stripConv(pa.Ret[0])
		if bb, ok := matchAny(buf, "(make []byte (+ (len $P) $N))", "(make []byte (+ $N (len $P)))"); ok && bb["$P"].Op == "" && strings.HasPrefix(bb["$P"].At, "P") {
			if n, ok := litInt(bb["$N"]); ok {
				P := bb["$P"]
				copied := false
				var fs []wfield
				bad := ""
				for _, ev := range pa.Events {
					if ev.Kind != EvCall {
						continue
					}
					if ev.CI.name == "copy" && len(ev.CI.args) == 2 && stripConv(ev.CI.args[0]).Eq(buf) && ev.CI.args[1].Eq(P) {
						copied = true
						continue
					}
					w := 0
					switch ev.CI.name {
					case "encoding/binary.bigEndian.PutUint64":
						w = 8
					case "encoding/binary.bigEndian.PutUint32":
						w = 4
					case "encoding/binary.bigEndian.PutUint16":
						w = 2
					default:
						continue
					}
					dst := stripConv(ev.CI.args[0])
					off := -1
					if dst.Op == "slice" && len(dst.A) == 3 && stripConv(dst.A[0]).Eq(buf) && dst.A[2].IsAt("_") {
						lo := stripConv(dst.A[1])
						if lo.Op == "len" && len(lo.A) == 1 && lo.A[0].Eq(P) {
							off = 0
						} else if b2, ok := matchAny(lo, "(+ (len $Q) $O)", "(+ $O (len $Q))"); ok && b2["$Q"].Eq(P) {
							if o, ok := litInt(b2["$O"]); ok {
								off = o
							}
						}
					}
					if off < 0 {
						bad = "destination " + dst.String() + " not understood"
						break
					}
					fs = append(fs, wfield{off, w, ev.CI.args[1]})
				}
				if bad == "" && copied && len(fs) > 0 {
					var pi int
					fmt.Sscanf(P.At, "P%d", &pi)
					sort.Slice(fs, func(i, j int) bool { return fs[i].off < fs[j].off })
					return pi, n, fs, ""
				}
				if bad == "" && !copied {
					bad = "the start of the buffer is not filled from the prefix parameter"
				}
				if bad != "" {
					return 0, 0, nil, bad
				}
			}
		}
	}
	for _, ev := range pa.Events {
		if ev.Kind != EvCall {
			continue
		}
		w := 0
		switch ev.CI.name {
		case "encoding/binary.bigEndian.PutUint64":
			w = 8
		case "encoding/binary.bigEndian.PutUint32":
			w = 4
		case "encoding/binary.bigEndian.PutUint16":
			w = 2
		default:
			continue
		}
		if len(ev.CI.args) != 2 {
			return 0, 0, nil, "unexpected Put call"
		}
		dst := ev.CI.args[0]
		off := 0
		if dst.Op == "slice" {
			o, ok := litInt(dst.A[1])
			if !ok || !dst.A[2].IsAt("_") {
				return 0, 0, nil, "destination " + dst.String() + " not understood"
			}
			off = o
			dst = dst.A[0]
		}
		if b, ok := dst.Match("(make []byte $N)"); ok {
			n, ok := litInt(b["$N"])
			if !ok {
				return 0, 0, nil, "buffer size not constant"
			}
			size = n
		} else {
			return 0, 0, nil, "destination buffer " + dst.String() + " not understood"
		}
		fields = append(fields, wfield{off, w, ev.CI.args[1]})
	}
	if len(pa.Ret) != 1 {
		return 0, 0, nil, "no single result"
	}
	b, ok := pa.Ret[0].Match("(append $C (spread (make []byte $N)))")
	if !ok {
		// prefix ‖ big-endian encoding of one value
		if b2, ok2 := pa.Ret[0].Match("(append $C (spread (sdk.Uint64ToBigEndian $V)))"); ok2 && len(fields) == 0 {
			b, ok = b2, true
			size = 8
			fields = append(fields, wfield{0, 8, b2["$V"]})
		}
	}
	if !ok {
		return 0, 0, nil, "result " + pa.Ret[0].String() + " is not prefix‖buffer"
	}
	pre := b["$C"]
	prefixParam = -1
	if pre.Op == "" && strings.HasPrefix(pre.At, "P") {
		fmt.Sscanf(pre.At, "P%d", &prefixParam)
	} else if bb, ok := matchAny(pre, "(make []byte (len $P))", "(make []byte (len $P) $CAP)"); ok && strings.HasPrefix(bb["$P"].At, "P") {
		// copied prefix: require the copy
		copied := false
		for _, ev := range pa.Events {
			if ev.Kind == EvCall && ev.CI.name == "copy" && len(ev.CI.args) == 2 && ev.CI.args[1].Eq(bb["$P"]) {
				copied = true
			}
		}
		if !copied {
			return 0, 0, nil, "prefix buffer is not filled from the parameter"
		}
		fmt.Sscanf(bb["$P"].At, "P%d", &prefixParam)
	}
	if prefixParam < 0 {
		return 0, 0, nil, "prefix " + pre.String() + " is not a parameter"
	}
	sort.Slice(fields, func(i, j int) bool { return fields[i].off < fields[j].off })
	return prefixParam, size, fields, ""
}

func matchAny(t *Term, pats ...string) (Bind, bool) {
	for _, p := range pats {
		if b, ok := t.Match(p); ok {
			return b, true
		}
	}
	return nil, false
}

func paramIndexOf(t *Term) int {
	t = stripConv(t)
	if t != nil && t.Op == "" && strings.HasPrefix(t.At, "P") {
		var i int
		if _, err := fmt.Sscanf(t.At, "P%d", &i); err == nil {
			return i
		}
	}
	return -1
}

// widthPreserving: conversions between same-size integer types only.
func widthPreserving(t *Term) bool {
	for t != nil && t.Op == "conv" && len(t.A) == 2 {
		from, to := t.A[1].Typ, t.Typ
		if from == nil || to == nil {
			return false
		}
		fb, ok1 := from.Underlying().(*types.Basic)
		tb, ok2 := to.Underlying().(*types.Basic)
		if !ok1 || !ok2 || intSize(fb) == 0 || intSize(fb) != intSize(tb) {
			return false
		}
		t = t.A[1]
	}
	return true
}

func intSize(b *types.Basic) int {
	switch b.Kind() {
	case types.Int8, types.Uint8:
		return 1
	case types.Int16, types.Uint16:
		return 2
	case types.Int32, types.Uint32:
		return 4
	case types.Int64, types.Uint64:
		return 8
	}
	return 0
}

func (c *Check) idLayout() {
	type pair struct {
		gen, split, lenConst string
		prefixLen            func() (int, string)
	}
	ctxLen, okc := constInt(c, "ContextIDLen")
	reqLen, okr := constInt(c, "RequestIDLen")
	if !okc || !okr {
		c.undecided("C18.6", "types.ContextIDLen/RequestIDLen", token.NoPos, "id length constants not found")
		return
	}
	pairs := []pair{
		{c.typesName("GenerateRequestContextID"), c.typesName("SplitRequestContextID"), "ContextIDLen", func() (int, string) { return 32, "A-ID (32-byte transaction hash)" }},
		{c.typesName("GenerateRequestID"), c.typesName("SplitRequestID"), "RequestIDLen", func() (int, string) { return ctxLen, "ContextIDLen" }},
	}
	for _, pr := range pairs {
		g := c.mustFn("C18.6", pr.gen)
		s := c.mustFn("C18.6", pr.split)
		if g == nil || s == nil {
			continue
		}
		total := ctxLen
		if pr.lenConst == "RequestIDLen" {
			total = reqLen
		}
		pp, size, fields, why := c.writerLayout(g)
		if why != "" {
			c.undecided("C18.6", pr.gen, g.Body.Pos(), why)
			continue
		}
		plen, pwhy := pr.prefixLen()
		sum := 0
		contiguous := true
		for i, f := range fields {
			if f.off != sum {
				contiguous = false
			}
			sum += f.width
			_ = i
		}
		c.req(contiguous && sum == size, "C18.6", pr.gen+"#buffer", g.Body.Pos(),
			fmt.Sprintf("fields %v fill the %d-byte buffer contiguously", fieldsStr(fields), size))
		c.req(plen+size == total, "C18.6", pr.gen+"#length", g.Body.Pos(),
			fmt.Sprintf("prefix %d (%s) + %d = %s (%d)", plen, pwhy, size, pr.lenConst, total))
		c.req(pp == 0, "C18.6", pr.gen+"#prefix", g.Body.Pos(), fmt.Sprintf("id starts with parameter %d", pp))
		// writer: field k holds parameter k+1 with width-preserving conversion
		for k, f := range fields {
			pi := paramIndexOf(f.val)
			c.req(pi == k+1 && widthPreserving(f.val) && sizeOfType(f.val.Typ) == f.width, "C18.6", fmt.Sprintf("%s#field%d", pr.gen, k), g.Body.Pos(),
				fmt.Sprintf("offset %d width %d holds %s", f.off, f.width, f.val))
		}
		// reader
		var okPath *Path
		for _, pa := range c.P.PathsOf(s) {
			if pa.Exit == ExitSuccess {
				okPath = pa
			}
		}
		if okPath == nil {
			c.undecided("C18.6", pr.split, s.Body.Pos(), "no success path")
			continue
		}
		_, lenChecked := hasFact(okPath.AllFacts(), "(== (len P0) #types."+pr.lenConst+")", false)
		c.req(lenChecked, "C18.6", pr.split+"#len", s.Body.Pos(), "success requires len(id) == "+pr.lenConst)
		if len(okPath.Ret) < len(fields)+1 {
			c.fail("C18.6", pr.split, s.Body.Pos(), "fewer results than fields")
			continue
		}
		// result 0: [0:plen]
		r0 := okPath.Ret[0]
		b0, m0 := r0.Match("(slice P0 $L $H)")
		h0 := -1
		if m0 && (b0["$L"].IsAt("#0") || b0["$L"].IsAt("_")) {
			h0, _ = litInt(b0["$H"])
		} else {
			m0 = false
		}
		c.req(m0 && h0 == plen, "C18.6", pr.split+"#prefix", s.Body.Pos(), fmt.Sprintf("prefix read as %s, written length %d", r0, plen))
		for k, f := range fields {
			r := okPath.Ret[k+1]
			inner := stripConv(r)
			lo, hi := -1, -1
			okShape := false
			rw := 0
			switch inner.Op {
			case "encoding/binary.bigEndian.Uint64":
				rw = 8
			case "encoding/binary.bigEndian.Uint32":
				rw = 4
			case "encoding/binary.bigEndian.Uint16":
				rw = 2
			}
			if rw > 0 && len(inner.A) >= 1 {
				if bb, ok := inner.A[len(inner.A)-1].Match("(slice P0 $L $H)"); ok {
					lo, _ = litInt(bb["$L"])
					if bb["$H"].IsAt("_") {
						hi = total
					} else {
						hi, _ = litInt(bb["$H"])
					}
					okShape = true
				}
			}
			good := okShape && rw == f.width && lo == plen+f.off && hi == plen+f.off+f.width && widthPreserving(r)
			c.req(good, "C18.6", fmt.Sprintf("%s#field%d", pr.split, k), s.Body.Pos(),
				fmt.Sprintf("result %d reads %s; written at [%d:%d]", k+1, r, plen+f.off, plen+f.off+f.width))
		}
	}
}

func sizeOfType(T types.Type) int {
	if T == nil {
		return 0
	}
	if b, ok := T.Underlying().(*types.Basic); ok {
		return intSize(b)
	}
	return 0
}

func fieldsStr(fs []wfield) string {
	var s []string
	for _, f := range fs {
		s = append(s, fmt.Sprintf("[%d:%d]", f.off, f.off+f.width))
	}
	return strings.Join(s, " ")
}

// ------------------------------------------------------------- issue order

// issueOrder (C18.7): the id's index is the range index over the issued list
// and every iteration stores the request, both markers and appends to the event list.
func (c *Check) issueOrder() {
	n := 0
	for _, f := range c.handFuncs("keeper", "service") {
		var genEv *Event
		for _, pa := range c.P.PathsOf(f) {
			for _, ev := range pa.Events {
				if ev.Kind == EvCall && ev.CI.name == c.typesName("GenerateRequestID") {
					genEv = ev
				}
			}
		}
		if genEv == nil {
			continue
		}
		n++
		construct := f.Name
		if genEv.Loop == nil {
			c.fail("C18.7", construct, genEv.Pos, "request ids are not generated inside a loop over the issued providers")
			continue
		}
		idx := genEv.CI.args[3]
		b, ok := idx.Match("(conv int16 (key $X))")
		c.req(ok, "C18.7", construct+"#index", genEv.Pos, "index argument is "+idx.String()+" (must be the range index of the issued list)")
		if !ok {
			continue
		}
		list := b["$X"]
		// per-iteration obligations
		missing := map[string]bool{}
		iterPaths := 0
		anyWhole := false
		for _, pa := range c.P.PathsOf(f) {
			entered := false
			got := map[string]bool{}
			stored := map[string]bool{}
			listTerm := ""
			for _, ev := range pa.Events {
				if ev.Kind == EvLoop && ev.Node == genEv.Loop {
					entered = true
				}
				if !entered || ev.Loop != genEv.Loop {
					continue
				}
				if ev.Kind == EvCall {
					for _, e := range c.P.effectsOfEvent(f, ev) {
						if e.Kind == "store" && e.Op == "Set" {
							got["Set "+e.Family] = true
							if e.Family == "0x13" || e.Family == "0x15" {
								// the key must be the generated id
								if !e.Key.ContainsOp(c.typesName("GenerateRequestID")) {
									missing["key of Set "+e.Family+" is not the generated id"] = true
								}
							}
						}
					}
				}
				if ev.Kind == EvCall && ev.CI.fn != nil {
					for _, e := range c.P.effectsOfEvent(f, ev) {
						if e.Kind == "store" && e.Op == "Set" && e.Family == "0x13" {
							for _, a := range ev.CI.args {
								stored[a.String()] = true
							}
						}
					}
				}
				if (ev.Kind == EvAssign || ev.Kind == EvWrite) && ev.Val != nil && ev.Val.Op == "append" && len(ev.Val.A) == 2 && stored[ev.Val.A[1].String()] {
					got["append request"] = true
					if !ev.Val.A[1].ContainsOp(c.typesName("GenerateRequestID")) {
						listTerm = ev.Val.String() // the list of request records (not the list of ids)
						// the list starts empty for this batch: an id's index is a position among this batch's requests
						base := stripConv(ev.Val.A[0])
						for base.Op == "append" && len(base.A) >= 1 {
							base = stripConv(base.A[0])
						}
						fresh := (base.Op == "lit" && len(base.A) == 1) || base.IsAt("zero") || base.IsAt("#nil")
						if base.Op == "make" && len(base.A) >= 2 && base.A[1].IsAt("#0") {
							fresh = true
						}
						if !fresh {
							missing["the event list does not start empty for this batch (it continues "+shortTerm(base)+")"] = true
						}
					}
				}
			}
			if entered {
				// the list is announced whole, in one event emitted after the loop: an id's index is a position in that event
				whole := 0
				for _, ev := range pa.Events {
					if ev.Kind == EvCall && (strings.HasSuffix(ev.CI.name, "EventManager.EmitEvents") || strings.HasSuffix(ev.CI.name, "EventManager.EmitEvent")) {
						for _, a := range ev.CI.args {
							if listTerm != "" && strings.Contains(a.String(), "(encoding/json.Marshal "+listTerm+")") {
								if ev.Loop == nil {
									whole++
								} else {
									whole += 2
								}
							}
						}
					}
				}
				if listTerm != "" && whole > 1 {
					missing["the appended list is announced in pieces or more than once (an id's index is a position in one event)"] = true
				}
				// the list is announced in the order it was appended in (the order of the ids' indexes): it is not handed to a
				// sorting or otherwise reordering routine before it is marshalled
				for _, ev := range pa.Events {
					if ev.Kind == EvCall && listTerm != "" && (strings.HasPrefix(ev.CI.name, "sort.") || strings.Contains(ev.CI.name, "Shuffle") || strings.Contains(ev.CI.name, "Reverse")) {
						for _, a := range ev.CI.args {
							if strings.Contains(a.String(), listTerm) {
								missing["the event list is reordered ("+ev.CI.name+") before it is announced: positions no longer match the ids' indexes"] = true
							}
						}
					}
				}
				if whole == 1 {
					anyWhole = true
				}
				iterPaths++
				for _, need := range []string{"Set 0x13", "Set 0x14", "Set 0x15", "append request"} {
					if !got[need] {
						missing[need] = true
					}
				}
			}
		}
		if iterPaths > 0 && !anyWhole {
			missing["the appended list is not announced whole in one event after the loop"] = true
		}
		c.req(iterPaths > 0 && len(missing) == 0, "C18.7", construct+"#per-iteration", genEv.Pos,
			fmt.Sprintf("every iteration over %s stores the request, both markers and appends it to the event list; missing: %v", shortTerm(list), sortedKeys(missing)))
		// the provider of the iteration is the element of the same list
		prov := genEv.CI.args[0]
		_ = prov
	}
	if n == 0 {
		c.undecided("C18.7", "types.GenerateRequestID", token.NoPos, "no caller of GenerateRequestID found")
	}
}

// ------------------------------------------------------------- id length checks

func (c *Check) idLengthChecks() {
	n := 0
	for _, msg := range c.msgTypes() {
		obj := c.P.ByPkg[pkgTypes].Types.Scope().Lookup(msg)
		if obj == nil {
			continue
		}
		st, ok := obj.Type().Underlying().(*types.Struct)
		if !ok {
			continue
		}
		for i := 0; i < st.NumFields(); i++ {
			fld := st.Field(i).Name()
			want := ""
			switch fld {
			case "RequestContextId":
				want = "ContextIDLen"
			case "RequestId":
				want = "RequestIDLen"
			default:
				continue
			}
			n++
			vb := c.P.FuncNamed("types." + msg + ".ValidateBasic")
			if vb == nil {
				c.undecided("C18.8", msg+"."+fld, token.NoPos, "ValidateBasic not found")
				continue
			}
			facts := c.closeFacts(c.P.SummaryOf(vb).SuccessFacts)
			_, ok := hasFact(facts, fmt.Sprintf("(== (len (.%s.%s Precv)) #types.%s)", msg, fld, want), false)
			if !ok {
				_, ok = hasFact(facts, fmt.Sprintf("(== (len (conv []byte (.%s.%s Precv))) #types.%s)", msg, fld, want), false)
			}
			c.req(ok, "C18.8", msg+"."+fld, vb.Body.Pos(), "ValidateBasic succeeds only if len("+fld+") == "+want)
		}
	}
	c.req(n >= 1, "C18.8", "id-carrying-messages", token.NoPos, fmt.Sprintf("%d id fields found in messages", n))
}

// ------------------------------------------------------------- K7

// ownerIsSigner verifies the provenance behind every A-SIGNER20 typing: the
// owner segment of families written/scanned in transaction or end-block code
// is the message signer or a stored owner (inductively a signer).
func (c *Check) ownerIsSigner(prefix string) {
	kt := c.P.keys()
	check := func(unit string, sum *Summary, signer string) {
		for _, e := range sum.Effs {
			if e.Kind != "store" || e.Op == "Get" || e.Op == "Has" {
				continue
			}
			b := kt.Builders[e.Builder]
			if b == nil {
				continue
			}
			key := stripConv(stripSpread(e.Key))
			for si, s := range b.Shape {
				if !(s.Kind == "Addr" && s.Role == "owner") || s.Par < 0 || s.Par >= len(key.A) {
					continue
				}
				// only where the typing is relied upon: the segment is not last
				if si == len(b.Shape)-1 && e.Op != "Iter" {
					continue
				}
				arg := key.A[s.Par]
				ok, how := c.isSignerLike(arg, signer)
				c.Sites++
				c.req(ok, prefix+".K7", unit+":"+e.Op+"("+e.Family+")", e.Pos,
					fmt.Sprintf("owner segment of %s is %s — %s [%s]", e.Builder, shortTerm(arg), how, chainStr(e)))
			}
		}
	}
	for _, en := range c.entries(prefix + ".K7") {
		check(en.Msg, c.P.SummaryOf(en.Handler), en.SignerTerm())
	}
	if eb := c.P.FuncNamed("service.EndBlocker"); eb != nil {
		check("EndBlocker", c.P.SummaryOf(eb), "")
	}
}

func (c *Check) isSignerLike(t *Term, signer string) (bool, string) {
	t = stripConv(t)
	if signer != "" && t.String() == signer {
		return true, "the message signer"
	}
	if _, ok := t.Match("(res 0 (" + nameOf(c.getterByFamily("0x04"), "keeper.Keeper.GetOwner") + " $P))"); ok {
		return true, "a stored owner (written only from a signer, C15.5)"
	}
	if strings.HasPrefix(t.Op, ".ServiceBinding.Owner") {
		return true, "the Owner of a stored binding (immutable, set from the signer at creation)"
	}
	if t.Op == "phi" {
		for _, a := range t.A {
			if ok, _ := c.isSignerLike(a, signer); !ok {
				return false, "one alternative is not signer-derived: " + shortTerm(a)
			}
		}
		return true, "all alternatives are signer-derived"
	}
	return false, "not traceable to a signer or a stored owner"
}

// idInputsPresent (C18.11): "distinct inputs give distinct IDs" — the inputs are the real ones. Wherever the context-id
// generator is called in keeper / handler code, each argument that is read out of the transaction context by a comma-ok
// type assertion is used only on a path that has tested that assertion's ok result to be true: an assertion whose ok is
// dropped yields the zero value when the entry is missing or of another type, and two different messages of one
// transaction (or calls outside one) are then given the same id.
func (c *Check) idInputsPresent(rule string) {
	gen := c.typesFn("GenerateRequestContextID")
	if gen == nil {
		c.undecided(rule, "types.GenerateRequestContextID", token.NoPos, "context-id generator not found")
		return
	}
	n := 0
	for _, f := range c.handFuncs("keeper", "service") {
		for _, pa := range c.P.PathsOf(f) {
			for i, ev := range pa.Events {
				if ev.Kind != EvCall || ev.CI.fn != gen {
					continue
				}
				facts := pa.FactsBefore(i)
				for ai, a := range ev.CI.args {
					var asserted []*Term
					a.Walk(func(t *Term) bool {
						if t.Op == "res" && len(t.A) == 2 && t.A[0].IsAt("0") && stripConv(t.A[1]).Op == "assert" {
							asserted = append(asserted, t.A[1])
						}
						return true
					})
					for _, as := range asserted {
						n++
						okT := mk("res", atom("1"), as)
						c.req(facts.Holds(okT, true), rule, unitConstruct(f, fmt.Sprintf("id-input-%d-present", ai)), ev.Pos,
							"the id generator's argument "+shortTerm(a)+" comes from a comma-ok assertion whose ok result the path has tested")
					}
				}
			}
		}
	}
	c.req(n >= 2, rule, "id-inputs", token.NoPos, fmt.Sprintf("%d asserted inputs of the context-id generator examined", n))
}

// createRejectsBeforeStore (C18.12): the function that stores a new request context is a keeper API that other modules call
// outside a message (block hooks, genesis, upgrades), where a returned error does not roll the store back. Every rejecting
// exit of that function precedes its first store write: a check of the generated id (its length, the inputs it was built
// from) that runs after the context was stored leaves a record under an id the function itself has just refused.
func (c *Check) createRejectsBeforeStore(rule string) {
	n := 0
	for f, pps := range c.persistUnits("0x08", "RequestContext") {
		isCtor := false
		for _, pp := range pps {
			for _, sv := range pp.Stored {
				if sv.Op == "lit" {
					isCtor = true
				}
			}
		}
		if !isCtor {
			continue
		}
		n++
		var badPos token.Pos
		bad := ""
		for _, pa := range c.P.PathsOf(f) {
			if pa.Exit != ExitRevert {
				continue
			}
			for _, ev := range pa.Events {
				if ev.Kind != EvCall {
					continue
				}
				for _, e := range c.P.effectsOfEvent(f, ev) {
					if e.Kind == "store" && (e.Op == "Set" || e.Op == "Delete") && bad == "" {
						bad, badPos = effDesc(e), pa.RetPos
					}
				}
			}
		}
		pos := f.Body.Pos()
		if bad != "" {
			pos = badPos
		}
		c.req(bad == "", rule, unitConstruct(f, "rejects-before-store"), pos,
			"no rejecting exit of the context constructor follows a store write"+condStr(bad != "", ": the exit at "+c.pos(badPos)+" rejects after "+bad))
	}
	c.req(n >= 1, rule, "context-constructor", token.NoPos, fmt.Sprintf("%d function(s) store a newly built request context", n))
}

// compositeSeparators: the one-character constant separators of strings.Split calls in the module's block-processing code
// (package service) whose operand is not a store key — identifiers the module composed itself and takes apart again.
func (c *Check) compositeSeparators() []rune {
	seen := map[rune]bool{}
	for _, f := range c.handFuncs("service") {
		if f.Body == nil {
			continue
		}
		info := f.Pkg.TypesInfo
		ast.Inspect(f.Body, func(nd ast.Node) bool {
			call, ok := nd.(*ast.CallExpr)
			if !ok || len(call.Args) != 2 {
				return true
			}
			if fn, isFn := typeutil.Callee(info, call).(*types.Func); isFn && fn.Pkg() != nil && fn.Pkg().Path() == "strings" && (fn.Name() == "Split" || fn.Name() == "SplitN") {
				if tv, ok := info.Types[call.Args[1]]; ok && tv.Value != nil && tv.Value.Kind() == constant.String {
					if s := constant.StringVal(tv.Value); len([]rune(s)) == 1 {
						seen[[]rune(s)[0]] = true
					}
				}
			}
			return true
		})
	}
	var out []rune
	for r := range seen {
		out = append(out, r)
	}
	sort.Slice(out, func(i, j int) bool { return out[i] < out[j] })
	return out
}
