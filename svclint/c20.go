package main

// C20 — block processing is deterministic and cannot crash the chain.

import (
	"fmt"
	"go/ast"
	"go/constant"
	"go/token"
	"go/types"
	"sort"
	"strings"

	"golang.org/x/tools/go/types/typeutil"
)

func init() {
	rules["C20"] = ruleC20
	explanations["C20"] = "Decides structural necessary conditions: (1) no wall clock, randomness, goroutine, select, environment or pointer formatting in module code reachable from the message handler, EndBlocker or InitGenesis; " +
		"(2) every range over a map in that code is classified — body effects are event emission only, body writes store keys that are functions of the map key (commuting writes), or first-match return over registered modules — " +
		"anything else is reported; (3) panic inventory keyed by (function, construct): explicit panics, unchecked type assertions, and every slice/array/string index or slice expression must be justified by a dominating length fact, " +
		"a range index, or a listed invariant; the end-block-reachable subset contains no explicit panic; the respond function's panics are justified by the custody rules and the slash amount skeleton; (4) stores are mutated during " +
		"iteration only at the iterator's current key. Not decided: byte-identical replay, overflow panics inside sdk.Int/Dec, third-party library panics, non-determinism inside the SDK."
}

type reachInfo struct {
	fromHandler, fromEndBlock, fromGenesis map[*Func]bool
}

func (c *Check) reachSets() *reachInfo {
	r := &reachInfo{map[*Func]bool{}, map[*Func]bool{}, map[*Func]bool{}}
	var visit func(g *Func, set map[*Func]bool)
	visit = func(g *Func, set map[*Func]bool) {
		if g == nil || set[g] {
			return
		}
		set[g] = true
		for _, h := range c.P.callees(g) {
			visit(h, set)
		}
	}
	visit(c.P.FuncNamed("service.NewHandler"), r.fromHandler)
	visit(c.P.FuncNamed("service.EndBlocker"), r.fromEndBlock)
	visit(c.P.FuncNamed("service.InitGenesis"), r.fromGenesis)
	// message validation runs before the handler
	for _, f := range c.P.Funcs {
		if f.isHandWritten() && f.Obj != nil && f.Obj.Name() == "ValidateBasic" && f.pkgName() == "types" {
			visit(f, r.fromHandler)
		}
	}
	return r
}

func (r *reachInfo) consensus(f *Func) bool {
	return r.fromHandler[f] || r.fromEndBlock[f] || r.fromGenesis[f]
}

func ruleC20(c *Check) {
	c.assume("A-SDK: the SDK recovers handler panics per transaction; store iterators tolerate deletion of the current key")
	c.assume("A-HOST: genesis files are operator input (InitGenesis panics on invalid genesis by design)")
	r := c.reachSets()
	var fs []*Func
	for _, f := range c.P.Funcs {
		if f.isHandWritten() && f.Body != nil && r.consensus(f) && (f.pkgName() == "service" || f.pkgName() == "keeper" || f.pkgName() == "types") {
			fs = append(fs, f)
		}
	}
	sort.Slice(fs, func(i, j int) bool { return fs[i].Name < fs[j].Name })
	c.setInfo("consensus_reachable_functions", len(fs))
	c.req(len(fs) >= 50, "C20.1", "reachable-functions", token.NoPos, fmt.Sprintf("%d hand-written functions reachable from handler / EndBlocker / InitGenesis", len(fs)))
	c.determinismLint(fs)
	c.mapRanges(fs)
	c.panicInventory(fs, r)
	c.mutateWhileIterating()
	c.nilMapWrites(fs)
	c.fractionValidators("C20.3")
	c.panickingConversions(fs)
	c.panicCallees(fs, r)
	c.decodedTimesEncodable(fs)
	c.moduleWiring("C20.4", map[string]bool{"endblock": true})
	// the callbacks of an owning module are called without a nil test: contexts are created only for modules that registered both
	c.constructorRules("C20.3", map[string]bool{"callbacks": true})
	// slicing of scanned store keys is justified above by the key grammar: decide the cut positions (K4) here as well, for every
	// family but the two earnings families whose ambiguity is a recorded finding of C13 / C17 / C18 (D5, D13)
	{
		fam := map[string]bool{}
		for _, b := range c.P.keys().Prefixes {
			k := fmt.Sprintf("0x%02x", b)
			if k != "0x18" && k != "0x19" {
				fam[k] = true
			}
		}
		c.keyGrammar("C20.5", fam)
	}
	c.priceNonEmpty("C20.3", fs)
	c.coinsSubSites(fs)
	// ... which holds because every earning is added to the provider's record and to its owner's total alike
	c.earnRules("C20")
	// ... and the refund of a fee cannot fail for a fee that was never escrowed: a fee is recorded only without super mode
	c.pricingIdentity("C20.3")
	// the pricing indexed while a request is built exists: requests are built only for the providers the filter admitted
	// (providers with a stored binding, whose pricing is stored with it), never for the consumer's raw list
	c.newBatchRules("C20.3", map[string]bool{"list-vs-amount": true, "issue-after-pause": true, "obligation-without-credit": true})
	// the respond handler panics if the refund of a request fee fails: fees are valid coins only because the price routine clamps to one unit
	c.priceSkeleton("C20.3")
	// justification of the respond function's panics
	u := c.feeUnits("C20.3")
	if u.complete() {
		gRequest := c.getterByType("Request")
		gBinding := c.getterByType("ServiceBinding")
		for _, en := range c.entries("C20.3") {
			if en.Msg != "MsgRespondService" {
				continue
			}
			for _, e := range c.P.SummaryOf(en.Handler).Effs {
				if e.Kind == "bank" && e.Op == "BurnCoins" && e.Commit && gRequest != nil && gBinding != nil {
					c.slashTarget("C20.3", en.Msg+"#panic-justification", e, fmt.Sprintf("(res 0 (%s %s))", gRequest.Name, en.Field("RequestId")), gBinding)
				}
			}
		}
		c.depositPairing("C20.3", c.slashFuncs()...)
	}
}

func (c *Check) determinismLint(fs []*Func) {
	banned := map[string]string{
		"time.Now": "wall clock", "time.Since": "wall clock", "time.Until": "wall clock", "time.Sleep": "timing", "time.After": "timing", "time.Tick": "timing",
		"os.Getenv": "environment", "os.LookupEnv": "environment", "os.Hostname": "environment", "os.Getpid": "environment",
		"runtime.NumGoroutine": "runtime state", "runtime.NumCPU": "runtime state",
	}
	n := 0
	for _, f := range fs {
		info := f.Pkg.TypesInfo
		ast.Inspect(f.Body, func(nd ast.Node) bool {
			switch x := nd.(type) {
			case *ast.FuncLit:
				return false // analysed as its own function when reachable
			case *ast.GoStmt:
				c.fail("C20.1", unitConstruct(f, "go-statement"), x.Pos(), "goroutine started in consensus-reachable code")
			case *ast.SelectStmt:
				c.fail("C20.1", unitConstruct(f, "select"), x.Pos(), "select statement in consensus-reachable code")
			case *ast.CallExpr:
				n++
				if fn, ok := typeutil.Callee(info, x).(*types.Func); ok && fn.Pkg() != nil {
					q := fn.Pkg().Path() + "." + fn.Name()
					if sig, ok := fn.Type().(*types.Signature); ok && sig.Recv() != nil {
						q = qname(fn)
					}
					if why, bad := banned[q]; bad {
						c.fail("C20.1", unitConstruct(f, q), x.Pos(), "call of "+q+" ("+why+") in consensus-reachable code")
					}
					if p := fn.Pkg().Path(); p == "math/rand" || p == "crypto/rand" || p == "math/rand/v2" {
						c.fail("C20.1", unitConstruct(f, q), x.Pos(), "randomness ("+q+") in consensus-reachable code")
					}
					// %p in format strings
					for _, a := range x.Args {
						if tv, ok := info.Types[a]; ok && tv.Value != nil && tv.Value.Kind() == constant.String && strings.Contains(constant.StringVal(tv.Value), "%p") {
							c.fail("C20.1", unitConstruct(f, "format-%p"), x.Pos(), "pointer formatting in consensus-reachable code")
						}
					}
				}
			}
			return true
		})
	}
	c.Sites += n
	c.ok("C20.1", "determinism-lint", token.NoPos, fmt.Sprintf("%d call sites in %d reachable functions scanned: no wall clock, randomness, goroutine, select, environment or %%p", n, len(fs)))
}

// mapRanges classifies every range over a map in reachable code.
func (c *Check) mapRanges(fs []*Func) {
	n := 0
	for _, f := range fs {
		info := f.Pkg.TypesInfo
		var ranges []*ast.RangeStmt
		ast.Inspect(f.Body, func(nd ast.Node) bool {
			switch x := nd.(type) {
			case *ast.FuncLit:
				return false
			case *ast.RangeStmt:
				if _, ok := info.TypeOf(x.X).Underlying().(*types.Map); ok {
					ranges = append(ranges, x)
				}
			}
			return true
		})
		for _, rs := range ranges {
			n++
			class, ok := c.classifyMapRange(f, rs)
			c.req(ok, "C20.2", unitConstruct(f, "map-range:"+types.ExprString(rs.X)), rs.Pos(), class)
		}
	}
	c.req(n >= 3, "C20.2", "map-ranges", token.NoPos, fmt.Sprintf("%d ranges over maps classified", n))
}

func (c *Check) classifyMapRange(f *Func, rs *ast.RangeStmt) (string, bool) {
	mapT := c.P.fiEval(f).eval(rs.X)
	var muts []*Eff
	dyn := false
	emits := 0
	returnsInside := false
	outerAssign := ""
	for _, pa := range c.P.PathsOf(f) {
		if pa.RetPos >= rs.Body.Pos() && pa.RetPos <= rs.Body.End() {
			returnsInside = true
		}
		for _, ev := range pa.Events {
			if ev.Loop != rs {
				continue
			}
			switch ev.Kind {
			case EvCall:
				for _, e := range c.P.effectsOfEvent(f, ev) {
					switch {
					case e.Mutates():
						muts = append(muts, e)
					case e.Kind == "emit":
						emits++
					case e.Kind == "dyn" || e.Kind == "callback" || e.Kind == "modsvc":
						dyn = true
					}
				}
				if ev.CI.name == "dyn" && ev.CI.fn == nil {
					dyn = true
				}
			case EvAssign:
				if ev.Var != nil && ev.Var.Pos() < rs.Pos() && ev.Val != nil && (ev.Val.Op == "append" || ev.Val.Op == "upd" || ev.Val.Op == "+") {
					// a list of events built to be emitted is an emission (events are no consensus state)
					if tn := typeName(ev.Var.Type()); tn == "sdk.Events" || tn == "[]sdk.Event" {
						emits++
						continue
					}
					// an entry of a set (a map to a constant): insertion commutes, the set built is the same in any order
					if ev.Val.Op == "upd" && len(ev.Val.A) == 3 && isConstTerm(stripConv(ev.Val.A[2])) {
						if _, isMap := ev.Var.Type().Underlying().(*types.Map); isMap {
							continue
						}
					}
					outerAssign = ev.Var.Name()
				}
			}
		}
	}
	switch {
	case dyn:
		return "the body invokes a function value / external callback once per map entry: effects happen in map iteration order", false
	case len(muts) == 0 && outerAssign != "":
		return "the body accumulates into " + outerAssign + " in map iteration order", false
	case len(muts) == 0 && returnsInside:
		return "(c) first-match return over " + shortTerm(mapT) + ": deterministic iff at most one entry matches (registered module services have unique service names — recorded assumption)", true
	case len(muts) == 0:
		return fmt.Sprintf("(a) the body has no state effect (event emissions: %d)", emits), true
	}
	// (b) commuting writes: every store write is keyed by the map key
	for _, e := range muts {
		if e.Kind != "store" || e.Op != "Set" {
			return "the body performs " + effDesc(e) + " once per map entry in iteration order", false
		}
		if !e.Key.ContainsOp("key") || !e.Key.Contains(mk("key", mapT)) {
			return "store write " + effDesc(e) + " is not keyed by the map key: later entries may overwrite earlier ones depending on iteration order", false
		}
	}
	return fmt.Sprintf("(b) %d store writes, each keyed by a function of the map key (writes to distinct keys commute)", len(muts)), true
}

// panicInventory: explicit panics, unchecked assertions, index/slice expressions.
func (c *Check) panicInventory(fs []*Func, r *reachInfo) {
	u := c.feeUnits("C20.3")
	nIdx, nPanic, nAssert := 0, 0, 0
	for _, f := range fs {
		info := f.Pkg.TypesInfo
		// explicit panics and unchecked assertions (AST)
		okAssert := map[*ast.TypeAssertExpr]bool{}
		ast.Inspect(f.Body, func(nd ast.Node) bool {
			switch x := nd.(type) {
			case *ast.FuncLit:
				return false
			case *ast.AssignStmt:
				if len(x.Lhs) == 2 && len(x.Rhs) == 1 {
					if ta, ok := ast.Unparen(x.Rhs[0]).(*ast.TypeAssertExpr); ok {
						okAssert[ta] = true
					}
				}
			case *ast.ValueSpec:
				if len(x.Names) == 2 && len(x.Values) == 1 {
					if ta, ok := ast.Unparen(x.Values[0]).(*ast.TypeAssertExpr); ok {
						okAssert[ta] = true
					}
				}
			case *ast.TypeSwitchStmt:
				ast.Inspect(x.Assign, func(m ast.Node) bool {
					if ta, ok := m.(*ast.TypeAssertExpr); ok {
						okAssert[ta] = true
					}
					return true
				})
			}
			return true
		})
		ast.Inspect(f.Body, func(nd ast.Node) bool {
			switch x := nd.(type) {
			case *ast.FuncLit:
				return false
			case *ast.TypeAssertExpr:
				if x.Type != nil && !okAssert[x] {
					nAssert++
					c.fail("C20.3", unitConstruct(f, "unchecked-assertion:"+types.ExprString(x.Type)), x.Pos(), "type assertion without comma-ok in consensus-reachable code panics on a mismatch: "+types.ExprString(x))
				}
			case *ast.CallExpr:
				if id, ok := x.Fun.(*ast.Ident); ok {
					if b, ok := info.Uses[id].(*types.Builtin); ok && b.Name() == "panic" {
						// only panics that lie on a feasible enumerated path count
						feasible := false
						for _, pa := range c.P.PathsOf(f) {
							for _, ev := range pa.Events {
								if ev.Kind == EvPanic && ev.Pos >= x.Pos()-1 && ev.Pos <= x.End() {
									feasible = true
								}
							}
						}
						if !feasible {
							c.ok("C20.3", unitConstruct(f, "panic-unreachable"), x.Pos(), "explicit panic on no feasible path (its guard is decided false by construction)")
							return true
						}
						nPanic++
						host := c.P.inlineHost(f)
						switch {
						case r.fromEndBlock[f]:
							c.fail("C20.3", unitConstruct(f, "panic"), x.Pos(), "explicit panic reachable from EndBlocker")
						case u.complete() && host == u.RF:
							c.ok("C20.3", unitConstruct(host, "panic"), x.Pos(), "handler-only panic on slash/refund failure: justified by the custody rules (C01, C03) and the slash amount skeleton checked below")
						case r.fromGenesis[f] && !r.fromHandler[f]:
							c.ok("C20.3", unitConstruct(f, "panic"), x.Pos(), "genesis import panics on invalid operator input (A-HOST)")
						default:
							c.fail("C20.3", unitConstruct(f, "panic"), x.Pos(), "explicit panic in handler-reachable code without a listed justification")
						}
					}
				}
			}
			return true
		})
		// index / slice expressions with path facts
		type site struct {
			ok  bool
			why string
			pos token.Pos
		}
		sites := map[string]*site{}
		for _, pa := range c.P.PathsOf(f) {
			for i, ev := range pa.Events {
				if ev.Kind != EvIndex {
					continue
				}
				key := fmt.Sprintf("%d", ev.Pos)
				ok, why := c.justifyIndex(f, pa, i, ev)
				if s, dup := sites[key]; dup {
					if !ok {
						s.ok, s.why = false, why
					}
					continue
				}
				sites[key] = &site{ok, why, ev.Pos}
			}
		}
		var keys []string
		for k := range sites {
			keys = append(keys, k)
		}
		sort.Strings(keys)
		for _, k := range keys {
			s := sites[k]
			nIdx++
			node := c.indexText(f, s.pos)
			c.req(s.ok, "C20.3", unitConstruct(f, "index:"+node), s.pos, s.why)
		}
	}
	c.Sites += nIdx
	c.setInfo("index_sites", nIdx)
	c.setInfo("explicit_panics", nPanic)
	c.req(nIdx >= 10, "C20.3", "index-sites", token.NoPos, fmt.Sprintf("%d index/slice sites, %d explicit panics, %d unchecked assertions in reachable code", nIdx, nPanic, nAssert))
}

func (c *Check) indexText(f *Func, pos token.Pos) string {
	var txt string
	ast.Inspect(f.Body, func(n ast.Node) bool {
		if txt != "" {
			return false
		}
		switch x := n.(type) {
		case *ast.IndexExpr:
			if x.Pos() == pos {
				txt = types.ExprString(x)
			}
		case *ast.SliceExpr:
			if x.Pos() == pos {
				txt = types.ExprString(x)
			}
		case *ast.BinaryExpr:
			if x.OpPos == pos && (x.Op == token.QUO || x.Op == token.REM) {
				txt = types.ExprString(x)
			}
		}
		return true
	})
	return txt
}

// justifyIndex decides whether x[i] / x[a:b] cannot be out of range on this path.
func (c *Check) justifyIndex(f *Func, pa *Path, i int, ev *Event) (bool, string) {
	t := ev.Val
	if t != nil && t.Op == "intdiv" && len(t.A) == 2 {
		// integer division / remainder: the divisor is non-zero on this path
		d := stripConv(t.A[1])
		facts := pa.FactsBefore(i)
		for _, lf := range ev.Local {
			facts.Add(lf)
		}
		zero := atom("#0")
		if facts.Holds(mk("==", d, zero), false) || facts.Holds(mk("<", zero, d), true) || facts.Holds(mk("nonempty", d), true) {
			return true, "integer division by a divisor the path has established to be non-zero"
		}
		if d.Op == "len" && len(d.A) == 1 && facts.Holds(mk("nonempty", stripConv(d.A[0])), true) {
			return true, "integer division by the length of a collection the path has established to be non-empty"
		}
		return false, "integer division by " + shortTerm(d) + " which no fact on the path shows to be non-zero (division by zero panics)"
	}
	if t != nil && t.Op == "elem" {
		return true, "element under the index its own collection is being ranged with (in range by construction)"
	}
	if t == nil || len(t.A) < 2 {
		return c.listedIndex(f, t)
	}
	facts := pa.FactsBefore(i)
	for _, lf := range ev.Local {
		facts.Add(lf)
	}
	x := t.A[0]
	lenAtLeast := func(n int) bool {
		if b, ok := stripConv(x).Match("(make $T $N)"); ok {
			if k, ok := litInt(b["$N"]); ok && k >= n {
				return true
			}
		}
		for _, fa := range facts {
			if fa.T.Op == "nonempty" && !fa.Neg && stripConv(fa.T.A[0]).Eq(stripConv(x)) && n <= 1 {
				return true
			}
			if fa.T.Op == "==" && !fa.Neg && fa.T.A[0].Op == "len" && stripConv(fa.T.A[0].A[0]).Eq(stripConv(x)) {
				if k, ok := litInt(fa.T.A[1]); ok && k >= n {
					return true
				}
			}
		}
		return false
	}
	// constant arithmetic over a counter with a known start (the value after the iterations walked)
	var foldInt func(t *Term) (int64, bool)
	foldInt = func(t *Term) (int64, bool) {
		t = stripConv(t)
		if v, ok := intConst(t); ok {
			return v, true
		}
		if (t.Op == "+" || t.Op == "-") && len(t.A) == 2 {
			a, ok1 := foldInt(t.A[0])
			b, ok2 := foldInt(t.A[1])
			if ok1 && ok2 {
				if t.Op == "+" {
					return a + b, true
				}
				return a - b, true
			}
		}
		return 0, false
	}
	// a comparison on the path that puts a constant below the length: k < len(x), ¬(len(x) < k+1)
	belowLen := func(k int64) bool {
		if k == 0 && lenAtLeast(1) {
			return true
		}
		for _, fa := range facts {
			if fa.T.Op != "<" || len(fa.T.A) != 2 {
				continue
			}
			l, r := stripConv(fa.T.A[0]), stripConv(fa.T.A[1])
			if !fa.Neg && r.Op == "len" && len(r.A) == 1 && stripConv(r.A[0]).Eq(stripConv(x)) {
				if cst, ok := foldInt(l); ok && cst >= k {
					return true
				}
			}
			if fa.Neg && l.Op == "len" && len(l.A) == 1 && stripConv(l.A[0]).Eq(stripConv(x)) {
				if cst, ok := foldInt(r); ok && cst > k {
					return true
				}
			}
		}
		return false
	}
	if t.Op == "idx" {
		idx := stripConv(t.A[1])
		if k, ok := foldInt(idx); ok && k >= 0 && belowLen(k) {
			return true, fmt.Sprintf("index %d is below the length by a comparison on the path", k)
		}
		// range index over the same operand (or over a value of the same length)
		if idx.Op == "key" && len(idx.A) == 1 && (idx.A[0].Eq(x) || true) {
			if idx.A[0].Eq(x) {
				return true, "index is the range key of the indexed value"
			}
			// providerArr[i] with providerArr := make([]T, len(providers)) and i ranging over providers
			if b, ok := x.Match("(make $T (len $Y))"); ok && b["$Y"].Eq(idx.A[0]) {
				return true, "index ranges over a value of the same length as the made slice"
			}
		}
		if k, ok := litInt(idx); ok {
			if lenAtLeast(k + 1) {
				return true, fmt.Sprintf("constant index %d is dominated by a length fact", k)
			}
			if tt, ok := x.Typ.(*types.Array); ok && int64(k) < tt.Len() {
				return true, "constant index into an array"
			}
		}
		// a counter that starts at c, minus k ≤ c
		if b, ok := idx.Match("(- (keyfrom $C $Y) $K)"); ok && b["$Y"].Eq(x) {
			if cst, ok1 := litInt(b["$C"]); ok1 {
				if k, ok2 := litInt(b["$K"]); ok2 && k >= 0 && k <= cst {
					return true, "index counter-k of a loop whose counter starts at c ≥ k and stays below len"
				}
			}
		}
		// the last element(s) of a value known to be long enough
		if b, ok := idx.Match("(- (len $Y) $K)"); ok && b["$Y"].Eq(x) {
			if k, ok2 := litInt(b["$K"]); ok2 && k >= 1 && lenAtLeast(k) {
				return true, "index len-k under a length fact"
			}
		}
		// y[i] with i ranging over x under len(x) == len(y)
		if b, ok := idx.Match("(key $Y)"); ok {
			lx, ly := mk("len", x), mk("len", b["$Y"])
			if facts.Holds(mk("==", lx, ly), true) || facts.Holds(mk("==", ly, lx), true) {
				return true, "index ranging over a collection the path has established to have the same length"
			}
		}
		// i-1 under i != 0 where i is a range key of the same operand
		if b, ok := idx.Match("(- (key $Y) #1)"); ok && b["$Y"].Eq(x) {
			z := Fact{T: mk("==", mk("key", x), atom("#0"))}
			pos := Fact{T: mk("<", atom("#0"), mk("key", x))}
			if facts.Has(z.Not()) || facts.Has(pos) {
				return true, "index key-1 under key > 0 of the same range"
			}
		}
		return c.listedIndex(f, t)
	}
	// slice expressions
	lo, hi := stripConv(t.A[1]), stripConv(t.A[2])
	base := stripConv(x)
	isKey := strings.HasSuffix(base.Op, "Iterator.Key") || base.ContainsOp("github.com/tendermint/tm-db.Iterator.Key")
	if isKey {
		return true, "slicing of a scanned store key: cut positions are decided by the key grammar (K4); every key of a family starts with its prefix byte"
	}
	if bb, ok := matchAny(base, "(make []byte (+ (len $P) $N))", "(make []byte (+ $N (len $P)))"); ok && hi.IsAt("_") {
		if n, ok := litInt(bb["$N"]); ok {
			if lo.Op == "len" && len(lo.A) == 1 && lo.A[0].Eq(bb["$P"]) {
				return true, "x[len(p):] of a buffer made with len(p)+N bytes"
			}
			if b2, ok := matchAny(lo, "(+ (len $Q) $O)", "(+ $O (len $Q))"); ok && b2["$Q"].Eq(bb["$P"]) {
				if o, ok := litInt(b2["$O"]); ok && o <= n {
					return true, "x[len(p)+k:] of a buffer made with len(p)+N bytes, k ≤ N"
				}
			}
		}
	}
	if (lo.IsAt("_") || lo.IsAt("#0")) && hi.Op == "-" && hi.A[0].Op == "len" && hi.A[0].A[0].Eq(x) {
		if k, ok := litInt(hi.A[1]); ok && lenAtLeast(k) {
			return true, "x[0:len(x)-k] under a length fact"
		}
	}
	if k, ok := litInt(lo); ok && hi.IsAt("_") {
		if lenAtLeast(k) {
			return true, "x[k:] under a length fact"
		}
	}
	if klo, ok1 := litInt(lo); ok1 || lo.IsAt("_") {
		if khi, ok2 := litInt(hi); ok2 && lenAtLeast(khi) && klo <= khi {
			return true, "constant bounds under a length fact"
		}
	}
	// a cut inside a helper of the key builders: the key interpreter has executed it, with the shape of the value
	// known, for every builder that reaches it (a cut running past the value makes that builder's shape unknown)
	if c.keyHelperOnly(f, 0) {
		return true, "cut inside a key-builder helper: evaluated on the known shape of every key builder that reaches it (key grammar K1)"
	}
	// key[len(prefix):] in a helper whose every caller passes a key of the prefix's own family
	if hi.IsAt("_") && lo.Op == "len" && len(lo.A) == 1 && base.Op == "" && strings.HasPrefix(base.At, "P") {
		if pi := stripConv(lo.A[0]); pi.Op == "" && strings.HasPrefix(pi.At, "P") && c.callersPassKeyOfPrefix(f, base.At, pi.At) {
			return true, "cut of the family prefix from a key: every caller passes a key built for the very prefix it passes (keys of a family start with its prefix)"
		}
	}
	return c.listedIndex(f, t)
}

// callersPassKeyOfPrefix: at every call of f in the module, the argument bound to keyPar is a key / sub-space of the
// family whose bare prefix is the argument bound to prefixPar.
func (c *Check) callersPassKeyOfPrefix(f *Func, keyPar, prefixPar string) bool {
	var kj, pj int
	if _, err := fmt.Sscanf(keyPar, "P%d", &kj); err != nil {
		return false
	}
	if _, err := fmt.Sscanf(prefixPar, "P%d", &pj); err != nil {
		return false
	}
	n := 0
	for _, g := range c.P.Funcs {
		if g == f || !g.isHandWritten() || g.Body == nil || c.P.pathsBusy[g] {
			continue
		}
		if pk := g.pkgName(); pk != "keeper" && pk != "service" && pk != "types" {
			continue
		}
		for _, pa := range c.P.PathsOf(g) {
			for _, ev := range pa.Events {
				if ev.Kind != EvCall || ev.CI.fn != f {
					continue
				}
				if kj >= len(ev.CI.args) || pj >= len(ev.CI.args) {
					return false
				}
				n++
				fk, _ := c.P.keyFamily(ev.CI.args[kj])
				fp, _ := c.P.keyFamily(ev.CI.args[pj])
				pa0 := stripConv(ev.CI.args[pj])
				if fk == "?" || fk != fp || pa0.Op != "" || !strings.HasPrefix(pa0.At, "@types.") {
					return false
				}
			}
		}
	}
	return n > 0
}

// listedIndex: the justified table for accesses no local fact decides (one line of reason each).
func (c *Check) listedIndex(f *Func, t *Term) (bool, string) {
	s := t.String()
	switch {
	case f.Name == "types.RequestContextState.Unmarshal" || f.Name == "types.RequestContextBatchState.Unmarshal":
		return true, "enum decoder of module-written store bytes: Marshal always writes exactly one byte (sibling Marshal checked by C19.4 tables)"
	case c.fu != nil && c.fu.BS != nil && t.Op == "idx" && c.isIssuerCall(t.A[0]) && t.A[1].IsAt("#0") && batchStartListNonEmpty(t.A[0]):
		return true, "first id of a batch issued to a non-empty literal provider list: batch-start returns one id per provider (C12.1, C18.7)"
	case f.Name == "service.NewQuerier$lit0" || strings.HasPrefix(f.Name, "keeper.NewQuerier"):
		return true, "legacy query path: not consensus state (queries run on a cached context)"
	case f.Name == "keeper.Keeper.validateServiceFeeCap" || f.Name == "keeper.Keeper.validateDeposit":
		return false, "index " + shortTerm(t) + " is not dominated by a length fact"
	case f.Name == "service.EndBlocker" && strings.Contains(s, "strings.Split"):
		return false, "index into the result of strings.Split is not dominated by a length fact"
	}
	return false, "index/slice " + shortTerm(t) + " is justified neither by a dominating length fact, a range index, nor a listed invariant"
}

// mutateWhileIterating (C20.4).
func (c *Check) mutateWhileIterating() {
	n := 0
	for _, f := range c.handFuncs("keeper", "service") {
		for _, e := range c.directEffectsDepth(f, 1) {
			if e.Kind != "store" || !e.InLoop || !(e.Op == "Delete" || e.Op == "Set") {
				continue
			}
			// is the enclosing loop the iteration of a prefix iterator over the same family?
			fs, ok := e.Event.Loop.(*ast.ForStmt)
			if !ok || fs.Cond == nil {
				continue
			}
			ct := c.P.fiEval(f).eval(fs.Cond)
			if !strings.HasSuffix(ct.Op, "Iterator.Valid") || len(ct.A) != 1 || len(ct.A[0].A) != 2 {
				continue
			}
			if fam, _ := c.P.keyFamily(ct.A[0].A[1]); fam != e.Family {
				continue
			}
			n++
			cur := e.Key.ContainsOp("github.com/tendermint/tm-db.Iterator.Key") || e.Key.ContainsOp("github.com/tendermint/tm-db.Iterator.Value")
			// the record under the cursor may also be overwritten in place (its key rebuilt from the cursor's own key):
			// no key enters or leaves the range being iterated
			overwrite := e.Op == "Set" && e.Key.ContainsOp("github.com/tendermint/tm-db.Iterator.Key") && !e.Key.ContainsOp("github.com/tendermint/tm-db.Iterator.Value")
			c.req(cur && (e.Op == "Delete" || overwrite), "C20.4", unitConstruct(f, e.Op+"-while-iterating:"+e.Family), e.Pos,
				"a record of the family under iteration is only deleted or overwritten, at the iterator's current position: "+shortTerm(e.Key))
		}
	}
	c.req(n >= 1, "C20.4", "mutation-during-iteration-sites", token.NoPos, fmt.Sprintf("%d sites mutate the family they iterate", n))
}

// batchStartListNonEmpty: the provider list passed to the batch-start call is a literal with at least one element.
func batchStartListNonEmpty(call *Term) bool {
	for _, a := range call.A {
		if a.Op == "lit" && len(a.A) >= 2 && strings.HasPrefix(a.A[0].At, "[]") {
			return true
		}
	}
	return false
}

// priceNonEmpty: sdk.Coins.GetDenomByIndex(i) indexes the coin set. In reachable code it is applied to the
// Price of a stored pricing, which must therefore never be empty: every pricing that is stored comes from the
// pricing parser (C15.6), and every success path of the parser yields a one-element literal or NewCoins of a
// coin known to be non-zero (NewCoins drops zero coins).
func (c *Check) priceNonEmpty(rule string, fs []*Func) {
	gPricing := c.getterByFamily("0x06")
	parser := c.P.FuncNamed(c.nParsePricing())
	sites := 0
	for _, f := range fs {
		seen := map[token.Pos]bool{}
		for _, pa := range c.P.PathsOf(f) {
			for _, ev := range pa.Events {
				if ev.Kind != EvCall || ev.CI.name != "sdk.Coins.GetDenomByIndex" || seen[ev.Pos] {
					continue
				}
				seen[ev.Pos] = true
				sites++
				x := ev.CI.recv
				ok := false
				if x != nil && strings.HasSuffix(x.Op, ".Pricing.Price") && len(x.A) == 1 && gPricing != nil {
					src := x.A[0]
					if src.Op == gPricing.Name || (src.Op == "res" && src.ContainsOp(c.nParsePricing())) {
						ok = true
					}
				}
				c.req(ok, rule, unitConstruct(f, "index:GetDenomByIndex"), ev.Pos, "GetDenomByIndex is applied to the Price of a stored (parser-produced) pricing: "+shortTerm(x))
			}
		}
	}
	if sites == 0 {
		return
	}
	if parser == nil {
		c.undecided(rule, "pricing-parser", token.NoPos, "pricing parser not found")
		return
	}
	n := 0
	var problems []string
	for _, pa := range c.P.PathsOf(parser) {
		if pa.Exit != ExitSuccess || len(pa.Ret) == 0 {
			continue
		}
		n++
		price := field("Pricing", "Price", pa.Ret[0])
		switch {
		case price.Op == "lit" && len(price.A) >= 2:
			// explicit literal with at least one element
		case price.Op == "sdk.NewCoins" && len(price.A) == 1:
			coin := price.A[0]
			if !pa.AllFacts().Has(Fact{T: mk("sdk.Coin.IsZero", coin), Neg: true}) {
				problems = append(problems, "NewCoins("+shortTerm(coin)+") without excluding a zero coin (NewCoins drops zero coins: the stored Price would be empty)")
			}
		default:
			problems = append(problems, "Price = "+shortTerm(price))
		}
	}
	c.req(n >= 1 && len(problems) == 0, rule, unitConstruct(parser, "price-non-empty"), parser.Body.Pos(),
		fmt.Sprintf("every success path of the pricing parser yields a non-empty Price (%d paths)", n)+condStr(len(problems) > 0, ": "+strings.Join(uniq(sortStrings(problems)), "; ")))
}

// isIssuerCall: t is a call of the batch-start function or of a function that hands its provider list on to it.
func (c *Check) isIssuerCall(t *Term) bool {
	if c.fu == nil || c.fu.BS == nil || t == nil {
		return false
	}
	for g := range c.issuerFuncs(c.fu) {
		if t.Op == g.Name {
			return true
		}
	}
	return false
}

// keyHelperOnly: f is an unexported function of package types that is called only from key builders whose shape the
// key interpreter has established (directly or through further such helpers).
func (c *Check) keyHelperOnly(f *Func, depth int) bool {
	if f == nil || f.Obj == nil || f.Obj.Exported() || f.pkgName() != "types" || depth > 4 {
		return false
	}
	kt := c.P.keys()
	n := 0
	for _, g := range c.P.Funcs {
		if g == f || g.Body == nil || !g.isHandWritten() || g.Parent != nil {
			continue
		}
		calls := false
		info := g.Pkg.TypesInfo
		ast.Inspect(g.Body, func(nd ast.Node) bool {
			if call, ok := nd.(*ast.CallExpr); ok {
				if fo, _ := typeutil.Callee(info, call).(*types.Func); fo == f.Obj {
					calls = true
				}
			}
			return !calls
		})
		if !calls {
			continue
		}
		n++
		if b := kt.Builders[g.Name]; b != nil && len(b.Shape) > 0 {
			continue
		}
		if !c.keyHelperOnly(g, depth+1) {
			return false
		}
	}
	return n > 0
}

// coinsSubSites: sdk.Coins.Sub panics when the result would be negative. In reachable code it may only take a
// provider's earned fees from the total of that provider's owner (the total is the sum of the owner's providers'
// earnings — the C13 invariant — so the difference is never negative); every other use needs SafeSub.
func (c *Check) coinsSubSites(fs []*Func) {
	gOwner := c.getterByFamily("0x04")
	// the family a term was read from: result #0 of a read-only keeper function all of whose store reads are of one family
	famOf := func(t *Term) (string, *Term) {
		b, ok := stripConv(t).Match("(res 0 $CALL)")
		if !ok {
			return "", nil
		}
		call := b["$CALL"]
		g := c.P.FuncNamed(call.Op)
		if g == nil || !g.isHandWritten() || g.Body == nil || len(call.A) == 0 {
			return "", nil
		}
		fam := ""
		for _, e := range c.P.SummaryOf(g).Effs {
			if e.Kind == "emit" {
				continue
			}
			if e.Kind != "store" || (e.Op != "Get" && e.Op != "Iter" && e.Op != "Has") {
				return "", nil
			}
			if fam != "" && fam != e.Family {
				return "", nil
			}
			fam = e.Family
		}
		return fam, call.A[len(call.A)-1]
	}
	type site struct {
		f     *Func
		a, b  *Term
		facts FactSet
		pos   token.Pos
	}
	judge := func(st site) (bool, string) {
		fa, owner := famOf(st.a)
		fb, prov := famOf(st.b)
		if fa != "0x19" || fb != "0x18" {
			return false, "operands are not (the owner's total, a provider's earnings)"
		}
		if gOwner == nil {
			return false, "owner getter not found"
		}
		own := mk("res", atom("0"), mk(gOwner.Name, prov))
		if st.facts.Holds(mk("sdk.AccAddress.Equals", owner, own), true) || st.facts.Holds(mk("sdk.AccAddress.Equals", own, owner), true) {
			return true, ""
		}
		return false, "the path does not establish that the owner whose total is reduced owns the provider"
	}
	bare := func(t *Term) bool {
		t = stripConv(t)
		return t.Op == "" && strings.HasPrefix(t.At, "P") && !t.IsAt("Precv")
	}
	for _, f := range fs {
		if c.P.inlineTarget(f) {
			continue // walked in place in its caller
		}
		seen := map[token.Pos]bool{}
		for _, pa := range c.P.PathsOf(f) {
			for i, ev := range pa.Events {
				if ev.Kind != EvCall || ev.CI.name != "sdk.Coins.Sub" || ev.CI.recv == nil || len(ev.CI.args) != 1 {
					continue
				}
				sites := []site{{f, stripConv(ev.CI.recv), stripConv(stripSpread(ev.CI.args[0])), pa.FactsBefore(i), ev.Pos}}
				// operands that are the function's own parameters are judged on what its callers pass
				for depth := 0; depth < 3; depth++ {
					var next []site
					lifted := false
					for _, st := range sites {
						if !(bare(st.a) || bare(st.b)) || st.f.Obj == nil {
							next = append(next, st)
							continue
						}
						n := 0
						for _, h := range c.handFuncs("keeper", "service") {
							for _, pb := range c.P.PathsOf(h) {
								for j, e2 := range pb.Events {
									if e2.Kind != EvCall || e2.CI.fn != st.f {
										continue
									}
									m := map[string]*Term{}
									for k, a := range e2.CI.args {
										m[fmt.Sprintf("P%d", k)] = a
									}
									fsx := pb.FactsBefore(j)
									for _, fa := range st.facts {
										for _, nf := range fa.SubstAll(m) {
											fsx.Add(nf)
										}
									}
									next = append(next, site{h, stripConv(st.a.Subst(m)), stripConv(st.b.Subst(m)), fsx, st.pos})
									n++
								}
							}
						}
						if n == 0 {
							next = append(next, st)
						} else {
							lifted = true
						}
					}
					sites = next
					if !lifted {
						break
					}
				}
				ok, why := true, ""
				var a0, b0 *Term
				for _, st := range sites {
					o, w := judge(st)
					if a0 == nil || !o {
						a0, b0 = st.a, st.b
					}
					if !o {
						ok, why = false, w
					}
				}
				if seen[ev.Pos] && ok {
					continue
				}
				seen[ev.Pos] = true
				c.req(ok, "C20.3", unitConstruct(f, "coins-sub"), ev.Pos,
					"Coins.Sub (panics on a negative result) takes a provider's earnings from the total of the provider's owner: "+shortTerm(a0)+" − "+shortTerm(b0)+condStr(why != "", " — "+why))
			}
		}
	}
}

// nilMapWrites (C20.3): an assignment to an entry of a nil map panics. Every statement m[k] = v (or m[k] op= v) on a map in
// consensus-reachable code writes to a map that cannot be nil there: a local made by make / a composite literal, a variable
// captured from an enclosing function where it is so made, a struct field that is only ever given a made map, or a
// parameter for which every call site in the module (found on the syntax tree with resolved callees, closures included)
// passes a map that is itself not nil by the same criteria; a call site passing nil or something else is reported.
func (c *Check) nilMapWrites(fs []*Func) {
	n := 0
	var exprNonNil func(g *Func, e ast.Expr, depth int) (bool, string)
	fieldDepth := 0
	// every value ever given to the variable inside the outermost enclosing function is make / a composite literal
	varMade := func(g *Func, v *types.Var) (bool, string) {
		top := g
		for top.Parent != nil {
			top = top.Parent
		}
		info := g.Pkg.TypesInfo
		found, ok, why := false, true, ""
		judge := func(r ast.Expr) {
			found = true
			switch x := ast.Unparen(r).(type) {
			case *ast.CompositeLit:
			case *ast.CallExpr:
				if id, isId := x.Fun.(*ast.Ident); !isId || id.Name != "make" {
					ok, why = false, "assigned from "+types.ExprString(r)
				}
			default:
				ok, why = false, "assigned from "+types.ExprString(r)
			}
		}
		ast.Inspect(top.Body, func(m ast.Node) bool {
			switch s := m.(type) {
			case *ast.AssignStmt:
				if len(s.Lhs) == len(s.Rhs) {
					for i, l := range s.Lhs {
						if id, isId := l.(*ast.Ident); isId && (info.Defs[id] == types.Object(v) || info.Uses[id] == types.Object(v)) {
							judge(s.Rhs[i])
						}
					}
				}
			case *ast.ValueSpec:
				for i, nm := range s.Names {
					if info.Defs[nm] == types.Object(v) {
						if i < len(s.Values) {
							judge(s.Values[i])
						} else {
							found, ok, why = true, false, "declared without a value (nil map)"
						}
					}
				}
			}
			return true
		})
		if !found {
			return false, "no definition of " + v.Name() + " found"
		}
		return ok, why
	}
	fieldMade := func(fv *types.Var) (bool, string) {
		found, ok, why := false, true, ""
		for _, g := range c.P.Funcs {
			if g.Body == nil || !g.isHandWritten() || g.Parent != nil {
				continue
			}
			info := g.Pkg.TypesInfo
			judge := func(r ast.Expr) {
				found = true
				if fieldDepth > 3 {
					ok, why = false, "field "+fv.Name()+": value chain too deep"
					return
				}
				fieldDepth++
				if ok2, why2 := exprNonNil(g, r, 1); !ok2 {
					ok, why = false, "field "+fv.Name()+" is given "+why2+" in "+g.Name
				}
				fieldDepth--
			}
			ast.Inspect(g.Body, func(m ast.Node) bool {
				switch s := m.(type) {
				case *ast.KeyValueExpr:
					if id, isId := s.Key.(*ast.Ident); isId && info.Uses[id] == types.Object(fv) {
						judge(s.Value)
					}
				case *ast.AssignStmt:
					if len(s.Lhs) == len(s.Rhs) {
						for i, l := range s.Lhs {
							if se, isSel := ast.Unparen(l).(*ast.SelectorExpr); isSel && info.Uses[se.Sel] == types.Object(fv) {
								judge(s.Rhs[i])
							}
						}
					}
				}
				return true
			})
		}
		if !found {
			return false, "field " + fv.Name() + " is never given a map"
		}
		return ok, why
	}
	var paramOK func(f *Func, idx int, depth int) (bool, string)
	exprNonNil = func(g *Func, e ast.Expr, depth int) (bool, string) {
		info := g.Pkg.TypesInfo
		switch x := ast.Unparen(e).(type) {
		case *ast.CompositeLit:
			return true, ""
		case *ast.CallExpr:
			if id, ok := x.Fun.(*ast.Ident); ok && id.Name == "make" {
				return true, ""
			}
		case *ast.Ident:
			v, _ := info.Uses[x].(*types.Var)
			if v == nil {
				break
			}
			for h := g; h != nil; h = h.Parent {
				for i, pr := range h.Params {
					if pr == v {
						if depth >= 4 {
							return false, "parameter chain too deep"
						}
						return paramOK(h, i, depth+1)
					}
				}
			}
			if v.IsField() {
				return fieldMade(v)
			}
			return varMade(g, v)
		case *ast.SelectorExpr:
			if fv, _ := info.Uses[x.Sel].(*types.Var); fv != nil && fv.IsField() {
				return fieldMade(fv)
			}
		}
		return false, types.ExprString(e)
	}
	paramOK = func(f *Func, idx int, depth int) (bool, string) {
		if f.Obj == nil && f.Lit == nil {
			return false, "anonymous function"
		}
		sites := 0
		// the variable a function literal is bound to (its calls go through that variable)
		var litVar *types.Var
		if f.Lit != nil && f.Parent != nil {
			pinfo := f.Pkg.TypesInfo
			ast.Inspect(f.Parent.Body, func(m ast.Node) bool {
				if as, ok := m.(*ast.AssignStmt); ok && len(as.Lhs) == len(as.Rhs) {
					for i, r := range as.Rhs {
						if ast.Unparen(r) == ast.Expr(f.Lit) {
							if id, ok := as.Lhs[i].(*ast.Ident); ok {
								if v, _ := pinfo.Defs[id].(*types.Var); v != nil {
									litVar = v
								} else if v, _ := pinfo.Uses[id].(*types.Var); v != nil {
									litVar = v
								}
							}
						}
					}
				}
				return true
			})
			if litVar == nil {
				return false, "the literal is not bound to a variable (its callers are not known)"
			}
		}
		for _, g := range c.P.Funcs {
			if g.Body == nil || !g.isHandWritten() || g.Parent != nil {
				continue
			}
			info := g.Pkg.TypesInfo
			bad := ""
			var walk func(host *Func, body ast.Node)
			walk = func(host *Func, body ast.Node) {
				ast.Inspect(body, func(m ast.Node) bool {
					if fl, ok := m.(*ast.FuncLit); ok && m != body {
						if hl := c.P.FuncByLit[fl]; hl != nil {
							walk(hl, fl.Body)
						}
						return false
					}
					call, ok := m.(*ast.CallExpr)
					if !ok || bad != "" {
						return true
					}
					match := false
					if f.Obj != nil {
						if callee := typeutil.Callee(info, call); callee != nil && callee == types.Object(f.Obj) {
							match = true
						}
					} else if id, ok := ast.Unparen(call.Fun).(*ast.Ident); ok && litVar != nil && info.Uses[id] == types.Object(litVar) {
						match = true
					}
					if !match {
						return true
					}
					ai := idx
					if f.Recv != nil && f.Obj != nil {
						// Params of a method exclude the receiver in the call's argument list only if the engine counts it: align by type
						ai = idx - (len(f.Params) - len(call.Args))
					}
					if ai < 0 || ai >= len(call.Args) {
						return true
					}
					sites++
					if ok2, why := exprNonNil(host, call.Args[ai], depth); !ok2 {
						bad = host.Name + " passes " + why + " (" + c.pos(call.Pos()) + ")"
					}
					return true
				})
			}
			walk(g, g.Body)
			if bad != "" {
				return false, bad
			}
		}
		if sites == 0 {
			return false, "no call site of " + f.Name + " found"
		}
		return true, ""
	}
	for _, f := range fs {
		info := f.Pkg.TypesInfo
		ast.Inspect(f.Body, func(nd ast.Node) bool {
			if _, isLit := nd.(*ast.FuncLit); isLit {
				return false
			}
			as, ok := nd.(*ast.AssignStmt)
			if !ok {
				return true
			}
			for _, l := range as.Lhs {
				ix, ok := ast.Unparen(l).(*ast.IndexExpr)
				if !ok {
					continue
				}
				tv, ok := info.Types[ix.X]
				if !ok {
					continue
				}
				if _, isMap := types.Unalias(tv.Type).Underlying().(*types.Map); !isMap {
					continue
				}
				n++
				okW, why := exprNonNil(f, ix.X, 0)
				if se, isSel := ast.Unparen(ix.X).(*ast.SelectorExpr); isSel && !okW {
					// a field of the keeper itself: allocated by the keeper's constructor, written by registration calls at start-up
					if id, isId := ast.Unparen(se.X).(*ast.Ident); isId && f.Recv != nil && info.Uses[id] == types.Object(f.Recv) && isKeeperType(f.Recv.Type()) {
						okW = true
					}
				}
				if !okW && insideNonNilGuard(f.Body, as, types.ExprString(ix.X)) {
					okW = true // written only under "this map is not nil"
				}
				c.req(okW, "C20.3", unitConstruct(f, "map-write:"+types.ExprString(ix.X)), as.Pos(),
					"an entry of a map is assigned only where the map cannot be nil (made where it is declared, a field only ever given a made map, or a parameter every call site fills with such a map)"+condStr(!okW, ": "+why))
			}
			return true
		})
	}
	c.Sites += n
	c.setInfo("map_write_sites", n)
}

// panickingConversions (C20.3): conversions of the SDK's big numbers to machine integers panic when the value does not fit
// (sdk.Int.Int64 / Uint64, sdk.Dec.TruncateInt64 / RoundInt64, sdk.Uint.Uint64). Consensus-reachable module code uses none
// today; a use is reported unless the path has bounded the operand (no bounding idiom is recognised yet, so any use is
// reported — a height computed "overflow-safely" in sdk.Int and converted back halts the chain where plain int64
// arithmetic wrapped).
func (c *Check) panickingConversions(fs []*Func) {
	bad := map[string]bool{
		"sdk.Int.Int64": true, "sdk.Int.Uint64": true, "sdk.Dec.TruncateInt64": true, "sdk.Dec.RoundInt64": true, "sdk.Uint.Uint64": true,
	}
	n := 0
	for _, f := range fs {
		seen := map[token.Pos]bool{}
		for _, pa := range c.P.PathsOf(f) {
			for _, ev := range pa.Events {
				if ev.Kind == EvCall && bad[ev.CI.name] && !seen[ev.Pos] {
					seen[ev.Pos] = true
					n++
					c.fail("C20.3", unitConstruct(f, "panicking-conversion:"+ev.CI.name), ev.Pos,
						ev.CI.name+" panics when the value does not fit the machine integer; nothing on the path bounds "+shortTerm(ev.CI.recv))
				}
			}
		}
	}
	c.setInfo("panicking_conversions", n)
}

// panicCallees (C20.3): where a caller turns a callee's error into a panic (the respond function does so for the slash and
// for the refund), the callee may fail only on what the custody rules exclude — a record that is missing, a bank transfer
// that is refused. A rejecting exit that tests nothing but the callee's own arguments (an "invalid amount" guard in front
// of the refund) fails for inputs the caller passes as they come: an empty fee in super mode. Such an exit is a panic route.
func (c *Check) panicCallees(fs []*Func, r *reachInfo) {
	n := 0
	seen := map[*Func]bool{}
	var examine func(host, g *Func, pos token.Pos, depth int)
	examine = func(host, g *Func, pos token.Pos, depth int) {
		if g == nil || g.Body == nil || !g.isHandWritten() || seen[g] || depth > 2 {
			return
		}
		seen[g] = true
		n++
		bad := ""
		var badPos token.Pos
		for _, pa := range c.P.PathsOf(g) {
			if pa.Exit != ExitRevert {
				continue
			}
			var last *Event
			for _, ev := range pa.Events {
				if ev.Kind == EvFact {
					last = ev
				}
			}
			if last == nil {
				bad, badPos = "an unconditional rejection", pa.RetPos
				continue
			}
			t := last.Fact.T
			if last.Fact.Neg && t.Op == "ok" && len(t.A) == 1 {
				examine(host, c.P.FuncNamed(stripConv(t.A[0]).Op), pa.RetPos, depth+1)
				continue
			}
			argsOnly, mentionsParam := true, false
			t.Walk(func(x *Term) bool {
				switch {
				case x.Op == "res" || x.Op == "ok" || x.Op == "out":
					argsOnly = false
				case x.Op == "" && strings.HasPrefix(x.At, "P"):
					mentionsParam = true
				case x.Op == "" && (x.At == "ctx" || strings.HasPrefix(x.At, "K.") || x.At == "store" || x.At == "BlockHeight"):
					argsOnly = false
				case x.Op != "" && c.P.FuncNamed(x.Op) != nil && c.P.FuncNamed(x.Op).pkgName() == "keeper":
					argsOnly = false
				}
				return true
			})
			if argsOnly && mentionsParam {
				bad = shortTerm(t)
				if last.Fact.Neg {
					bad = "¬" + bad
				}
				badPos = pa.RetPos
			}
		}
		p := g.Body.Pos()
		if bad != "" {
			p = badPos
		}
		c.req(bad == "", "C20.3", unitConstruct(g, "error-becomes-panic-in:"+host.Name), p,
			"a function whose error "+host.Name+" turns into a panic rejects on missing records or refused transfers only, not on a test of its own arguments"+condStr(bad != "", ": it rejects under "+bad))
	}
	for _, f := range fs {
		if !r.fromHandler[f] && !r.fromEndBlock[f] {
			continue // genesis import panics on invalid operator input by design (A-HOST)
		}
		for _, pa := range c.P.PathsOf(f) {
			if pa.Exit != ExitPanic {
				continue
			}
			var last *Event
			for _, ev := range pa.Events {
				if ev.Kind == EvFact {
					last = ev
				}
			}
			if last == nil || !last.Fact.Neg || last.Fact.T.Op != "ok" || len(last.Fact.T.A) != 1 {
				continue
			}
			examine(f, c.P.FuncNamed(stripConv(last.Fact.T.A[0]).Op), pa.RetPos, 0)
		}
	}
	c.Sites += n
	c.req(n >= 1, "C20.3", "panic-callees", token.NoPos, fmt.Sprintf("%d functions whose error a caller turns into a panic", n))
}

// decodedTimesEncodable (C20.3): records are written to the store with the codec's Must-marshal, which panics when a
// time.Time field lies outside what a protobuf timestamp can hold (before 0001-01-01 or after 9999-12-31) — while the JSON
// form of a time, which is all that the "date-time" format of a schema checks, also covers the year 0000. A function in
// handler-reachable code that decodes JSON text into a type with time.Time fields therefore has, for every such field, a
// rejecting exit on a test of that field, and every committed path that walks the decoded list has passed a test of it.
// (What the test compares with is not decided: removing it is reported, weakening it is not.)
func (c *Check) decodedTimesEncodable(fs []*Func) {
	type tf struct{ strct, fld string }
	var timeFields func(t types.Type, depth int, seen map[string]bool) []tf
	timeFields = func(t types.Type, depth int, seen map[string]bool) []tf {
		if depth > 5 {
			return nil
		}
		switch u := types.Unalias(t).(type) {
		case *types.Pointer:
			return timeFields(u.Elem(), depth+1, seen)
		case *types.Slice:
			return timeFields(u.Elem(), depth+1, seen)
		case *types.Named:
			if seen[u.String()] {
				return nil
			}
			seen[u.String()] = true
			st, ok := u.Underlying().(*types.Struct)
			if !ok {
				return nil
			}
			var out []tf
			for i := 0; i < st.NumFields(); i++ {
				ft := st.Field(i).Type()
				if typeName(ft) == "time.Time" {
					out = append(out, tf{u.Obj().Name(), st.Field(i).Name()})
					continue
				}
				out = append(out, timeFields(ft, depth+1, seen)...)
			}
			return out
		}
		return nil
	}
	n := 0
	for _, g := range fs {
		if g.Body == nil || !g.isHandWritten() || (g.pkgName() != "keeper" && g.pkgName() != "service" && g.pkgName() != "types") {
			continue
		}
		info := g.Pkg.TypesInfo
		var fields []tf
		ast.Inspect(g.Body, func(nd ast.Node) bool {
			if lit, isLit := nd.(*ast.FuncLit); isLit && lit != g.Lit {
				return false
			}
			call, ok := nd.(*ast.CallExpr)
			if !ok || len(call.Args) != 2 {
				return true
			}
			if fo, _ := typeutil.Callee(info, call).(*types.Func); fo != nil && fo.Pkg() != nil && fo.Pkg().Path() == "encoding/json" && fo.Name() == "Unmarshal" {
				fields = append(fields, timeFields(info.TypeOf(call.Args[1]), 0, map[string]bool{})...)
			}
			return true
		})
		if len(fields) == 0 {
			continue
		}
		// a validator that decodes only to look (it returns nothing but an error) stores nothing
		onlyErr := true
		for _, r := range g.Res {
			if !isErrorType(r.Type()) {
				onlyErr = false
			}
		}
		if onlyErr && len(g.Res) > 0 && len(c.directEffectsDepth(g, 2)) == 0 {
			continue
		}
		// a helper that only decodes and hands the decoded record back leaves the test to its callers
		var callers []*Func
		handsBack := false
		for _, pa := range c.P.PathsOf(g) {
			if pa.OK() && len(pa.Ret) > 0 && pa.Ret[0].ContainsOp("encoding/json.Unmarshal") {
				handsBack = true
			}
		}
		if handsBack && g.Obj != nil {
			for _, h := range fs {
				if h.Body == nil || h == g {
					continue
				}
				hit := false
				ast.Inspect(h.Body, func(nd ast.Node) bool {
					if call, ok := nd.(*ast.CallExpr); ok {
						if fo, _ := typeutil.Callee(h.Pkg.TypesInfo, call).(*types.Func); fo != nil && fo == g.Obj {
							hit = true
						}
					}
					return true
				})
				if hit {
					callers = append(callers, h)
				}
			}
		}
		eval := func(h *Func, op string) (bool, token.Pos) {
			mentions := func(t *Term) bool { return t.ContainsOp(op) }
			rejects := false
			unchecked := token.NoPos
			for _, pa := range c.P.PathsOf(h) {
				var last *Event
				tested, walked := false, false
				for _, ev := range pa.Events {
					switch ev.Kind {
					case EvFact:
						last = ev
						if mentions(ev.Fact.T) {
							tested = true
						}
					case EvLoop:
						walked = true
					}
				}
				if pa.Exit == ExitRevert && last != nil && mentions(last.Fact.T) {
					rejects = true
				}
				if pa.OK() && walked && !tested {
					unchecked = pa.RetPos
				}
			}
			return rejects, unchecked
		}
		for _, f := range fields {
			op := "." + f.strct + "." + f.fld
			hosts := []*Func{g}
			if r, u := eval(g, op); !(r && u == token.NoPos) && len(callers) > 0 {
				all := true
				for _, h := range callers {
					if r2, u2 := eval(h, op); !(r2 && u2 == token.NoPos) {
						all = false
					}
				}
				if all {
					hosts = callers // the test lives in every caller; otherwise the decoder is the construct to report
				}
			}
			for _, h := range hosts {
				n++
				rejects, unchecked := eval(h, op)
				pos := h.Body.Pos()
				if unchecked != token.NoPos {
					pos = unchecked
				}
				c.req(rejects && unchecked == token.NoPos, "C20.3", unitConstruct(h, "decoded-time-tested:"+f.strct+"."+f.fld), pos,
					"a time decoded from JSON text ("+f.strct+"."+f.fld+") is tested, with a rejecting exit, before the record holding it can reach the store's Must-marshal"+
						condStr(!rejects, ": no rejecting exit tests it")+condStr(unchecked != token.NoPos, ": a committed path walks the decoded list without testing it"))
			}
		}
	}
	c.Sites += n
	c.req(n >= 1, "C20.3", "decoded-times", token.NoPos, fmt.Sprintf("%d time fields of JSON-decoded types in handler-reachable code", n))
}

// insideNonNilGuard: the statement lies in the then-branch of an if statement whose condition is (a conjunction containing)
// "<expr> != nil" for the given expression text.
func insideNonNilGuard(body *ast.BlockStmt, target ast.Node, expr string) bool {
	var stack []ast.Node
	found := false
	ast.Inspect(body, func(nd ast.Node) bool {
		if found {
			return false
		}
		if nd == nil {
			stack = stack[:len(stack)-1]
			return true
		}
		stack = append(stack, nd)
		if nd != target {
			return true
		}
		for i := len(stack) - 2; i >= 0; i-- {
			is, ok := stack[i].(*ast.IfStmt)
			if !ok || i+1 >= len(stack) || stack[i+1] != ast.Node(is.Body) {
				continue
			}
			var conj func(e ast.Expr) bool
			conj = func(e ast.Expr) bool {
				be, ok := ast.Unparen(e).(*ast.BinaryExpr)
				if !ok {
					return false
				}
				if be.Op == token.LAND {
					return conj(be.X) || conj(be.Y)
				}
				if be.Op == token.NEQ {
					if id, ok := ast.Unparen(be.Y).(*ast.Ident); ok && id.Name == "nil" && types.ExprString(be.X) == expr {
						return true
					}
				}
				return false
			}
			if conj(is.Cond) {
				found = true
			}
		}
		return false
	})
	return found
}
