package main

// C18.10 — client-side recovery of a request from its id. The id records the context, the height the batch was
// issued at and the request's position in that batch's issue event; the client helper that finds a request again
// must use exactly those parts, look at every end-block event of that height, and recognise the event and the
// attributes by the names the issuer emits them under.

import (
	"fmt"
	"go/ast"
	"go/constant"
	"go/token"
	"go/types"
	"golang.org/x/tools/go/types/typeutil"
	"sort"
	"strings"
)

// issueEventNames: event type, list attribute key and context attribute key of the event in which the issuer
// announces the request list (the constants' values).
// otherListKeys: every attribute of the issue event that carries a marshalled list (the id list is one of them).
var otherListKeys = map[string]bool{}

func (c *Check) issueEventNames() (evType, listKey, ctxKey string) {
	strongList := false
	otherListKeys = map[string]bool{}
	for _, f := range c.handFuncs("keeper", "service") {
		for _, pa := range c.P.PathsOf(f) {
			gen := false
			for _, ev := range pa.Events {
				if ev.Kind == EvCall && ev.CI.name == c.typesName("GenerateRequestID") {
					gen = true
				}
			}
			if !gen {
				continue
			}
			ctxIDs := map[string]bool{}
			for _, ev := range pa.Events {
				if ev.Kind == EvCall && ev.CI.name == c.typesName("GenerateRequestID") && len(ev.CI.args) > 0 {
					ctxIDs[stripConv(ev.CI.args[0]).String()] = true
				}
			}
			for _, ev := range pa.Events {
				if ev.Kind != EvCall || !(strings.HasSuffix(ev.CI.name, "EventManager.EmitEvents") || strings.HasSuffix(ev.CI.name, "EventManager.EmitEvent")) {
					continue
				}
				for _, a := range ev.CI.args {
					a.Walk(func(t *Term) bool {
						if t.Op != "sdk.NewEvent" || len(t.A) < 2 || !t.ContainsOp("encoding/json.Marshal") {
							return true
						}
						evType = constString(t.A[0])
						for _, at := range t.A[1:] {
							if at.Op != "sdk.NewAttribute" || len(at.A) != 2 {
								continue
							}
							switch {
							case at.A[1].ContainsOp("encoding/json.Marshal"):
								// the list of request ids (other lists may be announced beside it)
								ids := false
								at.A[1].Walk(func(x *Term) bool {
									if strings.HasSuffix(x.Op, "json.Marshal") && len(x.A) == 1 && x.A[0].Typ != nil && strings.Contains(typeName(x.A[0].Typ), "HexBytes") {
										ids = true
									}
									return true
								})
								if ids || listKey == "" || !strongList {
									listKey = constString(at.A[0])
									strongList = strongList || ids
								}
								otherListKeys[constString(at.A[0])] = true
							case strings.HasSuffix(at.A[1].Op, "HexBytes.String") && len(at.A[1].A) == 1 && ctxIDs[stripConv(at.A[1].A[0]).String()]:
								ctxKey = constString(at.A[0])
							}
						}
						return false
					})
				}
			}
		}
	}
	return
}

// constString: the string value of a constant term ("" if it is not a string constant).
func constString(t *Term) string {
	t = stripConv(t)
	if k, ok := t.Obj.(*types.Const); ok && k.Val().Kind() == constant.String {
		return constant.StringVal(k.Val())
	}
	if strings.HasPrefix(t.At, "#\"") {
		return strings.Trim(t.At[1:], "\"")
	}
	return ""
}

func isEventSlice(T types.Type) bool {
	sl, ok := T.Underlying().(*types.Slice)
	if !ok {
		return false
	}
	return isNamed(sl.Elem(), "github.com/tendermint/tendermint/abci/types", "Event")
}

func (c *Check) clientRecovery(rule string) {
	split := c.typesName("SplitRequestID")
	var rec []*Func
	var utils []*Func
	for _, f := range c.P.Funcs {
		if !f.isHandWritten() || f.Body == nil || f.Parent != nil || !strings.HasSuffix(f.Pkg.PkgPath, "/client/utils") {
			continue
		}
		utils = append(utils, f)
		for _, pa := range c.P.PathsOf(f) {
			calls, ranges := false, false
			for _, ev := range pa.Events {
				if ev.Kind == EvCall && ev.CI.name == split {
					calls = true
				}
			}
			ast.Inspect(f.Body, func(n ast.Node) bool {
				if r, ok := n.(*ast.RangeStmt); ok && isEventSlice(f.Pkg.TypesInfo.TypeOf(r.X)) {
					ranges = true
				}
				return true
			})
			if calls && ranges {
				rec = append(rec, f)
				break
			}
		}
	}
	if len(rec) == 0 {
		c.undecided(rule, "client-recovery", token.NoPos, "no function of client/utils splits a request id and scans the end-block events of a block")
		return
	}
	evType, listKey, ctxKey := c.issueEventNames()
	c.req(evType != "" && listKey != "" && ctxKey != "", rule, "issue-event-names", token.NoPos,
		fmt.Sprintf("the issuer announces the request list in event %q under attribute %q with the context under %q", evType, listKey, ctxKey))
	for _, f := range rec {
		c.Sites++
		info := f.Pkg.TypesInfo
		// R0: what is learnt from one event is not carried to the next — every variable that is assigned (or has its address
		// taken) inside the loop over the block's events is declared inside that loop. A "found" flag or a decoded list that
		// outlives its event makes a later event of another context pass for the issue event of the wanted one.
		ast.Inspect(f.Body, func(n ast.Node) bool {
			r, ok := n.(*ast.RangeStmt)
			if !ok || !isEventSlice(info.TypeOf(r.X)) {
				return true
			}
			carried := map[string]token.Pos{}
			note := func(id *ast.Ident) {
				v, _ := info.Uses[id].(*types.Var)
				if v == nil || v.IsField() {
					return
				}
				if v.Pos() >= r.Body.Pos() && v.Pos() <= r.Body.End() {
					return
				}
				if _, dup := carried[v.Name()]; !dup {
					carried[v.Name()] = id.Pos()
				}
			}
			ast.Inspect(r.Body, func(m ast.Node) bool {
				switch s := m.(type) {
				case *ast.AssignStmt:
					for _, l := range s.Lhs {
						if id, ok := ast.Unparen(l).(*ast.Ident); ok && s.Tok != token.DEFINE {
							note(id)
						}
					}
				case *ast.IncDecStmt:
					if id, ok := ast.Unparen(s.X).(*ast.Ident); ok {
						note(id)
					}
				case *ast.UnaryExpr:
					if s.Op == token.AND {
						if id, ok := ast.Unparen(s.X).(*ast.Ident); ok {
							note(id)
						}
					}
				}
				return true
			})
			var names []string
			for k := range carried {
				names = append(names, k)
			}
			sort.Strings(names)
			pos := r.Pos()
			if len(names) > 0 {
				pos = carried[names[0]]
			}
			c.req(len(names) == 0, rule, unitConstruct(f, "per-event-state"), pos,
				"variables written while examining one end-block event are declared inside the loop over the events"+condStr(len(names) > 0, ": carried across events: "+strings.Join(names, ", ")))
			return false
		})
		// R1/R2: the scan of the block's events looks at every event — it is left only with the request found or an error
		ast.Inspect(f.Body, func(n ast.Node) bool {
			r, ok := n.(*ast.RangeStmt)
			if !ok || !isEventSlice(info.TypeOf(r.X)) {
				return true
			}
			var label *types.Label
			ast.Inspect(f.Body, func(m ast.Node) bool {
				if ls, ok := m.(*ast.LabeledStmt); ok && ls.Stmt == ast.Stmt(r) {
					label, _ = info.Defs[ls.Label].(*types.Label)
				}
				return true
			})
			var bad []string
			var walk func(nd ast.Node, inner bool)
			walk = func(nd ast.Node, inner bool) {
				ast.Inspect(nd, func(x ast.Node) bool {
					switch s := x.(type) {
					case *ast.FuncLit:
						return false
					case *ast.ForStmt:
						walk(s.Body, true)
						return false
					case *ast.RangeStmt:
						if s != r {
							walk(s.Body, true)
							return false
						}
					case *ast.SwitchStmt:
						walk(s.Body, true)
						return false
					case *ast.TypeSwitchStmt:
						walk(s.Body, true)
						return false
					case *ast.SelectStmt:
						walk(s.Body, true)
						return false
					case *ast.BranchStmt:
						if s.Tok == token.BREAK {
							if (s.Label == nil && !inner) || (s.Label != nil && label != nil && info.Uses[s.Label] == types.Object(label)) {
								bad = append(bad, "break at "+c.pos(s.Pos())+" ends the scan at an event of another context")
							}
						}
						if s.Tok == token.GOTO {
							bad = append(bad, "goto at "+c.pos(s.Pos()))
						}
					case *ast.ReturnStmt:
						if len(s.Results) >= 2 {
							last := ast.Unparen(s.Results[len(s.Results)-1])
							if id, ok := last.(*ast.Ident); ok && id.Name == "nil" && info.Uses[id] == types.Universe.Lookup("nil") {
								if zeroValued(f, info, s.Results[0]) {
									bad = append(bad, "return at "+c.pos(s.Pos())+" gives up with an empty request before the remaining events are looked at")
								}
							}
						}
					}
					return true
				})
			}
			walk(r.Body, false)
			c.req(len(bad) == 0, rule, unitConstruct(f, "event-scan"), r.Pos(),
				"the scan of the block's end-block events is left only with the request found or an error"+condStr(len(bad) > 0, ": "+strings.Join(bad, "; ")))
			return true
		})
		// R3: the parts of the id are used for what they record
		height, index, ctxCmp := false, false, false
		names := map[string]bool{}
		visit := func(t *Term) {
			if t == nil {
				return
			}
			t.Walk(func(x *Term) bool {
				if x.Op == "idx" && len(x.A) == 2 {
					if b, ok := stripConv(x.A[1]).Match("(res 3 (" + split + " $ID))"); ok && b["$ID"].Op == "" && strings.HasPrefix(b["$ID"].At, "P") {
						index = true
					}
				}
				if x.Op == "==" && len(x.A) == 2 {
					for _, side := range x.A {
						if side.ContainsOp(split) {
							side.Walk(func(y *Term) bool {
								if b, ok := y.Match("(res 0 (" + split + " $ID))"); ok && b["$ID"].Op == "" {
									ctxCmp = true
								}
								return true
							})
						}
						if s := constString(side); s != "" {
							names[s] = true
						}
					}
				}
				return true
			})
		}
		var walkFn func(g *Func, m map[string]*Term, depth int)
		walkFn = func(g *Func, m map[string]*Term, depth int) {
			for _, pa := range c.P.PathsOf(g) {
				for _, ev := range pa.Events {
					switch ev.Kind {
					case EvCall:
						if strings.HasSuffix(ev.CI.name, ".BlockResults") {
							for _, a := range ev.CI.args {
								if b, ok := stripAddr(a.Subst(m)).Match("(res 2 (" + split + " $ID))"); ok && b["$ID"].Op == "" {
									height = true
								}
							}
						}
						for _, a := range ev.CI.args {
							visit(a.Subst(m))
						}
						// a helper of the same package the event or the id parts are handed to
						if h := ev.CI.fn; h != nil && h != g && depth < 2 && h.isHandWritten() && h.Body != nil && strings.HasSuffix(h.Pkg.PkgPath, "/client/utils") {
							hm := map[string]*Term{}
							for i, a := range ev.CI.args {
								hm[fmt.Sprintf("P%d", i)] = a.Subst(m)
							}
							walkFn(h, hm, depth+1)
						}
					case EvFact:
						visit(ev.Fact.T.Subst(m))
					case EvAssign, EvWrite:
						if ev.Val != nil {
							visit(ev.Val.Subst(m))
						}
					}
				}
				for _, r := range pa.Ret {
					visit(r.Subst(m))
				}
			}
		}
		walkFn(f, nil, 0)
		c.req(height, rule, unitConstruct(f, "block-of-issue"), f.Body.Pos(), "the block whose events are searched is the height recorded in the id (result #2 of the id's decomposition)")
		c.req(index, rule, unitConstruct(f, "position-in-event"), f.Body.Pos(), "the request is taken from the event's list at the index recorded in the id (result #3 of the id's decomposition)")
		c.req(ctxCmp, rule, unitConstruct(f, "context-of-event"), f.Body.Pos(), "the event is matched by comparing its context attribute with the context recorded in the id (result #0 of the id's decomposition)")
		var missing []string
		for _, want := range []string{evType, listKey, ctxKey} {
			if want != "" && !names[want] {
				if want == listKey {
					// several lists are announced: the client reads one of them (which one holds the ids is decided by
					// position-in-event above)
					alt := false
					for k := range otherListKeys {
						if names[k] {
							alt = true
						}
					}
					if alt {
						continue
					}
				}
				missing = append(missing, fmt.Sprintf("%q", want))
			}
		}
		sort.Strings(missing)
		c.req(len(missing) == 0, rule, unitConstruct(f, "event-names"), f.Body.Pos(),
			"the event type and the attribute keys compared are those the issuer emits"+condStr(len(missing) > 0, "; not compared: "+strings.Join(missing, ", ")))
	}
	_ = utils
}

// zeroValued: the expression is a variable of the function that is never given a value (a named result, a
// declared-only local) or an empty composite literal.
func zeroValued(f *Func, info *types.Info, e ast.Expr) bool {
	switch x := ast.Unparen(e).(type) {
	case *ast.CompositeLit:
		return len(x.Elts) == 0
	case *ast.Ident:
		v, ok := info.Uses[x].(*types.Var)
		if !ok {
			return false
		}
		for _, d := range f.defs[v] {
			if d.kind != "zero" {
				return false
			}
		}
		return true
	}
	return false
}

// clientContextRecovery (C18.10, second half): a request-context id "decodes back to exactly the transaction hash and message
// index it was built from", and off-chain clients use that to find the creating message again. In client/utils, the function
// that splits a context id indexes, with result #1 of the split (the message index), the transaction's own message list —
// the value of GetMsgs() — and nothing derived from it (a list filtered down to the service calls shifts every index behind
// a message of another kind).
func (c *Check) clientContextRecovery(rule string) {
	split := c.typesName("SplitRequestContextID")
	n := 0
	for _, f := range c.P.Funcs {
		if !f.isHandWritten() || f.Body == nil || f.Parent != nil || !strings.HasSuffix(f.Pkg.PkgPath, "/client/utils") {
			continue
		}
		calls := false
		for _, pa := range c.P.PathsOf(f) {
			for _, ev := range pa.Events {
				if ev.Kind == EvCall && ev.CI.name == split {
					calls = true
				}
			}
		}
		if !calls {
			continue
		}
		info := f.Pkg.TypesInfo
		// the variable that receives result #1 of the split
		var idxVar *types.Var
		ast.Inspect(f.Body, func(nd ast.Node) bool {
			as, ok := nd.(*ast.AssignStmt)
			if !ok || len(as.Rhs) != 1 || len(as.Lhs) < 2 {
				return true
			}
			if call, ok := as.Rhs[0].(*ast.CallExpr); ok {
				if callee := typeutil.Callee(info, call); callee != nil && callee.Name() == "SplitRequestContextID" {
					if id, ok := as.Lhs[1].(*ast.Ident); ok {
						if v, _ := info.Defs[id].(*types.Var); v != nil {
							idxVar = v
						} else if v, _ := info.Uses[id].(*types.Var); v != nil {
							idxVar = v
						}
					}
				}
			}
			return true
		})
		if idxVar == nil {
			c.undecided(rule, unitConstruct(f, "message-index"), f.Body.Pos(), "the message index result of the id split is not bound to a variable")
			continue
		}
		ast.Inspect(f.Body, func(nd ast.Node) bool {
			ix, ok := nd.(*ast.IndexExpr)
			if !ok {
				return true
			}
			uses := false
			ast.Inspect(ix.Index, func(m ast.Node) bool {
				if id, ok := m.(*ast.Ident); ok && info.Uses[id] == types.Object(idxVar) {
					uses = true
				}
				return true
			})
			if !uses {
				return true
			}
			n++
			okList := false
			isGetMsgs := func(e ast.Expr) bool {
				if call, ok := ast.Unparen(e).(*ast.CallExpr); ok {
					if callee := typeutil.Callee(info, call); callee != nil && callee.Name() == "GetMsgs" {
						return true
					}
				}
				return false
			}
			if isGetMsgs(ix.X) {
				okList = true
			} else if id, ok := ast.Unparen(ix.X).(*ast.Ident); ok {
				// a local that is assigned exactly once, from GetMsgs()
				if v, _ := info.Uses[id].(*types.Var); v != nil {
					nAssign, fromGet := 0, false
					ast.Inspect(f.Body, func(m ast.Node) bool {
						if as, ok := m.(*ast.AssignStmt); ok && len(as.Lhs) == len(as.Rhs) {
							for i, l := range as.Lhs {
								if lid, ok := l.(*ast.Ident); ok && (info.Defs[lid] == types.Object(v) || info.Uses[lid] == types.Object(v)) {
									nAssign++
									if isGetMsgs(as.Rhs[i]) {
										fromGet = true
									}
								}
							}
						}
						return true
					})
					okList = nAssign == 1 && fromGet
				}
			}
			c.req(okList, rule, unitConstruct(f, "message-index-into-tx-messages"), ix.Pos(),
				"the message index decoded from the context id indexes the transaction's own message list (GetMsgs()): "+types.ExprString(ix))
			return true
		})
	}
	c.req(n >= 1, rule, "client-context-recovery", token.NoPos, fmt.Sprintf("%d uses of the decoded message index as an index in client/utils", n))
}
