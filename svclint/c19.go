package main

// C19 — state survives export and re-import; zero-height export returns all escrow.

import (
	"fmt"
	"go/ast"
	"go/token"
	"go/types"
	"golang.org/x/tools/go/types/typeutil"
	"sort"
	"strings"
)

func init() {
	rules["C19"] = ruleC19
	explanations["C19"] = "Decides: zero-height preparation returns, for every marker of the whole pending-marker family, request.ServiceFee to request.Consumer, and for every record of the whole earnings family the decoded coin " +
		"to the provider parsed at the segment boundary of that record's key, with no other bank operation; the reset constants (PAUSED, BATCHCOMPLETED, counts 0) are those genesis validation requires; per genesis map the " +
		"export key encoder and the import and validation decoders are inverse pairs; the enum string tables are mutual inverses, total over the declared constants, and every written name is readable through the table proto JSON uses; " +
		"each GenesisState field is exported by a whole-family iteration into the constructor position of the same field and imported by the matching setter; Params round-trips over all fields. " +
		"Byte-identity of a second export and balances actually reaching zero are not decided."
}

func ruleC19(c *Check) {
	c.assume("A-HOST: genesis files are operator input; a hostile genesis is out of scope")
	c.zeroHeightRefunds("C19.1")
	c.resetConstants("C19.2")
	c.genesisCodecs("C19.3")
	c.enumTables("C19.4")
	c.enumJSONWriters("C19.4")
	c.paramValidatorsAgree("C19.5")
	c.keyGrammar("C19.1", map[string]bool{"0x05": true, "0x14": true, "0x15": true})
	c.genesisCoverage("C19.5")
	c.genesisBindingSetter("C19.5")
	c.genesisValidators("C19.6")
	c.storedValuesValidate("C19.6")
	c.createdRecordsValidate("C19.6")
	c.moduleWiring("C19.7", map[string]bool{"genesis": true})
	c.paramSetExact("C19.8")
	c.genesisImportsAll("C19.5")
	c.genesisImportValidates("C19.6")
	c.siblingBounds("C19.6")
	c.earnRules("C19")
	c.withdrawRules("C19")
	c.genesisNotStricterThanMessages("C19.6")
	c.addressRoles("C19.9")
}

func (c *Check) zeroHeightRefunds(rule string) {
	prep := c.mustFn(rule, "service.PrepForZeroHeightGenesis")
	gRequest := c.getterByType("Request")
	if prep == nil || gRequest == nil {
		return
	}
	sum := c.P.SummaryOf(prep)
	nFee, nEarn := 0, 0
	rec := map[string]map[string]*Builder{}
	kt := c.P.keys()
	// the record builders of the earnings family and of the by-binding pending-request family: the builder with
	// the longest shape of the family (sub-space builders are its prefixes)
	for _, fam := range []string{"0x18", "0x14"} {
		var best *Builder
		for _, b := range kt.buildersOfFamily(fam) {
			if best == nil || len(b.Shape) > len(best.Shape) {
				best = b
			}
		}
		if best != nil {
			rec[fam] = map[string]*Builder{best.Name: best}
		}
	}
	for _, e := range sum.Effs {
		if e.Kind != "bank" {
			continue
		}
		c.Sites++
		construct := effConstruct("PrepForZeroHeightGenesis", e)
		if e.Op != "SendCoinsFromModuleToAccount" || !isModuleAccount(e.From, "RequestAccName") {
			c.fail(rule, construct, e.Pos, "zero-height preparation performs "+e.Op+" from "+shortTerm(e.From)+" — only refunds out of the request escrow are expected")
			continue
		}
		if b, ok := e.To.Match("(.Request.Consumer $R)"); ok {
			nFee++
			R := b["$R"]
			okAmt := e.Amount.String() == "(.Request.ServiceFee "+R.String()+")"
			rb, okR := R.Match("(res 0 (" + gRequest.Name + " $ID))")
			whole := okR && rb["$ID"].ContainsAtom("@types.ActiveRequestKey") && rb["$ID"].ContainsOp("github.com/tendermint/tm-db.Iterator.Value")
			c.req(okAmt && whole && e.InLoop, rule, construct+"#fees", e.Pos,
				"every marker of the whole pending-marker family refunds request.ServiceFee to request.Consumer of the request it names")
			continue
		}
		// earned fees
		nEarn++
		okAmt := false
		var it *Term
		if b, ok := e.Amount.Match("(sdk.NewCoins $X)"); ok {
			b["$X"].Walk(func(t *Term) bool {
				if strings.HasSuffix(t.Op, "Iterator.Value") && len(t.A) == 1 {
					it = t.A[0]
				}
				return true
			})
			// the decoded record: the decoder's out-value, possibly behind a module helper that returns it
			decoded := true
			for _, v := range c.retVariants(b["$X"]) {
				if stripConv(v).Op != "out" {
					decoded = false
				}
			}
			okAmt = it != nil && it.ContainsAtom("@types.EarnedFeesKey") && decoded
		}
		c.req(okAmt && e.InLoop, rule, construct+"#earned-amount", e.Pos, "every record of the whole earnings family is paid out with the coin decoded from that record: "+shortTerm(e.Amount))
		okTo := false
		why := "recipient is not parsed from the key of the same record"
		if it != nil && sameIterator(e.Amount, mk("github.com/tendermint/tm-db.Iterator.Key", it)) {
			to := stripConv(e.To)
			fam, a, b, shape, w := c.regionOf(to, rec)
			if w != "" {
				why = w
			} else if fam == "0x18" && b-a == 1 && shape[a].Kind == "Addr" {
				okTo = true
				why = "recipient is the provider segment of the record's key"
			} else {
				why = fmt.Sprintf("recipient covers segments %s of %s", shape[a:b], shape)
			}
		}
		c.req(okTo, rule, construct+"#earned-recipient", e.Pos, why+": "+shortTerm(e.To))
	}
	c.req(nFee == 1 && nEarn == 1, rule, "refund-sites", prep.Body.Pos(), fmt.Sprintf("pending-fee refunds ×%d, earned-fee refunds ×%d", nFee, nEarn))
	// the context reset runs after the refunds
	for _, pa := range c.P.PathsOf(prep) {
		if !pa.OK() {
			continue
		}
		iBank, iReset := -1, -1
		for i, ev := range pa.Events {
			if ev.Kind != EvCall {
				continue
			}
			for _, e := range c.P.effectsOfEvent(prep, ev) {
				if e.Kind == "bank" {
					iBank = i
				}
				if e.Kind == "store" && e.Op == "Set" && e.Family == "0x08" && iReset < 0 {
					iReset = i
				}
			}
		}
		c.req(iBank >= 0 && iReset > iBank, rule, unitConstruct(prep, "reset-after-refunds"), pa.RetPos, "contexts are reset after all pending fees and earnings were returned")
	}
}

func (c *Check) resetConstants(rule string) {
	// stored values of the zero-height reset
	n := 0
	for _, w := range c.contextWrites() {
		if !c.isZeroHeightOnly(w.Fn.root()) {
			continue
		}
		n++
		st, bs := fieldB(w, "State"), fieldB(w, "BatchState")
		rc, rs := fieldB(w, "BatchRequestCount"), fieldB(w, "BatchResponseCount")
		c.req(st.IsAt("#types.PAUSED") && bs.IsAt("#types.BATCHCOMPLETED") && rc.IsAt("#0") && rs.IsAt("#0"), rule, unitConstruct(w.Fn, "reset-values"), w.PP.Path.RetPos,
			fmt.Sprintf("zero-height reset stores State=%s BatchState=%s counts=%s/%s", shortTerm(st), shortTerm(bs), shortTerm(rc), shortTerm(rs)))
		// every context: the closure is bound to the whole-family iteration
	}
	c.req(n >= 1, rule, "reset-writes", token.NoPos, fmt.Sprintf("%d reset writes found", n))
	// every context is reset: the closure bound to the whole-family context scan stores on every path
	resetUnits := c.closuresBoundToScan("0x08")
	for _, b := range c.inlineScanUnits("0x08") {
		dup := false
		for _, o := range resetUnits {
			if o.Closure == b.Closure {
				dup = true
			}
		}
		if !dup {
			resetUnits = append(resetUnits, b)
		}
	}
	nReset := 0
	for _, b := range resetUnits {
		if !c.isZeroHeightOnly(b.Closure.root()) {
			continue
		}
		nReset++
		bad := 0
		np := 0
		// two-pass form: the closure gathers the reset contexts and its parent stores every gathered one in a loop
		parentStores := false
		if par := b.Closure.Parent; par != nil {
			for _, e := range c.P.SummaryOf(par).Effs {
				if e.Kind == "store" && e.Op == "Set" && e.Family == "0x08" && e.InLoop && len(e.Chain) <= 1 {
					parentStores = true
				}
			}
		}
		for _, pa := range c.unitPaths(b) {
			np++
			_, ok := c.pathHasEffect(b.Closure, pa, func(e *Eff) bool { return e.Kind == "store" && e.Op == "Set" && e.Family == "0x08" })
			if !ok && parentStores {
				for _, ev := range pa.Events {
					if ev.Kind == EvAssign && ev.Val != nil && ev.Val.Op == "append" && ev.Var != nil && ev.Var.Pos() < b.Closure.Body.Pos() {
						ok = true // gathered for the parent's storing loop
					}
				}
			}
			if !ok {
				// a context left as it is must already hold the reset values
				af := pa.AllFacts()
				X := b.val()
				if hasEq(af, field("RequestContext", "State", X), "#types.PAUSED", false) && hasEq(af, field("RequestContext", "BatchState", X), "#types.BATCHCOMPLETED", false) &&
					hasEq(af, field("RequestContext", "BatchRequestCount", X), "#0", false) && hasEq(af, field("RequestContext", "BatchResponseCount", X), "#0", false) {
					ok = true
				}
			}
			if !ok {
				bad++
			}
			// the iteration must not be stopped early
			for _, r := range pa.Ret {
				if !b.Inline && !r.IsAt("#false") {
					bad++
				}
			}
		}
		c.req(np > 0 && bad == 0, rule, unitConstruct(b.Closure, "reset-every-context"), b.Closure.Body.Pos(),
			fmt.Sprintf("every path of the per-context reset stores the reset context and continues the iteration (%d of %d paths do not)", bad, np))
	}
	c.req(nReset >= 1, rule, "reset-units", token.NoPos, fmt.Sprintf("%d units reset the contexts of a whole-family scan at zero-height preparation", nReset))
	// validation requires exactly these constants
	vg := c.mustFn(rule, c.typesName("ValidateGenesis"))
	if vg == nil {
		return
	}
	okS, okB := false, false
	for _, pa := range c.P.PathsOf(vg) {
		if pa.Exit != ExitSuccess {
			continue
		}
		for _, fa := range c.closeFacts(pa.AllFacts()) {
			if !fa.Neg && fa.T.Op == "==" && strings.HasSuffix(fa.T.A[0].Op, ".RequestContext.State") && fa.T.A[1].IsAt("#types.PAUSED") {
				okS = true
			}
			if !fa.Neg && fa.T.Op == "==" && strings.HasSuffix(fa.T.A[0].Op, ".RequestContext.BatchState") && fa.T.A[1].IsAt("#types.BATCHCOMPLETED") {
				okB = true
			}
		}
	}
	c.req(okS && okB, rule, vg.Name+"#context-constants", vg.Body.Pos(), "genesis validation accepts a context only with State=PAUSED and BatchState=BATCHCOMPLETED — the constants the reset writes")
}

var inversePairs = map[string]string{
	"sdk.AccAddress.String": "sdk.AccAddressFromBech32",
	"github.com/tendermint/tendermint/libs/bytes.HexBytes.String": "encoding/hex.DecodeString",
}

// exportAccum is one collection filled during export: its type, the family whose whole-family scan
// fills it and, for maps, the operation that encodes the key.
type exportAccum struct {
	typ, fam, enc, name string
}

// exportAccumulators finds the functions (closures, named functions, bound methods) that the export
// hands to whole-family scans, and what they accumulate — local collections or fields of a collector.
func (c *Check) exportAccumulators(exp *Func) []exportAccum {
	var out []exportAccum
	seen := map[string]bool{}
	for _, pa := range c.P.PathsOf(exp) {
		for _, ev := range pa.Events {
			if ev.Kind != EvCall || ev.CI.fn == nil {
				continue
			}
			fam := ""
			for _, e := range c.P.SummaryOf(ev.CI.fn).Effs {
				if e.Kind == "store" && e.Op == "Iter" && len(e.Chain) <= 3 {
					if _, bare := c.P.keys().Prefixes[e.Builder]; bare {
						fam = e.Family
					}
				}
			}
			// a scan function that hands back the whole family as slices: the variables that receive its results,
			// and the maps the export builds from them, are the collections
			if fam != "" && len(ev.CI.fn.Res) >= 1 && ev.Result != nil {
				callStr := ev.Result.String()
				isFromCall := func(t *Term) bool {
					return t != nil && (t.String() == callStr || t.Contains(ev.Result))
				}
				for _, e2 := range pa.Events {
					if (e2.Kind != EvAssign && e2.Kind != EvWrite) || e2.Val == nil {
						continue
					}
					acc := exportAccum{fam: fam}
					switch {
					case e2.Kind == EvAssign && e2.Var != nil && (e2.Val.String() == callStr || (e2.Val.Op == "res" && len(e2.Val.A) == 2 && e2.Val.A[1].String() == callStr)):
						if _, isSlice := e2.Var.Type().Underlying().(*types.Slice); !isSlice {
							continue
						}
						acc.typ, acc.name = e2.Var.Type().String(), e2.Var.Name()
					case e2.Val.Op == "upd" && len(e2.Val.A) == 3 && (isFromCall(e2.Val.A[1]) || isFromCall(e2.Val.A[2])):
						switch {
						case e2.Kind == EvAssign && e2.Var != nil:
							acc.typ, acc.name = e2.Var.Type().String(), e2.Var.Name()
						case e2.Val.Typ != nil:
							acc.typ, acc.name = e2.Val.Typ.String(), e2.Field
						case e2.Old != nil && e2.Old.Typ != nil:
							acc.typ, acc.name = e2.Old.Typ.String(), e2.Field
						}
						acc.enc = e2.Val.A[1].Op
					default:
						continue
					}
					k := acc.typ + "|" + acc.fam + "|" + acc.enc + "|" + acc.name
					if !seen[k] {
						seen[k] = true
						out = append(out, acc)
					}
				}
			}
			for _, a := range ev.CI.args {
				if !a.Is("func") || len(a.A) < 1 {
					continue
				}
				cl := c.P.FuncNamed(a.A[0].At)
				if cl == nil {
					continue
				}
				for _, pb := range c.P.PathsOf(cl) {
					for _, e2 := range pb.Events {
						if (e2.Kind != EvAssign && e2.Kind != EvWrite) || e2.Val == nil || (e2.Val.Op != "append" && e2.Val.Op != "upd") {
							continue
						}
						acc := exportAccum{fam: fam}
						switch {
						case e2.Kind == EvAssign && e2.Var != nil:
							acc.typ, acc.name = e2.Var.Type().String(), e2.Var.Name()
						case e2.Val.Typ != nil:
							acc.typ, acc.name = e2.Val.Typ.String(), e2.Field
						case e2.Old != nil && e2.Old.Typ != nil:
							acc.typ, acc.name = e2.Old.Typ.String(), e2.Field
						}
						if e2.Val.Op == "upd" && len(e2.Val.A) == 3 {
							acc.enc = e2.Val.A[1].Op
						}
						k := acc.typ + "|" + acc.fam + "|" + acc.enc + "|" + acc.name
						if !seen[k] {
							seen[k] = true
							out = append(out, acc)
						}
					}
				}
			}
		}
	}
	return out
}

// genesisCodecs: per genesis map, export key encoder / import decoder / validation decoder.
func (c *Check) genesisCodecs(rule string) {
	exp := c.mustFn(rule, "service.ExportGenesis")
	imp := c.mustFn(rule, "service.InitGenesis")
	val := c.mustFn(rule, c.typesName("ValidateGenesis"))
	if exp == nil || imp == nil || val == nil {
		return
	}
	// encoders: map writes inside the export closures
	enc := map[string]string{} // genesis field -> encoder op
	ctorArgs := c.genesisCtorArgs(exp)
	// the map-typed fields of the genesis state, by type (a collection is recognised by its type wherever
	// the export builds it: in the export function, or in a helper that is part of it)
	mapFields := map[string]string{} // type string -> field ("" if ambiguous)
	if rt, ok := exp.Res[0].Type().(*types.Pointer); ok {
		if st, ok := rt.Elem().Underlying().(*types.Struct); ok {
			for i := 0; i < st.NumFields(); i++ {
				if _, isMap := st.Field(i).Type().Underlying().(*types.Map); isMap {
					ts := st.Field(i).Type().String()
					if _, dup := mapFields[ts]; dup {
						mapFields[ts] = ""
					} else {
						mapFields[ts] = st.Field(i).Name()
					}
				}
			}
		}
	}
	for _, acc := range c.exportAccumulators(exp) {
		if acc.enc == "" {
			continue
		}
		if fld := mapFields[acc.typ]; fld != "" {
			enc[fld] = acc.enc
			continue
		}
		for fld, v := range ctorArgs {
			if v == acc.name {
				enc[fld] = acc.enc
			}
		}
	}
	decodersOf := func(f *Func, owner string) map[string][]string {
		out := map[string][]string{}
		for _, dc := range c.deepCalls(f, 2) {
			isDecoder := strings.Contains(dc.Name, "Decode") || strings.Contains(dc.Name, "FromBech32") || strings.Contains(dc.Name, "FromHex") || strings.Contains(dc.Name, "Unmarshal")
			if !isDecoder {
				continue
			}
			for _, a := range dc.Args {
				if a.Op == "key" && len(a.A) == 1 && strings.HasPrefix(a.A[0].Op, ".GenesisState.") {
					fld := strings.TrimPrefix(a.A[0].Op, ".GenesisState.")
					out[fld] = append(out[fld], dc.Name)
				}
			}
		}
		return out
	}
	impDec := decodersOf(imp, "P2")
	valDec := decodersOf(val, "P0")
	n := 0
	for fld, e := range enc {
		n++
		want, known := inversePairs[e]
		c.req(known, rule, "GenesisState."+fld+"#encoder", exp.Body.Pos(), "export encodes the map key with "+e)
		for side, decs := range map[string][]string{"import": impDec[fld], "validation": valDec[fld]} {
			ok := len(decs) > 0
			for _, d := range decs {
				if d != want {
					ok = false
				}
			}
			c.req(ok, rule, "GenesisState."+fld+"#"+side+"-decoder", token.NoPos, fmt.Sprintf("%s decodes the key with %v; the inverse of the export encoder %s is %s", side, uniq(sortStrings(decs)), e, want))
		}
	}
	c.req(n >= 2, rule, "genesis-maps", token.NoPos, fmt.Sprintf("%d genesis maps with encoded keys", n))
}

// genesisCtorArgs: GenesisState field -> name of the local collection passed at that constructor position.
func (c *Check) genesisCtorArgs(exp *Func) map[string]string {
	out := map[string]string{}
	ctor := c.typesFn("NewGenesisState")
	if ctor == nil {
		return out
	}
	// constructor: field <- parameter index
	fieldOfParam := map[int]string{}
	for _, pa := range c.P.PathsOf(ctor) {
		for _, r := range pa.Ret {
			lit := r
			if lit.Op == "&" && len(lit.A) == 1 {
				lit = lit.A[0]
			}
			if lit.Op != "lit" {
				continue
			}
			for _, kv := range lit.A[1:] {
				if len(kv.A) == 1 {
					if i := paramIndexOf(kv.A[0]); i >= 0 {
						fieldOfParam[i] = kv.Op
					}
				}
			}
		}
	}
	ast.Inspect(exp.Body, func(n ast.Node) bool {
		call, ok := n.(*ast.CallExpr)
		if !ok {
			return true
		}
		if se, ok := call.Fun.(*ast.SelectorExpr); ok && se.Sel.Name == "NewGenesisState" {
			for i, a := range call.Args {
				if id, ok := a.(*ast.Ident); ok {
					out[fieldOfParam[i]] = id.Name
					// the value the local was given (a single definition from a call), for arguments hoisted into locals
					info := exp.Pkg.TypesInfo
					if v, _ := info.Uses[id].(*types.Var); v != nil {
						nDef, def := 0, ""
						ast.Inspect(exp.Body, func(m ast.Node) bool {
							if as, ok := m.(*ast.AssignStmt); ok && len(as.Lhs) == len(as.Rhs) {
								for j, l := range as.Lhs {
									if lid, ok := l.(*ast.Ident); ok && (info.Defs[lid] == types.Object(v) || info.Uses[lid] == types.Object(v)) {
										nDef++
										def = types.ExprString(as.Rhs[j])
									}
								}
							}
							return true
						})
						if nDef == 1 {
							out[fieldOfParam[i]+"#def"] = def
						}
					}
				} else {
					out[fieldOfParam[i]] = types.ExprString(a)
				}
			}
		}
		return true
	})
	return out
}

// enumTables: string tables are mutual inverses, total, and readable by proto JSON.
func (c *Check) enumTables(rule string) {
	tp := c.P.ByPkg[pkgTypes]
	type table struct {
		name  string
		pairs map[string]string // key -> value (as printed)
		pos   token.Pos
	}
	tables := map[string]*table{}
	for _, file := range tp.Syntax {
		for _, d := range file.Decls {
			gd, ok := d.(*ast.GenDecl)
			if !ok || gd.Tok != token.VAR {
				continue
			}
			for _, sp := range gd.Specs {
				vs := sp.(*ast.ValueSpec)
				for i, id := range vs.Names {
					if i >= len(vs.Values) {
						continue
					}
					cl, ok := vs.Values[i].(*ast.CompositeLit)
					if !ok {
						continue
					}
					if _, ok := tp.TypesInfo.TypeOf(cl).Underlying().(*types.Map); !ok {
						continue
					}
					t := &table{name: id.Name, pairs: map[string]string{}, pos: id.Pos()}
					for _, el := range cl.Elts {
						kv, ok := el.(*ast.KeyValueExpr)
						if !ok {
							continue
						}
						t.pairs[c.constText(tp.TypesInfo, kv.Key)] = c.constText(tp.TypesInfo, kv.Value)
					}
					tables[id.Name] = t
				}
			}
		}
	}
	// init copies of the written names into the proto value maps
	copied := map[string]string{} // value-map name -> source table
	for _, f := range c.P.Funcs {
		if f.Name != "types.init" || !f.isHandWritten() {
			continue
		}
		for _, pa := range c.P.PathsOf(f) {
			for _, ev := range pa.Events {
				if ev.Kind == EvAssign && ev.Var != nil && ev.Val != nil {
					if b, ok := ev.Val.Match("(upd $M (key $SRC) (conv int32 (elem $SRC)))"); ok && strings.HasPrefix(b["$SRC"].At, "@types.") {
						copied[ev.Var.Name()] = strings.TrimPrefix(b["$SRC"].At, "@types.")
					}
				}
			}
		}
	}
	for _, enum := range []string{"RequestContextState", "RequestContextBatchState"} {
		to, from := tables[enum+"ToStringMap"], tables["StringTo"+enum+"Map"]
		val := tables[enum+"_value"]
		if to == nil || from == nil || val == nil {
			c.undecided(rule, enum, token.NoPos, "enum string tables not found")
			continue
		}
		// total over declared constants
		var consts []string
		sc := tp.Types.Scope()
		for _, nm := range sc.Names() {
			if k, ok := sc.Lookup(nm).(*types.Const); ok && typeName(k.Type()) == "types."+enum {
				consts = append(consts, nm)
			}
		}
		sort.Strings(consts)
		var problems []string
		for _, k := range consts {
			s, ok := to.pairs[k]
			if !ok {
				problems = append(problems, k+" has no written name")
				continue
			}
			if from.pairs[s] != k {
				problems = append(problems, fmt.Sprintf("written name %s of %s is read back as %q", s, k, from.pairs[s]))
			}
		}
		for s, k := range from.pairs {
			if to.pairs[k] != s {
				problems = append(problems, fmt.Sprintf("readable name %s maps to %s whose written name is %s", s, k, to.pairs[k]))
			}
		}
		sort.Strings(problems)
		c.req(len(consts) >= 2 && len(problems) == 0, rule, "types."+enum+"#string-tables", to.pos,
			fmt.Sprintf("the written and readable name tables are mutual inverses and total over %v", consts)+condStr(len(problems) > 0, ": "+strings.Join(problems, "; ")))
		// the written name of a value is looked up in the enum's own table
		if sf := c.P.FuncNamed("types." + enum + ".String"); sf != nil {
			okStr := false
			got := ""
			for _, pa := range c.P.PathsOf(sf) {
				if len(pa.Ret) == 1 {
					r := stripConv(pa.Ret[0])
					got = shortTerm(r)
					if r.Op == "idx" && len(r.A) == 2 && r.A[0].IsAt("@types."+enum+"ToStringMap") && stripConv(r.A[1]).IsAt("Precv") {
						okStr = true
					}
				}
			}
			c.req(okStr, rule, "types."+enum+".String#own-table", sf.Body.Pos(), "String() returns the entry of "+enum+"ToStringMap for the receiver: "+got)
		} else {
			c.undecided(rule, "types."+enum+".String", token.NoPos, "String method not found")
		}
		// proto JSON reads through <Enum>_value (plus names registered at init)
		var unreadable []string
		for _, k := range consts {
			s := to.pairs[k]
			if _, ok := val.pairs[s]; ok {
				continue
			}
			if src, ok := copied[enum+"_value"]; ok && tables[src] != nil {
				if tables[src].pairs[s] == k {
					continue
				}
			}
			unreadable = append(unreadable, s)
		}
		c.req(len(unreadable) == 0, rule, "types."+enum+"#proto-json-readable", val.pos,
			"every name the enum writes to JSON is a key of the value map proto JSON reads through"+condStr(len(unreadable) > 0, "; not readable: "+strings.Join(unreadable, ", ")))
	}
}

func (c *Check) constText(info *types.Info, e ast.Expr) string {
	if tv, ok := info.Types[e]; ok && tv.Value != nil {
		if id, ok := e.(*ast.Ident); ok {
			if k, ok := info.Uses[id].(*types.Const); ok && k.Pkg() != nil {
				return k.Name()
			}
		}
		return tv.Value.ExactString()
	}
	return types.ExprString(e)
}

// genesisCoverage: every GenesisState field is exported from a whole-family iteration and Params round-trips.
func (c *Check) genesisCoverage(rule string) {
	exp := c.mustFn(rule, "service.ExportGenesis")
	if exp == nil {
		return
	}
	obj := c.P.ByPkg[pkgTypes].Types.Scope().Lookup("GenesisState")
	st, ok := obj.Type().Underlying().(*types.Struct)
	if !ok {
		c.undecided(rule, "types.GenesisState", token.NoPos, "struct not found")
		return
	}
	args := c.genesisCtorArgs(exp)
	var fields []string
	for i := 0; i < st.NumFields(); i++ {
		fields = append(fields, st.Field(i).Name())
	}
	// collection (by type, else by name) -> family iterated by the function that fills it
	famOf := map[string]string{}
	famOfType := map[string]string{}
	for _, acc := range c.exportAccumulators(exp) {
		famOf[acc.name] = acc.fam
		if old, dup := famOfType[acc.typ]; dup && old != acc.fam {
			famOfType[acc.typ] = "ambiguous"
		} else {
			famOfType[acc.typ] = acc.fam
		}
	}
	// the accumulating callbacks never ask the scan to stop: every record of the family is exported
	for _, acc := range c.exportAccumulators(exp) {
		_ = acc
	}
	for _, pa := range c.P.PathsOf(exp) {
		for _, ev := range pa.Events {
			if ev.Kind != EvCall || ev.CI.fn == nil {
				continue
			}
			for _, a := range ev.CI.args {
				if !a.Is("func") || len(a.A) < 1 {
					continue
				}
				cl := c.P.FuncNamed(a.A[0].At)
				if cl == nil || len(cl.Res) != 1 || typeName(cl.Res[0].Type()) != "bool" {
					continue
				}
				stops := false
				for _, pb := range c.P.PathsOf(cl) {
					if len(pb.Ret) == 1 && !pb.Ret[0].IsAt("#false") {
						stops = true
					}
				}
				c.req(!stops, rule, unitConstruct(cl, "export-callback-continues"), ev.Pos,
					"the callback that collects records for export returns false (continue) on every path, so the whole family is exported")
				// ... and it collects on every path: no record is left out of the export (a "holds nothing any more" filter
				// drops state that the import would have restored: the binding, its owner, its price terms)
				collects := func(pb *Path) bool {
					for _, e2 := range pb.Events {
						if (e2.Kind == EvAssign || e2.Kind == EvWrite) && e2.Val != nil && (e2.Val.Op == "append" || e2.Val.Op == "upd") {
							return true
						}
					}
					return false
				}
				some, all := false, true
				for _, pb := range c.P.PathsOf(cl) {
					if !pb.OK() {
						continue
					}
					if collects(pb) {
						some = true
					} else {
						all = false
					}
				}
				if some {
					c.req(all, rule, unitConstruct(cl, "export-callback-collects"), ev.Pos,
						"the callback that collects records for export collects the scanned record on every path")
				}
			}
		}
	}
	fieldType := map[string]string{}
	for i := 0; i < st.NumFields(); i++ {
		fieldType[st.Field(i).Name()] = st.Field(i).Type().String()
	}
	want := map[string]string{"Definitions": "0x01", "Bindings": "0x02", "WithdrawAddresses": "0x07", "RequestContexts": "0x08"}
	for _, f := range fields {
		if f == "Params" {
			c.req(strings.Contains(args[f], "GetParams") || strings.Contains(args[f+"#def"], "GetParams"), rule, "GenesisState.Params#export", exp.Body.Pos(), "Params is exported from the parameter store: "+args[f]+condStr(args[f+"#def"] != "", " = "+args[f+"#def"]))
			continue
		}
		w, known := want[f]
		if !known {
			c.fail(rule, "GenesisState."+f+"#export", exp.Body.Pos(), "genesis field without an export rule")
			continue
		}
		got := famOf[args[f]]
		if got == "" {
			got = famOfType[fieldType[f]]
		}
		c.req(got == w, rule, "GenesisState."+f+"#export", exp.Body.Pos(),
			fmt.Sprintf("exported from the whole-family iteration of %s into the constructor position of the same field (collection %q iterates %s)", w, args[f], got))
	}
	// Params: ParamSetPairs, NewParams, GetParams agree on the number of fields
	pobj := c.P.ByPkg[pkgTypes].Types.Scope().Lookup("Params")
	pst, _ := pobj.Type().Underlying().(*types.Struct)
	np := 0
	if pst != nil {
		np = pst.NumFields()
	}
	nPairs, nGet := 0, 0
	if f := c.P.FuncNamed("types.Params.ParamSetPairs"); f != nil {
		for _, pa := range c.P.PathsOf(f) {
			// the registered pairs are the elements of the returned list (however each pair is constructed)
			if len(pa.Ret) == 1 {
				if els, ok := listElems(pa.Ret[0]); ok && len(els) > nPairs {
					nPairs = len(els)
				}
			}
		}
	}
	if f := c.P.FuncNamed("keeper.Keeper.GetParams"); f != nil {
		for _, pa := range c.P.PathsOf(f) {
			// the number of fields of the assembled parameter set (constructor call or field-by-field literal)
			if len(pa.Ret) == 1 {
				r := stripConv(pa.Ret[0])
				n := 0
				if r.Op == "lit" {
					n = len(r.A) - 1
				} else if r.Op == "with" {
					n = len(writtenFields(r))
				}
				if n > nGet {
					nGet = n
				}
			}
		}
	}
	nCtor := 0
	if f := c.typesFn("NewParams"); f != nil {
		nCtor = len(f.Params)
	}
	c.req(np >= 1 && np == nPairs && np == nGet && np == nCtor, rule, "types.Params#round-trip", token.NoPos,
		fmt.Sprintf("Params has %d fields; ParamSetPairs registers %d, NewParams takes %d, GetParams passes %d", np, nPairs, nCtor, nGet))
}

// genesisValidators: ValidateGenesis applies the record validators to every collection.
func (c *Check) genesisValidators(rule string) {
	vg := c.mustFn(rule, c.typesName("ValidateGenesis"))
	if vg == nil {
		return
	}
	seen := map[string]bool{}
	for _, dc := range c.deepCalls(vg, 2) {
		if dc.Fn != nil && strings.HasSuffix(dc.Name, ".Validate") {
			seen[dc.Name] = true
		}
	}
	for _, w := range []string{"types.Params.Validate", "types.ServiceDefinition.Validate", "types.ServiceBinding.Validate", "types.RequestContext.Validate"} {
		c.req(seen[w], rule, vg.Name+"#"+w, vg.Body.Pos(), "genesis validation applies "+w)
	}
}

// emptyCoinsTable: the value of sdk.Coins predicates on the empty coin set (SDK semantics, A-SDK).
var emptyCoinsTable = map[string]bool{
	"sdk.Coins.IsValid": true, "sdk.Coins.IsAnyNegative": false, "sdk.Coins.IsAllPositive": false,
	"sdk.Coins.IsZero": true, "sdk.Coins.Empty": true, "sdk.Coins.IsAnyNil": false,
}

// storedValuesValidate (C19.6): values the module itself stores pass the validators genesis validation applies.
// Instance: a full deposit refund stores the empty coin set, which ServiceBinding.Validate must accept.
func (c *Check) storedValuesValidate(rule string) {
	// does some committed path store an empty Deposit?
	storesEmpty := false
	var where *Func
	for f, pps := range c.persistUnits("0x02", "ServiceBinding") {
		for _, pp := range pps {
			for _, B := range pp.Stored {
				if d := field("ServiceBinding", "Deposit", B); d.Op == "lit" && len(d.A) == 1 {
					storesEmpty = true
					where = f
				}
			}
		}
	}
	if !storesEmpty {
		c.ok(rule, "empty-deposit", token.NoPos, "no function stores an empty deposit")
		return
	}
	// the deposit validator applied by ServiceBinding.Validate
	rec := c.mustFn(rule, "types.ServiceBinding.Validate")
	if rec == nil {
		return
	}
	// does record validation accept the record when its deposit is the empty coin set? Followed through the
	// helpers the deposit is handed to: a path is taken iff every test of the deposit on it agrees with the
	// behaviour of sdk.Coins on the empty set.
	var accepts func(g *Func, isEmpty func(*Term) bool, depth int) (accepted bool, rejecter *Func)
	accepts = func(g *Func, isEmpty func(*Term) bool, depth int) (bool, *Func) {
		var rej *Func
		for _, pa := range c.P.PathsOf(g) {
			consistent := true
			for _, fa := range pa.AllFacts() {
				if len(fa.T.A) >= 1 && isEmpty(fa.T.A[0]) {
					if want, known := emptyCoinsTable[fa.T.Op]; known {
						if want == fa.Neg {
							consistent = false
						}
					} else if fa.T.Op == "nonempty" {
						if !fa.Neg {
							consistent = false
						}
					} else {
						consistent = false // a predicate outside the table: the path is treated as not taken
					}
				}
			}
			if !consistent {
				continue
			}
			// helpers the deposit is handed to must accept it as well (their verdict is the call's ok fact on this path)
			calleesOK := true
			for _, ev := range pa.Events {
				if ev.Kind != EvCall || ev.CI.fn == nil || depth <= 0 || !ev.CI.fn.isHandWritten() || ev.CI.fn.Body == nil {
					continue
				}
				for k, a := range ev.CI.args {
					if !isEmpty(stripConv(a)) {
						continue
					}
					pk := fmt.Sprintf("P%d", k)
					okH, r := accepts(ev.CI.fn, func(t *Term) bool { return t.IsAt(pk) }, depth-1)
					// this path continues past the call only if the helper accepted
					accepting := pa.AllFacts().Has(Fact{T: mk("ok", ev.Result)}) || pa.Exit == ExitSuccess
					if accepting && !okH {
						calleesOK = false
						if r != nil {
							rej = r
						} else {
							rej = ev.CI.fn
						}
					}
				}
			}
			if !calleesOK {
				continue
			}
			if pa.Exit == ExitSuccess || pa.Exit == ExitMaybe {
				return true, nil
			}
			if rej == nil {
				rej = g
			}
		}
		return false, rej
	}
	ok, rej := accepts(rec, func(t *Term) bool {
		return strings.HasSuffix(t.Op, ".ServiceBinding.Deposit") && len(t.A) == 1 && t.A[0].IsAt("Precv")
	}, 3)
	name := rec.Name
	pos := rec.Body.Pos()
	if rej != nil {
		name, pos = rej.Name, rej.Body.Pos()
	}
	if ok {
		// name the construct after the validator the deposit reaches, as before
		for _, pa := range c.P.PathsOf(rec) {
			for _, ev := range pa.Events {
				if ev.Kind == EvCall && ev.CI.fn != nil {
					for _, a := range ev.CI.args {
						if strings.HasSuffix(a.Op, ".ServiceBinding.Deposit") {
							name, pos = ev.CI.fn.Name, ev.CI.fn.Body.Pos()
						}
					}
				}
			}
		}
	}
	c.req(ok, rule, name+"#accepts-empty-deposit", pos,
		"the empty deposit stored by "+where.Name+" (full refund) is accepted by the deposit validator that genesis validation applies to exported bindings")
}

// moduleWiring: the application reaches the module through the sdk's AppModule methods. The genesis state handed to
// the import is the one decoded from the raw genesis message, the exported raw message is the encoding of what the
// export returns, and the end-of-block method runs the module's end blocker with the module's keeper.
func (c *Check) moduleWiring(rule string, which map[string]bool) {
	svcFnWith := func(pred func(*Func) bool) *Func {
		for _, f := range c.P.Funcs {
			if f.isHandWritten() && f.Body != nil && f.Parent == nil && f.Recv == nil && f.pkgName() == "service" && pred(f) {
				return f
			}
		}
		return nil
	}
	if which["genesis"] {
		imp := svcFnWith(func(f *Func) bool {
			if len(f.Res) != 0 {
				return false
			}
			for _, pr := range f.Params {
				if namedStruct(pr.Type()) == "GenesisState" {
					return true
				}
			}
			return false
		})
		exp := svcFnWith(func(f *Func) bool {
			return len(f.Res) == 1 && namedStruct(f.Res[0].Type()) == "GenesisState" && len(f.Params) == 2
		})
		mi := c.mustFn(rule, "service.AppModule.InitGenesis")
		me := c.mustFn(rule, "service.AppModule.ExportGenesis")
		if imp == nil || exp == nil {
			c.undecided(rule, "module-genesis-functions", token.NoPos, "the import / export functions of package service were not found by their signatures")
		}
		if mi != nil && imp != nil {
			n, bad := 0, ""
			for _, pa := range c.P.PathsOf(mi) {
				if !pa.OK() {
					continue
				}
				n++
				found := false
				for _, ev := range pa.Events {
					if ev.Kind != EvCall || ev.CI.fn != imp {
						continue
					}
					for _, a := range ev.CI.args {
						if namedStruct(a.Typ) != "GenesisState" && !a.ContainsOp("out") {
							continue
						}
						// the decoded value of the raw message parameter
						if a.Op == "out" && len(a.A) == 2 && (strings.HasSuffix(a.A[0].Op, ".MustUnmarshalJSON") || strings.HasSuffix(a.A[0].Op, ".UnmarshalJSON")) && a.A[0].ContainsAtom("P2") {
							found = true
						} else {
							bad = "the state handed to the import is " + shortTerm(a)
						}
					}
				}
				if !found && bad == "" {
					bad = "a path does not run the import"
				}
			}
			c.req(n > 0 && bad == "", rule, unitConstruct(mi, "imports-decoded-state"), mi.Body.Pos(),
				"the module's InitGenesis method runs the import on the state decoded from the raw genesis message it was given"+condStr(bad != "", ": "+bad))
		}
		if me != nil && exp != nil {
			n, bad := 0, ""
			for _, pa := range c.P.PathsOf(me) {
				if !pa.OK() || len(pa.Ret) != 1 {
					continue
				}
				n++
				r := pa.Ret[0]
				if !((strings.HasSuffix(r.Op, ".MustMarshalJSON") || strings.HasSuffix(r.Op, ".MarshalJSON")) && len(r.A) >= 1 && stripAddr(r.A[len(r.A)-1]).Op == exp.Name) {
					bad = "it returns " + shortTerm(r)
				}
			}
			c.req(n > 0 && bad == "", rule, unitConstruct(me, "encodes-exported-state"), me.Body.Pos(),
				"the module's ExportGenesis method returns the JSON encoding of what the export returns"+condStr(bad != "", ": "+bad))
		}
	}
	if which["endblock"] {
		u := c.feeUnits(rule)
		mb := c.mustFn(rule, "service.AppModule.EndBlock")
		if mb != nil && u != nil && u.EndBlocker != nil {
			n, ok := 0, true
			for _, pa := range c.P.PathsOf(mb) {
				if !pa.OK() {
					continue
				}
				n++
				calls := 0
				for _, ev := range pa.Events {
					if ev.Kind == EvCall && ev.CI.fn == u.EndBlocker && !ev.Defer && ev.Loop == nil {
						calls++
					}
				}
				if calls != 1 {
					ok = false
				}
			}
			c.req(n > 0 && ok, rule, unitConstruct(mb, "runs-end-blocker"), mb.Body.Pos(), "the module's EndBlock method runs the end blocker exactly once on every path")
			// the end blocker runs on the block's own context: EndBlock derives no context with another gas meter, height, time
			// or store (a finite gas meter turns a busy block into an out-of-gas panic that nothing recovers)
			info := mb.Pkg.TypesInfo
			derived := ""
			ast.Inspect(mb.Body, func(nd ast.Node) bool {
				if call, isCall := nd.(*ast.CallExpr); isCall {
					if fn, isFn := typeutil.Callee(info, call).(*types.Func); isFn && fn.Pkg() != nil && strings.HasSuffix(fn.Pkg().Path(), "cosmos-sdk/types") {
						if sig, _ := fn.Type().(*types.Signature); sig != nil && sig.Recv() != nil && typeName(sig.Recv().Type()) == "sdk.Context" && strings.HasPrefix(fn.Name(), "With") {
							switch fn.Name() {
							case "WithLogger", "WithEventManager":
							default:
								derived = fn.Name()
							}
						}
					}
				}
				return true
			})
			c.req(derived == "", rule, unitConstruct(mb, "end-blocker-context"), mb.Body.Pos(), "the end blocker runs on the context EndBlock was given"+condStr(derived != "", ": EndBlock derives a context with sdk.Context."+derived))
		}
	}
}

// genesisImportsAll: the genesis import stores every element of every collection of the genesis state. For each
// collection F of GenesisState there is a store Set of F's record family whose key is computed from the element (slice)
// or the key (map) under the cursor of a loop over F itself, and that Set is reached under no condition other than the
// success of genesis validation and of decoding / parsing that very element — an entry skipped because of some other
// record (a withdrawal address whose owner has no binding yet) or looked up from another collection is dropped on import.
func (c *Check) genesisImportsAll(rule string) {
	ig := c.mustFn(rule, "service.InitGenesis")
	if ig == nil {
		return
	}
	want := map[string]string{"Definitions": "0x01", "Bindings": "0x02", "WithdrawAddresses": "0x07", "RequestContexts": "0x08"}
	var fields []string
	for f := range want {
		fields = append(fields, f)
	}
	sort.Strings(fields)
	effs := c.P.SummaryOf(ig).Effs
	for _, F := range fields {
		fam := want[F]
		var hit *Eff
		var why []string
		for _, e := range effs {
			if e.Kind != "store" || e.Op != "Set" || e.Family != fam || e.Key == nil {
				continue
			}
			// the key is computed from the cursor of a loop over this very collection
			fromCursor := false
			e.Key.Walk(func(t *Term) bool {
				if (t.Op == "elem" || t.Op == "key") && len(t.A) == 1 && strings.HasSuffix(stripConv(t.A[0]).Op, ".GenesisState."+F) {
					fromCursor = true
				}
				return true
			})
			if !fromCursor {
				why = append(why, "a record of the family is stored under a key not taken from the cursor over "+F+": "+shortTerm(e.Key))
				continue
			}
			// guards: validation of the genesis state, and decoding / parsing of this element only
			extra := []string{}
			for _, g := range e.Guards {
				gs := g.T.String()
				if g.T.Op == "ok" && (strings.Contains(gs, "ValidateGenesis") || strings.Contains(gs, ".GenesisState."+F)) {
					continue
				}
				if !g.Neg && g.T.Op == "nonempty" && len(g.T.A) == 1 && strings.HasSuffix(stripConv(g.T.A[0]).Op, ".GenesisState."+F) {
					continue // the collection itself is not empty (the loop is entered)
				}
				extra = append(extra, g.String())
			}
			// further guards are judged on the paths below: where such a guard fails the import must not go on silently
			_ = extra
			hit = e
		}
		// every committed path that takes an element of the collection under its cursor stores it (no skip inside the loop)
		if hit != nil {
			for _, pa := range c.P.PathsOf(ig) {
				if pa.Exit != ExitSuccess {
					continue
				}
				touches := false
				for _, ev := range pa.Events {
					for _, t := range []*Term{ev.Val, ev.Result, ev.Fact.T} {
						if t == nil {
							continue
						}
						t.Walk(func(u *Term) bool {
							if (u.Op == "elem" || u.Op == "key") && len(u.A) == 1 && strings.HasSuffix(stripConv(u.A[0]).Op, ".GenesisState."+F) {
								touches = true
							}
							return !touches
						})
					}
					if ev.Kind == EvCall && ev.CI != nil {
						for _, a := range ev.CI.args {
							a.Walk(func(u *Term) bool {
								if (u.Op == "elem" || u.Op == "key") && len(u.A) == 1 && strings.HasSuffix(stripConv(u.A[0]).Op, ".GenesisState."+F) {
									touches = true
								}
								return !touches
							})
						}
					}
				}
				if !touches {
					continue
				}
				stored := false
				for _, e := range c.pathEffects(ig, pa) {
					if e.Kind == "store" && e.Op == "Set" && e.Family == fam {
						stored = true
					}
				}
				if !stored {
					why = append(why, "a committed path takes an element of "+F+" under its cursor and does not store it (path ending "+c.pos(pa.RetPos)+")")
					hit = nil
					break
				}
			}
		}
		c.Sites++
		pos := ig.Body.Pos()
		if hit != nil {
			pos = hit.Pos
		}
		c.req(hit != nil, rule, "GenesisState."+F+"#import-all", pos,
			"every element of "+F+" is stored (family "+fam+") from a loop over that collection, unconditionally"+condStr(hit == nil && len(why) > 0, ": "+strings.Join(why, "; "))+condStr(hit == nil && len(why) == 0, ": no store of the family in the import"))
	}
}

// siblingBounds: validators of package types that bound the same kind of value by the same named constant reject under the
// same comparison. The context's provider list is bounded by one constant in the validator of a new call / of a stored
// context and in the validator of an update: if one says "more than the maximum" and the other "at least the maximum", a
// list that an update legally stores makes the stored context fail the genesis validation of its own export.
func (c *Check) siblingBounds(rule string) {
	type occ struct {
		fn   *Func
		fact string
		pos  token.Pos
	}
	by := map[string][]occ{}
	for _, f := range c.handFuncs("types") {
		if f.Obj == nil || !strings.HasPrefix(f.Obj.Name(), "Validate") || f.Body == nil {
			continue
		}
		if _, hasErr := f.hasErrorResult(); !hasErr {
			continue
		}
		seen := map[string]bool{}
		for _, pa := range c.P.PathsOf(f) {
			if pa.Exit != ExitRevert {
				continue
			}
			// the condition that led to the rejection: the last branch fact on the path
			var last *Event
			for _, ev := range pa.Events {
				if ev.Kind == EvFact {
					last = ev
				}
			}
			if last == nil {
				continue
			}
			var consts []string
			mentionsParam := false
			last.Fact.T.Walk(func(t *Term) bool {
				if t.Op == "" && strings.HasPrefix(t.At, "#types.") {
					// a numeric bound (a named integer constant), not a name used in a message
					if obj, _ := c.P.ByPkg[pkgTypes].Types.Scope().Lookup(strings.TrimPrefix(t.At, "#types.")).(*types.Const); obj != nil {
						if b, isB := obj.Type().Underlying().(*types.Basic); isB && b.Info()&types.IsNumeric != 0 {
							consts = append(consts, t.At)
						}
					}
				}
				if t.Op == "" && strings.HasPrefix(t.At, "P") {
					mentionsParam = true
				}
				return true
			})
			if len(consts) != 1 || !mentionsParam {
				continue
			}
			// the bounded value is abstracted, so that validators written over a parameter and over a field are comparable
			fs := last.Fact.String()
			last.Fact.T.Walk(func(t *Term) bool {
				if (t.Op == "<" || t.Op == "==") && len(t.A) == 2 {
					for i := 0; i < 2; i++ {
						if t.A[i].IsAt(consts[0]) {
							o := stripConv(t.A[1-i])
							if o.Op == "len" && len(o.A) == 1 {
								fs = strings.ReplaceAll(fs, o.A[0].String(), "$V")
							} else {
								fs = strings.ReplaceAll(fs, o.String(), "$V")
							}
						}
					}
				}
				return true
			})
			for i, pr := range f.Params {
				fs = strings.ReplaceAll(fs, fmt.Sprintf("P%d)", i), "<"+typeName(pr.Type())+">)")
				fs = strings.ReplaceAll(fs, fmt.Sprintf("P%d ", i), "<"+typeName(pr.Type())+"> ")
			}
			k := consts[0] + "|" + f.Name + "|" + fs
			if seen[k] {
				continue
			}
			seen[k] = true
			by[consts[0]] = append(by[consts[0]], occ{f, fs, last.Pos})
		}
	}
	var ks []string
	for k := range by {
		ks = append(ks, k)
	}
	sort.Strings(ks)
	nShared := 0
	for _, k := range ks {
		os := by[k]
		fns := map[*Func]bool{}
		facts := map[string]int{}
		for _, o := range os {
			fns[o.fn] = true
			facts[o.fact]++
		}
		if len(fns) < 2 {
			continue
		}
		nShared++
		c.Sites += len(os)
		ok := len(facts) == 1
		var names []string
		for f := range fns {
			names = append(names, f.Name)
		}
		sort.Strings(names)
		var fl []string
		for f := range facts {
			fl = append(fl, f)
		}
		sort.Strings(fl)
		c.req(ok, rule, "bound:"+strings.TrimPrefix(k, "#")+"@"+strings.Join(names, "~"), os[0].pos,
			"validators that bound a value by "+strings.TrimPrefix(k, "#")+" reject under the same comparison"+condStr(!ok, ": "+strings.Join(fl, "  vs  ")))
	}
	c.req(nShared >= 1, rule, "shared-bounds", token.NoPos, fmt.Sprintf("%d named constants bound values in more than one validator", nShared))
}

// genesisNotStricterThanMessages (C19.6): "the genesis exported afterwards always passes genesis validation" — for values that
// reach the store straight from a message, genesis validation may reject only what the message's own stateless validation
// rejects. Instance decided here: a withdrawal address. Every rejecting exit of ValidateGenesis whose cause mentions the value
// under the cursor of GenesisState.WithdrawAddresses is either the failure of a validator that
// MsgSetWithdrawAddress.ValidateBasic applies to its WithdrawAddress field, or a condition under which such a validator itself
// rejects (with the value abstracted). A further requirement (exactly twenty bytes) makes a state reachable by messages
// unimportable.
func (c *Check) genesisNotStricterThanMessages(rule string) {
	vg := c.mustFn(rule, c.typesName("ValidateGenesis"))
	vb := c.P.FuncNamed("types.MsgSetWithdrawAddress.ValidateBasic")
	if vg == nil || vb == nil {
		if vb == nil {
			c.undecided(rule, "types.MsgSetWithdrawAddress.ValidateBasic", token.NoPos, "message validator not found")
		}
		return
	}
	lastFact := func(pa *Path) *Event {
		var last *Event
		for _, ev := range pa.Events {
			if ev.Kind == EvFact {
				last = ev
			}
		}
		return last
	}
	allowed := map[string]bool{}
	fldT := field("MsgSetWithdrawAddress", "WithdrawAddress", atom("Precv"))
	var validators []*Func
	for _, pa := range c.P.PathsOf(vb) {
		note := func(t *Term) {
			t = stripConv(t)
			if t != nil && len(t.A) == 1 && stripConv(t.A[0]).Eq(fldT) {
				if g := c.P.FuncNamed(t.Op); g != nil && g.Body != nil {
					validators = append(validators, g)
					allowed[Fact{T: mk("ok", mk(t.Op, atom("$V"))), Neg: true}.String()] = true
				}
			}
		}
		for _, ev := range pa.Events {
			if ev.Kind == EvCall && len(ev.CI.args) == 1 {
				note(mk(ev.CI.name, ev.CI.args[0]))
			}
		}
		for _, r := range pa.Ret {
			note(r)
		}
	}
	for _, g := range validators {
		for _, pa := range c.P.PathsOf(g) {
			if pa.Exit != ExitRevert {
				continue
			}
			if lf := lastFact(pa); lf != nil {
				allowed[strings.ReplaceAll(lf.Fact.String(), "P0", "$V")] = true
			}
		}
	}
	n := 0
	var bad []string
	var badPos token.Pos
	for _, pa := range c.P.PathsOf(vg) {
		if pa.Exit != ExitRevert {
			continue
		}
		lf := lastFact(pa)
		if lf == nil {
			continue
		}
		var val *Term
		lf.Fact.T.Walk(func(t *Term) bool {
			if t.Op == "elem" && len(t.A) == 1 && strings.HasSuffix(stripConv(t.A[0]).Op, ".GenesisState.WithdrawAddresses") {
				val = t
			}
			return true
		})
		if val == nil {
			continue
		}
		n++
		k := strings.ReplaceAll(lf.Fact.String(), val.String(), "$V")
		if !allowed[k] {
			bad = append(bad, k)
			badPos = lf.Pos
		}
	}
	// definitions and bindings: the chain stores what the record validators accept and never re-checks a stored record when a
	// parameter changes, so genesis validation rejects an element of those collections only through the element's own
	// Validate() — a further test against today's parameters (a response time above the current maximum timeout) rejects
	// states the chain reaches by a parameter change
	for _, coll := range []string{"Definitions", "Bindings"} {
		nEl := 0
		var extra []string
		var ePos token.Pos
		for _, pa := range c.P.PathsOf(vg) {
			if pa.Exit != ExitRevert {
				continue
			}
			lf := lastFact(pa)
			if lf == nil {
				continue
			}
			var el *Term
			lf.Fact.T.Walk(func(t *Term) bool {
				if (t.Op == "elem" || t.Op == "idx") && len(t.A) >= 1 && strings.HasSuffix(stripConv(t.A[0]).Op, ".GenesisState."+coll) {
					el = t
				}
				return true
			})
			if el == nil {
				continue
			}
			nEl++
			t := lf.Fact.T
			okV := lf.Fact.Neg && t.Op == "ok" && len(t.A) == 1 && strings.HasSuffix(stripConv(t.A[0]).Op, ".Validate") && len(stripConv(t.A[0]).A) == 1 && stripAddr(stripConv(t.A[0]).A[0]).Eq(el)
			if !okV {
				extra = append(extra, strings.ReplaceAll(lf.Fact.String(), el.String(), "$E"))
				ePos = lf.Pos
			}
		}
		sort.Strings(extra)
		p2 := vg.Body.Pos()
		if len(extra) > 0 {
			p2 = ePos
		}
		c.req(nEl >= 1 && len(extra) == 0, rule, vg.Name+"#"+coll+"-only-record-validators", p2,
			fmt.Sprintf("genesis validation rejects an element of %s only through the element's own Validate() (%d rejecting exits)", coll, nEl)+condStr(len(extra) > 0, ": additional rejection under "+strings.Join(uniq(extra), " ; ")))
	}
	sort.Strings(bad)
	c.Sites += n
	pos := vg.Body.Pos()
	if len(bad) > 0 {
		pos = badPos
	}
	c.req(len(validators) >= 1 && len(bad) == 0, rule, vg.Name+"#withdraw-address-not-stricter", pos,
		fmt.Sprintf("genesis validation rejects a withdrawal address only where the set-withdraw-address message's own validation does (%d rejecting exits on the value)", n)+condStr(len(bad) > 0, ": additional rejection under "+strings.Join(uniq(bad), " ; ")))
}

// genesisImportValidates: the import runs the genesis validation (the record validators of every collection) before it
// stores anything: on every committed path of InitGenesis the validation of the very state being imported has succeeded.
func (c *Check) genesisImportValidates(rule string) {
	ig := c.mustFn(rule, "service.InitGenesis")
	vg := c.typesName("ValidateGenesis")
	if ig == nil {
		return
	}
	stP := ""
	for i, pr := range ig.Params {
		if namedStruct(pr.Type()) == "GenesisState" {
			stP = fmt.Sprintf("P%d", i)
		}
	}
	validated := func(fa Fact) bool {
		if fa.Neg {
			return false
		}
		t := fa.T
		// ok(Validate(state)), or the error of Validate(state) compared with nil by a helper that panics otherwise
		if t.Op == "==" && len(t.A) == 2 && t.A[1].IsAt("#nil") {
			t = mk("ok", t.A[0])
		}
		return t.Op == "ok" && len(t.A) == 1 && t.A[0].Op == vg && len(t.A[0].A) == 1 && stripAddr(t.A[0].A[0]).IsAt(stP)
	}
	ok, nOK := true, 0
	for _, pa := range c.P.PathsOf(ig) {
		if !pa.OK() {
			continue
		}
		nOK++
		fs := pa.AllFacts()
		// a helper without an error result that returned has established its success facts (it panics otherwise)
		for _, ev := range pa.Events {
			if ev.Kind != EvCall || ev.CI.fn == nil || !ev.CI.fn.isHandWritten() || ev.CI.fn.Body == nil {
				continue
			}
			if _, hasErr := ev.CI.fn.hasErrorResult(); hasErr || ev.Result == nil {
				continue
			}
			m := argMap(ev.CI.fn, ev.Result)
			for _, sf := range c.P.SummaryOf(ev.CI.fn).SuccessFacts {
				for _, nf := range sf.SubstAll(m) {
					fs.Add(nf)
				}
			}
		}
		found := false
		for _, fa := range c.closeFacts(fs) {
			if validated(fa) {
				found = true
			}
		}
		if !found {
			ok = false
		}
	}
	ok = ok && nOK > 0
	c.req(ok && stP != "", rule, ig.Name+"#validates-imported-state", ig.Body.Pos(), "every committed path of the genesis import has validated the imported state with "+vg)
}

// enumJSONWriters (C19.4): the JSON form of the two state enumerations is what the readers registered for them accept: each
// MarshalJSON of an enumeration type of package types encodes exactly the receiver's String() — the name whose table the
// proto-JSON reader rule (enumTables) shows to be readable — and not a transformed copy of it (upper-cased, prefixed ...).
func (c *Check) enumJSONWriters(rule string) {
	n := 0
	for _, f := range c.handFuncs("types") {
		if f.Obj == nil || f.Obj.Name() != "MarshalJSON" || f.Recv == nil || f.Body == nil {
			continue
		}
		bt, isBasic := types.Unalias(f.Recv.Type()).Underlying().(*types.Basic)
		if !isBasic || bt.Info()&types.IsInteger == 0 {
			continue
		}
		n++
		recvT := typeName(f.Recv.Type())
		ok := true
		got := ""
		for _, pa := range c.P.PathsOf(f) {
			if len(pa.Ret) < 1 {
				continue
			}
			r := stripConv(pa.Ret[0])
			if r.Op == "res" && len(r.A) == 2 {
				r = stripConv(r.A[1])
			}
			arg := (*Term)(nil)
			if strings.HasSuffix(r.Op, "json.Marshal") && len(r.A) == 1 {
				arg = stripConv(r.A[0])
			}
			want := recvT + ".String"
			if arg == nil || !(arg.Op == want && len(arg.A) <= 1) {
				ok = false
				got = shortTerm(pa.Ret[0])
			}
		}
		c.req(ok, rule, f.Name+"#writes-own-name", f.Body.Pos(), "the JSON form of the enumeration is json.Marshal(receiver.String())"+condStr(!ok, ": "+got))
	}
	c.req(n >= 2, rule, "enum-json-writers", token.NoPos, fmt.Sprintf("%d MarshalJSON methods of enumeration types", n))
}

// createdRecordsValidate (C19.6): "the genesis exported afterwards always passes genesis validation" — for the values the
// module itself writes. A function that builds a record field by field fixes some fields to constants (a one-off context
// gets frequency 0 and total 0, a new context the batch counter 0). The record's own validator, which genesis validation
// applies to every exported record, is walked with the receiver replaced by that record: a rejecting path none of whose
// conditions is refuted, and whose rejecting test reads one of the fixed integer / boolean fields, rejects a record the
// module stores. (Fields that come from the message stay symbolic: their bounds are the business of sibling-bounds.)
func (c *Check) createdRecordsValidate(rule string) {
	n := 0
	for _, rt := range []struct{ fam, typ string }{{"0x08", "RequestContext"}, {"0x02", "ServiceBinding"}, {"0x01", "ServiceDefinition"}} {
		v := c.P.FuncNamed("types." + rt.typ + ".Validate")
		if v == nil || v.Body == nil {
			continue
		}
		units := c.persistUnits(rt.fam, rt.typ)
		var fs []*Func
		for f := range units {
			fs = append(fs, f)
		}
		sort.Slice(fs, func(i, j int) bool { return fs[i].Name < fs[j].Name })
		for _, f := range fs {
			seen := map[string]bool{}
			for _, pp := range units[f] {
				if !pp.Path.OK() {
					continue
				}
				for _, S := range pp.Stored {
					if S.Op != "lit" || seen[S.String()] {
						continue
					}
					seen[S.String()] = true
					// parameters the creating path has decided
					m := map[string]*Term{}
					S.Walk(func(t *Term) bool {
						if t.Op == "" && strings.HasPrefix(t.At, "P") {
							if pp.Facts.Holds(t, true) {
								m[t.At] = atom("#true")
							} else if pp.Facts.Holds(t, false) {
								m[t.At] = atom("#false")
							}
						}
						return true
					})
					rec := S.Subst(m)
					fixed := func(t *Term) bool {
						hit := false
						t.Walk(func(x *Term) bool {
							if strings.HasPrefix(x.Op, "."+rt.typ+".") && len(x.A) == 1 && x.A[0].IsAt("Precv") {
								fv := simplify(&Term{Op: x.Op, A: []*Term{rec}, Typ: x.Typ})
								if isConstTerm(fv) {
									if b, ok := typeUnderlyingBasic(x.Typ); ok && (b.Info()&types.IsInteger != 0 || b.Kind() == types.Bool) {
										hit = true
									}
								}
							}
							return true
						})
						return hit
					}
					n++
					bad := ""
					var badPos token.Pos
					for _, pa := range c.P.PathsOf(v) {
						if pa.Exit != ExitRevert {
							continue
						}
						var last *Event
						feasible := true
						for _, ev := range pa.Events {
							if ev.Kind != EvFact {
								continue
							}
							last = ev
							ft := simplify(ev.Fact.T.Subst(map[string]*Term{"Precv": rec}))
							if decideFact(Fact{T: ft, Neg: ev.Fact.Neg}, FactSet{}) == 0 {
								feasible = false
							}
						}
						if last == nil || !feasible || !fixed(last.Fact.T) {
							continue
						}
						bad = shortTerm(simplify(last.Fact.T.Subst(map[string]*Term{"Precv": rec})))
						if last.Fact.Neg {
							bad = "¬" + bad
						}
						badPos = pa.RetPos
					}
					pos := v.Body.Pos()
					if bad != "" {
						pos = badPos
					}
					c.req(bad == "", rule, unitConstruct(f, "created-record-validates:"+rt.typ), pos,
						"no rejecting path of "+v.Name+" is open to the record this function builds and stores"+condStr(bad != "", ": the path ending at "+c.pos(badPos)+" rejects under "+bad))
				}
			}
		}
	}
	c.Sites += n
	c.req(n >= 2, rule, "created-records", token.NoPos, fmt.Sprintf("%d records built field by field and stored", n))
}
