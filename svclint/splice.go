package main

// Path splicing. An unexported module function that is referenced exactly once, by a direct call, is
// an extracted block of its caller: the caller's paths are enumerated with that callee's paths spliced
// in at the call (parameters bound to the arguments, the call's results bound to what the callee path
// returns, the combination dropped when a later branch fact is refuted). Rules that read the events,
// facts and effects of a unit therefore see the same thing whether a block is written in line or has
// been moved into a private helper, and such a helper is not analysed as a unit of its own.

import (
	"fmt"
	"go/ast"
	"go/types"
	"strconv"
	"strings"

	"golang.org/x/tools/go/types/typeutil"
)

// inlineTarget: g is spliced into its only caller.
func (p *Prog) inlineTarget(g *Func) bool {
	if g == nil {
		return false
	}
	if v, ok := p.inlineMemo[g]; ok {
		return v
	}
	v := func() bool {
		if g.Decl == nil || g.Obj == nil || g.Body == nil || !g.isHandWritten() {
			return false
		}
		// value functions the rules reason about as a unit stay calls: the minimum deposit of a pricing
		if roleValueFunc(g) {
			return false
		}
		// exported functions are API; a method of an unexported type is not reachable from outside whatever its name
		if g.Obj.Exported() {
			unexportedRecv := false
			if g.Recv != nil {
				T := g.Recv.Type()
				if pt, ok := T.Underlying().(*types.Pointer); ok {
					T = pt.Elem()
				}
				if nt, ok := types.Unalias(T).(*types.Named); ok && !nt.Obj().Exported() {
					unexportedRecv = true
				}
			}
			if !unexportedRecv {
				return false
			}
		}
		if pk := g.pkgName(); pk != "keeper" && pk != "service" && pk != "types" {
			return false
		}
		n := p.refCount()[g.Obj]
		if p.refsOther[g.Obj] > 0 {
			return false
		}
		// one call: an extracted block. Several calls: only a helper that is parametrised by a table entry or a
		// function value (its behaviour is decided at each call site, where it is walked with the actual arguments)
		if n == 1 {
			return true
		}
		// an accessor of a helper object (a module struct wrapping an iterator, a keeper, function values): it is
		// walked on the object it is called on
		if n <= 12 && p.helperObjectMethod(g) {
			return true
		}
		// a one-line wrapper around a bank / store primitive is that primitive at each of its call sites
		if n <= 12 && p.thinPrimitiveWrapper(g) {
			return true
		}
		// a value-returning helper stays a call (its value is reasoned about as a unit; its effects resolve when
		// its summary is instantiated); a procedure parametrised by a table entry is walked per call site
		procedure := len(g.Res) == 0 || (len(g.Res) == 1 && isErrorType(g.Res[0].Type()))
		return n > 1 && n <= 8 && procedure && p.parametric(g)
	}()
	p.inlineMemo[g] = v
	return v
}

// refCount counts, per module function, the references from non-test code; a reference that is not the
// callee of a direct call (a method value, a function value) counts twice so that it never equals one.
func (p *Prog) refCount() map[*types.Func]int {
	if p.refs != nil {
		return p.refs
	}
	p.refs = map[*types.Func]int{}
	p.refsOther = map[*types.Func]int{}
	for _, f := range p.Funcs {
		if f.Body == nil || f.Parent != nil {
			continue
		}
		info := f.Pkg.TypesInfo
		callFun := map[*ast.Ident]bool{}
		ast.Inspect(f.Body, func(n ast.Node) bool {
			if c, ok := n.(*ast.CallExpr); ok {
				switch fn := ast.Unparen(c.Fun).(type) {
				case *ast.Ident:
					callFun[fn] = true
				case *ast.SelectorExpr:
					callFun[fn.Sel] = true
				}
			}
			return true
		})
		ast.Inspect(f.Body, func(n ast.Node) bool {
			if id, ok := n.(*ast.Ident); ok {
				if fo, ok := info.Uses[id].(*types.Func); ok {
					if p.refCaller == nil {
						p.refCaller = map[*types.Func]*Func{}
					}
					p.refCaller[fo] = f
					if callFun[id] {
						p.refs[fo]++
					} else {
						p.refsOther[fo]++
					}
				}
			}
			// a dispatcher's "case X: return handle(...)" arms are entry points, not extracted blocks
			if cc, ok := n.(*ast.CaseClause); ok {
				for _, st := range cc.Body {
					rs, ok := st.(*ast.ReturnStmt)
					if !ok || len(rs.Results) != 1 {
						continue
					}
					if c, ok := ast.Unparen(rs.Results[0]).(*ast.CallExpr); ok {
						var id *ast.Ident
						switch fn := ast.Unparen(c.Fun).(type) {
						case *ast.Ident:
							id = fn
						case *ast.SelectorExpr:
							id = fn.Sel
						}
						if id != nil {
							if fo, ok := info.Uses[id].(*types.Func); ok {
								p.refsOther[fo]++
							}
						}
					}
				}
			}
			return true
		})
	}
	return p.refs
}

// thinPrimitiveWrapper: the body of g is a single call of an interface method (bank keeper, store, params).
func (p *Prog) thinPrimitiveWrapper(g *Func) bool {
	if len(g.Body.List) != 1 {
		return false
	}
	var call *ast.CallExpr
	switch s := g.Body.List[0].(type) {
	case *ast.ReturnStmt:
		if len(s.Results) == 1 {
			call, _ = ast.Unparen(s.Results[0]).(*ast.CallExpr)
		}
	case *ast.ExprStmt:
		call, _ = ast.Unparen(s.X).(*ast.CallExpr)
	}
	if call == nil {
		return false
	}
	fo, ok := typeutil.Callee(g.Pkg.TypesInfo, call).(*types.Func)
	if !ok {
		return false
	}
	sig, ok := fo.Type().(*types.Signature)
	if !ok || sig.Recv() == nil {
		return false
	}
	_, isIface := sig.Recv().Type().Underlying().(*types.Interface)
	return isIface
}

// helperObjectMethod: g is a method of a module-declared struct (not the keeper) that carries an iterator,
// the keeper, a codec or function values.
func (p *Prog) helperObjectMethod(g *Func) bool {
	if g.Recv == nil || isKeeperType(g.Recv.Type()) {
		return false
	}
	T := g.Recv.Type()
	if pt, ok := T.Underlying().(*types.Pointer); ok {
		T = pt.Elem()
	}
	nt, ok := types.Unalias(T).(*types.Named)
	if !ok || nt.Obj().Pkg() == nil || p.ByPkg[nt.Obj().Pkg().Path()] == nil {
		return false
	}
	if pk := nt.Obj().Pkg().Name(); pk != "keeper" && pk != "service" {
		return false
	}
	st, ok := T.Underlying().(*types.Struct)
	if !ok {
		return false
	}
	var carries func(st *types.Struct, depth int) bool
	carries = func(st *types.Struct, depth int) bool {
		for i := 0; i < st.NumFields(); i++ {
			ft := st.Field(i).Type()
			if isKeeperType(ft) || isCtxType(ft) {
				return true
			}
			if _, isFn := ft.Underlying().(*types.Signature); isFn {
				return true
			}
			if _, isIface := ft.Underlying().(*types.Interface); isIface {
				return true // iterator, codec, store, sub-keeper
			}
			// an embedded module struct that carries them (a typed accessor built on a common base)
			if st.Field(i).Embedded() && depth < 2 {
				et := ft
				if pt, ok := et.Underlying().(*types.Pointer); ok {
					et = pt.Elem()
				}
				if est, ok := et.Underlying().(*types.Struct); ok && carries(est, depth+1) {
					return true
				}
			}
		}
		return false
	}
	return carries(st, 0)
}

// parametric: g takes a function value, or a module-declared struct carrying function values (a table entry).
func (p *Prog) parametric(g *Func) bool {
	hasFuncField := func(T types.Type) bool {
		st, ok := T.Underlying().(*types.Struct)
		if !ok {
			return false
		}
		nt, named := types.Unalias(T).(*types.Named)
		if !named || nt.Obj().Pkg() == nil || p.ByPkg[nt.Obj().Pkg().Path()] == nil {
			return false
		}
		for i := 0; i < st.NumFields(); i++ {
			if _, isFn := st.Field(i).Type().Underlying().(*types.Signature); isFn {
				return true
			}
		}
		return false
	}
	// a mode parameter: every call passes a constant (an enum value, a flag) that selects the callee's behaviour
	if p.constModeParam(g) {
		return true
	}
	// a method of a table row: every call is made on a package-level record that only ever holds its literal
	// initialiser (the row's fields select the behaviour)
	if p.tableRowMethod(g) {
		return true
	}
	for _, pr := range g.Params {
		T := pr.Type()
		if _, isFn := T.Underlying().(*types.Signature); isFn {
			return true
		}
		if sl, ok := T.Underlying().(*types.Slice); ok {
			if _, isFn := sl.Elem().Underlying().(*types.Signature); isFn {
				return true
			}
		}
		if pt, ok := T.Underlying().(*types.Pointer); ok {
			T = pt.Elem()
		}
		if hasFuncField(T) {
			return true
		}
	}
	return false
}

// tableRowMethod: g is a method of a module record type and every call of it in the module has a package-level
// variable holding only its literal initialiser as its receiver.
func (p *Prog) tableRowMethod(g *Func) bool {
	if g.Recv == nil || g.Obj == nil || isKeeperType(g.Recv.Type()) {
		return false
	}
	T := g.Recv.Type()
	if pt, ok := T.Underlying().(*types.Pointer); ok {
		T = pt.Elem()
	}
	if namedStructAny(T) == "" {
		return false
	}
	calls := 0
	for _, f := range p.Funcs {
		if f.Body == nil || f.Parent != nil || !f.isHandWritten() {
			continue
		}
		info := f.Pkg.TypesInfo
		bad := false
		ast.Inspect(f.Body, func(n ast.Node) bool {
			c, ok := n.(*ast.CallExpr)
			if !ok || bad {
				return !bad
			}
			se, ok := ast.Unparen(c.Fun).(*ast.SelectorExpr)
			if !ok || info.Uses[se.Sel] != types.Object(g.Obj) {
				return true
			}
			calls++
			id, ok := ast.Unparen(se.X).(*ast.Ident)
			if !ok {
				bad = true
				return false
			}
			v, ok := info.Uses[id].(*types.Var)
			if !ok || v.Pkg() == nil || v.Parent() != v.Pkg().Scope() || p.globalLiteral(v) == nil {
				bad = true
				return false
			}
			return true
		})
		if bad {
			return false
		}
	}
	return calls >= 2
}

// namedStructAny: the name of a named struct type declared in the module (any package), "" otherwise.
func namedStructAny(T types.Type) string {
	nt, ok := types.Unalias(T).(*types.Named)
	if !ok || nt.Obj().Pkg() == nil || !strings.HasPrefix(nt.Obj().Pkg().Path(), modPath) {
		return ""
	}
	if _, ok := nt.Underlying().(*types.Struct); !ok {
		return ""
	}
	return nt.Obj().Name()
}

// inlineHost: the function whose paths contain f's body (f itself unless f is an inline target).
func (p *Prog) inlineHost(f *Func) *Func {
	for i := 0; i < 8 && f != nil && p.inlineTarget(f); i++ {
		h := p.refCaller[f.Obj]
		if h == nil || p.refs[f.Obj] != 1 {
			break // several hosts
		}
		f = h
	}
	return f
}

type splicer struct {
	p    *Prog
	rkey string
	ret  []*Term
	out  map[int]*Term
	args []*Term
	recv *Term // receiver of the spliced call (for (out call -1))
	okT  *Term // value of (ok call): #true, #false or (ok inner-call); nil if the callee has no error result
}

func (sp *splicer) rw(t *Term) *Term {
	if t == nil {
		return nil
	}
	if t.Op == "" {
		return t
	}
	switch {
	case t.Op == "res" && len(t.A) == 2 && t.A[1].String() == sp.rkey:
		if k, err := strconv.Atoi(t.A[0].At); err == nil && k < len(sp.ret) {
			return sp.ret[k]
		}
	case t.Op == "out" && len(t.A) == 2 && t.A[0].String() == sp.rkey:
		if i, err := strconv.Atoi(t.A[1].At); err == nil {
			if o, ok := sp.out[i]; ok {
				return o
			}
			if i >= 0 && i < len(sp.args) {
				return stripAddr(sp.args[i])
			}
			if i == -1 && sp.recv != nil {
				return stripAddr(sp.recv) // the receiver was not written on this path of the callee
			}
		}
	case t.Op == "ok" && len(t.A) == 1 && sp.okT != nil && t.A[0].String() == sp.rkey:
		return sp.okT
	}
	if len(sp.ret) == 1 && t.String() == sp.rkey {
		return sp.ret[0]
	}
	changed := false
	na := make([]*Term, len(t.A))
	for i, a := range t.A {
		na[i] = sp.rw(a)
		if na[i] != a {
			changed = true
		}
	}
	if !changed {
		return t
	}
	return simplify(&Term{Op: t.Op, A: na, Typ: t.Typ, Obj: t.Obj, Pos: t.Pos})
}

func substCI(ci *callInfo, f func(*Term) *Term) *callInfo {
	if ci == nil {
		return nil
	}
	n := *ci
	n.recv = f(ci.recv)
	n.fun = f(ci.fun)
	n.args = make([]*Term, len(ci.args))
	for i, a := range ci.args {
		n.args[i] = f(a)
	}
	return &n
}

// resolveDyn: a dynamic call whose function value became a known literal after substitution.
func (p *Prog) resolveDyn(ci *callInfo) {
	if ci != nil && ci.name == "dyn" && ci.fn == nil && ci.fun != nil && ci.fun.Is("func") && len(ci.fun.A) >= 1 {
		ci.fn = p.FuncNamed(ci.fun.A[0].At)
		if len(ci.fun.A) == 2 && ci.fun.A[1].Op != "env" {
			ci.recv = ci.fun.A[1]
		}
		if ci.fn != nil && ci.fn.Decl != nil && ci.fn.Obj != nil {
			ci.name = ci.fn.Name
		}
	}
}

func substEvent(ev *Event, f func(*Term) *Term) *Event {
	n := *ev
	n.CI = substCI(ev.CI, f)
	n.Result = f(ev.Result)
	n.Val = f(ev.Val)
	n.Old = f(ev.Old)
	n.Base = f(ev.Base)
	if ev.Kind == EvFact {
		n.Fact = Fact{T: f(ev.Fact.T), Neg: ev.Fact.Neg}
	}
	if len(ev.Local) > 0 {
		n.Local = make([]Fact, len(ev.Local))
		for i, lf := range ev.Local {
			n.Local[i] = normFact(Fact{T: f(lf.T), Neg: lf.Neg})
		}
	}
	return &n
}

// addFactEvents re-derives the facts of a rewritten fact event; false if the fact is refuted.
func addFactEvents(ev *Event, facts FactSet, out *[]*Event) bool {
	t := boolSimplify(ev.Fact.T)
	for _, nf := range condFacts(t, !ev.Fact.Neg) {
		if nf.T.IsAt("#true") || nf.T.IsAt("#false") {
			if nf.T.IsAt("#true") == nf.Neg {
				return false
			}
			continue
		}
		switch decideFact(nf, facts) {
		case 0:
			return false
		case 1:
			continue
		}
		switch decideByCases(nf, facts) {
		case 0:
			return false
		case 1:
			continue
		}
		if facts.Has(nf) {
			continue
		}
		// refuted by what the path already established (propositionally)
		if (nf.T.Op == "||" || nf.T.Op == "&&") && facts.Holds(nf.T, nf.Neg) {
			return false
		}
		facts.Add(nf)
		n := *ev
		n.Fact = nf
		*out = append(*out, &n)
	}
	return true
}

const maxSplicedPaths = 4000

// spliceable: the call is expanded in place — the callee is an inline target, or a function literal of one
// of the functions being expanded that is invoked through a function value known at this point.
func (p *Prog) spliceable(f *Func, ev *Event) bool {
	if ev.Kind != EvCall || ev.Defer || ev.CI.fn == nil || ev.CI.fn == f || p.pathsBusy[ev.CI.fn] {
		return false
	}
	g := ev.CI.fn
	// a callee a rule asked to see through for this host (decisionPaths)
	if fs := p.forceSplice[f]; fs != nil && fs[g] && g.Body != nil {
		return true
	}
	if p.inlineTarget(g) {
		// a pure predicate is already present as its definition in the condition it was used in
		if p.predDef(g) != nil {
			return false
		}
		return true
	}
	if ev.CI.name == "dyn" && g.Lit != nil && g.Parent != nil {
		// a literal applied to a record gathered from a store scan is the handler of that scan: it stays a unit of its own
		// (called in its parent's own body — a literal reached through a driver it was handed to is walked as before)
		if f == g.Parent {
			for _, a := range ev.CI.args {
				if a.ContainsOp("sdk.KVStorePrefixIterator") || a.ContainsOp("sdk.KVStoreReversePrefixIterator") {
					return false
				}
			}
		}
		for _, h := range p.spliceHosts {
			if h == g.Parent {
				return true
			}
		}
		// a literal that arrives with its captured environment
		if fn := ev.CI.fun; fn != nil && fn.Is("func") && len(fn.A) == 2 && fn.A[1].Op == "env" {
			return true
		}
		// a block of a sibling literal moved into a local function value that is called exactly once: both
		// literals capture the same variables of the enclosing function
		for a := f; a != nil && a.Lit != nil; a = a.Parent {
			// f is a sibling of g, or a literal nested inside a sibling (it sees the same captured variables)
			if a.Parent == g.Parent && a != g {
				if p.localBlock(g) {
					return true
				}
				break
			}
		}
	}
	return false
}

// localBlock: the literal g is the only value of a local variable of its enclosing function, and that variable
// is used exactly once, as the callee of a direct call — an extracted block of the literal that calls it.
func (p *Prog) localBlock(g *Func) bool {
	if g == nil || g.Lit == nil || g.Parent == nil || g.Parent.Body == nil {
		return false
	}
	if v, ok := p.localBlockMemo[g]; ok {
		return v
	}
	if p.localBlockMemo == nil {
		p.localBlockMemo = map[*Func]bool{}
	}
	info := g.Pkg.TypesInfo
	var bound *types.Var
	ast.Inspect(g.Parent.Body, func(n ast.Node) bool {
		switch s := n.(type) {
		case *ast.AssignStmt:
			if len(s.Lhs) == len(s.Rhs) {
				for i, r := range s.Rhs {
					if ast.Unparen(r) == ast.Expr(g.Lit) {
						if id, ok := s.Lhs[i].(*ast.Ident); ok && s.Tok.String() == ":=" {
							bound, _ = info.Defs[id].(*types.Var)
						}
					}
				}
			}
		case *ast.ValueSpec:
			if len(s.Names) == len(s.Values) {
				for i, r := range s.Values {
					if ast.Unparen(r) == ast.Expr(g.Lit) {
						bound, _ = info.Defs[s.Names[i]].(*types.Var)
					}
				}
			}
		}
		return true
	})
	res := false
	if bound != nil {
		callFun := map[*ast.Ident]bool{}
		uses, calls, writes := 0, 0, 0
		ast.Inspect(g.Parent.Body, func(n ast.Node) bool {
			switch s := n.(type) {
			case *ast.CallExpr:
				if id, ok := ast.Unparen(s.Fun).(*ast.Ident); ok {
					callFun[id] = true
				}
			case *ast.AssignStmt:
				for _, l := range s.Lhs {
					if id, ok := l.(*ast.Ident); ok && info.Uses[id] == types.Object(bound) {
						writes++
					}
				}
			case *ast.Ident:
				if info.Uses[s] == types.Object(bound) {
					uses++
					if callFun[s] {
						calls++
					}
				}
			}
			return true
		})
		// the call is in the body of a sibling literal (or of a literal nested in one)
		sibling := false
		for _, h := range p.Funcs {
			if h.Lit == nil || h.Parent != g.Parent || h == g {
				continue
			}
			ast.Inspect(h.Body, func(n ast.Node) bool {
				if id, ok := n.(*ast.Ident); ok && callFun[id] && info.Uses[id] == types.Object(bound) {
					sibling = true
				}
				return true
			})
		}
		res = uses == 1 && calls == 1 && writes == 0 && sibling
	}
	p.localBlockMemo[g] = res
	return res
}

// splice expands the calls of inline targets in the raw paths of f.
func (p *Prog) splice(f *Func, raw []*Path) []*Path {
	p.spliceHosts = append(p.spliceHosts, f)
	defer func() { p.spliceHosts = p.spliceHosts[:len(p.spliceHosts)-1] }()
	need := false
	for _, pa := range raw {
		for _, ev := range pa.Events {
			if p.spliceable(f, ev) {
				need = true
			}
		}
	}
	if !need {
		return raw
	}
	var out []*Path
	for _, pa := range raw {
		res := p.spliceFrom(f, pa, 0)
		out = append(out, res...)
		if len(out) > maxSplicedPaths {
			p.undecided = append(p.undecided, fmt.Sprintf("function %s exceeds %d spliced paths", f.Name, maxSplicedPaths))
			return raw
		}
	}
	return out
}

// spliceFrom expands the first inline-target call at or after event index from.
func (p *Prog) spliceFrom(f *Func, pa *Path, from int) []*Path {
	idx := -1
	for i := from; i < len(pa.Events); i++ {
		ev := pa.Events[i]
		if p.spliceable(f, ev) {
			idx = i
			break
		}
	}
	if idx < 0 {
		return []*Path{pa}
	}
	call := pa.Events[idx]
	g := call.CI.fn
	// the callee is walked with its parameters bound to the actual arguments and the caller's facts in force
	// (constant flags select branches, literal lists are unrolled, function values are known); if that is not
	// possible its generic paths are used with the arguments substituted
	var gpaths []*Path
	var sub func(*Term) *Term
	if sp := p.specialise(g, call, pa.FactsBefore(idx)); sp != nil {
		gpaths = sp
		um := p.captureMap(f, g, call)
		sub = func(t *Term) *Term {
			if t == nil || len(um) == 0 {
				return t
			}
			return t.Subst(um)
		}
	} else {
		gpaths = p.PathsOf(g)
		m := map[string]*Term{}
		for i, a := range call.CI.args {
			m[fmt.Sprintf("P%d", i)] = a
			if i < len(g.Params) {
				if pt, ok := types.Unalias(g.Params[i].Type()).(*types.Pointer); ok && namedStruct(pt.Elem()) != "" {
					m[fmt.Sprintf("P%d", i)] = stripAddr(a)
				}
			}
		}
		if call.CI.recv != nil {
			m["Precv"] = call.CI.recv
		}
		for k, v := range p.captureMap(f, g, call) {
			m[k] = v
		}
		sub = func(t *Term) *Term {
			if t == nil {
				return nil
			}
			return t.Subst(m)
		}
	}
	if len(gpaths) == 0 {
		return p.spliceFrom(f, pa, idx+1)
	}
	// calls through function values that became known declared functions are those functions' calls
	sub0 := sub
	sub = func(t *Term) *Term { return resolveDynTerm(sub0(t)) }
	errIdx, hasErr := g.hasErrorResult()
	var out []*Path
	for _, q := range gpaths {
		facts := pa.FactsBefore(idx)
		events := append([]*Event(nil), pa.Events[:idx]...)
		feasible := true
		// the callee's events on the actual arguments
		for _, qe := range q.Events {
			if qe.Kind == EvReturn {
				continue
			}
			ne := substEvent(qe, sub)
			p.resolveDyn(ne.CI)
			if ne.Loop == nil {
				ne.Loop = call.Loop
			}
			if ne.Kind == EvFact {
				ne.Fact = normFact(ne.Fact)
				if !addFactEvents(ne, facts, &events) {
					feasible = false
					break
				}
				continue
			}
			events = append(events, ne)
		}
		if !feasible {
			continue
		}
		if q.Exit == ExitPanic {
			out = append(out, &Path{Fn: f, Events: events, Exit: ExitPanic, Ret: nil, RetPos: q.RetPos})
			continue
		}
		rkey := call.Result.String()
		if call.Result.Op == "tuple" {
			// a pass-through wrapper: the remaining components name the plain call
			for _, el := range call.Result.A {
				if el.Op == "res" && len(el.A) == 2 {
					rkey = el.A[1].String()
				}
			}
		}
		sp := &splicer{p: p, rkey: rkey, out: map[int]*Term{}, args: call.CI.args, recv: call.CI.recv}
		for _, r := range q.Ret {
			sp.ret = append(sp.ret, sub(r))
		}
		for i, o := range q.Out {
			sp.out[i] = sub(o)
		}
		if hasErr && errIdx < len(sp.ret) {
			switch classifyErr(sp.ret[errIdx], facts) {
			case ExitSuccess:
				sp.okT = atom("#true")
			case ExitRevert:
				sp.okT = atom("#false")
			default:
				if cs := errSource(sp.ret[errIdx]); cs != nil {
					sp.okT = mk("ok", cs)
				}
			}
		}
		// the rest of the caller's path with the call's results bound
		postStart := len(events)
		for _, pe := range pa.Events[idx+1:] {
			ne := substEvent(pe, sp.rw)
			if ne.Kind == EvFact {
				ne.Fact = normFact(ne.Fact)
				if !addFactEvents(ne, facts, &events) {
					feasible = false
					break
				}
				continue
			}
			events = append(events, ne)
		}
		if !feasible {
			continue
		}
		np := &Path{Fn: f, Events: events, Exit: pa.Exit, RetPos: pa.RetPos}
		for _, r := range pa.Ret {
			np.Ret = append(np.Ret, sp.rw(r))
		}
		if pa.Out != nil {
			np.Out = map[int]*Term{}
			for i, o := range pa.Out {
				np.Out[i] = sp.rw(o)
			}
		}
		if pa.Exit != ExitPanic {
			if i, ok := f.hasErrorResult(); ok && i < len(np.Ret) {
				np.Exit = classifyErr(np.Ret[i], facts)
			}
		}
		// further inline targets later on the path (the spliced callee events were expanded already)
		out = append(out, p.spliceFrom(f, np, postStart)...)
	}
	return out
}

// captureMap: for a function literal, the enclosing function's parameters it captures (U_i) in the vocabulary
// of the expansion in progress: the value the enclosing function's parameter is bound to, else the parameter itself.
func (p *Prog) captureMap(host, g *Func, call *Event) map[string]*Term {
	if g.Lit == nil || g.Parent == nil {
		return nil
	}
	m := map[string]*Term{}
	// a literal that left its factory carries the factory's arguments with it
	if call != nil && call.CI != nil && call.CI.fun != nil && call.CI.fun.Is("func") && len(call.CI.fun.A) == 2 && call.CI.fun.A[1].Op == "env" {
		env := call.CI.fun.A[1]
		for i := range g.Parent.Params {
			if i < len(env.A) {
				m[fmt.Sprintf("U%d", i)] = env.A[i]
			}
		}
		return m
	}
	// a block of a sibling literal: the same captured variables under the same names
	if host != nil && host.Parent == g.Parent && host != g.Parent {
		return m
	}
	bind := p.spliceBind[g.Parent]
	for i, pr := range g.Parent.Params {
		u := fmt.Sprintf("U%d", i)
		if b, ok := bind[fmt.Sprintf("P%d", i)]; ok {
			m[u] = b
		} else {
			m[u] = atom(fmt.Sprintf("P%d", i)).withType(pr.Type()).withObj(pr)
		}
	}
	return m
}

// specialise enumerates the paths of g for one call: parameters are bound to the argument terms, the facts of
// the caller at the call are in force. The resulting events are in the caller's vocabulary.
func (p *Prog) specialise(g *Func, call *Event, facts FactSet) []*Path {
	if g.Body == nil || p.pathsBusy[g] {
		return nil
	}
	sig, _ := g.typeSig()
	args := call.CI.args
	if sig != nil && sig.Variadic() {
		np := sig.Params().Len()
		if len(args) < np-1 {
			return nil
		}
		if call.CI.spread {
			if len(args) != np {
				return nil
			}
			last := stripSpread(args[np-1])
			args = append(append([]*Term(nil), args[:np-1]...), last)
		} else {
			pack := &Term{Op: "lit", A: []*Term{atom(typeName(sig.Params().At(np - 1).Type()))}, Typ: sig.Params().At(np - 1).Type()}
			pack.A = append(pack.A, args[np-1:]...)
			args = append(append([]*Term(nil), args[:np-1]...), pack)
		}
	}
	if len(args) != len(g.Params) {
		return nil
	}
	p.pathsBusy[g] = true
	defer delete(p.pathsBusy, g)
	st := &pstate{vars: map[*types.Var]*Term{}, facts: facts.Clone(), visits: map[int32]int{}}
	st.ev = &evaluator{p: p, f: g, st: st, busy: map[*types.Var]bool{}}
	bind := map[string]*Term{}
	for i, pr := range g.Params {
		v := args[i]
		if pt, ok := types.Unalias(pr.Type()).(*types.Pointer); ok && namedStruct(pt.Elem()) != "" {
			v = stripAddr(v)
		}
		if isCtxType(pr.Type()) || isKeeperType(pr.Type()) {
			continue
		}
		st.vars[pr] = v
		bind[fmt.Sprintf("P%d", i)] = v
	}
	if g.Recv != nil && call.CI.recv != nil && !isKeeperType(g.Recv.Type()) {
		st.vars[g.Recv] = call.CI.recv
		bind["Precv"] = call.CI.recv
	}
	initNamedResults(g, st)
	if p.spliceBind == nil {
		p.spliceBind = map[*Func]map[string]*Term{}
	}
	oldBind, had := p.spliceBind[g]
	p.spliceBind[g] = bind
	defer func() {
		if had {
			p.spliceBind[g] = oldBind
		} else {
			delete(p.spliceBind, g)
		}
	}()
	var out []*Path
	ok := true
	func() {
		defer func() {
			if r := recover(); r != nil {
				if _, is := r.(tooManyPaths); is {
					ok = false
					return
				}
				panic(r)
			}
		}()
		cg := g.CFG()
		if len(cg.Blocks) > 0 {
			p.walk(g, cg.Blocks[0], st, &out)
		}
	}()
	if !ok || len(out) == 0 || len(out) > maxSplicedPaths {
		return nil
	}
	return p.splice(g, out)
}

// decisionPaths: the paths of f in which every singly-referenced callee that itself decides between the effects a
// rule reasons about (at least two role effects under different guards) is walked in place, so that the rule sees the
// decision together with the facts it is taken under. Where f's own code takes the decision these are f's paths.
func (c *Check) decisionPaths(f *Func, role func(*Eff) bool) []*Path {
	base := c.P.PathsOf(f)
	rc := c.P.refCount()
	force := map[*Func]bool{}
	for _, pa := range base {
		for _, ev := range pa.Events {
			if ev.Kind != EvCall || ev.CI.fn == nil {
				continue
			}
			g := ev.CI.fn
			if force[g] || g == f || !g.isHandWritten() || g.Body == nil || g.Obj == nil || c.P.inlineTarget(g) || c.P.pathsBusy[g] {
				continue
			}
			if rc[g.Obj] != 1 || c.P.refsOther[g.Obj] > 0 {
				continue
			}
			guards := map[string]bool{}
			n := 0
			for _, e := range c.P.SummaryOf(g).Effs {
				if !role(e) {
					continue
				}
				n++
				guards[strings.Join(e.Guards.Sorted(), " & ")] = true
			}
			if n >= 2 && len(guards) >= 2 {
				force[g] = true
			}
		}
	}
	if len(force) == 0 {
		return base
	}
	if c.P.forceSplice == nil {
		c.P.forceSplice = map[*Func]map[*Func]bool{}
	}
	c.P.forceSplice[f] = force
	defer delete(c.P.forceSplice, f)
	return c.P.splice(f, base)
}

// constModeParam: g has a parameter of a basic (or named basic) type for which every call site in the module passes
// a compile-time constant.
func (p *Prog) constModeParam(g *Func) bool {
	if g.Obj == nil {
		return false
	}
	cand := map[int]bool{}
	for i, pr := range g.Params {
		if _, ok := pr.Type().Underlying().(*types.Basic); ok && !isCtxType(pr.Type()) {
			cand[i] = true
		}
	}
	if len(cand) == 0 {
		return false
	}
	nCalls := 0
	for _, f := range p.Funcs {
		if f.Body == nil || f.Parent != nil || !f.isHandWritten() {
			continue
		}
		info := f.Pkg.TypesInfo
		ast.Inspect(f.Body, func(n ast.Node) bool {
			call, ok := n.(*ast.CallExpr)
			if !ok {
				return true
			}
			if fo, _ := typeutil.Callee(info, call).(*types.Func); fo != g.Obj {
				return true
			}
			nCalls++
			for i := range cand {
				if i >= len(call.Args) || call.Ellipsis.IsValid() {
					delete(cand, i)
					continue
				}
				if tv, ok := info.Types[call.Args[i]]; !ok || tv.Value == nil {
					delete(cand, i)
				}
			}
			return true
		})
	}
	return nCalls >= 2 && len(cand) > 0
}

// roleValueFunc: a keeper function Pricing → Coins (the minimum deposit a pricing requires): its value is compared
// as a whole, so it is never walked in place.
func roleValueFunc(g *Func) bool {
	if g.pkgName() != "keeper" || len(g.Res) != 1 || typeName(g.Res[0].Type()) != "sdk.Coins" {
		return false
	}
	for _, pr := range g.Params {
		if namedStruct(pr.Type()) == "Pricing" {
			return true
		}
	}
	return false
}
