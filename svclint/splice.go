package main

// Path splicing. An unexported module function that is referenced exactly once, by a direct call, is
// an extracted block of its caller: the caller's paths are enumerated with that callee's paths spliced
// in at the call (parameters bound to the arguments, the call's results bound to what the callee path
// returns, the combination dropped when a later branch fact is refuted). Rules that read the events,
// facts and effects of a unit therefore see the same thing whether a block is written in line or has
// been moved into a private helper, and such a helper is not analysed as a unit of its own.

import (
	"fmt"
	"go/ast"
	"go/types"
	"strconv"
)

// inlineTarget: g is spliced into its only caller.
func (p *Prog) inlineTarget(g *Func) bool {
	if g == nil {
		return false
	}
	if v, ok := p.inlineMemo[g]; ok {
		return v
	}
	v := func() bool {
		if g.Decl == nil || g.Obj == nil || g.Body == nil || !g.isHandWritten() || g.Obj.Exported() {
			return false
		}
		if pk := g.pkgName(); pk != "keeper" && pk != "service" && pk != "types" {
			return false
		}
		return p.refCount()[g.Obj] == 1
	}()
	p.inlineMemo[g] = v
	return v
}

// refCount counts, per module function, the references from non-test code; a reference that is not the
// callee of a direct call (a method value, a function value) counts twice so that it never equals one.
func (p *Prog) refCount() map[*types.Func]int {
	if p.refs != nil {
		return p.refs
	}
	p.refs = map[*types.Func]int{}
	for _, f := range p.Funcs {
		if f.Body == nil || f.Parent != nil {
			continue
		}
		info := f.Pkg.TypesInfo
		callFun := map[*ast.Ident]bool{}
		ast.Inspect(f.Body, func(n ast.Node) bool {
			if c, ok := n.(*ast.CallExpr); ok {
				switch fn := ast.Unparen(c.Fun).(type) {
				case *ast.Ident:
					callFun[fn] = true
				case *ast.SelectorExpr:
					callFun[fn.Sel] = true
				}
			}
			return true
		})
		ast.Inspect(f.Body, func(n ast.Node) bool {
			if id, ok := n.(*ast.Ident); ok {
				if fo, ok := info.Uses[id].(*types.Func); ok {
					if p.refCaller == nil {
						p.refCaller = map[*types.Func]*Func{}
					}
					p.refCaller[fo] = f
					if callFun[id] {
						p.refs[fo]++
					} else {
						p.refs[fo] += 2
					}
				}
			}
			// a dispatcher's "case X: return handle(...)" arms are entry points, not extracted blocks
			if cc, ok := n.(*ast.CaseClause); ok {
				for _, st := range cc.Body {
					rs, ok := st.(*ast.ReturnStmt)
					if !ok || len(rs.Results) != 1 {
						continue
					}
					if c, ok := ast.Unparen(rs.Results[0]).(*ast.CallExpr); ok {
						var id *ast.Ident
						switch fn := ast.Unparen(c.Fun).(type) {
						case *ast.Ident:
							id = fn
						case *ast.SelectorExpr:
							id = fn.Sel
						}
						if id != nil {
							if fo, ok := info.Uses[id].(*types.Func); ok {
								p.refs[fo] += 2
							}
						}
					}
				}
			}
			return true
		})
	}
	return p.refs
}

// inlineHost: the function whose paths contain f's body (f itself unless f is an inline target).
func (p *Prog) inlineHost(f *Func) *Func {
	for i := 0; i < 8 && f != nil && p.inlineTarget(f); i++ {
		h := p.refCaller[f.Obj]
		if h == nil {
			break
		}
		f = h
	}
	return f
}

type splicer struct {
	p    *Prog
	rkey string
	ret  []*Term
	out  map[int]*Term
	args []*Term
	okT  *Term // value of (ok call): #true, #false or (ok inner-call); nil if the callee has no error result
}

func (sp *splicer) rw(t *Term) *Term {
	if t == nil {
		return nil
	}
	if t.Op == "" {
		return t
	}
	switch {
	case t.Op == "res" && len(t.A) == 2 && t.A[1].String() == sp.rkey:
		if k, err := strconv.Atoi(t.A[0].At); err == nil && k < len(sp.ret) {
			return sp.ret[k]
		}
	case t.Op == "out" && len(t.A) == 2 && t.A[0].String() == sp.rkey:
		if i, err := strconv.Atoi(t.A[1].At); err == nil {
			if o, ok := sp.out[i]; ok {
				return o
			}
			if i < len(sp.args) {
				return stripAddr(sp.args[i])
			}
		}
	case t.Op == "ok" && len(t.A) == 1 && sp.okT != nil && t.A[0].String() == sp.rkey:
		return sp.okT
	}
	if len(sp.ret) == 1 && t.String() == sp.rkey {
		return sp.ret[0]
	}
	changed := false
	na := make([]*Term, len(t.A))
	for i, a := range t.A {
		na[i] = sp.rw(a)
		if na[i] != a {
			changed = true
		}
	}
	if !changed {
		return t
	}
	return simplify(&Term{Op: t.Op, A: na, Typ: t.Typ, Obj: t.Obj, Pos: t.Pos})
}

func substCI(ci *callInfo, f func(*Term) *Term) *callInfo {
	if ci == nil {
		return nil
	}
	n := *ci
	n.recv = f(ci.recv)
	n.fun = f(ci.fun)
	n.args = make([]*Term, len(ci.args))
	for i, a := range ci.args {
		n.args[i] = f(a)
	}
	return &n
}

// resolveDyn: a dynamic call whose function value became a known literal after substitution.
func (p *Prog) resolveDyn(ci *callInfo) {
	if ci != nil && ci.name == "dyn" && ci.fn == nil && ci.fun != nil && ci.fun.Is("func") && len(ci.fun.A) >= 1 {
		ci.fn = p.FuncNamed(ci.fun.A[0].At)
		if len(ci.fun.A) == 2 {
			ci.recv = ci.fun.A[1]
		}
	}
}

func substEvent(ev *Event, f func(*Term) *Term) *Event {
	n := *ev
	n.CI = substCI(ev.CI, f)
	n.Result = f(ev.Result)
	n.Val = f(ev.Val)
	n.Old = f(ev.Old)
	n.Base = f(ev.Base)
	if ev.Kind == EvFact {
		n.Fact = Fact{T: f(ev.Fact.T), Neg: ev.Fact.Neg}
	}
	if len(ev.Local) > 0 {
		n.Local = make([]Fact, len(ev.Local))
		for i, lf := range ev.Local {
			n.Local[i] = normFact(Fact{T: f(lf.T), Neg: lf.Neg})
		}
	}
	return &n
}

// addFactEvents re-derives the facts of a rewritten fact event; false if the fact is refuted.
func addFactEvents(ev *Event, facts FactSet, out *[]*Event) bool {
	t := boolSimplify(ev.Fact.T)
	for _, nf := range condFacts(t, !ev.Fact.Neg) {
		if nf.T.IsAt("#true") || nf.T.IsAt("#false") {
			if nf.T.IsAt("#true") == nf.Neg {
				return false
			}
			continue
		}
		switch decideFact(nf, facts) {
		case 0:
			return false
		case 1:
			continue
		}
		if facts.Has(nf) {
			continue
		}
		facts.Add(nf)
		n := *ev
		n.Fact = nf
		*out = append(*out, &n)
	}
	return true
}

const maxSplicedPaths = 4000

// splice expands the calls of inline targets in the raw paths of f.
func (p *Prog) splice(f *Func, raw []*Path) []*Path {
	need := false
	for _, pa := range raw {
		for _, ev := range pa.Events {
			if ev.Kind == EvCall && !ev.Defer && ev.CI.fn != nil && ev.CI.fn != f && p.inlineTarget(ev.CI.fn) {
				need = true
			}
		}
	}
	if !need {
		return raw
	}
	var out []*Path
	for _, pa := range raw {
		res := p.spliceFrom(f, pa, 0)
		out = append(out, res...)
		if len(out) > maxSplicedPaths {
			p.undecided = append(p.undecided, fmt.Sprintf("function %s exceeds %d spliced paths", f.Name, maxSplicedPaths))
			return raw
		}
	}
	return out
}

// spliceFrom expands the first inline-target call at or after event index from.
func (p *Prog) spliceFrom(f *Func, pa *Path, from int) []*Path {
	idx := -1
	for i := from; i < len(pa.Events); i++ {
		ev := pa.Events[i]
		if ev.Kind == EvCall && !ev.Defer && ev.CI.fn != nil && ev.CI.fn != f && p.inlineTarget(ev.CI.fn) && !p.pathsBusy[ev.CI.fn] {
			idx = i
			break
		}
	}
	if idx < 0 {
		return []*Path{pa}
	}
	call := pa.Events[idx]
	g := call.CI.fn
	gpaths := p.PathsOf(g)
	if len(gpaths) == 0 {
		return p.spliceFrom(f, pa, idx+1)
	}
	m := map[string]*Term{}
	for i, a := range call.CI.args {
		m[fmt.Sprintf("P%d", i)] = a
		if i < len(g.Params) {
			if pt, ok := types.Unalias(g.Params[i].Type()).(*types.Pointer); ok && namedStruct(pt.Elem()) != "" {
				m[fmt.Sprintf("P%d", i)] = stripAddr(a)
			}
		}
	}
	if call.CI.recv != nil {
		m["Precv"] = call.CI.recv
	}
	sub := func(t *Term) *Term {
		if t == nil {
			return nil
		}
		return t.Subst(m)
	}
	errIdx, hasErr := g.hasErrorResult()
	var out []*Path
	for _, q := range gpaths {
		facts := pa.FactsBefore(idx)
		events := append([]*Event(nil), pa.Events[:idx]...)
		feasible := true
		// the callee's events on the actual arguments
		for _, qe := range q.Events {
			if qe.Kind == EvReturn {
				continue
			}
			ne := substEvent(qe, sub)
			p.resolveDyn(ne.CI)
			if ne.Loop == nil {
				ne.Loop = call.Loop
			}
			if ne.Kind == EvFact {
				ne.Fact = normFact(ne.Fact)
				if !addFactEvents(ne, facts, &events) {
					feasible = false
					break
				}
				continue
			}
			events = append(events, ne)
		}
		if !feasible {
			continue
		}
		if q.Exit == ExitPanic {
			out = append(out, &Path{Fn: f, Events: events, Exit: ExitPanic, Ret: nil, RetPos: q.RetPos})
			continue
		}
		rkey := call.Result.String()
		if call.Result.Op == "tuple" {
			// a pass-through wrapper: the remaining components name the plain call
			for _, el := range call.Result.A {
				if el.Op == "res" && len(el.A) == 2 {
					rkey = el.A[1].String()
				}
			}
		}
		sp := &splicer{p: p, rkey: rkey, out: map[int]*Term{}, args: call.CI.args}
		for _, r := range q.Ret {
			sp.ret = append(sp.ret, sub(r))
		}
		for i, o := range q.Out {
			sp.out[i] = sub(o)
		}
		if hasErr && errIdx < len(sp.ret) {
			switch classifyErr(sp.ret[errIdx], facts) {
			case ExitSuccess:
				sp.okT = atom("#true")
			case ExitRevert:
				sp.okT = atom("#false")
			default:
				if cs := errSource(sp.ret[errIdx]); cs != nil {
					sp.okT = mk("ok", cs)
				}
			}
		}
		// the rest of the caller's path with the call's results bound
		postStart := len(events)
		for _, pe := range pa.Events[idx+1:] {
			ne := substEvent(pe, sp.rw)
			if ne.Kind == EvFact {
				ne.Fact = normFact(ne.Fact)
				if !addFactEvents(ne, facts, &events) {
					feasible = false
					break
				}
				continue
			}
			events = append(events, ne)
		}
		if !feasible {
			continue
		}
		np := &Path{Fn: f, Events: events, Exit: pa.Exit, RetPos: pa.RetPos}
		for _, r := range pa.Ret {
			np.Ret = append(np.Ret, sp.rw(r))
		}
		if pa.Out != nil {
			np.Out = map[int]*Term{}
			for i, o := range pa.Out {
				np.Out[i] = sp.rw(o)
			}
		}
		if pa.Exit != ExitPanic {
			if i, ok := f.hasErrorResult(); ok && i < len(np.Ret) {
				np.Exit = classifyErr(np.Ret[i], facts)
			}
		}
		// further inline targets later on the path (the spliced callee events were expanded already)
		out = append(out, p.spliceFrom(f, np, postStart)...)
	}
	return out
}

