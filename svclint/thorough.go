package main

// Thorough tier (DESIGN.md §7): second build context, independent call-graph
// cross-check, generic-tool cross-reference, assumption audit over the pinned
// dependencies, and the seeded-change self-test (recorded, never affects the verdict).

import (
	"bytes"
	"encoding/json"
	"fmt"
	"go/ast"
	"go/token"
	"go/types"
	"os"
	"os/exec"
	"path/filepath"
	"sort"
	"strings"
	"sync"
	"time"

	"golang.org/x/tools/go/callgraph"
	"golang.org/x/tools/go/callgraph/cha"
	"golang.org/x/tools/go/callgraph/vta"
	"golang.org/x/tools/go/packages"
	"golang.org/x/tools/go/ssa"
	"golang.org/x/tools/go/ssa/ssautil"
)

func thoroughRun(c *Check) {
	th := map[string]interface{}{}
	t0 := time.Now()
	th["second_build_context"] = secondContext(c)
	th["callgraph_crosscheck"] = callgraphCrossCheck(c)
	th["generic_tools"] = genericTools(c)
	th["assumption_audit"] = assumptionAudit(c)
	th["seeded_selftest"] = seededSelfTest(c)
	th["wall_s"] = time.Since(t0).Seconds()
	c.setInfo("thorough", th)
}

func toolEnv() []string {
	return append(os.Environ(), "GOFLAGS=-mod=mod", "GOPROXY=off", "GOSUMDB=off", "GOTOOLCHAIN=local", "GOWORK=off")
}

// secondContext re-runs the property's rules on a GOARCH=386 load (covers
// build-tagged files) and compares the verdict table with the primary run.
func secondContext(c *Check) map[string]interface{} {
	out := map[string]interface{}{"goarch": "386"}
	p2 := loadProg(c.P.Dir, false, "386")
	c2 := &Check{P: p2, Prop: c.Prop, Tier: "quick", start: time.Now(), info: map[string]interface{}{}, assum: map[string]bool{}}
	rules[c.Prop](c2)
	commonPreconditions(c2)
	dynResolver = c.P.resolveDynCalls // the resolver follows the primary program again
	elemResolver = c.P.resolveElem
	verd := func(x *Check) map[string]bool {
		m := map[string]bool{}
		for _, o := range x.Obls {
			k := o.Rule + "|" + o.Construct
			if old, ok := m[k]; ok {
				m[k] = old && o.OK
			} else {
				m[k] = o.OK
			}
		}
		return m
	}
	a, b := verd(c), verd(c2)
	var diff []string
	for k, v := range a {
		if w, ok := b[k]; !ok || w != v {
			diff = append(diff, k)
		}
	}
	for k := range b {
		if _, ok := a[k]; !ok {
			diff = append(diff, k)
		}
	}
	sort.Strings(diff)
	out["obligations"] = len(c2.Obls)
	out["differences"] = diff
	out["files"] = p2.Stats.Files
	for _, d := range diff {
		c.fail(c.Prop+".thorough", "goarch-386:"+d, token.NoPos, "the verdict of this obligation differs under GOARCH=386 (build-tagged source)")
	}
	if len(diff) == 0 {
		c.ok(c.Prop+".thorough", "goarch-386", token.NoPos, fmt.Sprintf("the %d obligations have the same verdicts under GOARCH=386", len(c2.Obls)))
	}
	return out
}

// callgraphCrossCheck builds go/ssa + VTA (seeded by CHA) for the module packages and checks that
// every module function VTA reaches from the entry points is also in the conservative reference-based
// reachability the rules use (so no consensus-reachable function escapes the inventories).
func callgraphCrossCheck(c *Check) map[string]interface{} {
	out := map[string]interface{}{}
	prog, _ := ssautil.Packages(c.P.Pkgs, ssa.InstantiateGenerics)
	prog.Build()
	all := ssautil.AllFunctions(prog)
	cg := vta.CallGraph(all, cha.CallGraph(prog))
	byPos := map[token.Pos]*Func{}
	for _, f := range c.P.Funcs {
		if f.Body != nil {
			byPos[f.Body.Pos()] = f
		}
	}
	toFunc := func(fn *ssa.Function) *Func {
		if fn == nil || fn.Syntax() == nil {
			return nil
		}
		switch s := fn.Syntax().(type) {
		case *ast.FuncDecl:
			if s.Body != nil {
				return byPos[s.Body.Pos()]
			}
		case *ast.FuncLit:
			return byPos[s.Body.Pos()]
		}
		return nil
	}
	roots := []string{"service.NewHandler", "service.EndBlocker", "service.InitGenesis"}
	vtaReach := map[*Func]bool{}
	var visit func(n *callgraph.Node)
	seen := map[*callgraph.Node]bool{}
	visit = func(n *callgraph.Node) {
		if n == nil || seen[n] {
			return
		}
		seen[n] = true
		if f := toFunc(n.Func); f != nil {
			vtaReach[f] = true
		}
		for _, e := range n.Out {
			visit(e.Callee)
		}
		// closures created inside a reachable function are reachable when called; VTA has edges for those
	}
	for fn := range all {
		if f := toFunc(fn); f != nil {
			for _, r := range roots {
				if f.Name == r {
					visit(cg.Nodes[fn])
				}
			}
		}
	}
	r := c.reachSets()
	var missing []string
	n := 0
	for f := range vtaReach {
		if !f.isHandWritten() || !strings.HasPrefix(f.Pkg.PkgPath, modPath) {
			continue
		}
		n++
		if !r.consensus(f) {
			missing = append(missing, f.Name)
		}
	}
	sort.Strings(missing)
	out["vta_reachable_module_functions"] = n
	out["not_in_rule_reachability"] = missing
	out["edges"] = func() int {
		k := 0
		for _, nd := range cg.Nodes {
			k += len(nd.Out)
		}
		return k
	}()
	if len(missing) > 0 {
		c.fail(c.Prop+".thorough", "reachability-crosscheck", token.NoPos, "functions reachable by the VTA call graph but not by the rules' reachability: "+strings.Join(missing, ", "))
	} else {
		c.ok(c.Prop+".thorough", "reachability-crosscheck", token.NoPos, fmt.Sprintf("all %d module functions VTA reaches from handler/EndBlocker/InitGenesis are covered by the rules' reachability", n))
	}
	return out
}

// genericTools runs the pre-built generic analysers as a cross-reference (never a verdict).
func genericTools(c *Check) map[string]interface{} {
	out := map[string]interface{}{}
	run := func(name string, args ...string) string {
		if _, err := exec.LookPath(name); err != nil {
			return "not installed"
		}
		cmd := exec.Command(name, args...)
		cmd.Dir = c.P.Dir
		cmd.Env = toolEnv()
		var buf bytes.Buffer
		cmd.Stdout, cmd.Stderr = &buf, &buf
		done := make(chan error, 1)
		go func() { done <- cmd.Run() }()
		select {
		case <-done:
		case <-time.After(240 * time.Second):
			cmd.Process.Kill()
			return "timeout"
		}
		s := strings.TrimSpace(buf.String())
		if len(s) > 3000 {
			s = s[:3000] + "…"
		}
		return s
	}
	out["staticcheck"] = run("staticcheck", "-checks", "SA*", ".", "./keeper", "./types")
	out["errcheck_blank"] = run("errcheck", "-blank", ".", "./keeper", "./types")
	out["go_vet"] = run("go", "vet", ".", "./keeper", "./types")
	return out
}

// assumptionAudit re-checks structural facts behind A-SDK / A-SIGNER20 in the pinned dependency sources.
func assumptionAudit(c *Check) map[string]interface{} {
	out := map[string]interface{}{}
	cfgp := &packages.Config{
		Mode: packages.NeedName | packages.NeedFiles | packages.NeedCompiledGoFiles | packages.NeedImports | packages.NeedDeps |
			packages.NeedTypes | packages.NeedSyntax | packages.NeedTypesInfo | packages.NeedTypesSizes | packages.NeedModule,
		Dir: c.P.Dir, Env: toolEnv(), Fset: token.NewFileSet(),
	}
	pkgs, err := packages.Load(cfgp, "github.com/cosmos/cosmos-sdk/types", "github.com/cosmos/cosmos-sdk/store/types", "github.com/cosmos/cosmos-sdk/baseapp", "github.com/cosmos/cosmos-sdk/x/bank/types")
	if err != nil {
		out["error"] = err.Error()
		return out
	}
	find := func(pk *packages.Package, name string) *ast.FuncDecl {
		for _, f := range pk.Syntax {
			for _, d := range f.Decls {
				if fd, ok := d.(*ast.FuncDecl); ok && fd.Body != nil {
					n := fd.Name.Name
					if fd.Recv != nil && len(fd.Recv.List) == 1 {
						n = types.ExprString(fd.Recv.List[0].Type) + "." + n
					}
					if n == name {
						return fd
					}
				}
			}
		}
		return nil
	}
	calls := func(fd *ast.FuncDecl) []string {
		var out []string
		if fd == nil {
			return nil
		}
		ast.Inspect(fd.Body, func(n ast.Node) bool {
			if ce, ok := n.(*ast.CallExpr); ok {
				out = append(out, types.ExprString(ce.Fun))
			}
			return true
		})
		return out
	}
	has := func(list []string, sub string) bool {
		for _, s := range list {
			if strings.Contains(s, sub) {
				return true
			}
		}
		return false
	}
	for _, pk := range pkgs {
		switch pk.PkgPath {
		case "github.com/cosmos/cosmos-sdk/types":
			if k, ok := pk.Types.Scope().Lookup("AddrLen").(*types.Const); ok {
				out["sdk.AddrLen"] = k.Val().ExactString()
			}
			if fd := find(pk, "KVStorePrefixIterator"); fd != nil {
				out["KVStorePrefixIterator uses PrefixEndBytes"] = has(calls(fd), "PrefixEndBytes")
			}
			out["VerifyAddressFormat checks AddrLen"] = func() bool {
				fd := find(pk, "VerifyAddressFormat")
				ok := false
				if fd != nil {
					ast.Inspect(fd.Body, func(n ast.Node) bool {
						if id, isId := n.(*ast.Ident); isId && id.Name == "AddrLen" {
							ok = true
						}
						return true
					})
				}
				return ok
			}()
		case "github.com/cosmos/cosmos-sdk/store/types":
			if fd := find(pk, "KVStorePrefixIterator"); fd != nil {
				out["KVStorePrefixIterator uses PrefixEndBytes"] = has(calls(fd), "PrefixEndBytes")
			}
		case "github.com/cosmos/cosmos-sdk/baseapp":
			cs := calls(find(pk, "*BaseApp.runTx"))
			iv, ir := -1, -1
			for i, s := range cs {
				if strings.Contains(s, "validateBasicTxMsgs") && iv < 0 {
					iv = i
				}
				if strings.Contains(s, "runMsgs") && ir < 0 {
					ir = i
				}
			}
			out["baseapp.runTx validates messages before running them"] = iv >= 0 && ir > iv
			out["baseapp.runTx writes the message cache conditionally"] = has(cs, "msCache.Write")
		case "github.com/cosmos/cosmos-sdk/x/bank/types":
			out["bank MsgSend.ValidateBasic verifies address format"] = has(calls(find(pk, "MsgSend.ValidateBasic")), "VerifyAddressFormat")
		}
	}
	// module account permissions in the simapp
	if app := c.P.ByPkg[modPath+"/app"]; app != nil {
		burner := false
		for _, f := range app.Syntax {
			ast.Inspect(f, func(n ast.Node) bool {
				if kv, ok := n.(*ast.KeyValueExpr); ok && strings.Contains(types.ExprString(kv.Key), "DepositAccName") {
					ast.Inspect(kv.Value, func(m ast.Node) bool {
						if id, ok := m.(*ast.Ident); ok && id.Name == "Burner" {
							burner = true
						}
						return true
					})
				}
				return true
			})
		}
		out["simapp grants Burner to the deposit account"] = burner
	}
	return out
}

// seededSelfTest applies every seeded change recorded for this property to a scratch copy and records
// whether this check reports it. Informational: never affects the exit code.
func seededSelfTest(c *Check) map[string]interface{} {
	out := map[string]interface{}{}
	dirs, _ := filepath.Glob(filepath.Join(verifDir(), "seeded", "*"))
	sort.Strings(dirs)
	self, _ := os.Executable()
	// the changes seeded for this property (with rules shared between properties, "every change this check reports" would
	// be most of the corpus), eight at a time
	var own []string
	for _, d := range dirs {
		metaB, err := os.ReadFile(filepath.Join(d, "meta.json"))
		if err != nil {
			continue
		}
		var meta map[string]interface{}
		json.Unmarshal(metaB, &meta)
		if fmt.Sprint(meta["property"]) != c.Prop {
			continue
		}
		own = append(own, d)
	}
	var mu sync.Mutex
	var wg sync.WaitGroup
	sem := make(chan struct{}, 8)
	for _, d := range own {
		d := d
		wg.Add(1)
		sem <- struct{}{}
		go func() {
			defer wg.Done()
			defer func() { <-sem }()
			w, err := os.MkdirTemp("", "svclint-seeded-")
			if err != nil {
				return
			}
			res := "error"
			func() {
				defer os.RemoveAll(w)
				repo := filepath.Join(w, "repo")
				vdir := filepath.Join(w, "verif")
				os.MkdirAll(filepath.Join(vdir, "evidence"), 0o755)
				cp := exec.Command("sh", "-c", "git ls-files -z | xargs -0 cp --parents -t "+repo)
				os.MkdirAll(repo, 0o755)
				cp.Dir = c.P.Dir
				if err := cp.Run(); err != nil {
					return
				}
				ap := exec.Command("git", "apply", "--whitespace=nowarn", filepath.Join(d, "patch.diff"))
				ap.Dir = repo
				if err := ap.Run(); err != nil {
					res = "patch does not apply to the current tree"
					return
				}
				if kb, err := os.ReadFile(filepath.Join(verifDir(), "KNOWN_FINDINGS.txt")); err == nil {
					os.WriteFile(filepath.Join(vdir, "KNOWN_FINDINGS.txt"), kb, 0o644)
				}
				cmd := exec.Command(self, "check", "-p", c.Prop, "-tier", "quick")
				cmd.Env = append(toolEnv(), "SVCLINT_REPO="+repo, "SVCLINT_VERIF="+vdir)
				var buf bytes.Buffer
				cmd.Stdout = &buf
				cmd.Run()
				var hits []string
				for _, ln := range strings.Split(buf.String(), "\n") {
					if i := strings.Index(ln, "rule="); i >= 0 && strings.Contains(ln, "construct=") {
						hits = append(hits, strings.Fields(ln[i:])[0])
					}
				}
				if len(hits) > 0 {
					res = "reported: " + strings.Join(uniq(sortStrings(hits)), " ")
				} else {
					res = "NOT reported by this check"
				}
			}()
			mu.Lock()
			out[filepath.Base(d)] = res
			mu.Unlock()
		}()
	}
	wg.Wait()
	return out
}
