package main

// Per-path analysis of functions that persist a state struct (ServiceBinding,
// RequestContext): what is stored, which custody effects accompany it, under
// which facts. Shared by C03, C04, C09, C12, C14, C15.

import (
	"fmt"
	"go/token"
	"go/types"
	"strings"
)

// PersistPath describes one committed path of a function that writes a record.
type PersistPath struct {
	Fn     *Func
	Path   *Path
	Stored []*Term // struct values persisted on the path (in order)
	SetEvs []*Event
	Facts  FactSet
	Bank   []*Eff         // bank effects on the path (instantiated, in order)
	Calls  map[string]int // effect descriptors seen on the path
}

// structIn finds the struct value of the given named type inside a stored value term.
func structIn(val *Term, typ string) *Term {
	var hit *Term
	val.Walk(func(t *Term) bool {
		if hit != nil {
			return false
		}
		if t.Op == "&" && len(t.A) == 1 && namedStruct(t.A[0].Typ) == typ {
			hit = t.A[0]
			return false
		}
		// a pointer parameter handed straight to the encoder stands for the struct it points to
		if (t.Op == "with" || t.Op == "lit" || t.Op == "res" || (t.Op == "" && strings.HasPrefix(t.At, "P"))) && namedStruct(t.Typ) == typ && t.Typ != nil {
			if _, isPtr := t.Typ.(*types.Pointer); isPtr || t.Op == "with" {
				hit = t
				return false
			}
		}
		return true
	})
	return hit
}

func field(structType, f string, base *Term) *Term {
	return simplify(&Term{Op: "." + structType + "." + f, A: []*Term{base}})
}

// baseOf strips field updates: the value the struct was derived from.
func baseOf(t *Term) *Term {
	for t != nil && t.Op == "with" {
		t = t.A[0]
	}
	return t
}

// givenRecord: the base of a stored record is a value the function was handed (a parameter, or an element / field
// of one — a record of the genesis state being imported): a plain setter or the genesis import, judged elsewhere.
func givenRecord(L *Term) bool {
	for L != nil {
		L = stripConv(L)
		switch {
		case L.Op == "" && strings.HasPrefix(L.At, "P"):
			return true
		case (L.Op == "elem" || L.Op == "deref") && len(L.A) == 1:
			L = L.A[0]
		case strings.HasPrefix(L.Op, ".") && len(L.A) == 1:
			L = L.A[0]
		default:
			return false
		}
	}
	return false
}

// writtenFields lists the fields overridden in a (with ...) term.
func writtenFields(t *Term) map[string]*Term {
	out := map[string]*Term{}
	for t != nil && t.Op == "with" {
		for _, kv := range t.A[1:] {
			if _, dup := out[kv.Op]; !dup {
				out[kv.Op] = kv.A[0]
			}
		}
		t = t.A[0]
	}
	return out
}

// persistUnits returns the functions that persist records of the family with
// the setter at distance <= 1, with their committed paths analysed.
func (c *Check) persistUnits(family, structType string) map[*Func][]*PersistPath {
	out := map[*Func][]*PersistPath{}
	getter := c.getterByType(structType)
	for _, f := range c.handFuncs("keeper", "service") {
		// a handler whose decisions live in a function that is walked in place for the handler's own rules: the
		// records are that function's
		if len(c.P.forceSplice[f]) > 0 {
			continue
		}
		// is f a unit? it has a call event whose effects include Set family at chain <= 1
		// and f itself is not the plain setter (a setter stores its parameter unchanged)
		isUnit := false
		for _, e := range c.P.SummaryOf(f).Effs {
			if e.Kind == "store" && e.Op == "Set" && e.Family == family {
				if sv := structIn(e.Val, structType); sv != nil {
					if sv.Op == "" && strings.HasPrefix(sv.At, "P") {
						continue // plain setter
					}
					if len(e.Chain) >= 1 && !c.passedThroughCallee(e, structType) {
						continue // the callee builds the stored value itself: the callee is the unit
					}
					// at a distance from the setter only a value this function builds or modifies makes it the unit
					// (an element of a list it was given, handed on as it is, does not)
					if len(e.Chain) >= 2 && sv.Op != "with" && sv.Op != "lit" {
						continue
					}
					isUnit = true
				}
			}
		}
		if !isUnit {
			continue
		}
		for _, pa := range c.P.PathsOf(f) {
			if !pa.OK() {
				continue
			}
			pp := &PersistPath{Fn: f, Path: pa, Facts: c.closeFacts(pa.AllFacts()), Calls: map[string]int{}}
			written := map[string]*Term{} // key arguments -> value stored under them so far on this path
			for i, ev := range pa.Events {
				if ev.Kind != EvCall {
					continue
				}
				for _, e := range c.P.effectsOfEvent(f, ev) {
					if !e.Commit {
						continue
					}
					if c.effRefutedOnPath(pa, i, e) {
						continue
					}
					pp.Calls[effDesc(e)]++
					if e.Kind == "bank" {
						pp.Bank = append(pp.Bank, e)
					}
					if e.Kind == "store" && e.Op == "Set" && e.Family == family {
						// a context value a callee builds itself is that callee's write, judged by its role on the callee's own
						// paths (pause-for-funds, skip, complete); for bindings the path's last stored value is what the deposit
						// and availability rules judge, whoever builds it
						if structType == "RequestContext" && len(e.Chain) >= 1 && !c.passedThroughCallee(e, structType) {
							continue
						}
						if sv := structIn(e.Val, structType); sv != nil {
							// a record read back after it was stored earlier on this path is the value stored then
							sv = forwardStored(sv, getter, written)
							pp.Stored = append(pp.Stored, sv)
							pp.SetEvs = append(pp.SetEvs, ev)
							if ks := keyArgs(e); len(ks) > 0 {
								written[fmtTerms(ks)] = sv
							}
						}
					}
				}
			}
			out[f] = append(out[f], pp)
		}
	}
	return out
}

func unitConstruct(f *Func, what string) string { return f.Name + "#" + what }

// bankOn filters bank effects touching the given module account.
func bankOn(effs []*Eff, account string) []*Eff {
	var out []*Eff
	for _, e := range effs {
		if isModuleAccount(e.From, account) || isModuleAccount(e.To, account) {
			out = append(out, e)
		}
	}
	return out
}

func termsEq(a, b *Term) bool {
	if a == nil || b == nil {
		return false
	}
	return deepStripConv(stripSpreadDeep(a)).String() == deepStripConv(stripSpreadDeep(b)).String()
}

func stripSpreadDeep(t *Term) *Term {
	if t == nil {
		return nil
	}
	t = stripSpread(t)
	if t.Op == "" {
		return t
	}
	na := make([]*Term, len(t.A))
	for i, a := range t.A {
		na[i] = stripSpreadDeep(a)
	}
	return &Term{Op: t.Op, A: na, Typ: t.Typ, Obj: t.Obj, Pos: t.Pos}
}

// paramGetter finds the keeper function that reads the given parameter key.
func (c *Check) paramGetter(key string) *Func {
	// the function that reads this key and as few other keys as possible (the dedicated getter, not the
	// function that assembles the whole parameter set)
	var best *Func
	bestN := 0
	for _, f := range c.handFuncs("keeper") {
		reads := map[string]bool{}
		hit := false
		for _, pa := range c.P.PathsOf(f) {
			for _, ev := range pa.Events {
				if ev.Kind == EvCall && strings.HasSuffix(ev.CI.name, "Subspace.Get") {
					for _, a := range ev.CI.args {
						if a.Op == "" && strings.HasPrefix(a.At, "@types.Key") {
							reads[a.At] = true
							if a.IsAt("@types." + key) {
								hit = true
							}
						}
					}
				}
			}
		}
		if !hit {
			continue
		}
		if best == nil || len(reads) < bestN || (len(reads) == bestN && f.Name < best.Name) {
			best, bestN = f, len(reads)
		}
	}
	return best
}

func (c *Check) paramTerm(rule, key string) string {
	f := c.paramGetter(key)
	if f == nil {
		c.undecided(rule, "param:"+key, token.NoPos, "no getter reads parameter key "+key)
		return "(?" + key + ")"
	}
	return "(" + f.Name + ")"
}

// isTruncMul: TruncateInt(Dec(x) * y) in either multiplication order.
func isTruncMul(t *Term, x, y string) bool {
	t = stripConv(t)
	if t.Op != "sdk.Dec.TruncateInt" || len(t.A) != 1 {
		return false
	}
	m := t.A[0]
	if !(m.Op == "sdk.Dec.Mul" || m.Op == "sdk.Dec.MulInt") || len(m.A) != 2 {
		return false
	}
	isDecOf := func(d *Term, inner string) bool {
		if (d.Op == "sdk.NewDecFromInt" || d.Op == "sdk.Int.ToDec") && len(d.A) == 1 && d.A[0].String() == inner {
			return true
		}
		return false
	}
	a, b := m.A[0], m.A[1]
	if isDecOf(a, x) && b.String() == y {
		return true
	}
	if isDecOf(b, x) && a.String() == y {
		return true
	}
	if m.Op == "sdk.Dec.Mul" && a.String() == y && isDecOf(b, x) {
		return true
	}
	return false
}

func fmtTerms(ts []*Term) string {
	var s []string
	for _, t := range ts {
		s = append(s, shortTerm(t))
	}
	return fmt.Sprint(s)
}

// constructedInCallee: the effect is performed by a direct callee which stores a value it has built itself (not one
// of its parameters handed through) — the record is that callee's, whatever the distance to the store primitive.
func (c *Check) constructedInCallee(e *Eff, structType string) bool {
	if len(e.Chain) != 1 {
		return false
	}
	g := c.P.FuncNamed(e.Chain[0])
	if g == nil || c.P.pathsBusy[g] {
		return false
	}
	for _, ge := range c.P.SummaryOf(g).Effs {
		if ge.Kind != "store" || ge.Op != e.Op || ge.Family != e.Family || ge.Pos != e.Pos || len(ge.Chain) != 0 {
			continue
		}
		sv := structIn(ge.Val, structType)
		if sv != nil && !(sv.Op == "" && strings.HasPrefix(sv.At, "P")) {
			return true
		}
	}
	return false
}

// forwardStored replaces, inside a value about to be stored, every read of the record through the family's getter
// whose arguments are the key arguments of an earlier store on the same path by the value stored then.
func forwardStored(sv *Term, getter *Func, written map[string]*Term) *Term {
	if getter == nil || len(written) == 0 || sv == nil {
		return sv
	}
	var rw func(t *Term) *Term
	rw = func(t *Term) *Term {
		if t == nil || t.Op == "" {
			return t
		}
		if t.Op == "res" && len(t.A) == 2 && t.A[0].IsAt("0") && t.A[1].Op == getter.Name {
			var args []*Term
			for _, a := range t.A[1].A {
				args = append(args, rw(a))
			}
			if v, ok := written[fmtTerms(args)]; ok {
				return v
			}
		}
		changed := false
		na := make([]*Term, len(t.A))
		for i, a := range t.A {
			na[i] = rw(a)
			if na[i] != a {
				changed = true
			}
		}
		if !changed {
			return t
		}
		return simplify(&Term{Op: t.Op, A: na, Typ: t.Typ, Obj: t.Obj, Pos: t.Pos})
	}
	return rw(sv)
}

// passedThroughCallee: the effect is performed below a direct callee which stores one of its own parameters
// unchanged (a setter, or a helper that registers the record it is given) — the value is the caller's.
func (c *Check) passedThroughCallee(e *Eff, structType string) bool {
	if len(e.Chain) == 0 {
		return true
	}
	g := c.P.FuncNamed(e.Chain[0])
	if g == nil || c.P.pathsBusy[g] {
		return false
	}
	for _, ge := range c.P.SummaryOf(g).Effs {
		if ge.Kind != "store" || ge.Op != e.Op || ge.Family != e.Family || ge.Pos != e.Pos || len(ge.Chain) != len(e.Chain)-1 {
			continue
		}
		sv := structIn(ge.Val, structType)
		if sv != nil && sv.Op == "" && strings.HasPrefix(sv.At, "P") {
			return true
		}
	}
	return false
}
