package main

import (
	"flag"
	"fmt"
	"os"
	"sort"
	"strings"
	"time"
)

func repoDir() string {
	if d := os.Getenv("SVCLINT_REPO"); d != "" {
		return d
	}
	return "/repo"
}

func main() {
	if len(os.Args) < 2 {
		fmt.Fprintln(os.Stderr, "usage: svclint check|dump|keys|explain ...")
		os.Exit(2)
	}
	defer func() {
		if r := recover(); r != nil {
			fmt.Fprintf(os.Stderr, "svclint: tool failure: panic: %v\n", r)
			panic(r)
		}
	}()
	switch os.Args[1] {
	case "check":
		cmdCheck(os.Args[2:])
	case "dump":
		cmdDump(os.Args[2:])
	case "keys":
		cmdKeys(os.Args[2:])
	case "explain":
		cmdExplain(os.Args[2:])
	default:
		fmt.Fprintln(os.Stderr, "unknown command", os.Args[1])
		os.Exit(2)
	}
}

func cmdDump(args []string) {
	fs := flag.NewFlagSet("dump", flag.ExitOnError)
	paths := fs.Bool("paths", false, "print every path")
	fs.Parse(args)
	t0 := time.Now()
	p := loadProg(repoDir(), false, "")
	fmt.Printf("loaded %d packages, %d funcs in %.2fs\n", len(p.Pkgs), len(p.Funcs), time.Since(t0).Seconds())
	for _, pat := range fs.Args() {
		for _, f := range p.Funcs {
			if !strings.Contains(f.Name, pat) || !f.isHandWritten() {
				continue
			}
			fmt.Printf("\n=== %s (%s)\n", f.Name, p.pos(f.Body.Pos()))
			ps := p.PathsOf(f)
			cnt := map[ExitKind]int{}
			for _, pa := range ps {
				cnt[pa.Exit]++
			}
			fmt.Printf("paths: %d %v\n", len(ps), cnt)
			if *paths {
				for i, pa := range ps {
					fmt.Printf("--- path %d exit=%s ret=%v\n", i, pa.Exit, pa.Ret)
					for _, ev := range pa.Events {
						switch ev.Kind {
						case EvCall:
							fmt.Printf("   call %s %v -> %s\n", ev.CI.name, ev.CI.args, ev.Result)
						case EvFact:
							fmt.Printf("   fact %s\n", ev.Fact)
						case EvWrite:
							fmt.Printf("   write %s.%s = %s\n", ev.Struct, ev.Field, ev.Val)
						case EvAssign:
							fmt.Printf("   assign %s = %s\n", ev.Var.Name(), ev.Val)
						case EvPanic:
							fmt.Printf("   panic %s\n", ev.Val)
						case EvLoop:
							fmt.Printf("   loop\n")
						}
					}
				}
			}
			s := p.SummaryOf(f)
			fmt.Printf("summary: %d effects, success facts: %v\n", len(s.Effs), s.SuccessFacts.Sorted())
			for _, e := range s.Effs {
				if e.Kind == "emit" {
					continue
				}
				fmt.Printf("  [%s] must=%v loop=%v %s  via %v\n     guards=%v\n", p.pos(e.Pos), e.Must, e.InLoop, e, e.Chain, e.Guards.Sorted())
			}
		}
	}
	if len(p.undecided) > 0 {
		fmt.Println("UNDECIDED:", p.undecided)
	}
}

func cmdKeys(args []string) {
	p := loadProg(repoDir(), false, "")
	kt := p.keys()
	fmt.Println("sep:", kt.SepVar)
	for _, q := range kt.PrefixVars {
		fmt.Printf("%-40s 0x%02x\n", q, kt.Prefixes[q])
	}
	var names []string
	for n := range kt.Builders {
		names = append(names, n)
	}
	sort.Strings(names)
	for _, n := range names {
		b := kt.Builders[n]
		fmt.Printf("%-45s %s unused=%v\n", n, b.Shape, b.Unused)
	}
}
