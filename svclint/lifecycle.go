package main

// Lifecycle rules: queues, expiry handler case analysis, start/creation,
// heights, callbacks, cleaning. Shared by C08–C12, C16.

import (
	"fmt"
	"go/token"
	"os"
	"sort"
	"strings"
)

// hasFnByEffect: the function whose only effect is the given store op on the family.
func (c *Check) fnWithOnly(op, fam string) *Func {
	for _, f := range c.handFuncs("keeper") {
		effs := c.P.SummaryOf(f).Effs
		if len(effs) == 1 && effs[0].Kind == "store" && effs[0].Op == op && effs[0].Family == fam {
			return f
		}
	}
	return nil
}

// hasNextTerm builds the normalised "a batch is left" predicate over context term X.
func hasNextTerm(X *Term) *Term {
	rep := field("RequestContext", "Repeated", X)
	tot := field("RequestContext", "RepeatedTotal", X)
	cnt := mk("conv", atom("int64"), field("RequestContext", "BatchCounter", X))
	return normTerm(mk("&&", rep, mk("||", mk("<", tot, atom("#0")), mk("<", cnt, tot))))
}

func nextHeightTerm(X *Term) string {
	return fmt.Sprintf("(+ (- BlockHeight %s) (conv int64 %s))", field("RequestContext", "Timeout", X), field("RequestContext", "RepeatedFrequency", X))
}

// expiredBatchRules: C09.5, C10.2, C10.4, C10.5, C11.3, C16.1, C16.4.
func (c *Check) expiredBatchRules(prefix string, which map[string]bool) {
	u := c.feeUnits(prefix)
	if !u.complete() {
		return
	}
	f := u.EB.Closure
	cf := c.completeFn()
	bad := map[string][]string{}
	add := func(k, msg string, pa *Path) { bad[k] = append(bad[k], msg+" (path ending "+c.pos(pa.RetPos)+")") }
	nNext, nDel, nKeep := 0, 0, 0
	roleEff := func(e *Eff) bool {
		return e.Kind == "store" && ((e.Op == "Delete" && (e.Family == "0x08" || e.Family == "0x09" || e.Family == "0x11")) || (e.Op == "Set" && (e.Family == "0x10" || e.Family == "0x08")))
	}
	for _, pa := range c.decisionPaths(f, roleEff) {
		af := pa.AllFacts()
		// the context value after completion (what is stored and tested)
		var X *Term
		for _, ev := range pa.Events {
			if ev.Kind == EvCall {
				for _, e := range c.P.effectsOfEvent(f, ev) {
					if e.Kind == "store" && e.Op == "Set" && e.Family == "0x08" {
						if sv := structIn(e.Val, "RequestContext"); sv != nil {
							X = sv
						}
					}
				}
			}
		}
		if X == nil {
			// a context that the path removes need not be written first (write-then-delete and delete alone leave the same store)
			removed := false
			for _, ev := range pa.Events {
				if ev.Kind == EvCall {
					for _, e := range c.P.effectsOfEvent(f, ev) {
						if e.Kind == "store" && e.Op == "Delete" && e.Family == "0x08" {
							removed = true
						}
					}
				}
			}
			// (a path that changed nothing — the batch had been completed before, by its last response — has nothing to write)
			changed := false
			for _, ev := range pa.Events {
				if ev.Kind == EvCall && cf != nil && ev.CI.fn == cf {
					changed = true
				}
				if ev.Kind == EvWrite && ev.Struct == "RequestContext" {
					changed = true
				}
			}
			if !removed && changed {
				add("persist", "the context is neither persisted nor removed", pa)
			}
			X = u.EB.val()
		}
		idx := func(pred func(*Eff) bool) int {
			for i, ev := range pa.Events {
				if ev.Kind != EvCall {
					continue
				}
				for _, e := range c.P.effectsOfEvent(f, ev) {
					if pred(e) {
						return i
					}
				}
			}
			return -1
		}
		iDeq9, iDeq11 := idx(isStore("Delete", "0x09")), idx(isStore("Delete", "0x11"))
		iEnq := idx(isStore("Set", "0x10"))
		// (a removal the callee performs only under a condition that this path has refuted — "unless already completed" for
		// a context the path knows to be COMPLETED — does not happen on this path)
		iDelCtx := idx(func(e *Eff) bool {
			if !(e.Kind == "store" && e.Op == "Delete" && e.Family == "0x08") {
				return false
			}
			for _, g := range e.Guards {
				if af.Holds(g.T, g.Neg) {
					return false
				}
			}
			return true
		})
		iScan := idx(func(e *Eff) bool { return e.Kind == "store" && e.Op == "Iter" && e.Family == "0x15" })
		iClean := idx(func(e *Eff) bool { return e.Kind == "store" && e.Op == "Iter" && e.Family == "0x13" })
		iComplete := -1
		for i, ev := range pa.Events {
			if ev.Kind == EvCall && ev.CI.fn == cf && cf != nil {
				iComplete = i
			}
		}
		if iDeq9 < 0 || iDeq11 < 0 {
			add("dequeue", "the expiry queue entry is not removed (queue and pointer)", pa)
		}
		// a removed context is not written back later on the path (it would survive its own completion)
		if iDelCtx >= 0 {
			for i, ev := range pa.Events {
				if i <= iDelCtx || ev.Kind != EvCall {
					continue
				}
				for _, e := range c.P.effectsOfEvent(f, ev) {
					if e.Kind == "store" && e.Op == "Set" && e.Family == "0x08" {
						add("continuation", "the context is stored again after it was removed", pa)
					}
				}
			}
		}
		if iEnq >= 0 && iDeq9 > iEnq {
			add("dequeue-before-enqueue", "the next batch is queued before the expiry entry is removed", pa)
		}
		if iClean < 0 {
			add("clean", "the batch's records are not cleaned", pa)
		}
		if iScan >= 0 && iClean >= 0 && iClean < iScan {
			add("clean-order", "records are cleaned before the pending markers are settled", pa)
		}
		if iComplete >= 0 && iClean >= 0 && iClean < iComplete {
			add("clean-order", "records are cleaned before the batch is completed (the callback reads the responses)", pa)
		}
		if iScan >= 0 && iComplete >= 0 && iComplete < iScan {
			add("clean-order", "the batch is completed before its pending requests are expired", pa)
		}
		// a batch that is not completed yet must be scanned and completed
		if hasEq(af, field("RequestContext", "BatchState", u.EB.val()), "#types.BATCHCOMPLETED", true) && (iScan < 0 || iComplete < 0) {
			add("complete-at-expiry", "a batch that is not completed is neither scanned nor completed at expiry", pa)
		}
		// a batch completed on this path stays completed in what the path leaves in the store: the last value stored for the
		// context carries BatchState = COMPLETED (a stale copy written after the completed one would reopen the batch)
		if iComplete >= 0 && iDelCtx < 0 {
			var lastStored *Term
			for _, ev := range pa.Events {
				if ev.Kind == EvCall {
					for _, e := range c.P.effectsOfEvent(f, ev) {
						if e.Kind == "store" && e.Op == "Set" && e.Family == "0x08" {
							if sv := structIn(e.Val, "RequestContext"); sv != nil {
								lastStored = sv
							}
						}
					}
				}
			}
			if lastStored != nil {
				bs := field("RequestContext", "BatchState", lastStored)
				if !bs.IsAt("#types.BATCHCOMPLETED") && !af.Holds(mk("==", bs, c.constTerm("types.BATCHCOMPLETED")), true) {
					add("complete-at-expiry", "the batch is completed on the path but the context last stored carries BatchState = "+shortTerm(bs), pa)
				}
			}
		}
		// case analysis on the continuation
		hn := hasNextTerm(X)
		hasNext := af.Holds(hn, true)
		noNext := af.Holds(hn, false)
		st := field("RequestContext", "State", X)
		running := hasEq(af, st, "#types.RUNNING", false) || af.Holds(mk("==", st, c.constTerm("types.RUNNING")), true)
		completed := hasEq(af, st, "#types.COMPLETED", false) || af.Holds(mk("==", st, c.constTerm("types.COMPLETED")), true)
		deleted := iDelCtx >= 0
		switch {
		case deleted:
			nDel++
			if iEnq >= 0 {
				add("continuation", "a context is both removed and given a next batch", pa)
			}
			if !(completed || noNext) && !af.Holds(mk("||", mk("==", st, c.constTerm("types.COMPLETED")), mk("!", hn)), true) {
				add("continuation", "the context is removed although it is not COMPLETED and a batch may be left", pa)
			}
			if iDeq9 > iDelCtx {
				add("delete-after-dequeue", "the context is removed before its queue entry", pa)
			}
		default:
			nKeep++
			// a context survives its batch expiry only if a batch is left and it is not completed
			if !hasNext && !af.Holds(hn, true) {
				if os.Getenv("SVCLINT_DEBUG") != "" {
					fmt.Fprintf(os.Stderr, "DEBUG continuation hn=%s\n", hn)
					for _, k := range af.Sorted() {
						fmt.Fprintf(os.Stderr, "   %s\n", k)
					}
				}
				add("continuation", "a context survives the expiry of its batch without the path establishing that a batch is left (Repeated ∧ (RepeatedTotal<0 ∨ BatchCounter<RepeatedTotal))", pa)
			}
			if completed {
				add("continuation", "a COMPLETED context survives the expiry of its batch", pa)
			}
			if running && iEnq < 0 {
				add("continuation", "a RUNNING context with a batch left is not given its next batch", pa)
			}
			if !running && iEnq >= 0 {
				add("continuation", "a next batch is queued for a context that is not RUNNING", pa)
			}
		}
		if iEnq >= 0 {
			nNext++
			// height skeleton
			for _, ev := range pa.Events {
				if ev.Kind != EvCall {
					continue
				}
				for _, e := range c.P.effectsOfEvent(f, ev) {
					if e.Kind == "store" && e.Op == "Set" && e.Family == "0x10" {
						k := keyArgs(e)
						if len(k) != 2 || !k[0].IsAt(u.EB.IdP) || k[1].String() != nextHeightTerm(X) {
							add("next-height", "the next batch is queued at "+fmtTerms(k)+" — not (id, BlockHeight − Timeout + RepeatedFrequency)", pa)
						}
					}
				}
			}
		}
		// cleaned counter = the context's own BatchCounter
		for _, ev := range pa.Events {
			if ev.Kind != EvCall {
				continue
			}
			for _, e := range c.P.effectsOfEvent(f, ev) {
				if e.Kind == "store" && e.Op == "Iter" && e.Family == "0x13" {
					k := keyArgs(e)
					if len(k) == 2 {
						k[1] = c.fieldThroughCall(k[1])
					}
					if len(k) != 2 || !k[0].IsAt(u.EB.IdP) || k[1].String() != "(.RequestContext.BatchCounter "+u.EB.ValP+")" {
						add("clean-args", "the clean scan is keyed by "+fmtTerms(k)+" — not (id, the context's BatchCounter)", pa)
					}
				}
			}
		}
	}
	texts := []struct{ k, t string }{
		{"persist", "the context is persisted (or removed) on every path"},
		{"dequeue", "every path removes the expiry queue entry and its pointer"},
		{"dequeue-before-enqueue", "the expiry entry is removed before the next batch is queued"},
		{"clean", "every path cleans the expired batch's records"},
		{"clean-order", "settle pending markers ≺ complete ≺ clean"},
		{"clean-args", "the cleaned batch is (context id, the context's current BatchCounter)"},
		{"complete-at-expiry", "a batch not completed earlier is scanned and completed at expiry"},
		{"continuation", "a context survives its batch expiry iff it is not COMPLETED and a batch is left; RUNNING ⇒ next batch queued"},
		{"delete-after-dequeue", "the context is removed only after its queue entry"},
		{"next-height", "next batch height = BlockHeight − Timeout + RepeatedFrequency"},
	}
	for _, t := range texts {
		if which != nil && !which[t.k] {
			continue
		}
		c.req(len(bad[t.k]) == 0, prefix+".expired-batch."+t.k, unitConstruct(f, t.k), f.Body.Pos(), t.t+condStr(len(bad[t.k]) > 0, ": "+strings.Join(uniq(sortStrings(bad[t.k])), "; ")))
	}
	c.req(nNext >= 1 && nDel >= 2 && nKeep >= 2, prefix+".expired-batch.roles", unitConstruct(f, "roles"), f.Body.Pos(),
		fmt.Sprintf("paths queuing a next batch ×%d, removing the context ×%d, keeping it ×%d", nNext, nDel, nKeep))
}

// startRules: C10.5, C11.4 for the function that writes State=RUNNING, and creation (C10.1).
func (c *Check) startRules(prefix string) {
	hasExp, hasNew := c.fnWithOnly("Has", "0x11"), c.fnWithOnly("Has", "0x12")
	if hasExp == nil || hasNew == nil {
		c.undecided(prefix+".start", "pending-tests", token.NoPos, "functions testing the expiry / new-batch pointers not found")
		return
	}
	n := 0
	for _, w := range c.contextWrites() {
		v, ok := w.W["State"]
		if !ok || !v.IsAt("#types.RUNNING") || w.Helper {
			continue
		}
		n++
		f := w.Fn
		pa := w.PP.Path
		af := pa.AllFacts()
		// id under which the context is stored
		var id *Term
		var enq *Eff
		for _, e := range c.pathEffects(f, pa) {
			if e.Kind == "store" && e.Op == "Set" && e.Family == "0x08" {
				id = keyArgs(e)[0]
			}
			if e.Kind == "store" && e.Op == "Set" && e.Family == "0x10" {
				enq = e
			}
		}
		if id == nil {
			continue
		}
		pe := Fact{T: mk(hasExp.Name, id)}
		pn := Fact{T: mk(hasNew.Name, id)}
		pending := af.Has(pe) || af.Has(pn)
		// or the false edge of ¬expiry ∧ ¬new as one compound fact
		for _, fa := range af {
			if ds := fa.Disjuncts(); len(ds) == 2 {
				if (ds[0] == pe.String() && ds[1] == pn.String()) || (ds[1] == pe.String() && ds[0] == pn.String()) {
					pending = true
				}
			}
		}
		none := af.Has(pe.Not()) && af.Has(pn.Not())
		// the pointers may be tested without the named getters (through a queue accessor, or on the store itself):
		// any test of the presence of the 0x11 / 0x12 record of this id counts
		les, lns := c.presenceLeaves(af, "0x11", id), c.presenceLeaves(af, "0x12", id)
		for _, l := range append(append([]*Term{}, les...), lns...) {
			if af.Holds(l, true) {
				pending = true
			}
		}
		for _, le := range les {
			for _, ln := range lns {
				if af.Holds(mk("||", le, ln), true) {
					pending = true
				}
				if af.Holds(le, false) && af.Holds(ln, false) {
					none = true
				}
			}
		}
		ok2 := (pending && enq == nil) || (none && enq != nil)
		d := fmt.Sprintf("pending expiry/new-batch=%v, both absent=%v, enqueued=%v", pending, none, enq != nil)
		c.req(ok2, prefix+".start.pending-or-enqueue", unitConstruct(f, "start:"+d), pa.RetPos,
			"starting a context enqueues a batch iff neither an expiry nor a new batch is pending (never two in flight, never stranded): "+d)
		if enq != nil {
			k := keyArgs(enq)
			c.req(len(k) == 2 && k[0].Eq(id) && k[1].IsAt("BlockHeight"), prefix+".start.height", unitConstruct(f, "start-height"), enq.Pos, "the batch is queued for the current block: "+fmtTerms(k))
		}
	}
	c.req(n >= 2, prefix+".start.paths", "start-paths", token.NoPos, fmt.Sprintf("%d committed paths write State=RUNNING", n))
	// creation
	nc := 0
	for _, w := range c.contextWrites() {
		if w.L.Op != "lit" {
			continue
		}
		nc++
		f := w.Fn
		pa := w.PP.Path
		st := field("RequestContext", "State", w.B)
		af := pa.AllFacts()
		var enq *Eff
		var id *Term
		for _, e := range c.pathEffects(f, pa) {
			if e.Kind == "store" && e.Op == "Set" && e.Family == "0x10" {
				enq = e
			}
			if e.Kind == "store" && e.Op == "Set" && e.Family == "0x08" {
				id = keyArgs(e)[0]
			}
		}
		run := hasEq(af, st, "#types.RUNNING", false)
		notRun := hasEq(af, st, "#types.RUNNING", true)
		ok := (run && enq != nil) || (notRun && enq == nil)
		c.req(ok, prefix+".create.first-batch", unitConstruct(f, fmt.Sprintf("create:running=%v", run)), pa.RetPos,
			fmt.Sprintf("creation enqueues the first batch iff the context is created RUNNING (running=%v, enqueued=%v)", run, enq != nil))
		if enq != nil && id != nil {
			k := keyArgs(enq)
			c.req(len(k) == 2 && k[0].Eq(id) && k[1].IsAt("BlockHeight"), prefix+".create.height", unitConstruct(f, "create-height"), enq.Pos, "the first batch is queued at the block of the call: "+fmtTerms(k))
		}
		// defaulting keeps frequency ≥ timeout and one-shot contexts have no repetition
		fr, to := field("RequestContext", "RepeatedFrequency", w.B), field("RequestContext", "Timeout", w.B)
		rep := field("RequestContext", "Repeated", w.B)
		switch {
		case af.Has(Fact{T: rep, Neg: true}):
			c.req(fr.IsAt("#0") && field("RequestContext", "RepeatedTotal", w.B).IsAt("#0"), prefix+".create.one-shot", unitConstruct(f, "create-one-shot"), pa.RetPos,
				"a one-shot context is stored with frequency 0 and total 0")
		case af.Has(Fact{T: rep}):
			okf := fr.String() == fmt.Sprintf("(conv uint64 %s)", to) || isParamTerm(fr)
			c.req(okf, prefix+".create.frequency", unitConstruct(f, "create-frequency:"+shortTerm(fr)), pa.RetPos,
				"a repeated context stores the validated frequency, defaulting to the timeout when 0: "+shortTerm(fr))
		}
	}
	c.req(nc >= 2, prefix+".create.paths", "creation-paths", token.NoPos, fmt.Sprintf("%d committed creation paths", nc))
}

// queuePairs (C11.1, C16.3): queue entry and pointer move together; marker pair moves together.
func (c *Check) queuePairs(prefix string) {
	pairs := [][2]string{{"0x10", "0x12"}, {"0x09", "0x11"}, {"0x14", "0x15"}}
	n := 0
	for _, f := range c.handFuncs("keeper", "service") {
		// skip the single-record primitives themselves
		sites := map[string]bool{}
		for _, e := range c.P.SummaryOf(f).Effs {
			sites[e.SiteKey()] = true
		}
		if len(sites) <= 1 {
			continue
		}
		for _, pa := range c.P.PathsOf(f) {
			if !pa.OK() {
				continue
			}
			cnt := map[string]int{}
			for _, e := range c.pathEffects(f, pa) {
				if e.Kind == "store" && (e.Op == "Set" || e.Op == "Delete") {
					cnt[e.Op+e.Family]++
				}
			}
			for _, pr := range pairs {
				for _, op := range []string{"Set", "Delete"} {
					a, b := cnt[op+pr[0]], cnt[op+pr[1]]
					if a == 0 && b == 0 {
						continue
					}
					n++
					if a != b {
						c.fail(prefix+".pairs", unitConstruct(f, op+" "+pr[0]+"/"+pr[1]), pa.RetPos,
							fmt.Sprintf("%s touches family %s ×%d but family %s ×%d on one path: the two indexes diverge", op, pr[0], a, pr[1], b))
					}
				}
			}
		}
	}
	c.req(n >= 6, prefix+".pairs", "paired-operations", token.NoPos, fmt.Sprintf("%d (path, pair) instances keep queue/pointer and the two marker indexes in step", n))
}

// heightSkeletons (C08.1, C11.5): expiry heights agree and enqueue heights have the stated shape.
func (c *Check) heightSkeletons(prefix string) {
	u := c.feeUnits(prefix)
	if !u.complete() {
		return
	}
	sum := c.P.SummaryOf(u.EndBlocker)
	var exp, marker []string
	for _, e := range sum.Effs {
		if e.Kind != "store" || e.Op != "Set" {
			continue
		}
		k := keyArgs(e)
		switch e.Family {
		case "0x09":
			ok := len(k) == 2 && strings.HasPrefix(k[1].String(), "(+ BlockHeight (.RequestContext.Timeout ")
			c.req(ok, prefix+".heights", effConstruct("EndBlocker", e)+"#expiry-height", e.Pos, "batch expiry is queued at BlockHeight + context.Timeout: "+shortTerm(k[1]))
			exp = append(exp, k[1].String())
		case "0x14":
			ok := len(k) == 4 && strings.HasPrefix(k[2].String(), "(+ BlockHeight (.RequestContext.Timeout ")
			c.req(ok, prefix+".heights", effConstruct("EndBlocker", e)+"#marker-height", e.Pos, "the pending marker carries BlockHeight + context.Timeout: "+shortTerm(k[2]))
			marker = append(marker, k[2].String())
		case "0x10":
			if len(k) < 2 {
				c.fail(prefix+".heights", effConstruct("EndBlocker", e)+"#batch-height", e.Pos, "new-batch key not understood: "+shortTerm(e.Key))
				continue
			}
			h := k[1].String()
			ok := h == "BlockHeight" || (strings.HasPrefix(h, "(+ (- BlockHeight (.RequestContext.Timeout ") && strings.Contains(h, ".RequestContext.RepeatedFrequency"))
			c.req(ok, prefix+".heights", effConstruct("EndBlocker", e)+"#batch-height", e.Pos, "a batch is queued at BlockHeight or BlockHeight − Timeout + RepeatedFrequency: "+shortTerm(k[1]))
		}
	}
	sort.Strings(exp)
	sort.Strings(marker)
	same := len(exp) > 0 && len(marker) > 0
	for _, m := range marker {
		found := false
		for _, e := range exp {
			if e == m {
				found = true
			}
		}
		if !found {
			same = false
		}
	}
	c.req(same, prefix+".heights", "EndBlocker#marker-vs-queue", token.NoPos, "the marker height and the batch-expiry queue height are the same expression over the same context")
	// the request record's own expiration height (and the builder's timeout argument, if a builder is used)
	n := 0
	for _, rv := range c.compactRequestValues() {
		n++
		f := rv.fn
		eh := field("CompactRequest", "ExpirationHeight", rv.lit)
		rh := field("CompactRequest", "RequestHeight", rv.lit)
		b, ok := eh.Match("(+ BlockHeight $T)")
		direct := ok && strings.HasPrefix(b["$T"].Op, ".RequestContext.Timeout")
		okp := ok && (isParamTerm(b["$T"]) || direct) && rh.IsAt("BlockHeight")
		c.req(okp, prefix+".heights", unitConstruct(f, "request-heights"), rv.pos, "a request records RequestHeight = BlockHeight and ExpirationHeight = BlockHeight + the context's timeout: "+shortTerm(eh))
		if okp && !direct {
			var ti int
			fmt.Sscanf(b["$T"].At, "P%d", &ti)
			bound := false
			for _, pb := range c.P.PathsOf(u.BS) {
				for _, ev := range pb.Events {
					if ev.Kind == EvCall && ev.CI.fn == f && ti < len(ev.CI.args) && strings.HasPrefix(ev.CI.args[ti].Op, ".RequestContext.Timeout") {
						bound = true
					}
				}
			}
			c.req(bound, prefix+".heights", unitConstruct(u.BS, "request-timeout-arg"), u.BS.Body.Pos(), "the request builder receives the context's Timeout")
		}
		break
	}
	c.req(n >= 1, prefix+".heights", "request-record-heights", token.NoPos, "a constructed request record was found")
}

// contextDeleters (C11.7): the context record is deleted only under the expired-batch handler.
func (c *Check) contextDeleters(prefix string) {
	u := c.feeUnits(prefix)
	if !u.complete() {
		return
	}
	n := 0
	check := func(unit string, sum *Summary) {
		for _, e := range sum.Effs {
			if e.Kind == "store" && e.Op == "Delete" && e.Family == "0x08" {
				n++
				in := false
				for _, nm := range e.Chain {
					if nm == u.EB.Closure.Name {
						in = true
					}
				}
				c.req(in, prefix+".context-delete", effConstruct(unit, e), e.Pos, "a context record is deleted only by the expired-batch handler")
			}
		}
	}
	for _, en := range c.entries(prefix) {
		check(en.Msg, c.P.SummaryOf(en.Handler))
	}
	check("EndBlocker", c.P.SummaryOf(u.EndBlocker))
	c.req(n >= 1, prefix+".context-delete", "delete-sites", token.NoPos, fmt.Sprintf("%d entry-level context deletions", n))
}

// newBatchDequeue (C11.2): every exit of the new-batch handler removes its queue entry.
func (c *Check) newBatchDequeue(prefix string) {
	u := c.feeUnits(prefix)
	if !u.complete() {
		return
	}
	f := u.NB.Closure
	classes := map[string]bool{}
	okAll := map[string]bool{}
	for _, pa := range c.P.PathsOf(f) {
		af := c.closeFacts(pa.AllFacts())
		class := "normal"
		for _, fa := range af {
			if fa.Neg && fa.T.Op == "ok" && fa.T.A[0].Op == u.FL.Name {
				class = "filter-error"
			}
		}
		if class == "normal" {
			for _, fa := range af {
				if fa.Neg && fa.T.Op == "ok" {
					class = "pay-failure"
				}
			}
		}
		d10, d12 := 0, 0
		var key []*Term
		for _, e := range c.pathEffects(f, pa) {
			if e.Kind == "store" && e.Op == "Delete" && e.Family == "0x10" {
				d10++
				key = keyArgs(e)
			}
			if e.Kind == "store" && e.Op == "Delete" && e.Family == "0x12" {
				d12++
			}
		}
		ok := d10 == 1 && d12 == 1 && len(key) == 2 && key[0].IsAt(u.NB.IdP) && key[1].IsAt("BlockHeight")
		if _, seen := classes[class]; !seen {
			okAll[class] = true
		}
		classes[class] = true
		if !ok {
			okAll[class] = false
		}
	}
	var cl []string
	for k := range classes {
		cl = append(cl, k)
	}
	sort.Strings(cl)
	for _, k := range cl {
		c.req(okAll[k], prefix+".new-batch.dequeue", "new-batch-handler#dequeue:"+k, f.Body.Pos(),
			"every exit of the new-batch handler removes the queue entry (id, BlockHeight) and its pointer — exits of class "+k)
	}
}

// queueDeleters: a queue entry (and its pointer) is removed only by the handler that processes that
// queue at the entry's own height — the new-batch handler for 0x10/0x12, the expired-batch handler for 0x09/0x11.
func (c *Check) queueDeleters(prefix string) {
	u := c.feeUnits(prefix)
	if !u.complete() {
		return
	}
	owner := map[string]*Func{"0x10": u.NB.Closure, "0x12": u.NB.Closure, "0x09": u.EB.Closure, "0x11": u.EB.Closure}
	n := 0
	check := func(unit string, sum *Summary) {
		for _, e := range sum.Effs {
			if e.Kind != "store" || e.Op != "Delete" {
				continue
			}
			h, ok := owner[e.Family]
			if !ok {
				continue
			}
			n++
			in := e.Fn == h
			for _, nm := range e.Chain {
				if nm == h.Name {
					in = true
				}
			}
			c.req(in, prefix+".queue-delete", effConstruct(unit, e), e.Pos,
				"a queue entry / pointer of family "+e.Family+" is removed only by the handler that scans that queue at the current height (elsewhere the entry's height is not known, so only the pointer would be removed)")
		}
	}
	for _, en := range c.entries(prefix) {
		check(en.Msg, c.P.SummaryOf(en.Handler))
	}
	check("EndBlocker", c.P.SummaryOf(u.EndBlocker))
	c.req(n >= 4, prefix+".queue-delete", "queue-deletions", token.NoPos, fmt.Sprintf("%d entry-level queue deletions", n))
}

// presenceLeaves: the boolean sub-terms of the path's facts that test whether the record of the given family exists
// under the given identifier — a call of a module function whose only effect is that Has, or the store's Has itself.
func (c *Check) presenceLeaves(af FactSet, fam string, id *Term) []*Term {
	leaves := map[string]*Term{}
	for _, fa := range af {
		propLeaves(fa.T, leaves)
	}
	var keys []string
	for k := range leaves {
		keys = append(keys, k)
	}
	sort.Strings(keys)
	var out []*Term
	for _, k := range keys {
		t := leaves[k]
		if t == nil {
			continue
		}
		switch {
		case strings.HasSuffix(t.Op, "KVStore.Has") && len(t.A) >= 1:
			key := t.A[len(t.A)-1]
			for _, v := range c.P.keyVariants(key, 0) {
				if f2, _ := c.P.keyFamily(v.Key); f2 == fam {
					if ka := stripConv(stripSpread(v.Key)).A; len(ka) == 1 && stripConv(ka[0]).Eq(stripConv(id)) {
						out = append(out, t)
					}
				}
			}
		case t.Op == "res" && len(t.A) == 2 && t.A[0].Op == "" && stripConv(t.A[1]).Op != "":
			// the found-result of a getter of the family: (value, found) read under the id, found exactly when a value is stored
			call := stripConv(t.A[1])
			g := c.P.FuncNamed(call.Op)
			var ri int
			if _, err := fmt.Sscanf(t.A[0].At, "%d", &ri); err != nil || g == nil || !g.isHandWritten() || g.Body == nil || c.P.pathsBusy[g] {
				continue
			}
			if gf, bi := c.foundGetter(g); gf == fam && bi == ri {
				for _, a := range call.A {
					if stripConv(a).Eq(stripConv(id)) {
						out = append(out, t)
						break
					}
				}
			}
		default:
			g := c.P.FuncNamed(t.Op)
			if g == nil || !g.isHandWritten() || g.Body == nil || c.P.pathsBusy[g] {
				continue
			}
			effs := c.P.SummaryOf(g).Effs
			if len(effs) == 1 && effs[0].Kind == "store" && effs[0].Op == "Has" && effs[0].Family == fam {
				for _, a := range t.A {
					if stripConv(a).Eq(stripConv(id)) {
						out = append(out, t)
						break
					}
				}
			}
		}
	}
	return out
}

// fieldThroughCall: (.S.F (g args…)) where every committed path of the module function g returns a value whose field
// F is the same term over g's parameters (typically: a record handed in, updated in other fields, handed back) is
// that term on the arguments.
func (c *Check) fieldThroughCall(t *Term) *Term {
	if t == nil || !strings.HasPrefix(t.Op, ".") || len(t.A) != 1 {
		return t
	}
	call := stripConv(t.A[0])
	g := c.P.FuncNamed(call.Op)
	if g == nil || !g.isHandWritten() || g.Body == nil || len(g.Res) != 1 || c.P.pathsBusy[g] {
		return t
	}
	var common *Term
	for _, v := range c.retVariants(call) {
		fv := simplify(&Term{Op: t.Op, A: []*Term{v}, Typ: t.Typ})
		if common == nil {
			common = fv
		} else if !common.Eq(fv) {
			return t
		}
	}
	if common == nil || common.ContainsOp(call.Op) {
		return t
	}
	return common
}

// foundGetter: g reads one record by a point Get and reports in a bool result whether it exists — the result is the constant
// true exactly on the paths that have established a stored value (non-nil) and false on those that have established its
// absence. Returns the family read and the index of that result ("" if g is not such a getter).
func (c *Check) foundGetter(g *Func) (string, int) {
	bi := -1
	for i, r := range g.Res {
		if typeName(r.Type()) == "bool" {
			if bi >= 0 {
				return "", -1
			}
			bi = i
		}
	}
	if bi < 0 {
		return "", -1
	}
	fam := ""
	for _, e := range c.P.SummaryOf(g).Effs {
		if e.Kind != "store" {
			continue
		}
		if e.Op != "Get" || fam != "" {
			return "", -1
		}
		fam = e.Family
	}
	if fam == "" {
		return "", -1
	}
	nT, nF := 0, 0
	for _, pa := range c.P.PathsOf(g) {
		if !pa.OK() || bi >= len(pa.Ret) {
			return "", -1
		}
		var got *Term
		for _, ev := range pa.Events {
			if ev.Kind == EvCall && strings.HasSuffix(ev.CI.name, "KVStore.Get") && ev.Result != nil {
				got = ev.Result
			}
		}
		if got == nil {
			return "", -1
		}
		af := pa.AllFacts()
		present := af.Holds(mk("==", got, atom("#nil")), false)
		absent := af.Holds(mk("==", got, atom("#nil")), true)
		r := stripConv(pa.Ret[bi])
		switch {
		case r.IsAt("#true") && present:
			nT++
		case (r.IsAt("#false") || r.IsAt("zero")) && absent:
			nF++
		default:
			return "", -1
		}
	}
	if nT == 0 || nF == 0 {
		return "", -1
	}
	return fam, bi
}
