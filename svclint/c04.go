package main

// C04 — providers are slashed exactly when they fail a request.

import (
	"fmt"
	"go/ast"
	"go/token"
	"sort"
	"strings"
)

func init() {
	rules["C04"] = ruleC04
	explanations["C04"] = "Slash function = the function that burns from the deposit account. Decided: (1) its burn is reachable only from the respond message and from end-of-block, " +
		"dominated there by the malformed-output predicate resp. ¬SuperMode of the expired request whose marker is being iterated; (2) in each calling unit the paths with and without the " +
		"slash are separated exactly by that predicate (exactly-when), and slash ⇔ fee refund on the same path; (3) the expired-batch marker scan runs under no condition other than " +
		"batch-not-completed; (4) amount skeleton TruncateInt(Dec(binding.Deposit.AmountOf(base)) × SlashFraction) of the binding of the request's (service, provider); " +
		"(5) auto-disable compares the post-slash stored deposit with getMinDeposit(GetPricing(binding)) and pairs Available=false with DisabledTime=block time. Arithmetic is not decided."
}

// slashFuncs: functions that directly burn from the deposit account.
func (c *Check) slashFuncs() []*Func {
	var out []*Func
	for _, f := range c.handFuncs("keeper", "service") {
		for _, e := range c.directEffects(f) {
			if e.Kind == "bank" && e.Op == "BurnCoins" && isModuleAccount(e.From, "DepositAccName") {
				out = append(out, f)
				break
			}
		}
	}
	return out
}

// slashEntryFuncs: the slash functions together with their thin wrappers — functions that call a slash function on
// every committed path, unconditionally, and settle nothing else themselves (e.g. "load the request, then slash it").
func (c *Check) slashEntryFuncs(base []*Func) []*Func {
	out := append([]*Func{}, base...)
	in := map[*Func]bool{}
	for _, f := range base {
		in[f] = true
	}
	for changed := true; changed; {
		changed = false
		for _, f := range c.handFuncs("keeper", "service") {
			if in[f] {
				continue
			}
			nOK, all := 0, true
			nRefund := 0
			for _, pa := range c.P.PathsOf(f) {
				if !pa.OK() {
					continue
				}
				nOK++
				ev, ok := pathHasCallTo(pa, out)
				if !ok {
					all = false
					break
				}
				// unconditional: no branch fact precedes the call
				for _, x := range pa.Events {
					if x == ev {
						break
					}
					if x.Kind == EvFact {
						all = false
					}
				}
				// a wrapper may settle the failure as a whole (slash and refund) — then on every path
				if _, r := c.pathHasEffect(f, pa, isFeeRefund); r {
					nRefund++
				}
			}
			if nRefund != 0 && nRefund != nOK {
				all = false
			}
			if nOK > 0 && all {
				in[f] = true
				out = append(out, f)
				changed = true
			}
		}
	}
	return out
}

func pathHasCallTo(pa *Path, fs []*Func) (*Event, bool) {
	for _, ev := range pa.Events {
		if ev.Kind == EvCall {
			for _, f := range fs {
				if ev.CI.fn == f {
					return ev, true
				}
			}
		}
	}
	return nil, false
}

// pathHasEffect reports whether some call event on the path causes a matching effect.
func (c *Check) pathHasEffect(f *Func, pa *Path, pred func(*Eff) bool) (*Eff, bool) {
	for _, ev := range pa.Events {
		if ev.Kind != EvCall {
			continue
		}
		for _, e := range c.P.effectsOfEvent(f, ev) {
			if pred(e) {
				return e, true
			}
		}
	}
	return nil, false
}

func isFeeRefund(e *Eff) bool {
	return e.Kind == "bank" && e.Op == "SendCoinsFromModuleToAccount" && isModuleAccount(e.From, "RequestAccName")
}

func ruleC04(c *Check) {
	c.assume("A-SDK: BurnCoins destroys exactly the coins given; sdk.Dec arithmetic is correct")
	// the slash fraction in force is any value of [0,1]: every place that validates parameters applies to it the validator
	// registered for it (genesis validation pairing it with the tax's validator refuses the legal value 1)
	c.paramValidatorsAgree("C04.7")
	// an answer in the last block of the window is not a failure: the respond handler turns nothing away that the keeper accepts
	c.handlersAddNoRejection("C04.8", "MsgRespondService")
	ss := c.slashFuncs()
	if !c.req(len(ss) >= 1, "C04.1", "slash-function", token.NoPos, "functions burning from the deposit account: "+strings.Join(fnNames(ss), ",")) {
		return
	}
	gRequest := c.getterByType("Request")
	gBinding := c.getterByType("ServiceBinding")
	if gRequest == nil || gBinding == nil {
		c.undecided("C04.1", "getters", token.NoPos, "request/binding getters not found")
		return
	}
	// (1) entry-level guards
	nBurn := 0
	for _, en := range c.entries("C04.1") {
		for _, e := range c.P.SummaryOf(en.Handler).Effs {
			if !(e.Kind == "bank" && e.Op == "BurnCoins" && e.Commit) {
				continue
			}
			nBurn++
			g := c.closeFacts(e.Guards)
			if en.Msg != "MsgRespondService" {
				// an answer produced inside the transaction (module service): the same malformed-output predicate over that answer
				okm := false
				for _, f := range g {
					if f.Neg && f.T.Op == "ok" && f.T.A[0].Op == c.typesName("ValidateResponseOutput") && len(f.T.A[0].A) == 1 {
						if _, ne := hasFact(g, "(nonempty "+f.T.A[0].A[0].String()+")", false); ne {
							okm = true
						}
					}
				}
				c.req(okm, "C04.1", effConstruct(en.Msg, e), e.Pos, "slash outside the respond message is dominated by the malformed-output predicate over the answer it settles")
				continue
			}
			out := en.Field("Output")
			_, a := hasFact(g, "(nonempty "+out+")", false)
			_, b := hasFact(g, "(ok ("+c.typesName("ValidateResponseOutput")+" "+out+"))", true)
			c.req(a && b, "C04.1", effConstruct(en.Msg, e), e.Pos, "dominated by len(output)>0 ∧ ValidateResponseOutput(output)≠nil over the message's output")
			c.slashTarget("C04.3", en.Msg, e, fmt.Sprintf("(res 0 (%s %s))", gRequest.Name, en.Field("RequestId")), gBinding)
		}
	}
	if eb := c.mustFn("C04.1", "service.EndBlocker"); eb != nil {
		for _, e := range c.P.SummaryOf(eb).Effs {
			if !(e.Kind == "bank" && e.Op == "BurnCoins") {
				continue
			}
			nBurn++
			// the request being expired: loaded from the id of the marker under iteration
			var R *Term
			for _, gf := range e.Guards {
				if gf.Neg && strings.HasPrefix(gf.T.Op, ".Request.SuperMode") {
					R = gf.T.A[0]
				}
			}
			okR := R != nil && c.P.scansFamily(R, "0x15") && R.Op == "res"
			c.req(okR, "C04.1", effConstruct("EndBlocker", e), e.Pos, "dominated by ¬SuperMode of the request whose active marker is being iterated")
			if okR {
				c.slashTarget("C04.3", "EndBlocker", e, R.String(), gBinding)
			}
		}
	}
	c.req(nBurn >= 2, "C04.1", "slash-sites", token.NoPos, fmt.Sprintf("%d entry-level slash variants (respond, end-block)", nBurn))
	c.expiryScanGuard("C04.1")
	c.schemaPredicate("C04.1", c.typesName("ValidateResponseOutput"), "types.OutputSchema")
	c.paramGettersExact("C04.3", "KeySlashFraction", "KeyBaseDenom", "KeyMinDepositMultiple", "KeyMinDeposit")
	// the expiry scan is skipped for a batch marked COMPLETED: that mark may only be written when no request of the batch is pending
	c.contextFieldRules("C04.7", map[string]bool{"batchstate": true, "state": true})

	// (2) exactly-when and slash ⇔ refund, per calling unit
	units := 0
	base := ss
	ss = c.slashEntryFuncs(base)
	isEntry := map[*Func]bool{}
	for _, f := range ss {
		isEntry[f] = true
	}
	for _, f := range c.handFuncs("keeper", "service") {
		if isEntry[f] {
			continue
		}
		calls := false
		for _, pa := range c.P.PathsOf(f) {
			if _, ok := pathHasCallTo(pa, ss); ok {
				calls = true
			}
		}
		if !calls {
			continue
		}
		units++
		var with, without []*Path
		for _, pa := range c.P.PathsOf(f) {
			if !pa.OK() {
				continue
			}
			if _, ok := pathHasCallTo(pa, ss); ok {
				with = append(with, pa)
			} else {
				without = append(without, pa)
			}
		}
		// trigger = facts common to all slashing paths that do not hold on all non-slashing paths
		var T FactSet
		for _, pa := range with {
			ev, _ := pathHasCallTo(pa, ss)
			idx := len(pa.Events)
			for i, x := range pa.Events {
				if x == ev {
					idx = i
				}
			}
			if T == nil {
				T = pa.FactsBefore(idx)
			} else {
				T = T.Intersect(pa.FactsBefore(idx))
			}
		}
		var common FactSet
		for _, pa := range without {
			if common == nil {
				common = pa.AllFacts()
			} else {
				common = common.Intersect(pa.AllFacts())
			}
		}
		trig := FactSet{}
		for k, v := range T {
			if common == nil || !common.Has(v) {
				trig[k] = v
			}
		}
		shape, okShape := c.triggerShape(trig)
		c.req(okShape, "C04.1", unitConstruct(f, "trigger"), f.Body.Pos(), "slash trigger in this unit: "+strings.Join(trig.Sorted(), " ∧ ")+" — "+shape)
		// slashes decided per element of a scan written in this unit: a path that does not enter that scan handles no element
		slashLoops := map[ast.Node]bool{}
		allInLoops := len(with) > 0
		for _, pa := range with {
			if ev, ok := pathHasCallTo(pa, ss); ok && ev.Loop != nil {
				slashLoops[ast.Node(ev.Loop)] = true
			} else {
				allInLoops = false
			}
		}
		// every non-slashing committed path negates a trigger fact
		for _, pa := range without {
			if allInLoops {
				entered := false
				for _, ev := range pa.Events {
					if ev.Kind == EvLoop && slashLoops[ev.Node] {
						entered = true
					}
				}
				if !entered {
					continue
				}
			}
			neg := false
			af := pa.AllFacts()
			for _, tf := range trig {
				if af.Has(tf.Not()) {
					neg = true
				}
			}
			// or the disjunction of exactly the negated trigger facts (¬(t1 ∧ t2) in normal form)
			var want []string
			for _, tf := range trig {
				want = append(want, tf.Not().String())
			}
			sort.Strings(want)
			for _, g := range af {
				if ds := g.Disjuncts(); ds != nil && strings.Join(ds, "|") == strings.Join(want, "|") {
					neg = true
				}
			}
			if !neg {
				c.fail("C04.1", unitConstruct(f, "missed-slash"), pa.RetPos, "a committed path satisfies the slash trigger's complement nowhere yet does not slash")
			}
		}
		// slash ⇔ refund
		bad := ""
		for _, pa := range append(append([]*Path{}, with...), without...) {
			_, hs := pathHasCallTo(pa, ss)
			_, hr := c.pathHasEffect(f, pa, isFeeRefund)
			if hs != hr {
				bad = fmt.Sprintf("path ending at %s: slash=%v refund=%v", c.pos(pa.RetPos), hs, hr)
			}
		}
		c.req(bad == "", "C04.2", unitConstruct(f, "slash-iff-refund"), f.Body.Pos(), "on every committed path the provider is slashed iff the fee is refunded"+condStr(bad != "", ": "+bad))
	}
	c.req(units >= 2, "C04.1", "slash-callers", token.NoPos, fmt.Sprintf("%d units call the slash function", units))

	// (4)/(5) inside the slash function
	ss = base
	for _, s := range ss {
		c.slashInternals(s, gBinding)
	}
	c.slashEffective("C04.6", ss)
	c.depositPairing("C04.4", ss...)
	c.availabilityPairs("C04.5")
	c.startRules("C04")
	c.pricingTextPairs("C04.5")
	c.paramSetExact("C04.3")
	c.fractionValidators("C04.3")
	c.contextFieldRules("C04.7", map[string]bool{"counts": true})
	ruleC14(c)
	// a badly answered request is closed by its response: it is not slashed again when its batch expires
	c.respondRules("C04")
}

func (c *Check) triggerShape(trig FactSet) (string, bool) {
	keys := trig.Sorted()
	if len(keys) == 1 {
		f := trig[keys[0]]
		if f.Neg && strings.HasSuffix(f.T.Op, ".SuperMode") {
			return "expired request not in super mode", true
		}
		// the output validator itself accepts an absent output: its failure alone is the malformed-output predicate
		if f.Neg && f.T.Op == "ok" && f.T.A[0].Op == c.typesName("ValidateResponseOutput") && len(f.T.A[0].A) == 1 {
			if _, ne := hasFact(c.closeFacts(trig), "(nonempty "+f.T.A[0].A[0].String()+")", false); ne {
				return "non-empty output that fails the output schema (the validator rejects only non-empty outputs)", true
			}
		}
	}
	if len(keys) == 2 {
		var x1, x2 string
		for _, k := range keys {
			f := trig[k]
			if !f.Neg && f.T.Op == "nonempty" {
				x1 = f.T.A[0].String()
			}
			if f.Neg && f.T.Op == "ok" && f.T.A[0].Op == c.typesName("ValidateResponseOutput") && len(f.T.A[0].A) == 1 {
				x2 = f.T.A[0].A[0].String()
			}
		}
		if x1 != "" && x1 == x2 {
			return "non-empty output that fails the output schema", true
		}
	}
	return "not one of {¬SuperMode(request)} / {len(output)>0 ∧ ValidateResponseOutput(output)≠nil}", false
}

// slashTarget: the burnt amount is computed from the binding of the request's (service, provider).
func (c *Check) slashTarget(rule, unit string, e *Eff, R string, gBinding *Func) {
	B := fmt.Sprintf("(res 0 (%s (.Request.ServiceName %s) (.Request.Provider %s)))", gBinding.Name, R, R)
	bd := c.paramTerm(rule, "KeyBaseDenom")
	sf := c.paramTerm(rule, "KeySlashFraction")
	amt := stripConv(e.Amount)
	ok := false
	vars := c.retVariants(amt)
	if len(vars) == 1 {
		amt = stripConv(vars[0])
	}
	if b, m := amt.Match("(sdk.NewCoins (sdk.NewCoin $D $X))"); m && b["$D"].String() == bd {
		dep := fmt.Sprintf("(sdk.Coins.AmountOf (.ServiceBinding.Deposit %s) %s)", B, bd)
		ok = isTruncMul(b["$X"], dep, sf)
	}
	c.req(ok, rule, effConstruct(unit, e)+"#amount", e.Pos,
		"burnt amount is NewCoins(base denom, TruncateInt(Dec(Deposit.AmountOf(base)) × SlashFraction)) of the binding of the failed request's (service, provider); found "+shortTerm(amt))
}

func (c *Check) slashInternals(s *Func, gBinding *Func) {
	units := c.persistUnits("0x02", "ServiceBinding")
	pps := units[s]
	if !c.req(len(pps) > 0, "C04.5", unitConstruct(s, "persists"), s.Body.Pos(), "the slash function persists the binding") {
		return
	}
	gPricing := c.getterByFamily("0x06")
	if gPricing == nil {
		c.undecided("C04.5", "getter:pricing", token.NoPos, "pricing getter not found")
		return
	}
	seen := map[string]bool{}
	// every committed path of the slash function decides the availability of the binding it slashed — also a path that
	// stores nothing (an amount that rounds to zero): the minimum in force may have been raised since the binding was made
	mdName := nameOf(c.minDepositFunc("C04.5"), "keeper.Keeper.getMinDeposit")
	for _, pp := range pps {
		if len(pp.Stored) > 0 || pp.Path.Exit != ExitSuccess {
			continue
		}
		// (a path that leaves before it has loaded the binding has slashed nothing and decides nothing: whether such an
		// exit is admissible is the business of the guard rules, not of this one)
		loaded := false
		for _, ev := range pp.Path.Events {
			if ev.Kind == EvCall && ev.CI.fn == gBinding {
				loaded = true
			}
		}
		if !loaded {
			continue
		}
		decided := false
		for _, fa := range pp.Facts {
			if fa.T.ContainsOp(mdName) {
				decided = true
			}
			if strings.HasSuffix(stripConv(fa.T).Op, ".ServiceBinding.Available") && fa.Neg {
				decided = true
			}
		}
		c.req(decided, "C04.5", unitConstruct(s, "auto-disable:decided-on-every-path"), pp.Path.RetPos,
			"a committed path of the slash function that stores nothing has still compared the deposit with the minimum in force (or found the binding unavailable)")
	}
	for _, pp := range pps {
		if len(pp.Stored) == 0 {
			continue
		}
		B := pp.Stored[len(pp.Stored)-1]
		L := baseOf(B)
		dep := field("ServiceBinding", "Deposit", B)
		avail := field("ServiceBinding", "Available", B)
		availL := Fact{T: field("ServiceBinding", "Available", L)}
		M := fmt.Sprintf("(%s (%s (.ServiceBinding.ServiceName %s) (.ServiceBinding.Provider %s)))", nameOf(c.minDepositFunc("C04.5"), "keeper.Keeper.getMinDeposit"), gPricing.Name, L, L)
		var verdict bool
		var detail string
		gteT := mk("sdk.Coins.IsAllGTE", dep, parseTerm(M))
		insufficient := mk("&&", availL.T, mk("!", gteT)) // available ∧ post-slash deposit below the minimum
		dt := field("ServiceBinding", "DisabledTime", B)
		switch {
		case pp.Facts.Holds(insufficient, true):
			verdict = avail.IsAt("#false") && dt.IsAt("BlockTime")
			detail = "available ∧ post-slash deposit < minimum ⇒ Available=false ∧ DisabledTime=block time (stored: " + shortTerm(avail) + ", " + shortTerm(dt) + ")"
		case pp.Facts.Holds(insufficient, false):
			verdict = avail.Eq(availL.T)
			detail = "unavailable, or post-slash deposit ≥ minimum ⇒ availability unchanged"
		default:
			verdict = false
			detail = "the binding is persisted without deciding (Available ∧ stored post-slash deposit " + shortTerm(dep) + " < getMinDeposit(GetPricing(binding)))"
		}
		k := detail
		if seen[k] {
			continue
		}
		seen[k] = true
		c.req(verdict, "C04.5", unitConstruct(s, "auto-disable:"+strings.SplitN(detail, " ⇒", 2)[0]), pp.Path.RetPos, detail)
	}
}

// availabilityPairs: Available=false ⇔ DisabledTime=block time; Available=true ⇔ zero DisabledTime.
func (c *Check) availabilityPairs(rule string) {
	units := c.persistUnits("0x02", "ServiceBinding")
	n := 0
	var fs []*Func
	for f := range units {
		fs = append(fs, f)
	}
	sort.Slice(fs, func(i, j int) bool { return fs[i].Name < fs[j].Name })
	for _, f := range fs {
		seen := map[string]bool{}
		for _, pp := range units[f] {
			for _, B := range pp.Stored {
				w := writtenFields(B)
				av, hasAv := w["Available"]
				dt, hasDt := w["DisabledTime"]
				if !hasAv && !hasDt {
					continue
				}
				n++
				ok := false
				switch {
				case hasAv && av.IsAt("#false"):
					ok = hasDt && dt.IsAt("BlockTime")
				case hasAv && av.IsAt("#true"):
					ok = hasDt && dt.Op == "lit" && len(dt.A) == 1
				}
				d := fmt.Sprintf("Available=%s DisabledTime=%s", shortTerm(av), shortTerm(dt))
				if seen[d] {
					continue
				}
				seen[d] = true
				c.req(ok, rule, unitConstruct(f, "availability-pair"), pp.Path.RetPos, "Available=false ⇔ DisabledTime=block time, Available=true ⇔ zero time: "+d)
			}
		}
	}
	c.req(n >= 1, rule, "availability-writes", token.NoPos, fmt.Sprintf("%d stored availability writes", n))
}

// expiryScanGuard: the marker scan of the expired-batch handler runs under no
// condition other than "batch not completed"; shared by C02, C04, C12, C16.
func (c *Check) expiryScanGuard(rule string) {
	bs := c.closuresBoundToScan("0x15")
	if !c.req(len(bs) >= 1, rule, "expired-request-handler", token.NoPos, fmt.Sprintf("%d closures bound to the active-marker scan", len(bs))) {
		return
	}
	for _, b := range bs {
		// guards of the binding call inside its caller
		var g FactSet
		for _, pa := range c.P.PathsOf(b.Caller) {
			for i, ev := range pa.Events {
				if ev == b.Call || (ev.Kind == EvCall && ev.Node == b.Call.Node) {
					fs := pa.FactsBefore(i)
					if g == nil {
						g = fs
					} else {
						g = g.Intersect(fs)
					}
				}
			}
		}
		extra := []string{}
		for _, k := range g.Sorted() {
			f := g[k]
			if f.Neg && f.T.Op == "==" && strings.HasSuffix(f.T.A[0].Op, ".BatchState") && f.T.A[1].IsAt("#types.BATCHCOMPLETED") {
				continue
			}
			if !f.Neg && f.T.Op == "==" && strings.HasSuffix(f.T.A[0].Op, ".BatchState") && f.T.A[1].IsAt("#types.BATCHRUNNING") {
				continue
			}
			extra = append(extra, k)
		}
		c.req(len(extra) == 0, rule, unitConstruct(b.Caller, "marker-scan-guard"), b.Call.Pos,
			"the expired batch's active markers are scanned whenever the batch is not completed; additional conditions: "+strings.Join(extra, " ∧ "))
		// scan arguments: the context id and its own BatchCounter
		if len(b.Call.CI.args) >= 3 {
			// a wrapper that hands its own parameters on is judged on its caller's arguments
			la, _ := c.liftCallArgs(b.Caller, b.Call.CI.args)
			id, cnt := la[1], la[2]
			okc := strings.HasSuffix(cnt.Op, ".RequestContext.BatchCounter")
			// the id is the handler's own parameter, or the very id whose context the counter is read from
			okid := id.Op == "" || (okc && len(cnt.A) == 1 && cnt.A[0].Contains(id))
			c.req(okc && okid, rule, unitConstruct(b.Caller, "marker-scan-args"), b.Call.Pos,
				"scan is restricted to (context id "+shortTerm(id)+", the context's BatchCounter "+shortTerm(cnt)+")")
		}
	}
}

// slashEffective (C04.6): a slash that is called must burn. Every committed path of the slash function burns, or
// — for a path that returns success without burning — the guard it took is refuted at every call site by what the
// caller has established since the last change of the records that guard reads (a guard such as "the request is
// still pending" is void once the caller has removed the pending marker before slashing), or the guard says that
// the amount to burn is zero.
func (c *Check) slashEffective(rule string, ss []*Func) {
	isBurn := func(e *Eff) bool { return e.Kind == "bank" && e.Op == "BurnCoins" }
	zeroOps := map[string]bool{"sdk.Coins.IsZero": true, "sdk.Coins.Empty": true, "sdk.Int.IsZero": true, "sdk.Dec.IsZero": true}
	for _, s := range ss {
		var skips []*Path
		nBurn := 0
		for _, pa := range c.P.PathsOf(s) {
			if !pa.OK() {
				continue
			}
			if _, ok := c.pathHasEffect(s, pa, isBurn); ok {
				nBurn++
				continue
			}
			zero := false
			for _, f := range pa.AllFacts() {
				if !f.Neg && zeroOps[f.T.Op] {
					zero = true
				}
			}
			if !zero {
				skips = append(skips, pa)
			}
		}
		if !c.req(nBurn > 0, rule, unitConstruct(s, "burning-paths"), s.Body.Pos(), fmt.Sprintf("%d committed paths of the slash function burn", nBurn)) {
			continue
		}
		if len(skips) == 0 {
			c.ok(rule, unitConstruct(s, "always-burns"), s.Body.Pos(), "every committed path of the slash function burns (or its guard says the amount is zero)")
			continue
		}
		// the guard of each skipping path, seen from every call site
		for _, f := range c.handFuncs("keeper", "service") {
			bad := ""
			n := 0
			for _, pa := range c.P.PathsOf(f) {
				if !pa.OK() {
					continue
				}
				for idx, ev := range pa.Events {
					if ev.Kind != EvCall || ev.CI.fn != s {
						continue
					}
					n++
					m := map[string]*Term{}
					for i, a := range ev.CI.args {
						m[fmt.Sprintf("P%d", i)] = a
					}
					if ev.CI.recv != nil {
						m["Precv"] = ev.CI.recv
					}
					for _, sp := range skips {
						refuted := false
						for _, g := range sp.AllFacts() {
							gi := g.Subst(m)
							fams := c.factFamilies(gi)
							// facts established after the last change of what the guard reads
							from := 0
							for j := 0; j < idx; j++ {
								if pa.Events[j].Kind != EvCall {
									continue
								}
								for _, e := range c.P.effectsOfEvent(f, pa.Events[j]) {
									if e.Kind == "store" && e.Mutates() && fams[e.Family] {
										from = j + 1
									}
								}
							}
							fs := FactSet{}
							for _, x := range pa.Events[from:idx] {
								if x.Kind == EvFact {
									fs.Add(x.Fact)
								}
							}
							if from == 0 {
								fs = pa.FactsBefore(idx)
							}
							if fs.Holds(gi.T, gi.Neg) {
								refuted = true
							}
							// "the record under the scan is missing" is void while the scanned family is unchanged
							if !refuted && gi.Neg && from == 0 && c.existsUnderScan(f, gi.T, fams) {
								refuted = true
							}
						}
						if !refuted {
							bad = fmt.Sprintf("the slash called at %s can take the non-burning path ending at %s", c.pos(ev.Pos), c.pos(sp.RetPos))
						}
					}
				}
			}
			if n > 0 {
				c.req(bad == "", rule, unitConstruct(f, "slash-burns"), f.Body.Pos(), "every non-burning path of the slash function is excluded by what this caller has established at the call"+condStr(bad != "", ": "+bad))
			}
		}
	}
}

// factFamilies: the store families read by the module functions a fact mentions.
func (c *Check) factFamilies(f Fact) map[string]bool {
	out := map[string]bool{}
	f.T.Walk(func(t *Term) bool {
		g := c.P.FuncNamed(t.Op)
		if g != nil && g.isHandWritten() && g.Body != nil && !c.P.pathsBusy[g] {
			for _, e := range c.P.SummaryOf(g).Effs {
				if e.Kind == "store" {
					out[e.Family] = true
				}
			}
		}
		return true
	})
	return out
}

// existsUnderScan: t is a lookup (Has/Get only) in one key family by the identifier that the unit f receives
// from a scan of that same family.
func (c *Check) existsUnderScan(f *Func, t *Term, fams map[string]bool) bool {
	if len(fams) != 1 {
		return false
	}
	g := c.P.FuncNamed(t.Op)
	if g == nil {
		return false
	}
	for _, e := range c.P.SummaryOf(g).Effs {
		if e.Kind == "store" && e.Op != "Has" && e.Op != "Get" {
			return false
		}
	}
	for fam := range fams {
		for _, b := range c.closuresBoundToScan(fam) {
			if b.Closure != f {
				continue
			}
			for _, a := range t.A {
				if b.isID(a) {
					return true
				}
			}
		}
	}
	return false
}
