package main

// Loading /repo's current working tree (DESIGN.md §2.1) and indexing its
// functions. Tool failures (the tree does not type-check, nothing loaded)
// are reported through toolFail -> exit 2.

import (
	"fmt"
	"go/ast"
	"go/token"
	"go/types"
	"os"
	"sort"
	"strings"

	"golang.org/x/tools/go/cfg"
	"golang.org/x/tools/go/packages"
)

const modPath = "github.com/irismod/service"

type Prog struct {
	Dir   string
	Fset  *token.FileSet
	Pkgs  []*packages.Package
	ByPkg map[string]*packages.Package // by import path

	Funcs     []*Func
	FuncByObj map[*types.Func]*Func
	FuncByLit map[*ast.FuncLit]*Func
	VarOwner  map[*types.Var]*Func // function whose body (or signature) declares the variable

	pathsMemo      map[*Func][]*Path
	pathsBusy      map[*Func]bool
	summaryMemo    map[*Func]*Summary
	retMemo        map[*Func][]*Term
	predMemo       map[*Func]*Term
	resEqMemo      map[*Func][]*Term
	valueMemo      map[*Func]*Term
	errCtorMemo    map[string]int
	globalMemo     map[*types.Var]*Term
	globalBusy     map[*types.Var]bool
	globalInit     map[*types.Var]ast.Expr
	globalPkgOf    map[*types.Var]*packages.Package
	globalMutated  map[*types.Var]bool
	inlineMemo     map[*Func]bool
	refs           map[*types.Func]int
	refCaller      map[*types.Func]*Func
	refsOther      map[*types.Func]int
	spliceHosts    []*Func
	spliceBind     map[*Func]map[string]*Term
	forceSplice    map[*Func]map[*Func]bool // host -> callees a rule asked to walk in place
	localBlockMemo map[*Func]bool
	elemMemo       map[*Func]*Term
	predDone       map[*Func]bool
	anchors        map[string]types.Object
	kt             *KeyTable
	reach          map[*Func]bool
	calleeMemo     map[*Func][]*Func

	Stats struct {
		Files, FuncsAnalysed, CallSites, Paths int
	}
	undecided []string // tree-caused inability to decide, reported per rule
}

type Func struct {
	Name   string // qualified display name, stable under line moves
	Obj    *types.Func
	Decl   *ast.FuncDecl
	Lit    *ast.FuncLit
	Type   *ast.FuncType
	Body   *ast.BlockStmt
	Pkg    *packages.Package
	Parent *Func
	Recv   *types.Var
	Params []*types.Var
	Res    []*types.Var // result variables (named or not)
	File   *ast.File

	defs      map[*types.Var][]vdef
	addrTaken map[*types.Var]bool
	cfg       *cfg.CFG
	paramIdx  map[*types.Var]int
	nlit      int
}

type vdef struct {
	rhs   ast.Expr // nil for zero / range / inc
	idx   int      // tuple index, -1 if not a tuple
	kind  string   // "assign","zero","rangekey","rangeval","incdec","opassign","typeswitch","out"
	node  ast.Node
	extra ast.Expr // range X / type switch X
}

func toolFail(format string, a ...interface{}) {
	fmt.Fprintf(os.Stderr, "svclint: tool failure: "+format+"\n", a...)
	os.Exit(2)
}

func loadProg(dir string, tests bool, goarch string) *Prog {
	env := append(os.Environ(),
		"GOFLAGS=-mod=mod", "GOPROXY=off", "GOSUMDB=off", "GOTOOLCHAIN=local", "GOWORK=off")
	if goarch != "" {
		env = append(env, "GOARCH="+goarch)
	}
	fset := token.NewFileSet()
	cfgp := &packages.Config{
		Mode: packages.NeedName | packages.NeedFiles | packages.NeedCompiledGoFiles |
			packages.NeedImports | packages.NeedDeps | packages.NeedTypes | packages.NeedSyntax |
			packages.NeedTypesInfo | packages.NeedTypesSizes | packages.NeedModule,
		Dir:   dir,
		Env:   env,
		Fset:  fset,
		Tests: tests,
	}
	pkgs, err := packages.Load(cfgp, "./...")
	if err != nil {
		toolFail("go/packages: %v", err)
	}
	if len(pkgs) == 0 {
		toolFail("no packages loaded from %s", dir)
	}
	p := &Prog{Dir: dir, Fset: fset, ByPkg: map[string]*packages.Package{},
		FuncByObj: map[*types.Func]*Func{}, FuncByLit: map[*ast.FuncLit]*Func{},
		VarOwner: map[*types.Var]*Func{}, pathsMemo: map[*Func][]*Path{}, pathsBusy: map[*Func]bool{},
		summaryMemo: map[*Func]*Summary{}, retMemo: map[*Func][]*Term{}, predMemo: map[*Func]*Term{}, resEqMemo: map[*Func][]*Term{}, valueMemo: map[*Func]*Term{}, inlineMemo: map[*Func]bool{}, predDone: map[*Func]bool{}, anchors: map[string]types.Object{}}
	nerr := 0
	for _, pk := range pkgs {
		for _, e := range pk.Errors {
			fmt.Fprintf(os.Stderr, "svclint: %s: %v\n", pk.PkgPath, e)
			nerr++
		}
		if len(pk.IgnoredFiles) > 0 && goarch == "" {
			for _, f := range pk.IgnoredFiles {
				if strings.HasSuffix(f, ".go") {
					toolFail("package %s ignores Go file %s in the default build context", pk.PkgPath, f)
				}
			}
		}
	}
	if nerr > 0 {
		toolFail("%d load/type errors: the tree does not build", nerr)
	}
	sort.Slice(pkgs, func(i, j int) bool { return pkgs[i].ID < pkgs[j].ID })
	for _, pk := range pkgs {
		if !strings.HasPrefix(pk.PkgPath, modPath) {
			continue
		}
		if tests && !strings.Contains(pk.ID, "[") && hasTestVariant(pkgs, pk) {
			continue // keep the test variant only
		}
		p.Pkgs = append(p.Pkgs, pk)
		if _, dup := p.ByPkg[pk.PkgPath]; !dup {
			p.ByPkg[pk.PkgPath] = pk
		}
	}
	for _, need := range []string{modPath, modPath + "/keeper", modPath + "/types"} {
		if p.ByPkg[need] == nil {
			toolFail("package %s not loaded", need)
		}
	}
	p.indexFuncs()
	dynResolver = p.resolveDynCalls
	elemResolver = p.resolveElem
	errCtorHook = p.moduleErrCtor
	return p
}

func hasTestVariant(pkgs []*packages.Package, pk *packages.Package) bool {
	for _, q := range pkgs {
		if q != pk && q.PkgPath == pk.PkgPath && strings.Contains(q.ID, "[") {
			return true
		}
	}
	return false
}

func isGenerated(f *ast.File) bool { return ast.IsGenerated(f) }

func (p *Prog) pos(n token.Pos) string {
	if !n.IsValid() {
		return "-"
	}
	ps := p.Fset.Position(n)
	return fmt.Sprintf("%s:%d", strings.TrimPrefix(ps.Filename, p.Dir+"/"), ps.Line)
}

// qname gives the display name used in terms for an object.
func qname(o types.Object) string {
	if o == nil {
		return "?"
	}
	pk := o.Pkg()
	prefix := ""
	if pk != nil {
		switch {
		case strings.HasPrefix(pk.Path(), modPath):
			prefix = pk.Name()
		case pk.Path() == "github.com/cosmos/cosmos-sdk/types":
			prefix = "sdk"
		default:
			prefix = pk.Path()
		}
	}
	if f, ok := o.(*types.Func); ok {
		if sig, ok := f.Type().(*types.Signature); ok && sig.Recv() != nil {
			rt := sig.Recv().Type()
			if pt, ok := rt.(*types.Pointer); ok {
				rt = pt.Elem()
			}
			if nt, ok := rt.(*types.Named); ok {
				rp := ""
				if nt.Obj().Pkg() != nil {
					np := nt.Obj().Pkg()
					switch {
					case strings.HasPrefix(np.Path(), modPath):
						rp = np.Name()
					case np.Path() == "github.com/cosmos/cosmos-sdk/types":
						rp = "sdk"
					default:
						rp = np.Path()
					}
				}
				return rp + "." + nt.Obj().Name() + "." + f.Name()
			}
			return prefix + ".?." + f.Name()
		}
	}
	if prefix == "" {
		return o.Name()
	}
	return prefix + "." + o.Name()
}

func typeName(T types.Type) string {
	if T == nil {
		return "?"
	}
	T = types.Unalias(T)
	if pt, ok := T.(*types.Pointer); ok {
		return "*" + typeName(pt.Elem())
	}
	if nt, ok := T.(*types.Named); ok {
		return qname(nt.Obj())
	}
	return types.TypeString(T, func(p *types.Package) string { return p.Name() })
}

// namedStruct returns the bare name of the named struct type of T (through pointers).
func namedStruct(T types.Type) string {
	if T == nil {
		return ""
	}
	T = types.Unalias(T)
	if pt, ok := T.(*types.Pointer); ok {
		T = types.Unalias(pt.Elem())
	}
	if nt, ok := T.(*types.Named); ok {
		if _, ok := nt.Underlying().(*types.Struct); ok {
			return nt.Obj().Name()
		}
	}
	return ""
}

func (p *Prog) indexFuncs() {
	for _, pk := range p.Pkgs {
		for _, file := range pk.Syntax {
			fn := p.Fset.Position(file.Pos()).Filename
			if strings.HasSuffix(fn, "_test.go") {
				continue
			}
			p.Stats.Files++
			gen := isGenerated(file)
			for _, d := range file.Decls {
				fd, ok := d.(*ast.FuncDecl)
				if !ok || fd.Body == nil {
					continue
				}
				obj, _ := pk.TypesInfo.Defs[fd.Name].(*types.Func)
				if obj == nil {
					continue
				}
				f := &Func{Name: qname(obj), Obj: obj, Decl: fd, Type: fd.Type, Body: fd.Body, Pkg: pk, File: file}
				if gen {
					f.Name = "gen:" + f.Name
				}
				sig := obj.Type().(*types.Signature)
				f.Recv = sig.Recv()
				for i := 0; i < sig.Params().Len(); i++ {
					f.Params = append(f.Params, sig.Params().At(i))
				}
				for i := 0; i < sig.Results().Len(); i++ {
					f.Res = append(f.Res, sig.Results().At(i))
				}
				p.addFunc(f, gen)
			}
		}
	}
	sort.Slice(p.Funcs, func(i, j int) bool { return p.Funcs[i].Name < p.Funcs[j].Name })
}

func (p *Prog) addFunc(f *Func, generated bool) {
	p.Funcs = append(p.Funcs, f)
	if f.Obj != nil {
		p.FuncByObj[f.Obj] = f
	}
	if f.Lit != nil {
		p.FuncByLit[f.Lit] = f
	}
	f.paramIdx = map[*types.Var]int{}
	for i, v := range f.Params {
		f.paramIdx[v] = i
		p.VarOwner[v] = f
	}
	if f.Recv != nil {
		p.VarOwner[f.Recv] = f
	}
	for _, v := range f.Res {
		p.VarOwner[v] = f
	}
	f.defs = map[*types.Var][]vdef{}
	f.addrTaken = map[*types.Var]bool{}
	if generated {
		return
	}
	p.scanBody(f)
}

// scanBody records variable definitions of f's body and creates Funcs for
// nested function literals.
func (p *Prog) scanBody(f *Func) {
	info := f.Pkg.TypesInfo
	owner := func(v *types.Var) {
		if v != nil && !v.IsField() {
			if _, ok := p.VarOwner[v]; !ok {
				p.VarOwner[v] = f
			}
		}
	}
	defOf := func(id *ast.Ident) *types.Var {
		if id == nil || id.Name == "_" {
			return nil
		}
		if o, ok := info.Defs[id].(*types.Var); ok && o != nil {
			owner(o)
			return o
		}
		if o, ok := info.Uses[id].(*types.Var); ok {
			return o
		}
		return nil
	}
	addDef := func(v *types.Var, d vdef) {
		if v == nil {
			return
		}
		root := f
		// definitions of captured variables belong to the owning function
		if o, ok := p.VarOwner[v]; ok && o != f {
			root = o
		}
		root.defs[v] = append(root.defs[v], d)
	}
	litNames := map[*ast.FuncLit]string{}
	var visit func(n ast.Node) bool
	visit = func(n ast.Node) bool {
		switch s := n.(type) {
		case *ast.FuncLit:
			name := fmt.Sprintf("%s$lit%d", f.Name, f.nlit)
			if nm, ok := litNames[s]; ok {
				name = f.Name + "$" + nm
			}
			f.nlit++
			g := &Func{Name: name, Lit: s, Type: s.Type, Body: s.Body, Pkg: f.Pkg, Parent: f, File: f.File}
			if sig, ok := info.TypeOf(s).(*types.Signature); ok {
				for i := 0; i < sig.Params().Len(); i++ {
					g.Params = append(g.Params, sig.Params().At(i))
				}
				for i := 0; i < sig.Results().Len(); i++ {
					g.Res = append(g.Res, sig.Results().At(i))
				}
			}
			p.addFunc(g, false)
			return false
		case *ast.AssignStmt:
			if len(s.Rhs) == 1 && len(s.Lhs) > 1 {
				for i, l := range s.Lhs {
					if id, ok := l.(*ast.Ident); ok {
						addDef(defOf(id), vdef{rhs: s.Rhs[0], idx: i, kind: "assign", node: s})
					}
				}
			} else {
				for i, l := range s.Lhs {
					id, ok := l.(*ast.Ident)
					if !ok {
						continue
					}
					kind := "assign"
					if s.Tok != token.ASSIGN && s.Tok != token.DEFINE {
						kind = "opassign"
					}
					if i < len(s.Rhs) {
						addDef(defOf(id), vdef{rhs: s.Rhs[i], idx: -1, kind: kind, node: s})
					}
				}
			}
			// name closures after the variable they are bound to
			for i, r := range s.Rhs {
				if lit, ok := r.(*ast.FuncLit); ok && i < len(s.Lhs) {
					if id, ok := s.Lhs[i].(*ast.Ident); ok {
						litNames[lit] = id.Name
					}
				}
			}
		case *ast.ValueSpec:
			for i, id := range s.Names {
				v := defOf(id)
				if len(s.Values) == 0 {
					addDef(v, vdef{kind: "zero", idx: -1, node: s})
				} else if len(s.Values) == len(s.Names) {
					addDef(v, vdef{rhs: s.Values[i], idx: -1, kind: "assign", node: s})
				} else {
					addDef(v, vdef{rhs: s.Values[0], idx: i, kind: "assign", node: s})
				}
			}
		case *ast.RangeStmt:
			if id, ok := s.Key.(*ast.Ident); ok {
				addDef(defOf(id), vdef{kind: "rangekey", idx: -1, node: s, extra: s.X})
			}
			if id, ok := s.Value.(*ast.Ident); ok {
				addDef(defOf(id), vdef{kind: "rangeval", idx: -1, node: s, extra: s.X})
			}
		case *ast.IncDecStmt:
			if id, ok := s.X.(*ast.Ident); ok {
				addDef(defOf(id), vdef{kind: "incdec", idx: -1, node: s})
			}
		case *ast.TypeSwitchStmt:
			var x ast.Expr
			switch a := s.Assign.(type) {
			case *ast.AssignStmt:
				if ta, ok := a.Rhs[0].(*ast.TypeAssertExpr); ok {
					x = ta.X
				}
			case *ast.ExprStmt:
				if ta, ok := a.X.(*ast.TypeAssertExpr); ok {
					x = ta.X
				}
			}
			for _, c := range s.Body.List {
				if v, ok := info.Implicits[c].(*types.Var); ok {
					owner(v)
					addDef(v, vdef{kind: "typeswitch", idx: -1, node: c, extra: x})
				}
			}
		case *ast.UnaryExpr:
			if s.Op == token.AND {
				if id, ok := s.X.(*ast.Ident); ok {
					if v, ok := info.Uses[id].(*types.Var); ok {
						root := f
						if o, ok := p.VarOwner[v]; ok {
							root = o
						}
						root.addrTaken[v] = true
					}
				}
			}
		}
		return true
	}
	ast.Inspect(f.Body, visit)
}

// FuncNamed finds a function by display name.
func (p *Prog) FuncNamed(name string) *Func {
	for _, f := range p.Funcs {
		if f.Name == name {
			return f
		}
	}
	return nil
}

// isHandWritten: rule sites exclude generated and test code.
// typeSig: the signature of a declared function or a function literal.
func (f *Func) typeSig() (*types.Signature, bool) {
	if f.Obj != nil {
		sg, ok := f.Obj.Type().(*types.Signature)
		return sg, ok
	}
	if f.Lit != nil {
		if t := f.Pkg.TypesInfo.TypeOf(f.Lit); t != nil {
			sg, ok := t.(*types.Signature)
			return sg, ok
		}
	}
	return nil, false
}

func (f *Func) isHandWritten() bool { return !strings.HasPrefix(f.Name, "gen:") }

func (f *Func) pkgName() string { return f.Pkg.Types.Name() }

func (f *Func) root() *Func {
	for f.Parent != nil {
		f = f.Parent
	}
	return f
}

func (f *Func) hasErrorResult() (int, bool) {
	for i, r := range f.Res {
		if isErrorType(r.Type()) {
			return i, true
		}
	}
	return -1, false
}

func (f *Func) CFG() *cfg.CFG {
	if f.cfg == nil {
		info := f.Pkg.TypesInfo
		f.cfg = cfg.New(f.Body, func(call *ast.CallExpr) bool {
			if id, ok := call.Fun.(*ast.Ident); ok {
				if b, ok := info.Uses[id].(*types.Builtin); ok && b.Name() == "panic" {
					return false
				}
			}
			return true
		})
	}
	return f.cfg
}

// callees: module functions referenced from g's body (calls, method values,
// function literals) — a conservative static call graph.
func (p *Prog) callees(g *Func) []*Func {
	if p.calleeMemo == nil {
		p.calleeMemo = map[*Func][]*Func{}
	}
	if cs, ok := p.calleeMemo[g]; ok {
		return cs
	}
	seen := map[*Func]bool{}
	var out []*Func
	add := func(h *Func) {
		if h != nil && !seen[h] {
			seen[h] = true
			out = append(out, h)
		}
	}
	if g.Body != nil {
		info := g.Pkg.TypesInfo
		ast.Inspect(g.Body, func(n ast.Node) bool {
			switch x := n.(type) {
			case *ast.FuncLit:
				add(p.FuncByLit[x])
				return false
			case *ast.Ident:
				if fo, ok := info.Uses[x].(*types.Func); ok {
					add(p.FuncByObj[fo])
					// interface method: every module implementation may be the callee
					if sig, ok := fo.Type().(*types.Signature); ok && sig.Recv() != nil {
						if it, ok := sig.Recv().Type().Underlying().(*types.Interface); ok {
							for _, h := range p.Funcs {
								if h.Obj == nil || h.Recv == nil || h.Obj.Name() != fo.Name() {
									continue
								}
								rt := h.Recv.Type()
								if types.Implements(rt, it) || types.Implements(types.NewPointer(rt), it) {
									add(h)
								}
							}
						}
					}
				}
			}
			return true
		})
	}
	p.calleeMemo[g] = out
	return out
}
