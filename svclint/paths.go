package main

// Path enumeration (DESIGN.md B.2). A function's go/cfg graph is walked
// depth-first; the path state maps locals to value Terms, so conditions that
// are decided by facts already on the path take only their feasible edge.
// No arithmetic is interpreted: this is path-sensitive dataflow over terms.

import (
	"fmt"
	"go/ast"
	"go/constant"
	"go/token"
	"go/types"
	"os"
	"sort"
	"strconv"
	"strings"

	"golang.org/x/tools/go/cfg"
	"golang.org/x/tools/go/types/typeutil"
)

type EvKind int

const (
	EvCall EvKind = iota
	EvFact
	EvWrite  // field write on a local struct value
	EvAssign // whole-variable assignment
	EvReturn
	EvPanic
	EvLoop // entering a loop body
	EvDefer
	EvIndex // evaluation of x[i] / x[a:b] on a slice, array or string
)

type Event struct {
	Kind EvKind
	Node ast.Node
	Pos  token.Pos

	// EvCall
	CI     *callInfo
	Result *Term
	Defer  bool

	// EvFact
	Fact Fact
	Cond ast.Expr

	// EvWrite / EvAssign
	Var    *types.Var
	Struct string // named struct type of Var for field writes
	Field  string
	Val    *Term
	Old    *Term // value of the variable / field before the write
	Base   *Term // term of the struct before the write

	Loop  ast.Stmt // innermost enclosing loop statement when the event was emitted
	Local []Fact   // facts implied by short-circuit evaluation (index events)
}

type ExitKind int

const (
	ExitSuccess ExitKind = iota // returns with a nil error (or has no error result)
	ExitMaybe                   // returns an error term that may be nil (tail call)
	ExitRevert                  // returns a non-nil error
	ExitPanic
)

func (k ExitKind) String() string {
	return [...]string{"success", "maybe", "revert", "panic"}[k]
}

type Path struct {
	Fn     *Func
	Events []*Event
	Exit   ExitKind
	Ret    []*Term
	RetPos token.Pos
	Out    map[int]*Term // final pointee value of pointer-to-struct parameters written on this path
}

// OK reports whether the path's effects are committed (not reverted).
func (pa *Path) OK() bool { return pa.Exit == ExitSuccess || pa.Exit == ExitMaybe }

// FactsBefore returns the set of facts established before event index i.
func (pa *Path) FactsBefore(i int) FactSet {
	s := FactSet{}
	for j := 0; j < i && j < len(pa.Events); j++ {
		if pa.Events[j].Kind == EvFact {
			s.Add(pa.Events[j].Fact)
		}
	}
	return s
}

func (pa *Path) AllFacts() FactSet { return pa.FactsBefore(len(pa.Events)) }

type pstate struct {
	ev     *evaluator
	vars   map[*types.Var]*Term
	events []*Event
	facts  FactSet
	visits map[int32]int
	unroll map[int32]int // next element of literal-list range loops being unrolled
	loops  []ast.Stmt
	defers []deferred // calls registered by defer statements, run at the exit of the path
	// recvWritten: a field of the struct behind the function's pointer receiver was written on this path
	recvWritten bool
}

// deferred is one registered deferred call: either the events of a call whose arguments were evaluated at
// the defer statement, or a parameterless function literal whose body runs against the state at exit.
type deferred struct {
	events []*Event
	lit    *ast.FuncLit
}

func (s *pstate) clone() *pstate {
	n := &pstate{vars: make(map[*types.Var]*Term, len(s.vars)), facts: s.facts.Clone(),
		visits: make(map[int32]int, len(s.visits))}
	for k, v := range s.vars {
		n.vars[k] = v
	}
	for k, v := range s.visits {
		n.visits[k] = v
	}
	if len(s.unroll) > 0 {
		n.unroll = make(map[int32]int, len(s.unroll))
		for k, v := range s.unroll {
			n.unroll[k] = v
		}
	}
	n.events = append([]*Event(nil), s.events...)
	n.loops = append([]ast.Stmt(nil), s.loops...)
	n.defers = append([]deferred(nil), s.defers...)
	n.recvWritten = s.recvWritten
	n.ev = &evaluator{p: s.ev.p, f: s.ev.f, st: n, busy: map[*types.Var]bool{}, depth: s.ev.depth}
	return n
}

func (s *pstate) curLoop() ast.Stmt {
	if len(s.loops) == 0 {
		return nil
	}
	return s.loops[len(s.loops)-1]
}

func (s *pstate) emit(e *Event) {
	e.Loop = s.curLoop()
	s.events = append(s.events, e)
}

func (s *pstate) emitCall(ci *callInfo, res *Term) {
	s.ev.p.Stats.CallSites++
	s.emit(&Event{Kind: EvCall, Node: ci.call, Pos: ci.call.Pos(), CI: ci, Result: res})
}

func (s *pstate) addFact(f Fact, cond ast.Expr) {
	if s.facts.Has(f) || isConstTerm(f.T) {
		return
	}
	s.facts.Add(f)
	pos := token.NoPos
	if cond != nil {
		pos = cond.Pos()
	}
	s.emit(&Event{Kind: EvFact, Fact: f, Cond: cond, Pos: pos})
}

const maxPaths = 60000

type tooManyPaths struct{ fn string }

// PathsOf enumerates the feasible paths of f (memoised).
func (p *Prog) PathsOf(f *Func) []*Path {
	if ps, ok := p.pathsMemo[f]; ok {
		return ps
	}
	if p.pathsBusy[f] {
		return nil // recursion: treated as opaque by callers
	}
	p.pathsBusy[f] = true
	defer delete(p.pathsBusy, f)
	p.Stats.FuncsAnalysed++
	g := f.CFG()
	st := &pstate{vars: map[*types.Var]*Term{}, facts: FactSet{}, visits: map[int32]int{}}
	st.ev = &evaluator{p: p, f: f, st: st, busy: map[*types.Var]bool{}}
	initNamedResults(f, st)
	var out []*Path
	func() {
		defer func() {
			if r := recover(); r != nil {
				if t, ok := r.(tooManyPaths); ok {
					p.undecided = append(p.undecided, fmt.Sprintf("function %s exceeds %d paths", t.fn, maxPaths))
					out = nil
					return
				}
				panic(r)
			}
		}()
		if len(g.Blocks) > 0 {
			p.walk(f, g.Blocks[0], st, &out)
		}
	}()
	out = p.splice(f, out)
	p.pathsMemo[f] = out
	p.Stats.Paths += len(out)
	return out
}

func (p *Prog) walk(f *Func, b *cfg.Block, st *pstate, out *[]*Path) {
	if len(*out) > maxPaths {
		panic(tooManyPaths{f.Name})
	}
	// a range over a literal list of known length is unrolled exactly, element by element
	if lit := p.unrollable(f, b, st); lit != nil {
		i := st.unroll[b.Index]
		n := len(lit.A) - 1
		if i >= n {
			delete(st.unroll, b.Index)
			p.walk(f, b.Succs[1], st, out)
			return
		}
		if st.unroll == nil {
			st.unroll = map[int32]int{}
		}
		st.unroll[b.Index] = i + 1
		for _, lb := range loopBlocks(b) {
			delete(st.visits, lb.Index)
		}
		rs := b.Stmt.(*ast.RangeStmt)
		p.bindRangeTo(f, rs, st, atom("#"+strconv.Itoa(i)), lit.A[1+i])
		p.walk(f, b.Succs[0], st, out)
		return
	}
	st.visits[b.Index]++
	if st.visits[b.Index] > 2 {
		return // each back edge is followed at most once per path
	}
	// loop bookkeeping
	switch b.Kind {
	case cfg.KindForBody, cfg.KindRangeBody:
		st.loops = append(st.loops, b.Stmt)
		st.emit(&Event{Kind: EvLoop, Node: b.Stmt, Pos: b.Stmt.Pos()})
	case cfg.KindForDone, cfg.KindRangeDone:
		for len(st.loops) > 0 && st.loops[len(st.loops)-1] == b.Stmt {
			st.loops = st.loops[:len(st.loops)-1]
		}
	}
	nodes := b.Nodes
	var cond ast.Expr
	isSwitchCase := false
	if len(b.Succs) == 2 {
		switch {
		case b.Kind == cfg.KindRangeLoop:
		case b.Succs[0].Kind == cfg.KindSwitchCaseBody:
			isSwitchCase = true
			if len(nodes) > 0 {
				if ex, ok := nodes[len(nodes)-1].(ast.Expr); ok && p.isCaseExpr(b.Succs[0], ex) {
					cond = ex
					nodes = nodes[:len(nodes)-1]
				}
			}
		default:
			if len(nodes) > 0 {
				if ex, ok := nodes[len(nodes)-1].(ast.Expr); ok {
					cond = ex
					nodes = nodes[:len(nodes)-1]
				}
			}
		}
	}
	for _, n := range nodes {
		if done := p.execNode(f, n, st, out); done {
			return
		}
	}
	switch len(b.Succs) {
	case 0:
		// fell off the end, or a no-return call
		if len(b.Nodes) > 0 {
			if es, ok := b.Nodes[len(b.Nodes)-1].(*ast.ExprStmt); ok {
				if isPanicCall(f, es.X) {
					return // already recorded by execNode
				}
			}
		}
		p.finish(f, st, nil, token.NoPos, out)
	case 1:
		p.walk(f, b.Succs[0], st, out)
	case 2:
		if b.Kind == cfg.KindRangeLoop {
			// zero iterations and one iteration — except where the ranged list is known on this path: a list that is still
			// empty is not entered, a local list that has just been given its first element is not skipped (gather first,
			// handle afterwards, written as two loops of one function)
			empty, nonEmpty := false, false
			if rs, ok := b.Stmt.(*ast.RangeStmt); ok && st.visits[b.Succs[0].Index] < 1 {
				if id, isId := ast.Unparen(rs.X).(*ast.Ident); isId {
					if v, _ := f.Pkg.TypesInfo.Uses[id].(*types.Var); v != nil {
						// (a list that a function literal of this function appends to is filled behind the path's back)
						if cur, known := st.vars[v]; known && cur != nil && !capturedByLiteral(f, v) {
							empty, nonEmpty = knownEmptyList(cur), knownNonEmptyList(cur)
						}
					}
				}
			}
			if !nonEmpty {
				s2 := st.clone()
				p.walk(f, b.Succs[1], s2, out)
			}
			if st.visits[b.Succs[0].Index] < 1 && !empty {
				p.bindRange(f, b.Stmt, st)
				p.walk(f, b.Succs[0], st, out)
			}
			return
		}
		if isSwitchCase {
			p.walkSwitchCase(f, b, cond, st, out)
			return
		}
		if b.Kind != cfg.KindForLoop && p.needsSplit(f, cond) {
			// a module call in a later operand of && / || runs only when the earlier operands let it
			p.branchSC(f, cond, cond, st,
				func(s *pstate) { p.walk(f, b.Succs[0], s, out) },
				func(s *pstate) { p.walk(f, b.Succs[1], s, out) })
			return
		}
		ct := boolSimplify(st.ev.eval(cond))
		if b.Kind == cfg.KindForLoop {
			// zero or one iteration; loop conditions (iterator.Valid()) are not facts
			if st.visits[b.Index] >= 2 {
				p.walk(f, b.Succs[1], st, out)
				return
			}
			s2 := st.clone()
			if pureTerm(ct) {
				// first evaluation of a pure loop condition: a fact on both edges (zero iterations / first iteration)
				for _, fa := range condFacts(ct, false) {
					s2.addFact(fa, cond)
				}
				for _, fa := range condFacts(ct, true) {
					st.addFact(fa, cond)
				}
			}
			// a counting loop over a list whose value is known on this path (see the range loop above)
			cEmpty, cNonEmpty := false, false
			if st.visits[b.Index] < 2 {
				if bb, ok := stripConv(ct).Match("(< $I (len $X))"); ok {
					if iv := stripConv(bb["$I"]); iv.IsAt("#0") || iv.Op == "key" || iv.Op == "keyfrom" {
						cEmpty, cNonEmpty = knownEmptyList(bb["$X"]), knownNonEmptyList(bb["$X"]) && iv.IsAt("#0")
					}
				} else if nt := stripConv(ct); nt.Op == "nonempty" && len(nt.A) == 1 && st.visits[b.Index] < 2 {
					// 0 < len(x), as the fact normaliser writes it
					cEmpty, cNonEmpty = knownEmptyList(nt.A[0]), knownNonEmptyList(nt.A[0])
				}
			}
			if os.Getenv("SVCLINT_DEBUG_LOOP") != "" {
				fmt.Fprintf(os.Stderr, "LOOP %s ct=%s empty=%v nonEmpty=%v visits=%d\n", f.Name, ct, cEmpty, cNonEmpty, st.visits[b.Index])
			}
			if !cNonEmpty {
				p.walk(f, b.Succs[1], s2, out)
			}
			if !cEmpty {
				p.bindIndexLoop(f, b.Stmt, st)
				p.walk(f, b.Succs[0], st, out)
			}
			return
		}
		if !pureTerm(ct) {
			s2 := st.clone()
			p.walk(f, b.Succs[0], st, out)
			p.walk(f, b.Succs[1], s2, out)
			return
		}
		ct = st.reduce(ct)
		switch st.decide(ct) {
		case 1:
			for _, fa := range condFacts(ct, true) {
				st.addFact(fa, cond)
			}
			p.walk(f, b.Succs[0], st, out)
		case 0:
			for _, fa := range condFacts(ct, false) {
				st.addFact(fa, cond)
			}
			p.walk(f, b.Succs[1], st, out)
		default:
			s2 := st.clone()
			for _, fa := range condFacts(ct, true) {
				st.addFact(fa, cond)
			}
			p.walk(f, b.Succs[0], st, out)
			for _, fa := range condFacts(ct, false) {
				s2.addFact(fa, cond)
			}
			p.walk(f, b.Succs[1], s2, out)
		}
	}
}

// needsSplit: the condition is a short-circuit expression with a module (or interface) call in an
// operand that is not evaluated first.
func (p *Prog) needsSplit(f *Func, cond ast.Expr) bool {
	e := ast.Unparen(cond)
	for {
		u, ok := e.(*ast.UnaryExpr)
		if !ok || u.Op != token.NOT {
			break
		}
		e = ast.Unparen(u.X)
	}
	be, ok := e.(*ast.BinaryExpr)
	if !ok || (be.Op != token.LAND && be.Op != token.LOR) {
		return false
	}
	if p.needsSplit(f, be.X) {
		return true
	}
	info := f.Pkg.TypesInfo
	found := false
	ast.Inspect(be.Y, func(n ast.Node) bool {
		c, ok := n.(*ast.CallExpr)
		if !ok || found {
			return !found
		}
		switch fo := typeutil.Callee(info, c).(type) {
		case *types.Func:
			if g := p.FuncByObj[fo]; g != nil && g.Body != nil && g.isHandWritten() && g.pkgName() != "types" && p.predDef(g) == nil {
				found = true // (a pure predicate has no effects to order: it stays part of the compound condition)
			}
			if sig, ok := fo.Type().(*types.Signature); ok && sig.Recv() != nil {
				if _, isIface := sig.Recv().Type().Underlying().(*types.Interface); isIface {
					found = true
				}
			}
		}
		return !found
	})
	return found
}

// branchSC walks a short-circuit condition operand by operand.
func (p *Prog) branchSC(f *Func, e ast.Expr, cond ast.Expr, st *pstate, onTrue, onFalse func(*pstate)) {
	e = ast.Unparen(e)
	if u, ok := e.(*ast.UnaryExpr); ok && u.Op == token.NOT {
		p.branchSC(f, u.X, cond, st, onFalse, onTrue)
		return
	}
	if be, ok := e.(*ast.BinaryExpr); ok && be.Op == token.LAND {
		p.branchSC(f, be.X, cond, st, func(s *pstate) { p.branchSC(f, be.Y, cond, s, onTrue, onFalse) }, onFalse)
		return
	}
	if be, ok := e.(*ast.BinaryExpr); ok && be.Op == token.LOR {
		p.branchSC(f, be.X, cond, st, onTrue, func(s *pstate) { p.branchSC(f, be.Y, cond, s, onTrue, onFalse) })
		return
	}
	ct := boolSimplify(st.ev.eval(e))
	if !pureTerm(ct) {
		s2 := st.clone()
		onTrue(st)
		onFalse(s2)
		return
	}
	ct = st.reduce(ct)
	switch st.decide(ct) {
	case 1:
		for _, fa := range condFacts(ct, true) {
			st.addFact(fa, cond)
		}
		onTrue(st)
	case 0:
		for _, fa := range condFacts(ct, false) {
			st.addFact(fa, cond)
		}
		onFalse(st)
	default:
		s2 := st.clone()
		for _, fa := range condFacts(ct, true) {
			st.addFact(fa, cond)
		}
		onTrue(st)
		for _, fa := range condFacts(ct, false) {
			s2.addFact(fa, cond)
		}
		onFalse(s2)
	}
}

func (p *Prog) isCaseExpr(body *cfg.Block, ex ast.Expr) bool {
	cc, ok := body.Stmt.(*ast.CaseClause)
	if !ok {
		return false
	}
	for _, e := range cc.List {
		if e == ex {
			return true
		}
	}
	return false
}

// walkSwitchCase handles one "tag == caseExpr" test of a lowered switch.
func (p *Prog) walkSwitchCase(f *Func, b *cfg.Block, caseExpr ast.Expr, st *pstate, out *[]*Path) {
	var ct *Term
	if caseExpr != nil {
		// find the switch statement's tag
		if tag := p.switchTagOf(f, b.Succs[0]); tag != nil {
			q := &evaluator{p: p, f: f, st: st, busy: map[*types.Var]bool{}, quiet: true}
			ct = mk("==", q.eval(tag), st.ev.eval(caseExpr))
		} else {
			// tagless switch: the case expression is the condition; a module call in a later operand of && / ||
			// runs only when the earlier operands let it
			if p.needsSplit(f, caseExpr) {
				p.branchSC(f, caseExpr, caseExpr, st,
					func(s *pstate) { p.walk(f, b.Succs[0], s, out) },
					func(s *pstate) { p.walk(f, b.Succs[1], s, out) })
				return
			}
			ct = boolSimplify(st.ev.eval(caseExpr))
		}
	}
	if ct == nil {
		// type switch: fork without facts (case types are not modelled as facts)
		s2 := st.clone()
		if cc, ok := b.Succs[0].Stmt.(*ast.CaseClause); ok && len(cc.List) > 0 {
			tt := mk("typecase", atom(typeName(f.Pkg.TypesInfo.TypeOf(cc.List[0]))))
			st.addFact(Fact{T: tt}, cc.List[0])
		}
		p.walk(f, b.Succs[0], st, out)
		p.walk(f, b.Succs[1], s2, out)
		return
	}
	switch st.decide(ct) {
	case 1:
		for _, fa := range condFacts(ct, true) {
			st.addFact(fa, caseExpr)
		}
		p.walk(f, b.Succs[0], st, out)
	case 0:
		for _, fa := range condFacts(ct, false) {
			st.addFact(fa, caseExpr)
		}
		p.walk(f, b.Succs[1], st, out)
	default:
		s2 := st.clone()
		for _, fa := range condFacts(ct, true) {
			st.addFact(fa, caseExpr)
		}
		p.walk(f, b.Succs[0], st, out)
		for _, fa := range condFacts(ct, false) {
			s2.addFact(fa, caseExpr)
		}
		p.walk(f, b.Succs[1], s2, out)
	}
}

func (p *Prog) switchTagOf(f *Func, body *cfg.Block) ast.Expr {
	cc, ok := body.Stmt.(*ast.CaseClause)
	if !ok {
		return nil
	}
	var tag ast.Expr
	found := false
	ast.Inspect(f.Body, func(n ast.Node) bool {
		if found {
			return false
		}
		if sw, ok := n.(*ast.SwitchStmt); ok {
			for _, c := range sw.Body.List {
				if c == cc {
					tag = sw.Tag
					found = true
					return false
				}
			}
		}
		return true
	})
	return tag
}

func isPanicCall(f *Func, x ast.Expr) bool {
	call, ok := ast.Unparen(x).(*ast.CallExpr)
	if !ok {
		return false
	}
	id, ok := call.Fun.(*ast.Ident)
	if !ok {
		return false
	}
	b, ok := f.Pkg.TypesInfo.Uses[id].(*types.Builtin)
	return ok && b.Name() == "panic"
}

// initNamedResults: named results hold their zero value until assigned.
func initNamedResults(f *Func, st *pstate) {
	for _, r := range f.Res {
		if r.Name() != "" && r.Name() != "_" {
			st.vars[r] = atom("zero").withType(r.Type())
		}
	}
}

// straightLine: a block of expression / assignment statements only.
func straightLine(b *ast.BlockStmt) bool {
	if b == nil {
		return false
	}
	for _, s := range b.List {
		switch s.(type) {
		case *ast.ExprStmt, *ast.AssignStmt, *ast.IncDecStmt:
		default:
			return false
		}
	}
	return true
}

// unrollable: b is the header of a range loop over an unkeyed slice / array literal with at most 8 elements.
func (p *Prog) unrollable(f *Func, b *cfg.Block, st *pstate) *Term {
	if b.Kind != cfg.KindRangeLoop || len(b.Succs) != 2 {
		return nil
	}
	rs, ok := b.Stmt.(*ast.RangeStmt)
	if !ok {
		return nil
	}
	switch f.Pkg.TypesInfo.TypeOf(rs.X).Underlying().(type) {
	case *types.Slice, *types.Array:
	default:
		return nil
	}
	q := &evaluator{p: p, f: f, st: st, busy: map[*types.Var]bool{}, quiet: true}
	x := q.eval(rs.X)
	if x.Op != "lit" || len(x.A) < 2 || len(x.A) > 9 {
		return nil
	}
	return x
}

// loopBlocks: the blocks of the loop whose header is b (reachable from its body without passing the header).
func loopBlocks(b *cfg.Block) []*cfg.Block {
	seen := map[*cfg.Block]bool{b: true}
	var out []*cfg.Block
	var dfs func(x *cfg.Block)
	dfs = func(x *cfg.Block) {
		if seen[x] {
			return
		}
		seen[x] = true
		out = append(out, x)
		for _, s := range x.Succs {
			dfs(s)
		}
	}
	dfs(b.Succs[0])
	// blocks after the loop are reachable only through the header's exit edge, which the search never takes
	return out
}

func (p *Prog) bindRangeTo(f *Func, rs *ast.RangeStmt, st *pstate, key, val *Term) {
	info := f.Pkg.TypesInfo
	bind := func(e ast.Expr, t *Term) {
		id, ok := e.(*ast.Ident)
		if !ok || id.Name == "_" {
			return
		}
		var v *types.Var
		if o, ok := info.Defs[id].(*types.Var); ok {
			v = o
		} else if o, ok := info.Uses[id].(*types.Var); ok {
			v = o
		}
		if v != nil {
			nt := *t
			nt.Typ = v.Type()
			st.vars[v] = &nt
		}
	}
	if rs.Key != nil {
		bind(rs.Key, key)
	}
	if rs.Value != nil {
		bind(rs.Value, val)
	}
}

func (p *Prog) bindRange(f *Func, s ast.Stmt, st *pstate) {
	rs, ok := s.(*ast.RangeStmt)
	if !ok {
		return
	}
	info := f.Pkg.TypesInfo
	x := st.ev.eval(rs.X)
	bind := func(e ast.Expr, op string) {
		id, ok := e.(*ast.Ident)
		if !ok || id.Name == "_" {
			return
		}
		var v *types.Var
		if o, ok := info.Defs[id].(*types.Var); ok {
			v = o
		} else if o, ok := info.Uses[id].(*types.Var); ok {
			v = o
		}
		if v != nil {
			st.vars[v] = simplify(mk(op, x).withType(v.Type()))
		}
	}
	if rs.Key != nil {
		bind(rs.Key, "key")
	}
	if rs.Value != nil {
		bind(rs.Value, "elem")
		// a local slice filled by a function literal that a scanning function calls per record (gathered first,
		// handled afterwards): its element is what the literal appends for the scanned record
		if id, ok := ast.Unparen(rs.X).(*ast.Ident); ok {
			if v, ok := info.Uses[id].(*types.Var); ok {
				if el := p.capturedElem(f, v, st); el != nil {
					if vid, ok := rs.Value.(*ast.Ident); ok && vid.Name != "_" {
						var lv *types.Var
						if o, ok := info.Defs[vid].(*types.Var); ok {
							lv = o
						} else if o, ok := info.Uses[vid].(*types.Var); ok {
							lv = o
						}
						if lv != nil {
							st.vars[lv] = el.withType(lv.Type())
						}
					}
				}
			}
		}
	}
}

// capturedElem: v is a local slice of f that is appended to in exactly one place — inside a function literal of f
// passed to a module function g that invokes it per scanned record. The element is the appended expression with the
// literal's parameters replaced by what g hands to it on this call's arguments.
func (p *Prog) capturedElem(f *Func, v *types.Var, st *pstate) *Term {
	if f.Body == nil {
		return nil
	}
	if _, isSlice := v.Type().Underlying().(*types.Slice); !isSlice {
		return nil
	}
	info := f.Pkg.TypesInfo
	var lit *ast.FuncLit
	var elemExpr ast.Expr
	nAppend := 0
	var inLit func(n ast.Node, cur *ast.FuncLit)
	inLit = func(n ast.Node, cur *ast.FuncLit) {
		ast.Inspect(n, func(x ast.Node) bool {
			switch y := x.(type) {
			case *ast.FuncLit:
				if y != cur {
					inLit(y.Body, y)
					return false
				}
			case *ast.AssignStmt:
				if len(y.Lhs) == 1 && len(y.Rhs) == 1 {
					if lid, ok := y.Lhs[0].(*ast.Ident); ok && info.Uses[lid] == v {
						nAppend++
						if ce, ok := y.Rhs[0].(*ast.CallExpr); ok && len(ce.Args) == 2 && !ce.Ellipsis.IsValid() {
							if fid, ok := ce.Fun.(*ast.Ident); ok && fid.Name == "append" {
								if b, ok := ce.Args[0].(*ast.Ident); ok && info.Uses[b] == v {
									lit, elemExpr = cur, ce.Args[1]
								}
							}
						}
					}
				}
			}
			return true
		})
	}
	inLit(f.Body, nil)
	if nAppend != 1 || lit == nil || elemExpr == nil {
		return nil
	}
	lf := p.FuncByLit[lit]
	if lf == nil {
		return nil
	}
	// the call that receives the literal
	var call *ast.CallExpr
	argIdx := -1
	ast.Inspect(f.Body, func(x ast.Node) bool {
		if ce, ok := x.(*ast.CallExpr); ok && call == nil {
			for i, a := range ce.Args {
				if ast.Unparen(a) == ast.Expr(lit) {
					call, argIdx = ce, i
				}
			}
		}
		return call == nil
	})
	if call == nil {
		return nil
	}
	fo, _ := typeutil.Callee(info, call).(*types.Func)
	g := p.FuncByObj[fo]
	if g == nil || g == f || g.Body == nil || p.pathsBusy[g] {
		return nil
	}
	m := map[string]*Term{}
	q := &evaluator{p: p, f: f, st: st, busy: map[*types.Var]bool{}, quiet: true}
	for i, a := range call.Args {
		if i != argIdx {
			m[fmt.Sprintf("P%d", i)] = q.eval(a)
		}
	}
	var handed []*Term
	for _, e := range p.SummaryOf(g).Effs {
		if e.Kind == "dyn" && len(e.Args) >= 1 && e.Args[0].IsAt(fmt.Sprintf("P%d", argIdx)) && handed == nil {
			for _, a := range e.Args[1:] {
				handed = append(handed, a.Subst(m))
			}
		}
	}
	if handed == nil {
		return nil
	}
	el := p.expandRetSummaries(p.fiEval(lf).eval(elemExpr))
	pm := map[string]*Term{}
	for i := range lf.Params {
		if i < len(handed) {
			pm[fmt.Sprintf("P%d", i)] = handed[i]
		}
	}
	return el.Subst(pm)
}

// bindIndexLoop: in the body of "for i := 0; i < len(x); i++" the counter is the position under
// iteration, as the key of "for i := range x" is.
func (p *Prog) bindIndexLoop(f *Func, s ast.Stmt, st *pstate) {
	fs, ok := s.(*ast.ForStmt)
	if !ok || fs.Init == nil || fs.Cond == nil || fs.Post == nil {
		return
	}
	info := f.Pkg.TypesInfo
	as, ok := fs.Init.(*ast.AssignStmt)
	if !ok || len(as.Lhs) != 1 || len(as.Rhs) != 1 {
		return
	}
	id, ok := as.Lhs[0].(*ast.Ident)
	if !ok {
		return
	}
	start := ""
	if tv, ok := info.Types[as.Rhs[0]]; ok && tv.Value != nil {
		start = tv.Value.ExactString()
	}
	if n, err := strconv.Atoi(start); err != nil || n < 0 || n > 64 {
		return
	}
	var v *types.Var
	if o, ok := info.Defs[id].(*types.Var); ok {
		v = o
	} else if o, ok := info.Uses[id].(*types.Var); ok {
		v = o
	}
	if v == nil {
		return
	}
	inc, ok := fs.Post.(*ast.IncDecStmt)
	if !ok || inc.Tok != token.INC {
		return
	}
	if pid, ok := inc.X.(*ast.Ident); !ok || info.Uses[pid] != v {
		return
	}
	be, ok := ast.Unparen(fs.Cond).(*ast.BinaryExpr)
	if !ok || be.Op != token.LSS {
		return
	}
	if cid, ok := ast.Unparen(be.X).(*ast.Ident); !ok || info.Uses[cid] != v {
		return
	}
	// the bound is len(x), written out or held in a local that was assigned len(x)
	q0 := &evaluator{p: p, f: f, st: st, busy: map[*types.Var]bool{}, quiet: true}
	bound := stripConv(q0.eval(be.Y))
	if bound.Op != "len" || len(bound.A) != 1 {
		return
	}
	boundOf := bound.A[0]
	// the counter must not be assigned in the body
	assigned := false
	ast.Inspect(fs.Body, func(n ast.Node) bool {
		switch x := n.(type) {
		case *ast.AssignStmt:
			for _, l := range x.Lhs {
				if lid, ok := l.(*ast.Ident); ok && (info.Uses[lid] == v || info.Defs[lid] == v) {
					assigned = true
				}
			}
		case *ast.IncDecStmt:
			if lid, ok := x.X.(*ast.Ident); ok && info.Uses[lid] == v {
				assigned = true
			}
		case *ast.UnaryExpr:
			if x.Op == token.AND {
				if lid, ok := x.X.(*ast.Ident); ok && info.Uses[lid] == v {
					assigned = true
				}
			}
		}
		return true
	})
	if assigned {
		return
	}
	if start == "0" {
		st.vars[v] = mk("key", boundOf).withType(v.Type())
	} else {
		// a counter that starts at c: a position of x that is at least c
		st.vars[v] = mk("keyfrom", atom("#"+start), boundOf).withType(v.Type())
	}
}

// assertionHelper: call is a statement-level call of a hand-written function without results that has both returning
// and panicking paths. Its success facts, over the actual arguments, are added to the state; the result is true when one
// of them is already refuted (the helper panics on this path).
func (p *Prog) assertionHelper(f *Func, call *ast.CallExpr, st *pstate) bool {
	fo, _ := typeutil.Callee(f.Pkg.TypesInfo, call).(*types.Func)
	if fo == nil {
		return false
	}
	g := p.FuncByObj[fo]
	if g == nil || g == f || g.Body == nil || !g.isHandWritten() || len(g.Res) != 0 || p.pathsBusy[g] || len(g.Params) == 0 || len(g.Params) > 3 {
		return false
	}
	var ce *Event
	for i := len(st.events) - 1; i >= 0; i-- {
		if e := st.events[i]; e.Kind == EvCall && e.Node == ast.Node(call) {
			ce = e
			break
		}
	}
	if ce == nil || ce.CI == nil || ce.CI.fn != g {
		return false
	}
	hasOK, hasPanic := false, false
	for _, pg := range p.PathsOf(g) {
		switch {
		case pg.Exit == ExitPanic:
			hasPanic = true
		case pg.OK():
			hasOK = true
		}
	}
	if !hasOK || !hasPanic {
		return false
	}
	// an assertion changes nothing: a function with effects of its own (an import step that panics on failure) is not one
	for _, e := range p.SummaryOf(g).Effs {
		if e.Kind != "emit" {
			return false
		}
	}
	m := map[string]*Term{}
	for i, a := range ce.CI.args {
		m[fmt.Sprintf("P%d", i)] = a
	}
	for _, sf := range p.SummaryOf(g).SuccessFacts {
		for _, nf := range sf.SubstAll(m) {
			// "the error is nil" about the error result of a call: that call succeeded
			if nf.T.Op == "==" && len(nf.T.A) == 2 && nf.T.A[1].IsAt("#nil") {
				if src := errSource(nf.T.A[0]); src != nil {
					nf = Fact{T: mk("ok", src), Neg: nf.Neg}
				}
			}
			if isConstTerm(nf.T) {
				continue
			}
			switch decideFact(nf, st.facts) {
			case 0:
				return true
			case 1:
			default:
				st.addFact(nf, nil)
			}
		}
	}
	return false
}

// execNode executes one CFG node; returns true if the path ended.
func (p *Prog) execNode(f *Func, n ast.Node, st *pstate, out *[]*Path) bool {
	info := f.Pkg.TypesInfo
	switch s := n.(type) {
	case *ast.ExprStmt:
		if isPanicCall(f, s.X) {
			call := ast.Unparen(s.X).(*ast.CallExpr)
			var a *Term
			if len(call.Args) > 0 {
				a = st.ev.eval(call.Args[0])
			}
			st.emit(&Event{Kind: EvPanic, Node: s, Pos: s.Pos(), Val: a})
			*out = append(*out, &Path{Fn: f, Events: st.events, Exit: ExitPanic, RetPos: s.Pos()})
			return true
		}
		st.ev.eval(s.X)
		// a statement that calls an assertion helper (no results; returns or panics): what every returning path of the
		// helper has established holds from here on, and a path on which that is already refuted ends in the helper's panic
		if call, ok := ast.Unparen(s.X).(*ast.CallExpr); ok {
			if dead := p.assertionHelper(f, call, st); dead {
				st.emit(&Event{Kind: EvPanic, Node: s, Pos: s.Pos()})
				*out = append(*out, &Path{Fn: f, Events: st.events, Exit: ExitPanic, RetPos: s.Pos()})
				return true
			}
		}
	case *ast.AssignStmt:
		p.execAssign(f, s, st)
	case *ast.IncDecStmt:
		op := "+"
		if s.Tok == token.DEC {
			op = "-"
		}
		old := st.ev.eval(s.X)
		p.assignTo(f, s.X, mk(op, old, atom("#1")).withType(old.Typ), old, st, s)
	case *ast.DeclStmt:
		if gd, ok := s.Decl.(*ast.GenDecl); ok {
			for _, sp := range gd.Specs {
				p.execValueSpec(f, sp, st)
			}
		}
	case *ast.ValueSpec:
		p.execValueSpec(f, s, st)
	case *ast.ReturnStmt:
		var rs []*Term
		if len(s.Results) == 0 {
			for _, r := range f.Res {
				rs = append(rs, st.ev.evalVar(r))
			}
		} else if len(s.Results) == 1 && len(f.Res) > 1 {
			t := st.ev.eval(s.Results[0])
			for i := range f.Res {
				rs = append(rs, simplify(mk("res", atom(strconv.Itoa(i)), t).withType(f.Res[i].Type())))
			}
		} else {
			for _, r := range s.Results {
				rs = append(rs, st.ev.eval(r))
			}
		}
		p.finish(f, st, rs, s.Pos(), out)
		return true
	case *ast.DeferStmt:
		// defer func() { straight-line body }(): the body runs at exit, reading the variables as they are then
		if lit, ok := ast.Unparen(s.Call.Fun).(*ast.FuncLit); ok && len(s.Call.Args) == 0 && straightLine(lit.Body) {
			st.defers = append(st.defers, deferred{lit: lit})
			break
		}
		// defer f(args): the arguments are evaluated now, the call happens at exit
		before := len(st.events)
		st.ev.eval(s.Call)
		var own []*Event
		for _, e := range st.events[before:] {
			if e.Kind == EvCall && e.Node == s.Call {
				e.Defer = true
				own = append(own, e)
			}
		}
		if len(own) == 1 && own[0].CI.fn != nil {
			// a module call: its effects belong to the exit, not to the defer statement
			kept := st.events[:before]
			for _, e := range st.events[before:] {
				if e != own[0] {
					kept = append(kept, e)
				}
			}
			st.events = kept
			st.defers = append(st.defers, deferred{events: own})
		}
	case *ast.GoStmt:
		st.ev.eval(s.Call)
	case *ast.SendStmt:
		st.ev.eval(s.Chan)
		st.ev.eval(s.Value)
	case ast.Expr:
		// switch tag, range operand, or stray expression
		if _, isIdent := s.(*ast.Ident); !isIdent {
			if tv, ok := info.Types[s]; ok && (tv.IsValue() || tv.IsNil()) {
				st.ev.eval(s)
			}
		}
	case *ast.EmptyStmt, *ast.LabeledStmt, *ast.BranchStmt:
	}
	return false
}

func (p *Prog) execValueSpec(f *Func, sp ast.Spec, st *pstate) {
	vs, ok := sp.(*ast.ValueSpec)
	if !ok {
		return
	}
	info := f.Pkg.TypesInfo
	for i, id := range vs.Names {
		v, _ := info.Defs[id].(*types.Var)
		if v == nil {
			continue
		}
		switch {
		case len(vs.Values) == 0:
			st.vars[v] = atom("zero").withType(v.Type())
		case len(vs.Values) == len(vs.Names):
			st.vars[v] = st.ev.eval(vs.Values[i])
		default:
			t := st.ev.eval(vs.Values[0])
			st.vars[v] = simplify(mk("res", atom(strconv.Itoa(i)), t).withType(v.Type()))
		}
	}
}

func (p *Prog) execAssign(f *Func, s *ast.AssignStmt, st *pstate) {
	if len(s.Rhs) == 1 && len(s.Lhs) > 1 {
		t := st.ev.eval(s.Rhs[0])
		for i, l := range s.Lhs {
			var el *Term
			if t.Op == "tuple" && i < len(t.A) {
				el = t.A[i]
			} else {
				el = mk("res", atom(strconv.Itoa(i)), t)
				if tt, ok := t.Typ.(*types.Tuple); ok && i < tt.Len() {
					el.Typ = tt.At(i).Type()
				} else {
					el.Typ = f.Pkg.TypesInfo.TypeOf(l)
				}
			}
			p.assignTo(f, l, el, nil, st, s)
		}
		return
	}
	vals := make([]*Term, len(s.Rhs))
	for i, r := range s.Rhs {
		vals[i] = st.ev.eval(r)
	}
	for i, l := range s.Lhs {
		if i >= len(vals) {
			break
		}
		v := vals[i]
		var old *Term
		if s.Tok != token.ASSIGN && s.Tok != token.DEFINE {
			old = st.ev.eval(l)
			op := strings.TrimSuffix(s.Tok.String(), "=")
			v = mk(op, old, v).withType(old.Typ)
		}
		p.assignTo(f, l, v, old, st, s)
	}
}

// assignTo performs lhs = val on the path state.
func (p *Prog) assignTo(f *Func, lhs ast.Expr, val *Term, old *Term, st *pstate, node ast.Node) {
	info := f.Pkg.TypesInfo
	lhs = ast.Unparen(lhs)
	switch l := lhs.(type) {
	case *ast.Ident:
		if l.Name == "_" {
			return
		}
		var v *types.Var
		if o, ok := info.Defs[l].(*types.Var); ok && o != nil {
			v = o
		} else if o, ok := info.Uses[l].(*types.Var); ok {
			v = o
		}
		if v == nil {
			return
		}
		if old == nil {
			if cur, ok := st.vars[v]; ok {
				old = cur
			}
		}
		st.vars[v] = val
		st.emit(&Event{Kind: EvAssign, Node: node, Pos: l.Pos(), Var: v, Val: val, Old: old})
	case *ast.SelectorExpr:
		sel, ok := info.Selections[l]
		if !ok || sel.Kind() != types.FieldVal {
			return
		}
		base, ok := ast.Unparen(l.X).(*ast.Ident)
		if !ok {
			// nested selector: evaluate for events only
			st.emit(&Event{Kind: EvWrite, Node: node, Pos: l.Pos(), Struct: namedStruct(sel.Recv()),
				Field: sel.Obj().Name(), Val: val, Base: st.ev.eval(l.X)})
			return
		}
		v, _ := info.Uses[base].(*types.Var)
		if v == nil {
			return
		}
		cur := st.ev.evalVar(v)
		oldField := simplify((&Term{Op: "." + namedStruct(sel.Recv()) + "." + sel.Obj().Name(), A: []*Term{cur}}).withType(sel.Obj().Type()))
		nv := withField(cur, sel.Obj().Name(), val)
		nv.Typ = cur.Typ
		st.vars[v] = nv
		if v == f.Recv {
			st.recvWritten = true
		}
		st.emit(&Event{Kind: EvWrite, Node: node, Pos: l.Pos(), Var: v, Struct: namedStruct(sel.Recv()),
			Field: sel.Obj().Name(), Val: val, Old: oldField, Base: cur})
	case *ast.IndexExpr:
		// map / slice element update: the container becomes (upd c k v)
		if id, ok := ast.Unparen(l.X).(*ast.Ident); ok {
			if v, ok := info.Uses[id].(*types.Var); ok {
				cur := st.ev.evalVar(v)
				st.vars[v] = mk("upd", cur, st.ev.eval(l.Index), val).withType(cur.Typ)
				st.emit(&Event{Kind: EvAssign, Node: node, Pos: l.Pos(), Var: v, Val: st.vars[v], Old: cur})
				return
			}
		}
		// element update of a collection held in a struct field: a write of that field
		if se, ok := ast.Unparen(l.X).(*ast.SelectorExpr); ok {
			if sel, ok := info.Selections[se]; ok && sel.Kind() == types.FieldVal {
				cur := st.ev.eval(se)
				upd := mk("upd", cur, st.ev.eval(l.Index), val).withType(sel.Obj().Type())
				p.assignTo(f, se, upd, cur, st, node)
				return
			}
		}
		st.ev.eval(l.X)
		st.ev.eval(l.Index)
	case *ast.StarExpr:
		t := st.ev.eval(l.X)
		st.emit(&Event{Kind: EvWrite, Node: node, Pos: l.Pos(), Field: "*", Val: val, Base: t})
		// a pointer variable known to point at a value: the pointee is replaced
		if id, ok := ast.Unparen(l.X).(*ast.Ident); ok && t.Op == "&" && len(t.A) == 1 {
			if v, ok := info.Uses[id].(*types.Var); ok {
				st.vars[v] = mk("&", val).withType(v.Type())
			}
		}
	}
}

func withField(base *Term, field string, val *Term) *Term {
	if base.Op == "with" {
		na := []*Term{base.A[0]}
		replaced := false
		for _, kv := range base.A[1:] {
			if kv.Op == field {
				na = append(na, mk(field, val))
				replaced = true
			} else {
				na = append(na, kv)
			}
		}
		if !replaced {
			na = append(na, mk(field, val))
		}
		sort.Slice(na[1:], func(i, j int) bool { return na[1+i].Op < na[1+j].Op })
		return &Term{Op: "with", A: na}
	}
	return &Term{Op: "with", A: []*Term{base, mk(field, val)}}
}

func (p *Prog) finish(f *Func, st *pstate, rs []*Term, pos token.Pos, out *[]*Path) {
	exit := ExitSuccess
	if i, ok := f.hasErrorResult(); ok {
		if rs == nil {
			// fell off the end with named results
			for _, r := range f.Res {
				rs = append(rs, st.ev.evalVar(r))
			}
		}
		if i < len(rs) {
			exit = classifyErr(rs[i], st.facts)
		}
	}
	// deferred calls run now, last registered first
	for i := len(st.defers) - 1; i >= 0; i-- {
		d := st.defers[i]
		if d.lit != nil {
			for _, stm := range d.lit.Body.List {
				p.execNode(f, stm, st, out)
			}
			continue
		}
		for _, e := range d.events {
			st.emit(e)
		}
	}
	st.defers = nil
	st.emit(&Event{Kind: EvReturn, Pos: pos})
	pa := &Path{Fn: f, Events: st.events, Exit: exit, Ret: rs, RetPos: pos}
	for i, pr := range f.Params {
		if pt, ok := types.Unalias(pr.Type()).(*types.Pointer); ok && namedStruct(pt.Elem()) != "" {
			if t, written := st.vars[pr]; written {
				if pa.Out == nil {
					pa.Out = map[int]*Term{}
				}
				pa.Out[i] = t
			}
		} else if _, isIface := pr.Type().Underlying().(*types.Interface); ok || isIface {
			// a pointer to a scalar / slice (or an interface holding a pointer) bound to the address of a caller's
			// value (specialised walk): its final pointee
			if t, bound := st.vars[pr]; bound && t.Op == "&" && len(t.A) == 1 {
				if pa.Out == nil {
					pa.Out = map[int]*Term{}
				}
				pa.Out[i] = t.A[0]
			}
		}
	}
	// a pointer receiver whose struct was written on this path (out index -1)
	if f.Recv != nil {
		if pt, ok := types.Unalias(f.Recv.Type()).(*types.Pointer); ok && namedStruct(pt.Elem()) != "" {
			if t, written := st.vars[f.Recv]; written && st.recvWritten {
				if pa.Out == nil {
					pa.Out = map[int]*Term{}
				}
				pa.Out[-1] = t
			}
		}
	}
	*out = append(*out, pa)
}

// resEquations: for a module function with an error result and further results, the results that are
// the same pass-through term (a parameter, or a result of another module call on the parameters) on
// every committed path; a nil entry means no equation. The caller's view of such a result is that term.
func (p *Prog) resEquations(g *Func) []*Term {
	if eq, ok := p.resEqMemo[g]; ok {
		return eq
	}
	p.resEqMemo[g] = nil
	if p.pathsBusy[g] || !g.isHandWritten() || g.Body == nil || len(g.Res) < 2 || g.pkgName() != "keeper" {
		return nil
	}
	ei, hasErr := g.hasErrorResult()
	if !hasErr {
		return nil
	}
	eq := make([]*Term, len(g.Res))
	dead := make([]bool, len(g.Res))
	n := 0
	for _, pa := range p.PathsOf(g) {
		if !pa.OK() || len(pa.Ret) != len(g.Res) {
			if pa.OK() {
				return nil
			}
			continue
		}
		n++
		for k, r := range pa.Ret {
			if k == ei || dead[k] {
				continue
			}
			var passTerm func(t *Term, depth int) bool
			passTerm = func(t *Term, depth int) bool {
				if t == nil || depth > 3 {
					return false
				}
				switch {
				case t.Op == "" && strings.HasPrefix(t.At, "P"):
					return true
				case t.Op == "res" && len(t.A) == 2:
					h := p.FuncNamed(t.A[1].Op)
					return h != nil && h != g
				case strings.HasPrefix(t.Op, ".") && len(t.A) == 1 && depth > 0:
					return passTerm(t.A[0], depth+1)
				case t.Op == "lit" && len(t.A) >= 2 && depth == 0 && namedStruct(t.Typ) != "":
					// a record assembled from such terms (a plan, a result struct)
					for _, kv := range t.A[1:] {
						if len(kv.A) != 1 || !passTerm(kv.A[0], depth+1) {
							return false
						}
					}
					return true
				}
				return false
			}
			pass := passTerm(r, 0)
			if !pass || (eq[k] != nil && !eq[k].Eq(r)) {
				dead[k], eq[k] = true, nil
				continue
			}
			eq[k] = r
		}
	}
	any := false
	for k := range eq {
		if dead[k] {
			eq[k] = nil
		}
		if eq[k] != nil {
			any = true
		}
	}
	if n == 0 || !any {
		return nil
	}
	p.resEqMemo[g] = eq
	return eq
}

// predDef: the boolean definition of a pure module predicate (a function with a single bool result,
// no effects and no dynamic calls), as a term over its parameters: the disjunction over its paths of
// the path's branch facts together with the returned expression. nil if g is not such a predicate.
func (p *Prog) predDef(g *Func) *Term {
	if p.predDone[g] {
		return p.predMemo[g]
	}
	if p.pathsBusy[g] || g == nil || !g.isHandWritten() || g.Body == nil || len(g.Res) != 1 {
		return nil
	}
	p.predDone[g] = true
	if b, ok := g.Res[0].Type().Underlying().(*types.Basic); !ok || b.Kind() != types.Bool {
		return nil
	}
	if pk := g.pkgName(); pk != "keeper" && pk != "service" && pk != "types" {
		return nil
	}
	paths := p.PathsOf(g)
	if len(paths) == 0 || len(paths) > 8 {
		return nil
	}
	var def *Term
	for _, pa := range paths {
		if pa.Exit != ExitSuccess || len(pa.Ret) != 1 {
			return nil
		}
		for _, ev := range pa.Events {
			switch ev.Kind {
			case EvFact, EvReturn, EvIndex, EvAssign:
			case EvCall:
				// calls of opaque pure accessors only (no module callee with a body, no store / bank / dyn)
				if ev.CI.fn != nil || ev.CI.name == "dyn" || p.classifyCall(g, ev) != nil {
					return nil
				}
			default:
				return nil
			}
		}
		conj := pa.Ret[0]
		facts := pa.AllFacts().Sorted()
		af := pa.AllFacts()
		for i := len(facts) - 1; i >= 0; i-- {
			f := af[facts[i]]
			ft := f.T
			if f.Neg {
				ft = mk("!", ft)
			}
			conj = mk("&&", ft, conj)
		}
		if def == nil {
			def = conj
		} else {
			def = mk("||", def, conj)
		}
	}
	def = boolSimplify(def)
	// must be expressed over parameters only
	ok := true
	def.Walk(func(x *Term) bool {
		if x.Op == "" && strings.HasPrefix(x.At, "U") && len(x.At) > 1 && x.At[1] >= '0' && x.At[1] <= '9' {
			ok = false
		}
		if x.Op == "var" || x.Op == "?" || x.Op == "phi" {
			ok = false
		}
		return ok
	})
	if !ok {
		return nil
	}
	p.predMemo[g] = def
	return def
}

// outSummary: the value a module function leaves behind a pointer-to-struct parameter when it commits
// (the same on every committed path), expressed over its parameters; nil if it does not write it or paths differ.
func (p *Prog) outSummary(g *Func, i int) *Term {
	if p.pathsBusy[g] || !g.isHandWritten() || g.Body == nil || i >= len(g.Params) {
		return nil
	}
	self := fmt.Sprintf("P%d", i)
	if i < 0 {
		self = "Precv"
	}
	var common *Term
	n := 0
	for _, pa := range p.PathsOf(g) {
		if !pa.OK() {
			continue
		}
		n++
		t := pa.Out[i]
		if t == nil {
			t = atom(self)
		}
		if common == nil {
			common = t
		} else if !common.Eq(t) {
			return nil
		}
	}
	if n == 0 || common == nil || common.IsAt(self) {
		return nil
	}
	return common
}

// classifyErr decides whether an error-typed return term is nil.
func classifyErr(t *Term, facts FactSet) ExitKind {
	if t == nil {
		return ExitSuccess
	}
	if t.IsAt("#nil") || t.IsAt("zero") {
		return ExitSuccess
	}
	// the error result of a call already known to be nil / non-nil on this path
	if c := errSource(t); c != nil {
		ok := Fact{T: mk("ok", c)}
		if facts.Has(ok) {
			return ExitSuccess
		}
		if facts.Has(ok.Not()) {
			return ExitRevert
		}
		// constructors of errors never return nil
		if isErrCtor(c.Op) {
			return ExitRevert
		}
		return ExitMaybe
	}
	if t.Op == "phi" {
		return ExitMaybe
	}
	if strings.HasPrefix(t.At, "@") { // package-level error value
		return ExitRevert
	}
	return ExitRevert
}

// errCtorHook is installed by the loader: module helpers that build an error (every path returns a non-nil error).
var errCtorHook func(op string) bool

func isErrCtor(op string) bool {
	if errCtorHook != nil && errCtorHook(op) {
		return true
	}
	switch op {
	case "github.com/cosmos/cosmos-sdk/types/errors.Wrap", "github.com/cosmos/cosmos-sdk/types/errors.Wrapf",
		"errors.New", "fmt.Errorf", "google.golang.org/grpc/status.Errorf", "google.golang.org/grpc/status.Error":
		return true
	}
	return false
}

// pureTerm: a term whose value does not depend on when it is evaluated
// (iterator positions and dynamic calls are not).
func pureTerm(t *Term) bool {
	pure := true
	t.Walk(func(x *Term) bool {
		if strings.HasSuffix(x.Op, "Iterator.Valid") || strings.HasSuffix(x.Op, "Iterator.Next") {
			pure = false
		}
		return pure
	})
	return pure
}

// reduce replaces decided sub-conditions of a compound condition by constants,
// so that the facts recorded on each edge are as atomic as the path allows.
func (s *pstate) reduce(t *Term) *Term {
	if t == nil {
		return t
	}
	switch t.Op {
	case "&&", "||":
		a, b := s.reduce(t.A[0]), s.reduce(t.A[1])
		return boolSimplify(mk(t.Op, a, b))
	case "!":
		return boolSimplify(mk("!", s.reduce(t.A[0])))
	}
	switch s.decide(t) {
	case 1:
		return atom("#true")
	case 0:
		return atom("#false")
	}
	return t
}

// decide evaluates a boolean term against the path's facts:
// 1 = true, 0 = false, -1 = unknown.
func (s *pstate) decide(t *Term) int {
	if t == nil {
		return -1
	}
	switch t.Op {
	case "!":
		switch s.decide(t.A[0]) {
		case 1:
			return 0
		case 0:
			return 1
		}
		return -1
	case "&&":
		a, b := s.decide(t.A[0]), s.decide(t.A[1])
		if a == 0 || b == 0 {
			return 0
		}
		if a == 1 && b == 1 {
			return 1
		}
		return s.decideWhole(t)
	case "||":
		a, b := s.decide(t.A[0]), s.decide(t.A[1])
		if a == 1 || b == 1 {
			return 1
		}
		if a == 0 && b == 0 {
			return 0
		}
		return s.decideWhole(t)
	}
	if t.IsAt("#true") {
		return 1
	}
	if t.IsAt("#false") {
		return 0
	}
	f := normFact(Fact{T: t})
	if r := decideFact(f, s.facts); r >= 0 {
		return r
	}
	return decideByCases(f, s.facts)
}

// decideByCases: a comparison with an enumeration constant that the compound conditions recorded so far settle
// by case analysis (¬(paused ∧ left) and ¬(completed ∨ ((running ∨ paused) ∧ ¬left)) leave only running).
func decideByCases(f Fact, facts FactSet) int {
	t := f.T
	if t.Op != "==" || len(t.A) != 2 || !isConstTerm(t.A[1]) || enumSize(t.A[1]) == 0 {
		return -1
	}
	mentioned := false
	for _, g := range facts {
		if g.T.Op != "||" && g.T.Op != "&&" {
			continue
		}
		g.T.Walk(func(x *Term) bool {
			if x.Op == "==" && len(x.A) == 2 && x.A[0].Eq(t.A[0]) && isConstTerm(x.A[1]) {
				mentioned = true
			}
			return !mentioned
		})
		if mentioned {
			break
		}
	}
	if !mentioned {
		return -1
	}
	res := func(v bool) int {
		if v != f.Neg {
			return 1
		}
		return 0
	}
	if facts.entails(t, true) {
		return res(true)
	}
	if facts.entails(t, false) {
		return res(false)
	}
	return -1
}

// decideWhole: a compound condition recorded earlier as one (normalised) fact.
func (s *pstate) decideWhole(t *Term) int {
	if s.facts.Has(normFact(Fact{T: t})) {
		return 1
	}
	if s.facts.Has(normFact(Fact{T: t, Neg: true})) {
		return 0
	}
	return -1
}

func decideFact(f Fact, facts FactSet) int {
	res := func(v bool) int {
		if v != f.Neg {
			return 1
		}
		return 0
	}
	pos := Fact{T: f.T}
	if facts.Has(pos) {
		return res(true)
	}
	if facts.Has(pos.Not()) {
		return res(false)
	}
	t := f.T
	// values that are never nil / never empty by construction
	if t.Op == "==" && len(t.A) == 2 && t.A[1].IsAt("#nil") && stripConv(t.A[0]).IsAt("zero") {
		return res(true) // the zero value of an interface, pointer, slice, map or function type is nil
	}
	if t.Op == "==" && len(t.A) == 2 && t.A[1].IsAt("#nil") {
		switch stripConv(t.A[0]).Op {
		case "make", "lit", "&", "append", "func":
			return res(false)
		}
	}
	if t.Op == "nonempty" && len(t.A) == 1 {
		k := stripConv(t.A[0])
		// a list whose construction is known: an empty literal / made list, or one that has been appended to
		if (k.Op == "lit" || k.Op == "make" || k.Op == "append") && isSliceTypeTerm(k) {
			if knownEmptyList(k) {
				return res(false)
			}
			if knownNonEmptyList(k) {
				return res(true)
			}
		}
		if strings.HasSuffix(k.Op, "Iterator.Key") && len(k.A) == 1 && (k.A[0].Op == "sdk.KVStorePrefixIterator" || k.A[0].Op == "sdk.KVStoreReversePrefixIterator") {
			return res(true) // keys returned by a prefix iterator start with the (non-empty) prefix
		}
	}
	if t.Op == "==" && len(t.A) == 2 {
		a, b := t.A[0], t.A[1]
		if isConstTerm(a) && isConstTerm(b) {
			if eq, ok := constEq(a, b); ok {
				return res(eq)
			}
		}
		if a.Eq(b) {
			return res(true)
		}
		if isConstTerm(b) {
			// x == c decided by a known x == d (d != c), or by exclusion over a finite enum
			excluded := 0
			for _, g := range facts {
				if g.T.Op != "==" || len(g.T.A) != 2 || !g.T.A[0].Eq(a) || !isConstTerm(g.T.A[1]) {
					continue
				}
				if eq, ok := constEq(g.T.A[1], b); ok && !eq {
					if !g.Neg {
						return res(false)
					}
					excluded++
				}
			}
			if n := enumSize(b); n > 0 && excluded == n-1 {
				return res(true)
			}
		}
	}
	// x == 0 versus 0 < x: contradictory; for an unsigned x each is the other's negation
	if t.Op == "<" && len(t.A) == 2 && t.A[0].IsAt("#0") {
		x := t.A[1]
		z := Fact{T: mk("==", x, atom("#0"))}
		if facts.Has(z) {
			return res(false)
		}
		if facts.Has(z.Not()) && isUnsigned(x.Typ) {
			return res(true)
		}
	}
	if t.Op == "==" && len(t.A) == 2 && t.A[1].IsAt("#0") {
		x := t.A[0]
		pos := Fact{T: mk("<", atom("#0"), x)}
		if facts.Has(pos) {
			return res(false)
		}
		if facts.Has(pos.Not()) && isUnsigned(x.Typ) {
			return res(true)
		}
	}
	// integer comparisons decided by constants, and by a range index being non-negative
	if t.Op == "<" && len(t.A) == 2 {
		a, b := stripConv(t.A[0]), stripConv(t.A[1])
		ca, oka := intConst(a)
		cb, okb := intConst(b)
		isIdx := func(x *Term) bool {
			return (x.Op == "key" && len(x.A) == 1) || (x.Op == "keyfrom" && len(x.A) == 2) || x.Op == "len"
		}
		switch {
		case oka && okb:
			return res(ca < cb)
		case isIdx(a) && okb && cb <= 0:
			return res(false) // index / length < c ≤ 0 never holds
		case oka && isIdx(b) && ca < 0:
			return res(true)
		}
	}
	// (nonempty (conv T x)) and (nonempty x) are the same fact
	if t.Op == "nonempty" {
		alt := Fact{T: mk("nonempty", stripConv(t.A[0]))}
		if alt.String() != pos.String() {
			if facts.Has(alt) {
				return res(true)
			}
			if facts.Has(alt.Not()) {
				return res(false)
			}
		}
	}
	return -1
}

// intConst: the value of an integer literal or integer constant atom.
func intConst(t *Term) (int64, bool) {
	if t == nil || t.Op != "" {
		return 0, false
	}
	if k, ok := t.Obj.(*types.Const); ok {
		if v, exact := constant.Int64Val(constant.ToInt(k.Val())); exact && k.Val().Kind() == constant.Int {
			return v, true
		}
		return 0, false
	}
	if strings.HasPrefix(t.At, "#") {
		if v, err := strconv.ParseInt(t.At[1:], 10, 64); err == nil {
			return v, true
		}
	}
	return 0, false
}

// constEq compares two constant atoms when both carry constant values.
func constEq(a, b *Term) (bool, bool) {
	if a.At == b.At {
		return true, true
	}
	ca, oka := a.Obj.(*types.Const)
	cb, okb := b.Obj.(*types.Const)
	if oka && okb {
		return ca.Val().ExactString() == cb.Val().ExactString(), true
	}
	// literal vs literal
	if !oka && !okb && strings.HasPrefix(a.At, "#") && strings.HasPrefix(b.At, "#") &&
		!strings.Contains(a.At, ".") && !strings.Contains(b.At, ".") {
		return false, true
	}
	if oka != okb {
		// named constant vs literal: compare exact strings
		var c *types.Const
		var lit string
		if oka {
			c, lit = ca, b.At
		} else {
			c, lit = cb, a.At
		}
		return "#"+c.Val().ExactString() == lit, true
	}
	return false, false
}

// enumSize returns the number of declared constants of c's named type (module enums).
func enumSize(c *Term) int {
	k, ok := c.Obj.(*types.Const)
	if !ok || k.Pkg() == nil {
		return 0
	}
	nt, ok := k.Type().(*types.Named)
	if !ok {
		return 0
	}
	n := 0
	sc := k.Pkg().Scope()
	for _, nm := range sc.Names() {
		if o, ok := sc.Lookup(nm).(*types.Const); ok && types.Identical(o.Type(), nt) {
			n++
		}
	}
	return n
}

// retSummary: for struct-returning helpers with control flow, the common
// return term over all committed paths (DESIGN.md B.3 ret(h)).
func (p *Prog) retSummary(g *Func) *Term {
	if rs, ok := p.retMemo[g]; ok {
		if len(rs) == 1 {
			return rs[0]
		}
		return nil
	}
	p.retMemo[g] = nil
	if !g.isHandWritten() || len(g.Res) != 1 || namedStruct(g.Res[0].Type()) == "" || (g.pkgName() != "keeper" && g.pkgName() != "types") {
		return nil
	}
	// only helpers that take the same struct by value (as a parameter or as their receiver) and return it
	takes := g.Recv != nil && types.Identical(g.Recv.Type(), g.Res[0].Type())
	for _, pr := range g.Params {
		if types.Identical(pr.Type(), g.Res[0].Type()) {
			takes = true
		}
	}
	if !takes {
		return nil
	}
	var common *Term
	for _, pa := range p.PathsOf(g) {
		if !pa.OK() || len(pa.Ret) != 1 {
			continue
		}
		if common == nil {
			common = pa.Ret[0]
		} else if !common.Eq(pa.Ret[0]) {
			return nil
		}
	}
	if common == nil {
		return nil
	}
	// must be expressed over parameters only (no locals of g)
	p.retMemo[g] = []*Term{common}
	return common
}

// expandRetSummaries: calls of helpers that hand back the record they were given with some fields updated are
// replaced by that updated record.
func (p *Prog) expandRetSummaries(t *Term) *Term {
	if t == nil || t.Op == "" {
		return t
	}
	changed := false
	na := make([]*Term, len(t.A))
	for i, a := range t.A {
		na[i] = p.expandRetSummaries(a)
		if na[i] != a {
			changed = true
		}
	}
	nt := t
	if changed {
		nt = simplify(&Term{Op: t.Op, A: na, Typ: t.Typ, Obj: t.Obj, Pos: t.Pos})
	}
	if g := p.FuncNamed(nt.Op); g != nil && g.isHandWritten() && g.Body != nil && !p.pathsBusy[g] {
		if rt := p.retSummary(g); rt != nil {
			return rt.Subst(argMap(g, nt))
		}
	}
	return nt
}

// capturedByLiteral: some function literal in f's body mentions v (it may be assigned there while the path does not see it).
func capturedByLiteral(f *Func, v *types.Var) bool {
	if f == nil || f.Body == nil {
		return false
	}
	info := f.Pkg.TypesInfo
	found := false
	ast.Inspect(f.Body, func(n ast.Node) bool {
		if fl, ok := n.(*ast.FuncLit); ok {
			ast.Inspect(fl.Body, func(m ast.Node) bool {
				if id, ok := m.(*ast.Ident); ok && info.Uses[id] == types.Object(v) {
					found = true
				}
				return !found
			})
			return false
		}
		return !found
	})
	return found
}
