package main

// Fee-flow rules continued: settlement (respond / expiry), earn, withdraw,
// pricing routine, filter.

import (
	"fmt"
	"go/ast"
	"go/token"
	"sort"
	"strings"
)

// eventEffects returns the committed effects of the call events of a path, in order.
func (c *Check) pathEffects(f *Func, pa *Path) []*Eff {
	var out []*Eff
	for i, ev := range pa.Events {
		if ev.Kind != EvCall {
			continue
		}
		// one effect per primitive site: value variants of a callee (loop unrollings) are not separate occurrences
		seen := map[string]bool{}
		for _, e := range c.P.effectsOfEvent(f, ev) {
			// an effect the callee performs only under a condition on its arguments that this path has already
			// decided the other way does not happen on this path (pure conditions only: no module function is read)
			if c.effRefutedOnPath(pa, i, e) {
				continue
			}
			k := e.SiteKey() + e.Family
			if len(e.Chain) > 0 && seen[k] {
				continue
			}
			seen[k] = true
			out = append(out, e)
		}
	}
	return out
}

// valIsOldPlus: the stored value contains Add(old, earned…) where old is what a module function reads from
// the given family for the given subject (whatever that reader is called and however it reaches the store).
func (c *Check) valIsOldPlus(val *Term, fam, subject, earned string) bool {
	hit := false
	val.Walk(func(t *Term) bool {
		if hit {
			return false
		}
		if t.Op == "sdk.Coins.Add" && len(t.A) == 2 && stripSpread(t.A[1]).String() == earned {
			if s, ok := c.termReadsFamily(t.A[0], fam); ok && s != nil && s.String() == subject {
				hit = true
			}
		}
		return true
	})
	return hit
}

// termReadsFamily: t is (a result of) a call of a module function whose only store reads, on these arguments,
// are of the given family; returns the subject (first key argument) of those reads.
func (c *Check) termReadsFamily(t *Term, fam string) (*Term, bool) {
	t = stripConv(t)
	if t.Op == "res" && len(t.A) == 2 {
		t = t.A[1]
	}
	g := c.P.FuncNamed(t.Op)
	if g == nil || !g.isHandWritten() || g.Body == nil {
		return nil, false
	}
	m := argMap(g, t)
	var subject *Term
	n := 0
	for _, e := range c.P.SummaryOf(g).Effs {
		if e.Kind != "store" {
			continue
		}
		if e.Op != "Iter" && e.Op != "Get" {
			return nil, false // the reader writes
		}
		key := e.Key.Subst(m)
		for _, v := range c.P.keyVariants(key, 0) {
			f2, _ := c.P.keyFamily(v.Key)
			if f2 != fam {
				return nil, false
			}
			k := stripConv(stripSpread(v.Key))
			if len(k.A) >= 1 {
				if subject != nil && !subject.Eq(k.A[0]) {
					return nil, false
				}
				subject = k.A[0]
				n++
			}
		}
	}
	return subject, n > 0
}

func keyArgs(e *Eff) []*Term {
	k := stripConv(stripSpread(e.Key))
	return k.A
}

// activeCheckFn: the function whose only effect is Has on the by-id marker family.
func (c *Check) activeCheckFn() *Func {
	for _, f := range c.handFuncs("keeper") {
		effs := c.P.SummaryOf(f).Effs
		if len(effs) == 1 && effs[0].Kind == "store" && effs[0].Op == "Has" && effs[0].Family == "0x15" {
			return f
		}
	}
	return nil
}

// respondRules: C01.6/7, C02.1-3, C08.2/3, C07.4, C12.6.
func (c *Check) respondRules(prefix string) {
	u := c.feeUnits(prefix)
	if !u.complete() {
		return
	}
	f := u.RF
	gRequest := c.getterByType("Request")
	act := c.activeCheckFn()
	if gRequest == nil || act == nil {
		c.undecided(prefix+".respond", "getters", token.NoPos, "request getter / active check not found")
		return
	}
	nOK := 0
	bad := map[string][]string{}
	add := func(k, msg string, pa *Path) { bad[k] = append(bad[k], msg+" (path ending "+c.pos(pa.RetPos)+")") }
	// a rejection reverts the message that caused it (A-SDK) provided every caller hands the error on; the state
	// changes made before a rejecting return then never persist
	reverts := c.errorAlwaysPropagated(f)
	for _, pa := range c.P.PathsOf(f) {
		if pa.Exit == ExitRevert {
			// whether a response is admitted is a matter of the request alone (found, addressed to the responder, still
			// pending) and of the response's own content: no rejecting exit tests a field of the context or of the
			// binding (a context paused or killed after the batch was issued still owes its providers their answers)
			var last *Event
			for _, ev := range pa.Events {
				if ev.Kind == EvFact {
					last = ev
				}
			}
			if last != nil {
				foreign := ""
				last.Fact.T.Walk(func(t *Term) bool {
					// (the life-cycle state and the availability are what a consumer or an owner can change while a request is
					// pending; a sanity test of the batch bookkeeping, which only the module writes, is not of that kind)
					if t.Op == ".RequestContext.State" || t.Op == ".ServiceBinding.Available" || t.Op == ".ServiceBinding.DisabledTime" {
						foreign = t.Op
					}
					return true
				})
				if foreign != "" {
					add("rejects-on-request-alone", "a response is turned away on "+shortTerm(last.Fact.T), pa)
				}
			}
		}
		if !pa.OK() && reverts {
			continue
		}
		if !pa.OK() {
			// rejecting paths must precede all effects
			for _, e := range c.pathEffects(f, pa) {
				if e.Mutates() && e.Commit && pa.Exit == ExitRevert && !strings.Contains(chainStr(e), u.EF.Name) {
					// effects inside a failing earn call revert with the transaction; a direct mutation before a rejecting return is reported
					if len(e.Chain) <= 1 {
						add("reject-after-effect", "a rejecting return follows the state change "+effDesc(e), pa)
					}
				}
			}
			continue
		}
		nOK++
		effs := c.pathEffects(f, pa)
		af := pa.AllFacts()
		var refunds, earns, del14, del15, set16, set17 []*Eff
		var earnEv *Event
		for _, ev := range pa.Events {
			if ev.Kind == EvCall && ev.CI.fn == u.EF {
				earnEv = ev
			}
		}
		if earnEv == nil {
			// the earn function may be called inside a helper ("pay the request"): its call on the helper's arguments
			for _, ev := range pa.Events {
				if ev.Kind != EvCall || ev.CI.fn == nil || !ev.CI.fn.isHandWritten() || ev.CI.fn.Body == nil || ev.CI.fn == f {
					continue
				}
				m := map[string]*Term{}
				for i, a := range ev.CI.args {
					m[fmt.Sprintf("P%d", i)] = a
				}
				if ev.CI.recv != nil {
					m["Precv"] = ev.CI.recv
				}
				for _, dc := range c.deepCalls(ev.CI.fn, 2) {
					if dc.Fn == u.EF && earnEv == nil {
						ci := &callInfo{name: dc.Name, fn: dc.Fn}
						for _, a := range dc.Args {
							ci.args = append(ci.args, a.Subst(m))
						}
						earnEv = &Event{Kind: EvCall, Pos: dc.Pos, CI: ci}
					}
				}
			}
		}
		for _, e := range effs {
			switch {
			case isFeeRefund(e):
				refunds = append(refunds, e)
			case e.Kind == "bank" && e.Op == "SendCoinsFromModuleToModule":
				earns = append(earns, e)
			case e.Kind == "store" && e.Op == "Delete" && e.Family == "0x14":
				del14 = append(del14, e)
			case e.Kind == "store" && e.Op == "Delete" && e.Family == "0x15":
				del15 = append(del15, e)
			case e.Kind == "store" && e.Op == "Set" && e.Family == "0x16":
				set16 = append(set16, e)
			case e.Kind == "store" && e.Op == "Set" && e.Family == "0x17":
				set17 = append(set17, e)
			}
		}
		if len(refunds)+len(earns) != 1 {
			add("exactly-one-settlement", fmt.Sprintf("%d refunds and %d earnings on one accepted response", len(refunds), len(earns)), pa)
		}
		if len(del14) != 1 || len(del15) != 1 {
			add("marker-deleted", fmt.Sprintf("accepted response deletes %d by-binding and %d by-id markers (need 1 and 1)", len(del14), len(del15)), pa)
			continue
		}
		id := keyArgs(del15[0])[0]
		R := fmt.Sprintf("(res 0 (%s %s))", gRequest.Name, id)
		// admission facts
		_, found := hasFact(af, fmt.Sprintf("(res 1 (%s %s))", gRequest.Name, id), false)
		_, active := hasFact(af, fmt.Sprintf("(%s %s)", act.Name, id), false)
		var prov string
		for _, fa := range af {
			if !fa.Neg && fa.T.Op == "sdk.AccAddress.Equals" {
				a, b := fa.T.A[0].String(), fa.T.A[1].String()
				if b == "(.Request.Provider "+R+")" {
					prov = a
				} else if a == "(.Request.Provider "+R+")" {
					prov = b
				}
			}
		}
		if !found || !active || prov == "" {
			add("admission", fmt.Sprintf("accepted response not dominated by found=%v ∧ active=%v ∧ provider match=%v for the id whose marker is deleted", found, active, prov != ""), pa)
			continue
		}
		// admission precedes every effect
		firstMut := -1
		lastAdm := -1
		for i, ev := range pa.Events {
			if ev.Kind == EvCall && firstMut < 0 {
				for _, e := range c.P.effectsOfEvent(f, ev) {
					if e.Mutates() {
						firstMut = i
					}
				}
			}
			if ev.Kind == EvFact && (ev.Fact.String() == fmt.Sprintf("(%s %s)", act.Name, id) || ev.Fact.T.Op == "sdk.AccAddress.Equals" || ev.Fact.String() == fmt.Sprintf("(res 1 (%s %s))", gRequest.Name, id)) {
				lastAdm = i
			}
		}
		if firstMut >= 0 && lastAdm > firstMut {
			add("admission-order", "a state change precedes the admission checks", pa)
		}
		// marker keys
		k14 := keyArgs(del14[0])
		if !(len(k14) == 4 && k14[0].String() == "(.Request.ServiceName "+R+")" && (k14[1].String() == prov || k14[1].String() == "(.Request.Provider "+R+")") &&
			k14[2].String() == "(.Request.ExpirationHeight "+R+")" && k14[3].Eq(id)) {
			add("marker-key", "by-binding marker is deleted with key "+fmtTerms(k14)+" — not (R.ServiceName, provider, R.ExpirationHeight, id)", pa)
		}
		// settlement arguments
		for _, e := range refunds {
			if e.To.String() != "(.Request.Consumer "+R+")" || e.Amount.String() != "(.Request.ServiceFee "+R+")" {
				add("refund-args", "refund goes to "+shortTerm(e.To)+" amount "+shortTerm(e.Amount)+" — not (R.Consumer, R.ServiceFee)", pa)
			}
		}
		if len(earns) == 1 {
			// the matched provider: the responder, or the request's own provider it was checked to equal
			// the earn function's provider and fee parameters are found by type (it may take further arguments, e.g. the request id for an event)
			var pArg, fArg *Term
			if earnEv != nil && earnEv.CI.fn != nil {
				nA, nC := 0, 0
				for i, pr := range earnEv.CI.fn.Params {
					if i >= len(earnEv.CI.args) {
						break
					}
					switch typeName(pr.Type()) {
					case "sdk.AccAddress":
						nA++
						pArg = earnEv.CI.args[i]
					case "sdk.Coins":
						nC++
						fArg = earnEv.CI.args[i]
					}
				}
				if nA != 1 || nC != 1 {
					pArg, fArg = nil, nil
				}
			}
			if pArg == nil && earnEv != nil && len(earnEv.CI.args) >= 3 {
				pArg, fArg = earnEv.CI.args[1], earnEv.CI.args[2]
			}
			okProv := pArg != nil && (pArg.String() == prov || pArg.String() == "(.Request.Provider "+R+")")
			if !okProv || fArg == nil || fArg.String() != "(.Request.ServiceFee "+R+")" {
				got := "-"
				if earnEv != nil {
					got = fmtTerms(earnEv.CI.args)
				}
				add("earn-args", "earnings are credited with "+got+" — not (matched provider, R.ServiceFee)", pa)
			}
		}
		// response stored under the id, volume incremented once for (R.Consumer, R.ServiceName, provider)
		if len(set16) != 1 || !keyArgs(set16[0])[0].Eq(id) {
			add("response-stored", "response is not stored exactly once under the request id", pa)
		}
		if len(set17) != 1 {
			add("volume", fmt.Sprintf("request volume written %d times on an accepted response", len(set17)), pa)
		} else {
			k := keyArgs(set17[0])
			if !(len(k) == 3 && k[0].String() == "(.Request.Consumer "+R+")" && k[1].String() == "(.Request.ServiceName "+R+")" && (k[2].String() == prov || k[2].String() == "(.Request.Provider "+R+")")) {
				add("volume", "request volume key "+fmtTerms(k)+" is not (R.Consumer, R.ServiceName, provider)", pa)
			}
			if !strings.Contains(set17[0].Val.String(), "(+ ("+c.nVolume()) {
				add("volume", "request volume is not incremented by one", pa)
			}
		}
		// ordering: response stored before batch completion (callback sees it)
		iSet16, iComplete := -1, -1
		for i, ev := range pa.Events {
			if ev.Kind != EvCall {
				continue
			}
			for _, e := range c.P.effectsOfEvent(f, ev) {
				if e.Kind == "store" && e.Op == "Set" && e.Family == "0x16" && iSet16 < 0 {
					iSet16 = i
				}
				if e.Kind == "callback" && iComplete < 0 {
					iComplete = i
				}
			}
		}
		if iComplete >= 0 && iSet16 > iComplete {
			add("store-before-callback", "the batch is completed (callback) before the response is stored", pa)
		}
	}
	texts := []struct{ k, t string }{
		{"exactly-one-settlement", "each accepted response performs exactly one settlement (refund or earn)"},
		{"marker-deleted", "each accepted response deletes both active markers exactly once"},
		{"admission", "acceptance is dominated by found ∧ provider match ∧ active marker for the same id"},
		{"admission-order", "every rejecting check precedes all effects"},
		{"rejects-on-request-alone", "no rejecting exit of the respond function tests the state of the request context or the availability of the binding"},
		{"reject-after-effect", "no rejecting return follows a direct state change"},
		{"marker-key", "the by-binding marker key is built from the request being settled"},
		{"refund-args", "refund recipient/amount are R.Consumer / R.ServiceFee of the settled request"},
		{"earn-args", "earnings go to the matched provider with amount R.ServiceFee"},
		{"response-stored", "the response is stored once under the request id"},
		{"volume", "the request volume of (R.Consumer, R.ServiceName, provider) is incremented exactly once"},
		{"store-before-callback", "the response is stored before the batch is completed"},
	}
	for _, t := range texts {
		c.req(len(bad[t.k]) == 0, prefix+".respond."+t.k, unitConstruct(f, t.k), f.Body.Pos(), t.t+condStr(len(bad[t.k]) > 0, ": "+strings.Join(bad[t.k], "; ")))
	}
	c.req(nOK >= 2, prefix+".respond.paths", unitConstruct(f, "accepted-paths"), f.Body.Pos(), fmt.Sprintf("%d accepting paths analysed", nOK))
}

// loopsDeleting: the loop statements of f in which some path performs a deletion from the given family.
func (c *Check) loopsDeleting(f *Func, fam string) map[ast.Node]bool {
	out := map[ast.Node]bool{}
	for _, pa := range c.P.PathsOf(f) {
		for _, ev := range pa.Events {
			if ev.Kind != EvCall || ev.Loop == nil {
				continue
			}
			for _, e := range c.P.effectsOfEvent(f, ev) {
				if e.Kind == "store" && e.Op == "Delete" && e.Family == fam {
					out[ev.Loop] = true
				}
			}
		}
	}
	return out
}

// expiredRequestRules: C02.5, C08.4, C01.6/7 at expiry.
func (c *Check) expiredRequestRules(prefix string) {
	u := c.feeUnits(prefix)
	if !u.complete() {
		return
	}
	f := u.ER.Closure
	bad := map[string][]string{}
	add := func(k, msg string, pa *Path) { bad[k] = append(bad[k], msg+" (path ending "+c.pos(pa.RetPos)+")") }
	n := 0
	for _, pa := range c.unitPaths(u.ER) {
		n++
		af := pa.AllFacts()
		effs := c.pathEffects(f, pa)
		var refunds, del14, del15 []*Eff
		iRefund, iDel := -1, -1
		for i, e := range effs {
			switch {
			case isFeeRefund(e):
				refunds = append(refunds, e)
				iRefund = i
			case e.Kind == "store" && e.Op == "Delete" && e.Family == "0x14":
				del14 = append(del14, e)
				if iDel < 0 {
					iDel = i
				}
			case e.Kind == "store" && e.Op == "Delete" && e.Family == "0x15":
				del15 = append(del15, e)
			}
		}
		_, sm := hasFact(af, "(.Request.SuperMode "+u.ER.ValP+")", false)
		_, nsm := hasFact(af, "(.Request.SuperMode "+u.ER.ValP+")", true)
		if nsm && len(refunds) != 1 {
			add("refund-at-expiry", fmt.Sprintf("an expired non-super-mode request is refunded %d times", len(refunds)), pa)
		}
		if sm && len(refunds) != 0 {
			add("refund-at-expiry", "a super-mode request is refunded", pa)
		}
		if !sm && !nsm && len(refunds) > 0 {
			add("refund-at-expiry", "refund not decided by SuperMode", pa)
		}
		// the refund is skipped under a compound condition ("not super mode and the binding is still available") that the
		// path refuted as a whole: nothing on the path says the request was made in super mode
		if !sm && !nsm && len(refunds) == 0 {
			smT := parseTerm("(.Request.SuperMode " + u.ER.ValP + ")")
			if !af.Holds(smT, true) {
				add("refund-at-expiry", "an expired request is not refunded on a path that has not established super mode", pa)
			}
		}
		for _, e := range refunds {
			if e.To.String() != "(.Request.Consumer "+u.ER.ValP+")" || e.Amount.String() != "(.Request.ServiceFee "+u.ER.ValP+")" {
				add("refund-args", "expiry refund goes to "+shortTerm(e.To)+" amount "+shortTerm(e.Amount)+" — not (request.Consumer, request.ServiceFee)", pa)
			}
		}
		if len(del14) != 1 || len(del15) != 1 {
			add("marker-deleted", fmt.Sprintf("expiry deletes %d by-binding and %d by-id markers (need 1 and 1 on every path)", len(del14), len(del15)), pa)
		} else {
			k := keyArgs(del14[0])
			if !(len(k) == 4 && k[0].String() == "(.Request.ServiceName "+u.ER.ValP+")" && k[1].String() == "(.Request.Provider "+u.ER.ValP+")" && k[2].String() == "(.Request.ExpirationHeight "+u.ER.ValP+")" && u.ER.isID(k[3])) ||
				!u.ER.isID(keyArgs(del15[0])[0]) {
				add("marker-key", "markers deleted with keys "+fmtTerms(k)+" / "+fmtTerms(keyArgs(del15[0])), pa)
			}
		}
		if iRefund >= 0 && iDel >= 0 && iDel < iRefund {
			add("refund-before-delete", "the marker is deleted before the refund", pa)
		}
	}
	// binding: the closure receives (id, GetRequest(id)) for each marker of the scan
	gRequest := c.getterByType("Request")
	okBind := false
	if len(u.ER.Args) == 2 && gRequest != nil {
		id := u.ER.Args[0]
		okBind = u.ER.Args[1].String() == fmt.Sprintf("(res 0 (%s %s))", gRequest.Name, id) && id.ContainsOp("github.com/tendermint/tm-db.Iterator.Value")
		// (the id may be converted between byte-slice types on its way into the getter)
		if v := stripConv(u.ER.Args[1]); !okBind && v.Op == "res" && len(v.A) == 2 && v.A[0].IsAt("0") {
			if g := stripConv(v.A[1]); g.Op == gRequest.Name && len(g.A) == 1 && stripConv(g.A[0]).Eq(stripConv(id)) {
				okBind = id.ContainsOp("github.com/tendermint/tm-db.Iterator.Value")
			}
		}
	}
	c.req(okBind, prefix+".expiry.binding", unitConstruct(u.ER.Iter, "per-marker-binding"), u.ER.Iter.Body.Pos(),
		"the expired-request handler is invoked with (id, GetRequest(id)) for the id decoded from each scanned marker: "+fmtTerms(u.ER.Args))
	texts := []struct{ k, t string }{
		{"refund-at-expiry", "an expired request is refunded exactly once iff it is not in super mode"},
		{"refund-args", "the expiry refund returns request.ServiceFee to request.Consumer"},
		{"marker-deleted", "both markers of the expired request are deleted on every path"},
		{"marker-key", "the deleted marker keys are built from the same request and id"},
		{"refund-before-delete", "the refund precedes the marker deletion"},
	}
	for _, t := range texts {
		c.req(len(bad[t.k]) == 0, prefix+".expiry."+t.k, unitConstruct(f, t.k), f.Body.Pos(), t.t+condStr(len(bad[t.k]) > 0, ": "+strings.Join(bad[t.k], "; ")))
	}
	c.req(n >= 2, prefix+".expiry.paths", unitConstruct(f, "paths"), f.Body.Pos(), fmt.Sprintf("%d paths analysed", n))
}

// earnRules: C01.8, C02.4, C13.1.
func (c *Check) earnRules(prefix string) {
	u := c.feeUnits(prefix)
	if !u.complete() {
		return
	}
	f := u.EF
	gOwner := c.getterByFamily("0x04")
	tax := c.paramTerm(prefix+".earn", "KeyServiceFeeTax")
	n := 0
	bad := map[string][]string{}
	add := func(k, msg string, pa *Path) { bad[k] = append(bad[k], msg+" (path ending "+c.pos(pa.RetPos)+")") }
	var provP, feeP string
	for i, pr := range f.Params {
		switch typeName(pr.Type()) {
		case "sdk.AccAddress":
			provP = fmt.Sprintf("P%d", i)
		case "sdk.Coins":
			feeP = fmt.Sprintf("P%d", i)
		}
	}
	sawSkeleton := false
	sawBoth := false
	for _, pa := range c.P.PathsOf(f) {
		if !pa.OK() {
			continue
		}
		n++
		effs := c.pathEffects(f, pa)
		var taxE *Eff
		var set18, set19 []*Eff
		for _, e := range effs {
			switch {
			case e.Kind == "bank" && e.Op == "SendCoinsFromModuleToModule":
				taxE = e
			case e.Kind == "store" && e.Op == "Set" && e.Family == "0x18":
				set18 = append(set18, e)
			case e.Kind == "store" && e.Op == "Set" && e.Family == "0x19":
				set19 = append(set19, e)
			case e.Kind == "bank":
				add("other-bank", "unexpected bank operation "+e.Op+" in the earn function", pa)
			}
		}
		if taxE == nil {
			add("tax", "no tax transfer on a committed path", pa)
			continue
		}
		T := taxE.Amount
		earned := fmt.Sprintf("(res 0 (sdk.Coins.SafeSub %s %s))", feeP, T)
		negf := Fact{T: parseTerm(fmt.Sprintf("(res 1 (sdk.Coins.SafeSub %s %s))", feeP, T))}
		if !pa.AllFacts().Has(negf.Not()) {
			add("remainder", "the remainder fee−tax is used without excluding a negative result, or the subtracted tax differs from the tax sent", pa)
		}
		// skeleton on the one-iteration path (through a value-returning helper if the computation was extracted)
		for _, tv := range c.retVariants(T) {
			tv = elemNorm(tv)
			if b, ok := tv.Match("(sdk.Coins.Add $Z (sdk.NewCoin (.Coin.Denom (elem " + feeP + ")) $X))"); ok {
				if isTruncMul(b["$X"], "(.Coin.Amount (elem "+feeP+"))", tax) {
					sawSkeleton = true
				} else {
					add("tax-skeleton", "per-coin tax is "+shortTerm(b["$X"])+" — not TruncateInt(Dec(amount) × ServiceFeeTax)", pa)
				}
			} else if !(tv.Op == "lit") {
				add("tax-skeleton", "tax term "+shortTerm(tv)+" is not accumulated per coin of the fee", pa)
			}
		}
		// both records grow by the same remainder
		for _, e := range set18 {
			if !strings.Contains(e.Val.String(), "(sdk.Coins.Add (res 0 ("+c.nEarned()+" "+provP+")) (spread "+earned+"))") && !c.valIsOldPlus(e.Val, "0x18", provP, earned) {
				add("provider-record", "provider earnings are not old + (fee − tax): "+shortTerm(e.Val), pa)
			}
			if k := keyArgs(e); len(k) < 1 || !k[0].IsAt(provP) {
				add("provider-record", "provider earnings are stored under "+fmtTerms(k), pa)
			}
		}
		owner := ""
		if gOwner != nil {
			owner = fmt.Sprintf("(res 0 (%s %s))", gOwner.Name, provP)
		}
		for _, e := range set19 {
			if !strings.Contains(e.Val.String(), "(sdk.Coins.Add (res 0 ("+c.nOwnerEarned()+" "+owner+")) (spread "+earned+"))") && !c.valIsOldPlus(e.Val, "0x19", owner, earned) {
				add("owner-record", "owner earnings are not old + the same (fee − tax): "+shortTerm(e.Val), pa)
			}
			if k := keyArgs(e); len(k) < 1 || k[0].String() != owner {
				add("owner-record", "owner earnings are stored under "+fmtTerms(k)+" — not the stored owner of the provider", pa)
			}
		}
		// which writes exist depends on the loop unrolling of the setters; require both setter calls
		calls18, calls19 := 0, 0
		for _, ev := range pa.Events {
			if ev.Kind == EvCall {
				effs := c.P.effectsOfEvent(f, ev)
				for _, e := range effs {
					if e.Kind == "store" && e.Op == "Set" && e.Family == "0x18" {
						calls18++
						break
					}
				}
				for _, e := range effs {
					if e.Kind == "store" && e.Op == "Set" && e.Family == "0x19" {
						calls19++
						break
					}
				}
			}
		}
		// no path writes a record twice; some path writes both (when the per-coin loops of the writers are part of this
		// function's paths, their zero-iteration variants write nothing)
		if calls18 > 1 || calls19 > 1 {
			add("dual-bookkeeping", fmt.Sprintf("provider record written by %d calls and owner record by %d calls (need 1 and 1)", calls18, calls19), pa)
		}
		if calls18 == 1 && calls19 == 1 {
			sawBoth = true
		}
	}
	if !sawBoth {
		bad["dual-bookkeeping"] = append(bad["dual-bookkeeping"], "no committed path writes both the provider record and the owner record")
	}
	if !sawSkeleton {
		bad["tax-skeleton"] = append(bad["tax-skeleton"], "no path shows the per-coin tax computation")
	}
	texts := []struct{ k, t string }{
		{"tax", "every committed path sends the tax to the fee collector"},
		{"tax-skeleton", "tax per coin = TruncateInt(Dec(amount) × ServiceFeeTax)"},
		{"remainder", "the value subtracted from the fee is the tax that was sent (SafeSub, non-negative)"},
		{"provider-record", "provider earnings grow by fee − tax"},
		{"owner-record", "the earnings of the provider's stored owner grow by the same fee − tax"},
		{"dual-bookkeeping", "both records are written once"},
		{"other-bank", "no other bank operation"},
	}
	for _, t := range texts {
		c.req(len(bad[t.k]) == 0, prefix+".earn."+t.k, unitConstruct(f, t.k), f.Body.Pos(), t.t+condStr(len(bad[t.k]) > 0, ": "+strings.Join(bad[t.k], "; ")))
	}
	c.req(n >= 1, prefix+".earn.paths", unitConstruct(f, "paths"), f.Body.Pos(), fmt.Sprintf("%d committed paths", n))
}

// withdrawRules: C01.9, C13.2, C13.3.
func (c *Check) withdrawRules(prefix string) {
	u := c.feeUnits(prefix)
	if !u.complete() {
		return
	}
	f := u.WF
	var ownerP, provP string
	// owner = the parameter that keys the owner-total scan; provider = the one tested for emptiness
	for _, e := range c.P.SummaryOf(f).Effs {
		if e.Kind == "store" && e.Op == "Iter" && e.Family == "0x19" {
			if k := keyArgs(e); len(k) == 1 && k[0].Op == "" {
				ownerP = k[0].At
			}
		}
	}
	for i := range f.Params {
		p := fmt.Sprintf("P%d", i)
		if p != ownerP && typeName(f.Params[i].Type()) == "sdk.AccAddress" {
			provP = p
		}
	}
	if ownerP == "" || provP == "" {
		c.undecided(prefix+".withdraw", f.Name, f.Body.Pos(), "owner/provider parameters not identified")
		return
	}
	E := fmt.Sprintf("(res 0 (%s %s))", c.nEarned(), provP)
	T := fmt.Sprintf("(res 0 (%s %s))", c.nOwnerEarned(), ownerP)
	bad := map[string][]string{}
	add := func(k, msg string, pa *Path) { bad[k] = append(bad[k], msg+" (path ending "+c.pos(pa.RetPos)+")") }
	nProv, nOwner := 0, 0
	for _, pa := range c.P.PathsOf(f) {
		if !pa.OK() {
			continue
		}
		af := pa.AllFacts()
		effs := c.pathEffects(f, pa)
		var pay *Eff
		var del18scan, del19scan, set19 []*Eff
		for _, e := range effs {
			switch {
			case isFeeRefund(e):
				if pay != nil {
					add("single-payout", "more than one payout", pa)
				}
				pay = e
			case e.Kind == "store" && e.Op == "Iter" && e.Family == "0x18" && strings.Contains(chainStr(e), "Delete"):
				del18scan = append(del18scan, e)
			case e.Kind == "store" && e.Op == "Iter" && e.Family == "0x19" && strings.Contains(chainStr(e), "Delete"):
				del19scan = append(del19scan, e)
			case e.Kind == "store" && e.Op == "Set" && e.Family == "0x19":
				set19 = append(set19, e)
			}
		}
		// the earnings records that are reset are the ones that exist (found by a scan, or under keys read back from records):
		// a key rebuilt from a module parameter (the base denomination in force today) misses records written under another value
		for _, e := range effs {
			if e.Kind == "store" && e.Op == "Delete" && (e.Family == "0x18" || e.Family == "0x19") && e.Key != nil {
				usesParam := ""
				e.Key.Walk(func(t *Term) bool {
					if strings.HasSuffix(t.Op, "Subspace.Get") {
						usesParam = t.Op
					}
					if g := c.P.FuncNamed(t.Op); g != nil && g.pkgName() == "keeper" && g.Body != nil {
						for _, pg := range c.P.PathsOf(g) {
							for _, ev := range pg.Events {
								if ev.Kind == EvCall && strings.HasSuffix(ev.CI.name, "Subspace.Get") {
									usesParam = g.Name
								}
							}
						}
					}
					return true
				})
				if usesParam != "" {
					add("provider-reset", "an earnings record is deleted under a key built from a module parameter ("+usesParam+"): records stored under another value of that parameter survive the withdrawal", pa)
				}
			}
		}
		// deletion calls, independent of naming: calls whose summary deletes the family
		del18, del19 := c.deletionCalls(f, pa, "0x18"), c.deletionCalls(f, pa, "0x19")
		if pay == nil {
			add("single-payout", "no payout on a committed path", pa)
			continue
		}
		if pay.To.String() != fmt.Sprintf("(%s %s)", c.nWithdrawAddr(), ownerP) {
			add("recipient", "payout goes to "+shortTerm(pay.To)+" — not the owner's withdrawal address", pa)
		}
		_, provBranch := hasFact(af, "(nonempty "+provP+")", false)
		if provBranch {
			nProv++
			if pay.Amount.String() != E {
				add("provider-amount", "per-provider payout is "+shortTerm(pay.Amount)+" — not the provider's recorded earnings", pa)
			}
			if len(del18) != 1 || del18[0].String() != provP {
				add("provider-reset", "the provider's earnings records are not deleted exactly once: "+fmtTerms(del18), pa)
			}
			eq := Fact{T: mk("sdk.Coins.IsEqual", parseTerm(E), parseTerm(T))}
			eq2 := Fact{T: mk("sdk.Coins.IsEqual", parseTerm(T), parseTerm(E))}
			// "nothing is left of the total" is the same test: total − earned is zero / empty
			z1 := Fact{T: mk("sdk.Coins.IsZero", mk("sdk.Coins.Sub", parseTerm(T), parseTerm(E)))}
			z2 := Fact{T: mk("sdk.Coins.Empty", mk("sdk.Coins.Sub", parseTerm(T), parseTerm(E)))}
			isEq := af.Has(eq) || af.Has(eq2) || af.Has(z1) || af.Has(z2)
			isNe := af.Has(eq.Not()) || af.Has(eq2.Not()) || af.Has(z1.Not()) || af.Has(z2.Not())
			switch {
			case isEq:
				if len(del19) != 1 || del19[0].String() != ownerP {
					add("owner-adjust", "earnings equal the owner total but the owner record is not deleted", pa)
				}
			case isNe:
				okSet := false
				for _, ev := range pa.Events {
					if ev.Kind == EvCall && ev.CI.fn != nil && len(ev.CI.args) >= 3 {
						if ev.CI.args[1].IsAt(ownerP) && ev.CI.args[2].String() == fmt.Sprintf("(sdk.Coins.Sub %s %s)", T, E) {
							for _, e := range c.P.SummaryOf(ev.CI.fn).Effs {
								if e.Kind == "store" && e.Op == "Set" && e.Family == "0x19" {
									okSet = true
								}
							}
						}
					}
				}
				if !okSet && len(del19) == 0 && len(set19) == 0 && amountZeroOnPath(af, parseTerm(E)) {
					// the provider earned nothing: total − 0 is the total already stored, nothing to write
					okSet = true
				}
				if !okSet || len(del19) != 0 {
					add("owner-adjust", "owner total is not reduced by exactly the paid earnings (total − earned)", pa)
				}
			default:
				add("owner-adjust", "the owner total is rewritten without distinguishing the case earned = total: the per-denomination setter writes nothing for an empty remainder, so a stale total survives", pa)
			}
		} else {
			nOwner++
			if pay.Amount.String() != T {
				add("owner-amount", "whole-owner payout is "+shortTerm(pay.Amount)+" — not the owner's recorded total", pa)
			}
			if len(del19) != 1 || del19[0].String() != ownerP {
				add("owner-reset", "the owner total is not deleted exactly once", pa)
			}
			// provider records of every provider of the owner (when the scan yields one): a path that enters the scan's loop
			// deletes the records of the provider it found (none is skipped: what was paid is the total over all of them)
			// (the loop is the one in which some path deletes earnings records; a provider is legitimately passed over where the
			// path has found that it has no record — a negative answer of a function that reads the earnings family)
			delLoops := c.loopsDeleting(f, "0x18")
			entered, deleted, nothingThere := false, false, false
			for _, ev := range pa.Events {
				switch {
				case ev.Kind == EvLoop && delLoops[ev.Node]:
					entered = true
				case ev.Kind == EvCall && ev.Loop != nil && delLoops[ev.Loop]:
					for _, e := range c.P.effectsOfEvent(f, ev) {
						if e.Kind == "store" && e.Op == "Delete" && e.Family == "0x18" {
							deleted = true
						}
					}
				case ev.Kind == EvFact:
					ev.Fact.T.Walk(func(t *Term) bool {
						if g := c.P.FuncNamed(t.Op); g != nil && g.Body != nil && g.isHandWritten() {
							for _, e := range c.P.SummaryOf(g).Effs {
								if e.Kind == "store" && e.Family == "0x18" && (e.Op == "Iter" || e.Op == "Has" || e.Op == "Get") {
									nothingThere = true
								}
							}
						}
						return true
					})
				}
			}
			if entered && !deleted && !nothingThere {
				add("owner-reset", "a provider found by the scan of the owner's providers keeps its earnings records", pa)
			}
			for _, d := range del18 {
				if !c.P.scansFamily(d, "0x05") || !d.ContainsAtom(ownerP) {
					add("owner-reset", "a provider record outside the owner's provider index is deleted: "+shortTerm(d), pa)
				}
			}
		}
		_ = del18scan
		_ = del19scan
		_ = set19
	}
	texts := []struct{ k, t string }{
		{"single-payout", "exactly one payout per committed path"},
		{"recipient", "the payout goes to GetWithdrawAddress(owner)"},
		{"provider-amount", "a per-provider withdrawal pays exactly that provider's recorded earnings"},
		{"provider-reset", "a per-provider withdrawal resets exactly that provider's records"},
		{"owner-adjust", "a per-provider withdrawal reduces the owner total by the same value (deleting it when equal)"},
		{"owner-amount", "a whole-owner withdrawal pays exactly the owner total"},
		{"owner-reset", "a whole-owner withdrawal resets the owner total and the records of the owner's providers only"},
	}
	for _, t := range texts {
		c.req(len(bad[t.k]) == 0, prefix+".withdraw."+t.k, unitConstruct(f, t.k), f.Body.Pos(), t.t+condStr(len(bad[t.k]) > 0, ": "+strings.Join(bad[t.k], "; ")))
	}
	c.req(nProv >= 2 && nOwner >= 1, prefix+".withdraw.paths", unitConstruct(f, "paths"), f.Body.Pos(), fmt.Sprintf("provider-branch paths ×%d, owner-branch paths ×%d", nProv, nOwner))
	// GetWithdrawAddress: stored value, else the owner
	if g := c.P.FuncNamed(c.nWithdrawAddr()); g != nil {
		okStored, okDefault := false, false
		for _, pa := range c.P.PathsOf(g) {
			if len(pa.Ret) != 1 {
				continue
			}
			r := stripConv(pa.Ret[0])
			if r.IsAt("P1") {
				okDefault = true
				// the owner is the answer only when nothing is stored: the path has established that the stored value is
				// absent (nil or empty) — any other test of the stored bytes (a minimum length, a format) hides an address
				// the owner has set
				var got *Term
				for _, ev := range pa.Events {
					if ev.Kind == EvCall && strings.HasSuffix(ev.CI.name, "KVStore.Get") && ev.Result != nil {
						got = ev.Result
					}
				}
				af := pa.AllFacts()
				absent := got != nil && (af.Holds(mk("==", got, atom("#nil")), true) || af.Holds(mk("nonempty", got), false))
				c.req(absent, prefix+".withdraw.address", unitConstruct(g, "default-only-when-absent"), pa.RetPos,
					"the owner itself is returned only on a path that has established that no withdrawal address is stored (nil or empty value)")
			} else if strings.HasSuffix(r.Op, "KVStore.Get") && len(r.A) >= 1 {
				// the stored value of the withdraw-address family under the owner
				k := stripConv(r.A[len(r.A)-1])
				if fam, _ := c.P.keyFamily(k); fam == "0x07" && len(k.A) == 1 && k.A[0].IsAt("P1") {
					okStored = true
				}
			}
		}
		c.req(okStored && okDefault, prefix+".withdraw.address", g.Name, g.Body.Pos(), "returns the stored withdrawal address of the owner, else the owner itself")
	} else {
		c.undecided(prefix+".withdraw.address", "keeper.Keeper.GetWithdrawAddress", token.NoPos, "withdraw-address getter not found")
	}
}

// deletionCalls returns the first argument (after ctx) of calls that delete records of the family.
func (c *Check) deletionCalls(f *Func, pa *Path, fam string) []*Term {
	var out []*Term
	for _, ev := range pa.Events {
		if ev.Kind != EvCall || ev.CI.fn == nil {
			continue
		}
		// the call deletes records of the family: whose records is read off the (instantiated) key
		var subject *Term
		for _, e := range c.P.effectsOfEvent(f, ev) {
			if e.Kind == "store" && e.Op == "Delete" && e.Family == fam && len(e.Chain) <= 2 {
				k := stripConv(stripSpread(e.Key))
				if strings.HasSuffix(k.Op, "Iterator.Key") && len(k.A) == 1 && len(k.A[0].A) == 2 {
					k = stripConv(k.A[0].A[1])
				}
				if len(k.A) >= 1 {
					subject = k.A[0]
				} else {
					subject = k
				}
			}
		}
		if subject != nil {
			out = append(out, subject)
		}
	}
	return out
}

// feeWriters (C01.10): records of the fee families are written only by the role functions.
func (c *Check) feeWriters(prefix string) {
	u := c.feeUnits(prefix)
	if !u.complete() {
		return
	}
	roles := map[string]bool{u.BS.Name: true, u.RF.Name: true, u.EF.Name: true, u.WF.Name: true, u.ER.Closure.Name: true}
	// clean function: deletes requests and responses of a scanned batch
	for _, f := range c.handFuncs("keeper") {
		d13, d16 := false, false
		for _, e := range c.directEffectsDepth(f, 1) {
			if e.Kind == "store" && e.Op == "Delete" && e.Family == "0x13" && e.InLoop {
				d13 = true
			}
			if e.Kind == "store" && e.Op == "Delete" && e.Family == "0x16" && e.InLoop {
				d16 = true
			}
		}
		if d13 && d16 {
			roles[f.Name] = true
		}
	}
	fams := map[string]bool{"0x13": true, "0x14": true, "0x15": true, "0x18": true, "0x19": true}
	check := func(unit string, sum *Summary) {
		for _, e := range sum.Effs {
			if e.Kind != "store" || !(e.Op == "Set" || e.Op == "Delete") || !fams[e.Family] {
				continue
			}
			c.Sites++
			inRole := roles[e.Fn.Name]
			for _, n := range e.Chain {
				if roles[n] {
					inRole = true
				}
			}
			c.req(inRole, prefix+".writers", effConstruct(unit, e), e.Pos, "fee-obligation record "+e.Family+" is written under a role function (issue / respond / earn / withdraw / expire / clean)")
		}
	}
	for _, en := range c.entries(prefix) {
		check(en.Msg, c.P.SummaryOf(en.Handler))
	}
	check("EndBlocker", c.P.SummaryOf(u.EndBlocker))
	var rn []string
	for r := range roles {
		rn = append(rn, r)
	}
	sort.Strings(rn)
	c.setInfo("fee_role_functions", rn)
}

func (c *Check) directEffectsDepth(f *Func, depth int) []*Eff {
	var out []*Eff
	for _, e := range c.P.SummaryOf(f).Effs {
		if len(e.Chain) <= depth {
			out = append(out, e)
		}
	}
	return out
}

var _ = ast.Inspect

// retVariants: if t is a call of a value-returning module function, the result terms of its committed
// paths instantiated on the call's arguments (one level); otherwise t itself.
func (c *Check) retVariants(t *Term) []*Term {
	g := c.P.FuncNamed(t.Op)
	if g == nil || !g.isHandWritten() || g.Body == nil || len(g.Res) != 1 {
		return []*Term{t}
	}
	m := argMap(g, t)
	var out []*Term
	seen := map[string]bool{}
	for _, pa := range c.P.PathsOf(g) {
		if !pa.OK() || len(pa.Ret) != 1 {
			continue
		}
		r := pa.Ret[0].Subst(m)
		if !seen[r.String()] {
			seen[r.String()] = true
			out = append(out, r)
		}
	}
	if len(out) == 0 {
		return []*Term{t}
	}
	return out
}

// elemNorm rewrites x[i] on a slice into (elem x): "some element of x" (index loops vs range loops).
func elemNorm(t *Term) *Term {
	if t == nil || t.Op == "" {
		return t
	}
	if t.Op == "idx" && len(t.A) == 2 {
		return mk("elem", elemNorm(t.A[0])).withType(t.Typ)
	}
	na := make([]*Term, len(t.A))
	for i, a := range t.A {
		na[i] = elemNorm(a)
	}
	return &Term{Op: t.Op, A: na, Typ: t.Typ, Obj: t.Obj, Pos: t.Pos}
}

// errorAlwaysPropagated: every caller of f (in the module's hand-written code) that observes f's error returns an
// error itself or panics on each path where f failed, and no caller ignores the error.
func (c *Check) errorAlwaysPropagated(f *Func) bool {
	n := 0
	for _, g := range c.handFuncs("keeper", "service") {
		for _, pa := range c.P.PathsOf(g) {
			for _, ev := range pa.Events {
				if ev.Kind != EvCall || ev.CI.fn != f {
					continue
				}
				n++
				failed, decided := false, false
				for _, fa := range pa.AllFacts() {
					if fa.T.Op == "ok" && len(fa.T.A) == 1 && fa.T.A[0].Op == f.Name {
						decided = true
						failed = fa.Neg
					}
				}
				if !decided {
					if pa.Exit == ExitMaybe && len(pa.Ret) > 0 && pa.Ret[len(pa.Ret)-1].ContainsOp(f.Name) {
						continue // tail call: the error is the caller's own result
					}
					return false // the error is not looked at on this path
				}
				if failed && pa.Exit != ExitRevert && pa.Exit != ExitPanic {
					return false
				}
			}
		}
	}
	return n > 0
}

// pureTerm: the term reads no module function (its value cannot change between two points of a path).
func (c *Check) pureTerm(t *Term) bool {
	pure := true
	t.Walk(func(x *Term) bool {
		if x.Op == "res" || x.Op == "out" || x.Op == "dyn" {
			pure = false
		}
		if g := c.P.FuncNamed(x.Op); g != nil && g.isHandWritten() {
			pure = false
		}
		if strings.Contains(x.Op, "KVStore.") || strings.Contains(x.Op, "Keeper.") {
			pure = false
		}
		return pure
	})
	return pure
}

// effRefutedOnPath: the callee performs e only under a pure condition on its arguments which the path has decided
// the other way before the call (event index i).
func (c *Check) effRefutedOnPath(pa *Path, i int, e *Eff) bool {
	if len(e.Chain) == 0 || len(e.Guards) == 0 {
		return false
	}
	before := pa.FactsBefore(i)
	for _, g := range e.Guards {
		if c.pureTerm(g.T) && before.Holds(g.T, g.Neg) {
			return true
		}
	}
	return false
}
