package main

// C02, C06, C07, C13 — rule assemblies plus the filter / price-skeleton rules.

import (
	"encoding/json"
	"fmt"
	"go/ast"
	"go/constant"
	"go/token"
	"go/types"
	"regexp/syntax"
	"sort"
	"strconv"
	"strings"
)

func init() {
	rules["C02"] = ruleC02
	rules["C06"] = ruleC06
	rules["C07"] = ruleC07
	rules["C13"] = ruleC13
	explanations["C02"] = "Decides settlement structure: in the respond function every accepting path performs exactly one settlement with recipient/amount identical to Consumer/ServiceFee of the request " +
		"whose marker it deletes (earn: the matched provider), the malformed-output predicate selects refund+slash versus earn (C04 trigger exactness), the expired-request handler refunds once iff not super mode " +
		"and always deletes the markers, the marker scan of an expired batch runs whenever the batch is not completed, BatchState=COMPLETED is written only where no request can be pending, the tax skeleton is " +
		"TruncateInt(Dec(amount)×ServiceFeeTax) sent to the fee collector and subtracted by the same value, the debit is the filter total paid by the context's consumer, and escrow moves nowhere else. " +
		"floor arithmetic and bank crediting are A-SDK."
	explanations["C06"] = "Decides the eligibility filter exactly: the append to the issued list is dominated by exactly {binding found, Available, QoS ≤ timeout, price.IsAllLTE(cap)} for the binding of " +
		"(service, loop element) and the price of that binding, every element is considered (no break/continue, only the whole-batch abort), the handler passes the context's own fields, issue iff " +
		"len(list)>0 ∧ len(list) ≥ threshold else skip with no charge, pay failure pauses with no requests, expired batches are processed before new batches, and the recorded fee is the compared price."
	explanations["C07"] = "Numeric at heart; decided structural necessary conditions: the price skeleton TruncateInt(max(1, Dec(Price.AmountOf(denom)) × timeDiscount(pricing, block time) × " +
		"volumeDiscount(pricing, volume(consumer, service, provider)) [× rate])) with the clamp result returned, start-inclusive/end-exclusive time window polarity, one pricing routine for charge and record, " +
		"volume incremented once per accepted response under the key roles the price routine reads, parsed pricing stored whenever the pricing text is stored, no fee in super mode. " +
		"Not decided: tier selection over runtime data, discount range (JSON schema), the numeric result."
	explanations["C13"] = "Decides: dual bookkeeping by one value for the provider's stored owner; withdrawal pays exactly the records it deletes and adjusts the owner total by the same value, to GetWithdrawAddress(owner) " +
		"(stored value else owner); the withdraw-address record is written only by the set-withdraw-address message with the signer as key (and genesis); earnings records are deleted only in the withdraw function; " +
		"key grammar of the earnings and withdraw-address families (D5, D13 are known findings). Sums are not decided."
}

func ruleC02(c *Check) {
	c.assume("A-SDK: bank methods move exactly the coins given or fail; sdk.Dec arithmetic is correct")
	c.respondRules("C02")
	c.expiredRequestRules("C02")
	c.earnRules("C02")
	c.expiryScanGuard("C02.5")
	c.expiredBatchBinding("C02.5")
	c.batchStateInventory("C02.5")
	c.newBatchRules("C02", map[string]bool{"list-vs-amount": true, "credit-without-obligation": true, "obligation-without-credit": true, "supermode-charged": true})
	c.debitPayer("C02.6")
	c.filterTotal("C02.6")
	c.issueLoopOverList("C02.6")
	c.pricingIdentity("C02.6")
	c.escrowInventory("C02.7")
	c.startRules("C02")
	c.handlersAddNoRejection("C02.8", "MsgRespondService")
	// "fee money moves in no other way": the zero-height export returns the fees of the requests still pending (their markers),
	// not of every stored request; a context is deleted only where no request of it can still be settled
	c.zeroHeightRefunds("C02.9")
	c.contextDeleters("C02")
	c.contextFieldRules("C02.5", map[string]bool{"counts": true})
	c.paramSetExact("C02.3")
	c.fractionValidators("C02.3")
	c.withdrawRules("C02")
	c.feeWriters("C02")
	c.slashTriggerOnly("C02.1")
	c.schemaPredicate("C02.1", c.typesName("ValidateResponseOutput"), "types.OutputSchema")
	c.paramGettersExact("C02.3", "KeyServiceFeeTax", "KeySlashFraction")
}

func ruleC06(c *Check) {
	c.assume("A-SDK: sdk.Coins.IsAllLTE is correct")
	c.filterRules("C06")
	c.newBatchRules("C06", map[string]bool{"skip-with-charge": true, "issue-after-pause": true, "payfail-no-pause": true, "list-vs-amount": true,
		"obligation-without-credit": true, "running-no-successor": true, "issue-while-not-running": true})
	c.issueDecision("C06.4")
	// the price the filter compares with the fee cap is read off the stored base price, which the parser never leaves empty
	c.priceNonEmpty("C06.10", c.handFuncs("keeper"))
	// an accepted change of the committed response time (or of the price) is persisted: eligibility reads the stored binding
	c.depositPairing("C06.11")
	// "response time ≤ timeout" compares an unsigned commitment with the timeout converted to unsigned: the timeout of every
	// accepted request is positive (a negative one would admit every provider)
	c.requestValidation("C06.12")
	c.issueLoopOverList("C06.3")
	// "within the consumer's fee cap": the cap in force is the one the consumer last set
	c.updatesTakeEffect("C06.9")
	c.payRefusals("C06.5")
	c.scanOrder("C06.7")
	c.pricingIdentity("C06.8")
	c.contextFieldRules("C06", map[string]bool{"state": true})
	c.pricingTextPairs("C06.2")
	c.callbackRules("C06")
	if gb := c.getterByType("ServiceBinding"); gb != nil {
		for _, s := range c.slashFuncs() {
			c.slashInternals(s, gb)
		}
	}
	c.volumeTiers("C06.6")
	c.timeWindow("C06.6")
	c.priceSkeleton("C06.6")
}

func ruleC07(c *Check) {
	c.assume("A-SDK: sdk.Dec arithmetic is correct; discounts lie in (0,1) by the pricing JSON schema (not decided)")
	c.priceSkeleton("C07.1")
	c.timeWindow("C07.2")
	c.volumeTiers("C07.2")
	c.pricingIdentity("C07.3")
	c.respondRules("C07")
	c.volumeWriters("C07.5")
	c.pricingTextPairs("C07.6")
	c.newBatchRules("C07", map[string]bool{"supermode-charged": true, "issue-after-pause": true, "obligation-without-credit": true})
	// the discounts are bounded by the schema that message validation applies to the pricing text — on every path
	c.validatorsOnEveryPath("C07.12")
	c.paramGettersExact("C07.1", "KeyBaseDenom")
	c.moduleServiceNotSuper("C07.7")
	c.discountPattern("C07.9")
	c.tiersOrdered("C07.10")
	c.windowsDisjoint("C07.10")
	c.addressRoles("C07.11")
	// "never less than one unit of the base denomination": the price routine reads the denomination off the stored base price, which the parser never leaves empty
	c.priceNonEmpty("C07.8", c.handFuncs("keeper"))
}

func ruleC13(c *Check) {
	c.addressRoles("C13.7")
	c.withdrawAddressSet("C13.8")
	// an owner's withdrawal address survives a restart of the chain from exported state
	c.genesisImportsAll("C13.9")
	// an owner's total is the sum over the providers its index lists: an index entry that is removed takes the provider's
	// records out of every later whole-owner withdrawal
	c.ownerRecordsStable("C13.10")
	c.assume("A-SDK: sdk.Coins arithmetic is correct")
	c.earnRules("C13")
	c.withdrawRules("C13")
	// withdrawing for one provider touches exactly that provider's records only if the signer owns it
	if gOwner := c.getterByFamily("0x04"); gOwner != nil {
		for _, en := range c.entries("C13.3") {
			if en.Msg == "MsgWithdrawEarnedFees" {
				c.withdrawAuthority("C13.3", en, gOwner)
			}
		}
	}
	c.withdrawAddressWriters("C13.4")
	c.earningsDeleters("C13.6")
	c.handlerAddressArgs("C13.7")
	// withdrawal addresses survive export / import: the export collects every record
	c.genesisCoverage("C13.4")
	c.keyGrammar("C13.5", map[string]bool{"0x18": true, "0x19": true, "0x07": true, "0x05": true, "0x04": true})
}

// ------------------------------------------------------------------ C02 helpers

// slashTriggerOnly re-uses C04's exact trigger separation for the respond function.
func (c *Check) slashTriggerOnly(rule string) {
	u := c.feeUnits(rule)
	if !u.complete() {
		return
	}
	f := u.RF
	// on every accepting path: refund ⇔ malformed predicate
	bad := ""
	n := 0
	for _, pa := range c.P.PathsOf(f) {
		if !pa.OK() {
			continue
		}
		n++
		_, refunded := c.pathHasEffect(f, pa, isFeeRefund)
		af := c.closeFacts(pa.AllFacts())
		mal := false
		for _, fa := range af {
			if fa.Neg && fa.T.Op == "ok" && fa.T.A[0].Op == c.typesName("ValidateResponseOutput") {
				if _, ne := hasFact(af, "(nonempty "+fa.T.A[0].A[0].String()+")", false); ne && isParamTerm(fa.T.A[0].A[0]) {
					mal = true
				}
			}
		}
		if refunded != mal {
			bad = fmt.Sprintf("path ending %s: refunded=%v malformed-output=%v", c.pos(pa.RetPos), refunded, mal)
		}
	}
	c.req(bad == "" && n > 0, rule, unitConstruct(f, "refund-iff-malformed"), f.Body.Pos(),
		"an accepted response is refunded iff len(output)>0 ∧ ValidateResponseOutput(output)≠nil over the output parameter, otherwise earned"+condStr(bad != "", ": "+bad))
}

func isParamTerm(t *Term) bool {
	return t != nil && t.Op == "" && strings.HasPrefix(t.At, "P")
}

// expiredBatchBinding: the expired-batch handler is bound to the scan of queue 0x09 at the current height.
func (c *Check) expiredBatchBinding(rule string) {
	u := c.feeUnits(rule)
	if !u.complete() {
		return
	}
	for _, b := range []*Binding{u.EB, u.NB} {
		args := b.Call.CI.args
		ok := len(args) >= 2 && args[1].IsAt("BlockHeight")
		if !ok {
			// the scan may be made elsewhere on the caller's paths (gathered first, handled afterwards): every scan of the
			// queue's family that the caller reaches is keyed by the current height
			fam := "0x09"
			if b == u.NB {
				fam = "0x10"
			}
			n, all := 0, true
			for _, pa := range c.P.PathsOf(b.Caller) {
				for _, ev := range pa.Events {
					if ev.Kind != EvCall {
						continue
					}
					for _, e := range c.P.effectsOfEvent(b.Caller, ev) {
						if e.Kind == "store" && e.Op == "Iter" && e.Family == fam {
							n++
							if k := keyArgs(e); len(k) != 1 || !k[0].IsAt("BlockHeight") {
								all = false
							}
						}
					}
				}
			}
			ok = n > 0 && all
		}
		c.req(ok, rule, unitConstruct(b.Caller, "queue-scan-height:"+b.Closure.Name), b.Call.Pos, "the queue is scanned at exactly ctx.BlockHeight(): "+fmtTerms(args))
		// per-element binding: (id, GetRequestContext(id))
		gc := c.getterByType("RequestContext")
		okb := false
		if len(b.Args) == 2 && gc != nil {
			okb = b.Args[1].String() == fmt.Sprintf("(res 0 (%s %s))", gc.Name, b.Args[0]) && b.Args[0].ContainsOp("github.com/tendermint/tm-db.Iterator.Value")
		}
		c.req(okb, rule, unitConstruct(b.Iter, "per-entry-binding"), b.Iter.Body.Pos(), "the handler receives (id, GetRequestContext(id)) for the id stored in each queue entry")
	}
}

// debitPayer: the escrow credit at end of block is paid by the consumer of the context being batched.
func (c *Check) debitPayer(rule string) {
	u := c.feeUnits(rule)
	if !u.complete() {
		return
	}
	n := 0
	for _, e := range c.P.SummaryOf(u.NB.Closure).Effs {
		if isEscrowCredit(e) {
			n++
			c.req(e.From.String() == "(.RequestContext.Consumer "+u.NB.ValP+")", rule, effConstruct(u.NB.Closure.Name, e), e.Pos, "payer "+shortTerm(e.From)+" is the Consumer of the context being batched")
		}
	}
	c.req(n >= 1, rule, "debit-sites", token.NoPos, fmt.Sprintf("%d escrow credits in the new-batch handler", n))
}

// ------------------------------------------------------------------ C06

func (c *Check) filterRules(prefix string) { c.filterRulesMode(prefix, false) }

// filterTotal (C01.3, C02.6): the amount debited for a batch is the sum of the prices of exactly the providers
// that are issued a request — the total grows by the compared price wherever a provider is appended, and nowhere else.
func (c *Check) filterTotal(prefix string) { c.filterRulesMode(prefix, true) }

func (c *Check) filterRulesMode(prefix string, totalOnly bool) {
	u := c.feeUnits(prefix)
	if !u.complete() {
		return
	}
	f := u.FL
	gBinding := c.getterByType("ServiceBinding")
	if gBinding == nil {
		c.undecided(prefix+".1", "getter:binding", token.NoPos, "binding getter not found")
		return
	}
	// parameter roles from the handler's call: (ServiceName, Providers, Timeout, ServiceFeeCap, Consumer) of the context
	roles := map[string]string{}
	var call *Event
	for _, pa := range c.P.PathsOf(u.NB.Closure) {
		for _, ev := range pa.Events {
			if ev.Kind == EvCall && ev.CI.fn == f {
				call = ev
			}
		}
	}
	if call == nil {
		// the filter may be called by a function the handler calls (a planning step): its call on the handler's arguments
		for _, dc := range c.deepCalls(u.NB.Closure, 2) {
			if dc.Fn == f && call == nil {
				call = &Event{Kind: EvCall, Pos: dc.Pos, CI: &callInfo{name: dc.Name, fn: dc.Fn, args: dc.Args, recv: dc.Recv}}
			}
		}
	}
	if call == nil {
		c.undecided(prefix+".3", unitConstruct(u.NB.Closure, "filter-call"), token.NoPos, "filter call not found in the new-batch handler")
		return
	}
	for i, a := range call.CI.args {
		if strings.HasPrefix(a.Op, ".RequestContext.") && len(a.A) == 1 && a.A[0].IsAt(u.NB.ValP) {
			roles[strings.TrimPrefix(a.Op, ".RequestContext.")] = fmt.Sprintf("P%d", i)
		}
	}
	need := []string{"ServiceName", "Providers", "Timeout", "ServiceFeeCap", "Consumer"}
	missing := []string{}
	for _, n := range need {
		if roles[n] == "" {
			missing = append(missing, n)
		}
	}
	if totalOnly && len(missing) > 0 {
		c.undecided(prefix, unitConstruct(u.NB.Closure, "filter-arguments"), call.Pos, "the roles of the filter's parameters could not be read from the handler's call")
		return
	}
	c.req(totalOnly || len(missing) == 0, prefix+condStr(!totalOnly, ".3"), unitConstruct(u.NB.Closure, "filter-arguments"), call.Pos,
		"the handler passes the context's own ServiceName, Providers, Timeout, ServiceFeeCap, Consumer"+condStr(len(missing) > 0, "; not passed: "+strings.Join(missing, ",")))
	if len(missing) > 0 {
		return
	}
	prov := "(elem " + roles["Providers"] + ")"
	B := fmt.Sprintf("(res 0 (%s %s %s))", gBinding.Name, roles["ServiceName"], prov)
	found := fmt.Sprintf("(res 1 (%s %s %s))", gBinding.Name, roles["ServiceName"], prov)
	prCall := fmt.Sprintf("(%s %s %s)", u.PR.Name, roles["Consumer"], B)
	// the routine may take the binding's identifying fields instead of the binding
	for _, pa := range c.P.PathsOf(f) {
		for _, ev := range pa.Events {
			if ev.Kind == EvCall && ev.CI.fn == u.PR && ev.Loop != nil {
				var as []string
				for _, a := range ev.CI.args {
					if !a.IsAt("ctx") && !a.IsAt("K") {
						as = append(as, a.String())
					}
				}
				alt := "(.ServiceBinding.ServiceName " + B + ") (.ServiceBinding.Provider " + B + ")"
				if strings.Join(as, " ") == roles["Consumer"]+" "+alt {
					prCall = fmt.Sprintf("(%s %s %s)", u.PR.Name, roles["Consumer"], alt)
				}
			}
		}
	}
	price := "(res 0 " + prCall + ")"
	expect := map[string]bool{
		found:                                   true,
		"(.ServiceBinding.Available " + B + ")": true,
		normFact(Fact{T: mk("<=", parseTerm("(.ServiceBinding.QoS "+B+")"), mk("conv", atom("uint64"), parseTerm(roles["Timeout"])))}).String(): true,
		"(sdk.Coins.IsAllLTE " + price + " " + roles["ServiceFeeCap"] + ")":                                                                     true,
	}
	neutral := "(ok " + prCall + ")"
	nAppend := 0
	var problems, totalProblems []string
	// the pricing routine can fail (no exchange rate for the price's denomination) and its failure aborts the whole selection:
	// it is asked only about bindings already known to be found, available and fast enough — a provider that the response-time
	// test would have dropped must not be able to block the batch of the others
	for _, pa := range c.P.PathsOf(f) {
		for i, ev := range pa.Events {
			if ev.Kind != EvCall || ev.CI.fn != u.PR || ev.Loop == nil {
				continue
			}
			got := map[string]bool{}
			for _, fa := range pa.Events[:i] {
				if fa.Kind == EvFact && fa.Loop == ev.Loop {
					got[fa.Fact.String()] = true
				}
			}
			for k := range expect {
				if !strings.Contains(k, prCall) && !got[k] {
					problems = append(problems, "the price is computed before the binding is known to be eligible (missing: "+shortTerm(parseTerm(k))+"): a pricing failure of a provider that would be filtered out aborts the selection")
				}
			}
		}
	}
	for _, pa := range c.P.PathsOf(f) {
		for i, ev := range pa.Events {
			if ev.Kind != EvAssign || ev.Val == nil || ev.Val.Op != "append" || len(ev.Val.A) != 2 || ev.Loop == nil {
				continue
			}
			if !isAddrSliceVar(ev) {
				continue
			}
			nAppend++
			// the result list is built in fresh storage (appending into a slice of the argument would overwrite the
			// caller's provider list, which the handler stores back on its pause and skip paths)
			base := stripConv(ev.Val.A[0])
			for base.Op == "append" && len(base.A) >= 1 {
				base = stripConv(base.A[0])
			}
			if mentionsParam(base) {
				problems = append(problems, "the result list shares storage with an argument: "+shortTerm(base))
			}
			if ev.Val.A[1].String() != prov {
				problems = append(problems, "the appended element is "+shortTerm(ev.Val.A[1])+" — not the loop variable")
			}
			got := map[string]bool{}
			for _, fa := range pa.Events[:i] {
				if fa.Kind == EvFact && fa.Loop == ev.Loop {
					got[fa.Fact.String()] = true
				}
			}
			delete(got, neutral)
			for k := range expect {
				if !got[k] {
					problems = append(problems, "eligibility fact missing: "+shortTerm(parseTerm(k)))
				}
			}
			for k := range got {
				if !expect[k] {
					problems = append(problems, "additional condition excludes eligible providers: "+shortTerm(parseTerm(k)))
				}
			}
			// the total grows by the same price on the same path
			grew := false
			for _, e2 := range pa.Events {
				if e2.Kind == EvAssign && e2.Val != nil && e2.Val.Op == "sdk.Coins.Add" && len(e2.Val.A) == 2 && stripSpread(e2.Val.A[1]).String() == price && e2.Loop == ev.Loop {
					grew = true
				}
			}
			if !grew {
				totalProblems = append(totalProblems, "the total is not extended by the price that was compared with the cap")
			}
		}
	}
	// conversely, the total grows only where a provider is appended
	for _, pa := range c.P.PathsOf(f) {
		for _, e2 := range pa.Events {
			if e2.Kind != EvAssign || e2.Val == nil || e2.Val.Op != "sdk.Coins.Add" || e2.Loop == nil {
				continue
			}
			has := false
			for _, ev := range pa.Events {
				if ev.Kind == EvAssign && ev.Val != nil && ev.Val.Op == "append" && ev.Loop == e2.Loop && isAddrSliceVar(ev) {
					has = true
				}
			}
			if !has {
				totalProblems = append(totalProblems, "the total grows at "+c.pos(e2.Pos)+" on a path that appends no provider")
			}
		}
	}
	sort.Strings(totalProblems)
	totalProblems = uniq(totalProblems)
	if totalOnly {
		c.req(nAppend > 0 && len(totalProblems) == 0, prefix, unitConstruct(f, "total"), f.Body.Pos(),
			"the batch total is the sum of the prices of exactly the appended providers (grows by the compared price at every append, nowhere else)"+condStr(len(totalProblems) > 0, ": "+strings.Join(totalProblems, "; ")))
		return
	}
	problems = append(problems, totalProblems...)
	sort.Strings(problems)
	problems = uniq(problems)
	c.req(nAppend > 0 && len(problems) == 0, prefix+".1", unitConstruct(f, "eligibility"), f.Body.Pos(),
		"a provider is appended iff {found, Available, QoS ≤ timeout, price ≤ cap} for binding(service, element) and the price of that binding; the total grows by that price"+condStr(len(problems) > 0, ": "+strings.Join(problems, "; ")))
	// C06.2: every element is considered
	nBranch := 0
	var loop *ast.RangeStmt
	ast.Inspect(f.Body, func(n ast.Node) bool {
		switch s := n.(type) {
		case *ast.RangeStmt:
			if loop == nil {
				loop = s
			}
		case *ast.BranchStmt:
			// continue only skips the current element (the exact eligibility set is decided by rule .1); break / goto end the scan early
			if s.Tok != token.CONTINUE {
				nBranch++
			}
		}
		return true
	})
	earlyOK := true
	if loop != nil {
		for _, pa := range c.P.PathsOf(f) {
			if pa.RetPos >= loop.Pos() && pa.RetPos <= loop.End() && pa.Exit != ExitRevert {
				earlyOK = false
			}
		}
	}
	c.req(loop != nil && nBranch == 0 && earlyOK, prefix+".2", unitConstruct(f, "every-element"), f.Body.Pos(),
		fmt.Sprintf("the filter loops over all providers: %d break/goto statements, returns inside the loop are whole-batch aborts=%v", nBranch, earlyOK))
	// results: (list, total)
	okRes := false
	for _, pa := range c.P.PathsOf(f) {
		if pa.Exit == ExitSuccess && len(pa.Ret) >= 2 {
			okRes = true
		}
	}
	c.req(okRes, prefix+".1", unitConstruct(f, "results"), f.Body.Pos(), "the filter returns the list and the total")
}

func isAddrSliceVar(ev *Event) bool {
	if ev.Var == nil {
		return false
	}
	return isAddrSlice(ev.Var.Type())
}

func isAddrSlice(T types.Type) bool {
	if T == nil {
		return false
	}
	sl, ok := types.Unalias(T).Underlying().(*types.Slice)
	return ok && isNamed(sl.Elem(), pkgSDK, "AccAddress")
}

func uniq(ss []string) []string {
	var out []string
	for i, s := range ss {
		if i == 0 || ss[i-1] != s {
			out = append(out, s)
		}
	}
	return out
}

// issueDecision (C06.4): issue iff len(ps) > 0 ∧ len(ps) ≥ threshold.
func (c *Check) issueDecision(rule string) {
	u := c.feeUnits(rule)
	if !u.complete() {
		return
	}
	f := u.NB.Closure
	var problems []string
	for _, n := range c.analyseNB(u) {
		if !n.issue && !n.skip {
			continue
		}
		af := n.pa.AllFacts()
		var ps string
		if n.issue && n.issueEv != nil {
			if li := c.providerListArg(u.BS, n.issueEv); li != nil {
				ps = li.String()
			}
		}
		if n.issue {
			_, a := hasFact(af, "(nonempty "+ps+")", false)
			_, b := hasFact(af, "(< (len "+ps+") (conv int (.RequestContext.ResponseThreshold "+u.NB.ValP+")))", true)
			if !a || !b {
				problems = append(problems, fmt.Sprintf("an issuing path is not dominated by len(list)>0=%v ∧ len(list)≥ResponseThreshold=%v", a, b))
			}
		}
		if n.skip {
			okNeg := false
			for _, fa := range af {
				if ds := fa.Disjuncts(); len(ds) == 2 {
					j := ds[0] + ds[1]
					if strings.Contains(j, "(! (nonempty ") && strings.Contains(j, ".RequestContext.ResponseThreshold") {
						okNeg = true
					}
				}
				if fa.Neg && fa.T.Op == "nonempty" {
					okNeg = true
				}
				if !fa.Neg && fa.T.Op == "<" && strings.Contains(fa.T.String(), ".RequestContext.ResponseThreshold") {
					okNeg = true
				}
			}
			if !okNeg {
				problems = append(problems, "a skipping path is not on the false edge of len(list)>0 ∧ len(list)≥threshold")
			}
		}
	}
	c.req(len(problems) == 0, rule, unitConstruct(f, "issue-decision"), f.Body.Pos(),
		"issue iff len(list)>0 ∧ len(list) ≥ ResponseThreshold, else skip"+condStr(len(problems) > 0, ": "+strings.Join(uniq(problems), "; ")))
}

// scanOrder (C06.7): expired batches are processed before new batches.
func (c *Check) scanOrder(rule string) {
	u := c.feeUnits(rule)
	if !u.complete() {
		return
	}
	f := u.EndBlocker
	judged := 0
	badPos := token.NoPos
	nBoth, orderBad := 0, false
	for _, pa := range c.P.PathsOf(f) {
		if !pa.OK() {
			continue
		}
		// the calls that hand the expired-batch / new-batch handlers to their queue scans
		i9, i10 := -1, -1
		for i, ev := range pa.Events {
			if ev.Kind != EvCall {
				continue
			}
			if u.EB.Caller == f && ev.Node == u.EB.Call.Node && i9 < 0 {
				i9 = i
			}
			if u.NB.Caller == f && ev.Node == u.NB.Call.Node && i10 < 0 {
				i10 = i
			}
			// the scans may sit in functions the end-blocker calls: the call whose effects include the queue scan
			for _, e := range c.P.effectsOfEvent(f, ev) {
				if e.Kind == "store" && e.Op == "Iter" && e.Family == "0x09" && i9 < 0 {
					i9 = i
				}
				if e.Kind == "store" && e.Op == "Iter" && e.Family == "0x10" && i10 < 0 {
					i10 = i
				}
			}
		}
		if i9 >= 0 && i10 >= 0 {
			nBoth++
			if !(i9 < i10) {
				orderBad = true
			}
		}
		// the new-batch queue is read only after the expired batches were handled: their handler queues next batches
		// for this very height (frequency = timeout), which a snapshot taken beforehand would miss
		iHandled := -1
		for i, ev := range pa.Events {
			if ev.Kind != EvCall {
				continue
			}
			for _, e := range c.P.effectsOfEvent(f, ev) {
				for _, nm := range e.Chain {
					if nm == u.EB.Closure.Name {
						iHandled = i
					}
				}
				if e.Fn == u.EB.Closure {
					iHandled = i
				}
			}
		}
		if iHandled < 0 {
			// no expired batch is handled on this path (an empty queue in the gathered form): judge a path that handles one
			handledLater := false
			for _, pb := range c.P.PathsOf(f) {
				if pb == pa || !pb.OK() {
					continue
				}
				for _, ev := range pb.Events {
					if ev.Kind != EvCall {
						continue
					}
					if ev.CI.fn == u.EB.Closure {
						handledLater = true
					}
					for _, e := range c.P.effectsOfEvent(f, ev) {
						if e.Fn == u.EB.Closure {
							handledLater = true
						}
						for _, nm := range e.Chain {
							if nm == u.EB.Closure.Name {
								handledLater = true
							}
						}
					}
				}
			}
			if handledLater {
				continue
			}
		}
		// the read that counts is the scan that drives the new-batch handler (an earlier peek "is anything due at all" decides
		// nothing about which batches are started): it follows the handling of the expired batches
		// — the last read of the new-batch queue on the path (the scan itself, or the call that gathers its entries)
		iScanNB := -1
		for i, ev := range pa.Events {
			if ev.Kind != EvCall {
				continue
			}
			for _, e := range c.P.effectsOfEvent(f, ev) {
				if e.Kind == "store" && e.Op == "Iter" && e.Family == "0x10" {
					iScanNB = i
				}
			}
		}
		if iScanNB < 0 {
			iScanNB = i10
		}
		if iHandled < 0 {
			continue
		}
		judged++
		if !(iScanNB >= iHandled) && badPos == token.NoPos {
			badPos = pa.RetPos
		}
	}
	c.req(nBoth > 0 && !orderBad, rule, unitConstruct(f, "expired-before-new"), f.Body.Pos(),
		"the expired-batch queue is scanned before the new-batch queue (bindings disabled by a slash in this block are seen by the filter)")
	pos := f.Body.Pos()
	if badPos != token.NoPos {
		pos = badPos
	}
	c.req(judged > 0 && badPos == token.NoPos, rule, unitConstruct(f, "new-queue-read-after-expiry-handling"), pos,
		"on every path that handles expired batches the new-batch queue is scanned afterwards (or by the call that follows): a batch queued for this very block by an expiring one is started")
}

// someonePathDrivesNB: some path of f has a call whose effects come from the new-batch handler.
func (c *Check) someonePathDrivesNB(f *Func, u *feeUnits) bool {
	for _, pa := range c.P.PathsOf(f) {
		for _, ev := range pa.Events {
			if ev.Kind != EvCall {
				continue
			}
			for _, e := range c.P.effectsOfEvent(f, ev) {
				if e.Fn == u.NB.Closure {
					return true
				}
				for _, nm := range e.Chain {
					if nm == u.NB.Closure.Name {
						return true
					}
				}
			}
		}
	}
	return false
}

// ------------------------------------------------------------------ C07

func mulLeaves(t *Term) []string {
	if (t.Op == "sdk.Dec.Mul" || t.Op == "sdk.Dec.MulInt") && len(t.A) == 2 {
		return append(mulLeaves(t.A[0]), mulLeaves(t.A[1])...)
	}
	return []string{t.String()}
}

func (c *Check) priceSkeleton(rule string) {
	u := c.feeUnits(rule)
	if !u.complete() {
		return
	}
	f := u.PR
	gPricing := c.getterByFamily("0x06")
	bd := c.paramTerm(rule, "KeyBaseDenom")
	if gPricing == nil {
		c.undecided(rule, "getter:pricing", token.NoPos, "pricing getter not found")
		return
	}
	// roles of the routine's parameters, read off its own store reads: the pricing of (service, provider) and the
	// volume of (consumer, service, provider) — whether the binding is passed whole or as its two identifying fields
	var consumerP, name, prov string
	for _, e := range c.P.SummaryOf(f).Effs {
		if e.Kind != "store" || e.Op != "Get" {
			continue
		}
		k := keyArgs(e)
		switch {
		case e.Family == "0x06" && len(k) == 2:
			name, prov = k[0].String(), k[1].String()
		case e.Family == "0x17" && len(k) == 3:
			consumerP = k[0].String()
		}
	}
	if name == "" || consumerP == "" {
		c.undecided(rule, unitConstruct(f, "roles"), f.Body.Pos(), "the pricing routine's reads of the parsed pricing and of the request volume were not found")
		return
	}
	pricing := fmt.Sprintf("(%s %s %s)", gPricing.Name, name, prov)
	dt := "(" + c.typesName("GetDiscountByTime") + " " + pricing + " BlockTime)"
	dv := fmt.Sprintf("(%s %s (%s %s %s %s))", c.typesName("GetDiscountByVolume"), pricing, c.nVolume(), consumerP, name, prov)
	n := 0
	var problems []string
	for _, er := range c.expandedReturns(f) {
		n++
		b, ok := er.Ret.Match("(sdk.NewCoins (sdk.NewCoin $D (sdk.Dec.TruncateInt $V)))")
		if !ok || b["$D"].String() != bd {
			problems = append(problems, "result "+shortTerm(er.Ret)+" is not NewCoins(base denom, TruncateInt(·))")
			continue
		}
		V := b["$V"]
		af := er.Facts
		// find the clamp fact LT(X, One)
		var X *Term
		clampTrue := false
		for _, fa := range af {
			if fa.T.Op == "sdk.Dec.LT" && len(fa.T.A) == 2 && fa.T.A[1].String() == "(sdk.OneDec)" {
				X = fa.T.A[0]
				clampTrue = !fa.Neg
			}
		}
		if X == nil {
			problems = append(problems, "no path condition compares the price with one unit")
			continue
		}
		if clampTrue && V.String() != "(sdk.OneDec)" {
			problems = append(problems, "price below one unit is not clamped to one: returns "+shortTerm(V))
		}
		if !clampTrue && !V.Eq(X) {
			problems = append(problems, "the value compared with one unit is not the value returned: "+shortTerm(V))
		}
		// leaves of X
		leaves := mulLeaves(X)
		sort.Strings(leaves)
		var denom string
		base := ""
		rest := []string{}
		for _, l := range leaves {
			lt := parseTerm(l)
			if bb, ok := lt.Match("(sdk.NewDecFromInt (sdk.Coins.AmountOf (.Pricing.Price $P) $DEN))"); ok && bb["$P"].String() == pricing {
				base = l
				denom = bb["$DEN"].String()
				continue
			}
			rest = append(rest, l)
		}
		sameDenom := denom == bd
		if denom != "" && bd != "" && !sameDenom {
			sameDenom = af.Has(Fact{T: mk("==", parseTerm(bd), parseTerm(denom))}) || af.Has(normFact(Fact{T: mk("==", parseTerm(bd), parseTerm(denom))}))
		}
		want := []string{dt, dv}
		if !sameDenom {
			// exchanged branch: one more factor (the rate) is allowed
			if len(rest) == 3 {
				var keep []string
				for _, r := range rest {
					if r == dt || r == dv {
						keep = append(keep, r)
					}
				}
				rest = keep
			}
		}
		// the factors are applied to the price one after the other (sdk.Dec rounds after every multiplication:
		// combining discounts first loses digits the successive form keeps)
		chain := true
		for n := X; n.Op == "sdk.Dec.Mul" || n.Op == "sdk.Dec.MulInt"; n = n.A[0] {
			if len(n.A) != 2 || n.A[1].Op == "sdk.Dec.Mul" || n.A[1].Op == "sdk.Dec.MulInt" || n.A[1].Op == "sdk.Dec.Quo" {
				chain = false
				break
			}
			if n.A[0].Op != "sdk.Dec.Mul" && n.A[0].Op != "sdk.Dec.MulInt" && n.A[0].String() != base {
				chain = false
			}
		}
		if base != "" && !chain {
			problems = append(problems, "the discounts are not applied to the price successively (price·d1·d2, rounding after each step): "+shortTerm(X))
		}
		sort.Strings(want)
		sort.Strings(rest)
		if base == "" || strings.Join(rest, "|") != strings.Join(want, "|") {
			problems = append(problems, "price factors are "+strings.Join(leaves, " × ")+" — not Dec(Price.AmountOf(denom)) × timeDiscount(pricing, block time) × volumeDiscount(pricing, volume(consumer, service, provider))")
		}
	}
	problems = uniq(sortStrings(problems))
	c.req(n >= 2 && len(problems) == 0, rule, f.Name, f.Body.Pos(),
		fmt.Sprintf("%d success paths follow the price skeleton with the clamp result returned", n)+condStr(len(problems) > 0, ": "+strings.Join(problems, "; ")))
}

func sortStrings(s []string) []string { sort.Strings(s); return s }

// timeWindow (C07.2): start inclusive, end exclusive.
func (c *Check) timeWindow(rule string) {
	f := c.mustFn(rule, c.typesName("GetDiscountByTime"))
	if f == nil {
		return
	}
	okDisc, okOne := false, false
	var problems []string
	for _, pa := range c.P.PathsOf(f) {
		if len(pa.Ret) != 1 {
			continue
		}
		r := pa.Ret[0]
		af := pa.AllFacts()
		if strings.HasSuffix(r.Op, ".Discount") && len(r.A) == 1 && stripConv(r.A[0]).Op == "res" {
			// the promotion is chosen by a selecting helper (promotion, found): the discount is returned under the helper's
			// found result, and the helper reports found exactly for a promotion whose window contains the time
			sel := stripConv(r.A[0])
			call := stripConv(sel.A[1])
			g := c.P.FuncNamed(call.Op)
			okSel := g != nil && g.Body != nil && len(g.Res) == 2 && af.Holds(mk("res", atom("1"), sel.A[1]), true)
			if okSel {
				tP := ""
				for i, pr := range g.Params {
					if typeName(pr.Type()) == "time.Time" {
						tP = fmt.Sprintf("P%d", i)
					}
				}
				nT := 0
				for _, pb := range c.P.PathsOf(g) {
					if len(pb.Ret) != 2 {
						okSel = false
						continue
					}
					if pb.Ret[1].IsAt("#false") || pb.Ret[1].IsAt("zero") {
						continue
					}
					el := stripConv(pb.Ret[0])
					bf := pb.AllFacts()
					start := Fact{T: mk("time.Time.Before", atom(tP), field("PromotionByTime", "StartTime", el)), Neg: true}
					end := Fact{T: mk("time.Time.Before", atom(tP), field("PromotionByTime", "EndTime", el))}
					startAlt := Fact{T: mk("time.Time.After", field("PromotionByTime", "StartTime", el), atom(tP)), Neg: true}
					endAlt := Fact{T: mk("time.Time.After", field("PromotionByTime", "EndTime", el), atom(tP))}
					if pb.Ret[1].IsAt("#true") && el.Op == "elem" && tP != "" && (bf.Has(start) || bf.Has(startAlt)) && (bf.Has(end) || bf.Has(endAlt)) {
						nT++
					} else {
						okSel = false
						problems = append(problems, g.Name+" reports a promotion as found under "+strings.Join(bf.Sorted(), " ∧ "))
					}
				}
				okSel = okSel && nT >= 1
			}
			if okSel {
				okDisc = true
			} else if g == nil || len(problems) == 0 {
				problems = append(problems, "a discount is returned under "+strings.Join(af.Sorted(), " ∧ "))
			}
		} else if strings.HasSuffix(r.Op, ".Discount") {
			el := r.A[0]
			start := Fact{T: mk("time.Time.Before", atom("P1"), field("PromotionByTime", "StartTime", el)), Neg: true}
			end := Fact{T: mk("time.Time.Before", atom("P1"), field("PromotionByTime", "EndTime", el))}
			// accepted equivalents: ¬After(Start, t) for the start, After(End, t) for the end
			startAlt := Fact{T: mk("time.Time.After", field("PromotionByTime", "StartTime", el), atom("P1")), Neg: true}
			endAlt := Fact{T: mk("time.Time.After", field("PromotionByTime", "EndTime", el), atom("P1"))}
			if (af.Has(start) || af.Has(startAlt)) && (af.Has(end) || af.Has(endAlt)) {
				okDisc = true
			} else {
				problems = append(problems, "a discount is returned under "+strings.Join(af.Sorted(), " ∧ "))
			}
		} else if r.String() == "(sdk.OneDec)" {
			okOne = true
		} else {
			problems = append(problems, "returns "+shortTerm(r))
		}
	}
	c.req(okDisc && okOne && len(problems) == 0, rule, f.Name, f.Body.Pos(),
		"a promotion applies iff ¬t.Before(Start) ∧ t.Before(End) (start inclusive, end exclusive), else 1"+condStr(len(problems) > 0, ": "+strings.Join(problems, "; ")))
}

// volumeTiers (C07.2): a volume tier applies from its threshold on — "volume < tier.Volume" is the only comparison between
// the delivered volume and a tier's threshold, in either polarity (so volume = threshold belongs to the tier); a comparison
// in the other direction (tier.Volume < volume, i.e. a "<=" / ">" test) moves the boundary by one. A returned tier discount
// of the tier under the cursor is on a path that has established ¬(volume < tier.Volume); values other than a tier's
// Discount or 1 are not returned.
func (c *Check) volumeTiers(rule string) {
	f := c.mustFn(rule, c.typesName("GetDiscountByVolume"))
	if f == nil {
		return
	}
	volP := ""
	for i, pr := range f.Params {
		if typeName(pr.Type()) == "uint64" {
			volP = fmt.Sprintf("P%d", i)
		}
	}
	if volP == "" {
		c.undecided(rule, f.Name, f.Body.Pos(), "no uint64 volume parameter")
		return
	}
	nCmp := 0
	var problems []string
	isThreshold := func(t *Term) bool { return strings.HasSuffix(stripConv(t).Op, ".PromotionByVolume.Volume") }
	for _, pa := range c.P.PathsOf(f) {
		af := pa.AllFacts()
		for _, fa := range af {
			fa.T.Walk(func(t *Term) bool {
				if (t.Op == "<" || t.Op == "==") && len(t.A) == 2 {
					l, r := stripConv(t.A[0]), stripConv(t.A[1])
					switch {
					case t.Op == "<" && l.IsAt(volP) && isThreshold(r):
						nCmp++
					case (l.IsAt(volP) && isThreshold(r)) || (r.IsAt(volP) && isThreshold(l)):
						problems = append(problems, "the volume is compared with a tier threshold as "+shortTerm(t)+" — not volume < threshold")
					}
				}
				return true
			})
		}
		if len(pa.Ret) != 1 {
			continue
		}
		r := stripConv(pa.Ret[0])
		switch {
		case strings.HasSuffix(r.Op, ".PromotionByVolume.Discount") && len(r.A) == 1 && r.A[0].Op == "elem":
			// the tier under the cursor: the volume has reached its threshold
			if !af.Holds(mk("<", atom(volP), field("PromotionByVolume", "Volume", r.A[0])), false) {
				problems = append(problems, "the discount of the tier under the cursor is returned without the path establishing ¬(volume < its threshold)")
			}
		case strings.HasSuffix(r.Op, ".PromotionByVolume.Discount"), r.String() == "(sdk.OneDec)":
		default:
			problems = append(problems, "returns "+shortTerm(r))
		}
	}
	sort.Strings(problems)
	var uniq []string
	for i, p := range problems {
		if i == 0 || p != problems[i-1] {
			uniq = append(uniq, p)
		}
	}
	c.Sites += nCmp
	c.req(nCmp >= 1 && len(uniq) == 0, rule, f.Name+"#tier-boundary", f.Body.Pos(),
		"a volume tier applies from its threshold on (the only comparison is volume < tier.Volume)"+condStr(len(uniq) > 0, ": "+strings.Join(uniq, "; "))+condStr(nCmp == 0, ": no comparison volume < threshold found"))
}

// pricingTextPairs (C07.6 / C15.6): every stored change of the pricing text is paired with storing the parsed pricing of that text.
func (c *Check) pricingTextPairs(rule string) {
	units := c.persistUnits("0x02", "ServiceBinding")
	n := 0
	for f, pps := range units {
		seen := map[string]bool{}
		for _, pp := range pps {
			if len(pp.Stored) == 0 {
				continue
			}
			B := pp.Stored[len(pp.Stored)-1]
			L := baseOf(B)
			if givenRecord(L) {
				continue
			}
			text := field("ServiceBinding", "Pricing", B)
			changed := L.Op == "lit" || !text.Eq(field("ServiceBinding", "Pricing", L))
			var setP *Term
			var setKey []*Term
			for _, ev := range pp.Path.Events {
				if ev.Kind != EvCall {
					continue
				}
				for _, e := range c.P.effectsOfEvent(f, ev) {
					if e.Kind == "store" && e.Op == "Set" && e.Family == "0x06" {
						setP = structIn(e.Val, "Pricing")
						setKey = keyArgs(e)
					}
				}
			}
			if !changed && setP == nil {
				continue
			}
			n++
			ok := setP != nil && setP.String() == fmt.Sprintf("(res 0 (%s %s))", c.nParsePricing(), text)
			if !ok && setP != nil {
				// the terms stored are parsed from a text the path has established to equal the stored text
				if b, m := setP.Match(fmt.Sprintf("(res 0 (%s $X))", c.nParsePricing())); m {
					if pp.Facts.Holds(mk("==", b["$X"], text), true) || pp.Facts.Holds(mk("==", text, b["$X"]), true) {
						ok = true
					}
				}
			}
			whyEq := ""
			if changed && setP == nil {
				// the write may be skipped when the parsed terms of the new text are the terms already stored
				var eq bool
				eq, whyEq = c.knownEqualToStored(pp.Facts, "0x06", parseTerm(fmt.Sprintf("(res 0 (%s %s))", c.nParsePricing(), text)))
				if eq {
					continue
				}
			}
			if ok {
				// stored under the binding's own key
				nm, pv := field("ServiceBinding", "ServiceName", B), field("ServiceBinding", "Provider", B)
				if L.Op == "res" && len(L.A) == 2 && len(L.A[1].A) == 2 {
					// loaded binding: key arguments of the load are accepted too
					ok = len(setKey) == 2 && (setKey[0].Eq(nm) || setKey[0].Eq(L.A[1].A[0])) && (setKey[1].Eq(pv) || setKey[1].Eq(L.A[1].A[1]))
				} else {
					ok = len(setKey) == 2 && setKey[0].Eq(nm) && setKey[1].Eq(pv)
				}
			}
			d := fmt.Sprintf("pricing text changed=%v, parsed pricing stored=%v", changed, setP != nil)
			if setP != nil {
				d += " as " + shortTerm(setP)
			}
			if whyEq != "" {
				d += "; the write is skipped under an equality that is not one of the whole record: " + whyEq
			}
			if seen[d] {
				continue
			}
			seen[d] = true
			c.req(ok, rule, unitConstruct(f, "pricing-text-pair"), pp.Path.RetPos, "every stored pricing text is accompanied by SetPricing(service, provider, ParsePricing(that text)) on the same path: "+d)
		}
	}
	c.req(n >= 2, rule, "pricing-writes", token.NoPos, fmt.Sprintf("%d committed paths change the pricing", n))
}

// ------------------------------------------------------------------ C13 helpers

func (c *Check) withdrawAddressWriters(rule string) {
	n := 0
	for _, en := range c.entries(rule) {
		for _, e := range c.P.SummaryOf(en.Handler).Effs {
			if e.Kind == "store" && (e.Op == "Set" || e.Op == "Delete") && e.Family == "0x07" && e.Commit {
				n++
				k := keyArgs(e)
				ok := en.Msg == "MsgSetWithdrawAddress" && len(k) == 1 && k[0].String() == en.SignerTerm()
				c.req(ok, rule, effConstruct(en.Msg, e), e.Pos, "the withdraw-address record is written only by the set-withdraw-address message, keyed by its signer")
			}
		}
	}
	if eb := c.P.FuncNamed("service.EndBlocker"); eb != nil {
		for _, e := range c.P.SummaryOf(eb).Effs {
			if e.Kind == "store" && (e.Op == "Set" || e.Op == "Delete") && e.Family == "0x07" {
				c.fail(rule, effConstruct("EndBlocker", e), e.Pos, "end-of-block processing writes a withdraw address")
			}
		}
	}
	c.req(n == 1, rule, "withdraw-address-writes", token.NoPos, fmt.Sprintf("%d message-reachable writes of the withdraw-address family", n))
}

func (c *Check) earningsDeleters(rule string) {
	u := c.feeUnits(rule)
	if !u.complete() {
		return
	}
	check := func(unit string, sum *Summary) {
		for _, e := range sum.Effs {
			if e.Kind == "store" && e.Op == "Delete" && (e.Family == "0x18" || e.Family == "0x19") {
				in := e.Fn == u.WF
				for _, n := range e.Chain {
					if n == u.WF.Name {
						in = true
					}
				}
				c.req(in, rule, effConstruct(unit, e), e.Pos, "earnings records are deleted only under the withdraw function")
			}
		}
	}
	for _, en := range c.entries(rule) {
		check(en.Msg, c.P.SummaryOf(en.Handler))
	}
	check("EndBlocker", c.P.SummaryOf(u.EndBlocker))
}

type expRet struct {
	Ret   *Term
	Facts FactSet
}

// expandedReturns: result #0 and facts of every success path of f; when the result is produced by a
// value-returning helper (a tail computation that was extracted), the helper's paths are expanded one level.
func (c *Check) expandedReturns(f *Func) []expRet {
	var out []expRet
	for _, pa := range c.P.PathsOf(f) {
		if pa.Exit != ExitSuccess || len(pa.Ret) == 0 {
			continue
		}
		r := pa.Ret[0]
		af := pa.AllFacts()
		g := c.P.FuncNamed(r.Op)
		if g == nil || !g.isHandWritten() || g.Body == nil || g == f {
			out = append(out, c.expandInner(f, expRet{r, af}, 0)...)
			continue
		}
		m := argMap(g, r)
		for _, pb := range c.P.PathsOf(g) {
			if !pb.OK() || len(pb.Ret) == 0 {
				continue
			}
			fs := af.Clone()
			for _, fa := range pb.AllFacts() {
				for _, nf := range fa.SubstAll(m) {
					fs.Add(nf)
				}
			}
			out = append(out, c.expandInner(f, expRet{pb.Ret[0].Subst(m), fs}, 0)...)
		}
	}
	return out
}

// expandInner: a value inside the result that is produced by a pure module helper choosing between several values
// (a clamp, a selection written as its own function) is replaced by each of its alternatives, with the facts it is
// chosen under.
func (c *Check) expandInner(f *Func, er expRet, depth int) []expRet {
	if depth > 2 {
		return []expRet{er}
	}
	var site *Term
	var g *Func
	er.Ret.Walk(func(t *Term) bool {
		if site != nil {
			return false
		}
		if t.Op == "" || t == er.Ret {
			return true
		}
		h := c.P.FuncNamed(t.Op)
		if h == nil || h == f || !h.isHandWritten() || h.Body == nil || h.Obj == nil || h.Obj.Exported() || len(h.Res) != 1 || c.P.pathsBusy[h] {
			return true
		}
		if len(c.P.SummaryOf(h).Effs) != 0 {
			return true
		}
		n := 0
		for _, pb := range c.P.PathsOf(h) {
			if pb.OK() && len(pb.Ret) == 1 {
				n++
			}
		}
		if n >= 2 && n <= 4 {
			site, g = t, h
			return false
		}
		return true
	})
	if site == nil {
		return []expRet{er}
	}
	m := argMap(g, site)
	var out []expRet
	for _, pb := range c.P.PathsOf(g) {
		if !pb.OK() || len(pb.Ret) != 1 {
			continue
		}
		fs := er.Facts.Clone()
		for _, fa := range pb.AllFacts() {
			for _, nf := range fa.SubstAll(m) {
				fs.Add(nf)
			}
		}
		alt := pb.Ret[0].Subst(m)
		nr := replaceTerm(er.Ret, site, alt)
		out = append(out, c.expandInner(f, expRet{nr, fs}, depth+1)...)
	}
	return out
}

// replaceTerm returns t with every occurrence of the subterm old (by identity of its text) replaced by repl.
func replaceTerm(t, old, repl *Term) *Term {
	if t == nil {
		return t
	}
	if t == old || (t.Op == old.Op && t.Op != "" && t.String() == old.String()) {
		return repl
	}
	if len(t.A) == 0 {
		return t
	}
	changed := false
	na := make([]*Term, len(t.A))
	for i, a := range t.A {
		na[i] = replaceTerm(a, old, repl)
		if na[i] != a {
			changed = true
		}
	}
	if !changed {
		return t
	}
	return simplify(&Term{Op: t.Op, A: na, Typ: t.Typ, Obj: t.Obj, Pos: t.Pos})
}

// payRefusals (C06.5): the batch is paused iff the consumer cannot pay. The function that performs the escrow
// credit refuses a payment only through the bank's own refusal, or through a pre-check that is exactly
// ¬balance(payer).IsAllGTE(amount) — any other refusal that looks at the payer or the amount pauses a context
// whose consumer could have paid (e.g. a strict comparison at an exactly sufficient balance).
func (c *Check) payRefusals(rule string) {
	n := 0
	for _, f := range c.handFuncs("keeper", "service") {
		var credit *Eff
		for _, e := range c.directEffects(f) {
			if isEscrowCredit(e) {
				credit = e
			}
		}
		if credit == nil || len(f.Res) == 0 || !isErrorType(f.Res[len(f.Res)-1].Type()) {
			continue
		}
		n++
		var bad []string
		for _, pa := range c.P.PathsOf(f) {
			if pa.Exit != ExitRevert {
				continue
			}
			called := false
			for _, ev := range pa.Events {
				if ev.Kind == EvCall && ev.Pos == credit.Pos {
					called = true
				}
			}
			if called {
				continue
			}
			relevant, exact := false, false
			for _, fa := range pa.AllFacts() {
				if fa.T.Contains(credit.From) || fa.T.Contains(credit.Amount) {
					relevant = true
				}
				t := fa.T
				if fa.Neg && t.Op == "sdk.Coins.IsAllGTE" && len(t.A) == 2 && stripConv(t.A[1]).Eq(stripConv(credit.Amount)) {
					b := stripConv(t.A[0])
					if (strings.HasSuffix(b.Op, "BankKeeper.SpendableCoins") || strings.HasSuffix(b.Op, "BankKeeper.GetAllBalances")) && b.Contains(credit.From) {
						exact = true
					}
				}
			}
			if relevant && !exact {
				bad = append(bad, "payment refused at "+c.pos(pa.RetPos)+" without the bank refusing it")
			}
		}
		c.req(len(bad) == 0, rule, unitConstruct(f, "pay-refusals"), f.Body.Pos(),
			"the paying function refuses only when the bank refuses (or balance(payer) ≱ amount)"+condStr(len(bad) > 0, ": "+strings.Join(uniq(bad), "; ")))
	}
	c.req(n >= 1, rule, "pay-functions", token.NoPos, fmt.Sprintf("%d error-returning functions credit the request escrow", n))
}

// volumeWriters (C07.5): the volume that the volume discount reads counts responses delivered — the volume family
// is written only under the respond function, from no other message and never from the end-blocker (a request that
// merely expires earns its consumer no discount).
func (c *Check) volumeWriters(rule string) {
	u := c.feeUnits(rule)
	if !u.complete() {
		return
	}
	n := 0
	check := func(unit string, sum *Summary) {
		for _, e := range sum.Effs {
			if e.Kind != "store" || !(e.Op == "Set" || e.Op == "Delete") || e.Family != "0x17" {
				continue
			}
			n++
			under := e.Fn == u.RF
			for _, nm := range e.Chain {
				if nm == u.RF.Name {
					under = true
				}
			}
			c.req(under, rule, effConstruct(unit, e), e.Pos, "the request volume is written under the respond function "+u.RF.Name)
		}
	}
	for _, en := range c.entries(rule) {
		check(en.Msg, c.P.SummaryOf(en.Handler))
	}
	check("EndBlocker", c.P.SummaryOf(u.EndBlocker))
	c.req(n >= 1, rule, "volume-writers", token.NoPos, fmt.Sprintf("%d writes of the request volume reachable from messages and the end-blocker", n))
}

// discountPattern (C07.9): "every discount lies strictly between 0 and 1" rests on the pattern the pricing schema puts on
// a discount string. The schema constant is read from the source, every "pattern" of a property named discount is parsed
// (regexp/syntax) and must denote only strings of the form 0 . digits ending in a non-zero digit: anchored at both ends,
// beginning with the literal "0.", continuing with digit-only pieces, ending in a class within [1-9]. A pattern of another
// shape (an unescaped dot, a missing anchor, a leading digit class) is reported: it admits numbers outside (0,1).
func (c *Check) discountPattern(rule string) {
	obj, _ := c.P.ByPkg[pkgTypes].Types.Scope().Lookup("PricingSchema").(*types.Const)
	if obj == nil || obj.Val().Kind() != constant.String {
		c.undecided(rule, "types.PricingSchema", token.NoPos, "pricing schema constant not found")
		return
	}
	var doc interface{}
	if err := json.Unmarshal([]byte(constant.StringVal(obj.Val())), &doc); err != nil {
		c.undecided(rule, "types.PricingSchema", obj.Pos(), "the pricing schema is not valid JSON: "+err.Error())
		return
	}
	var pats []string
	var walk func(v interface{}, name string)
	walk = func(v interface{}, name string) {
		switch x := v.(type) {
		case map[string]interface{}:
			if p, ok := x["pattern"].(string); ok && strings.Contains(strings.ToLower(name), "discount") {
				pats = append(pats, p)
			}
			for k, w := range x {
				walk(w, k)
			}
		case []interface{}:
			for _, w := range x {
				walk(w, name)
			}
		}
	}
	walk(doc, "")
	sort.Strings(pats)
	c.req(len(pats) >= 1, rule, "types.PricingSchema#discount-patterns", obj.Pos(), fmt.Sprintf("%d discount pattern(s) in the pricing schema", len(pats)))
	for _, p := range pats {
		ok, why := unitIntervalPattern(p)
		c.Sites++
		c.req(ok, rule, "types.PricingSchema#discount-pattern", obj.Pos(), "the discount pattern "+strconv.Quote(p)+" admits only 0.d…d with a non-zero last digit"+condStr(!ok, ": "+why))
	}
}

func unitIntervalPattern(pat string) (bool, string) {
	re, err := syntax.Parse(pat, syntax.Perl)
	if err != nil {
		return false, "not a valid regular expression: " + err.Error()
	}
	re = re.Simplify()
	var parts []*syntax.Regexp
	if re.Op == syntax.OpConcat {
		parts = re.Sub
	} else {
		parts = []*syntax.Regexp{re}
	}
	if len(parts) < 3 || parts[0].Op != syntax.OpBeginText || parts[len(parts)-1].Op != syntax.OpEndText {
		return false, "not anchored at both ends (^…$)"
	}
	mid := parts[1 : len(parts)-1]
	digitsOnly := func(r *syntax.Regexp, lo rune) bool {
		var ok func(r *syntax.Regexp) bool
		ok = func(r *syntax.Regexp) bool {
			switch r.Op {
			case syntax.OpLiteral:
				for _, ch := range r.Rune {
					if ch < lo || ch > '9' {
						return false
					}
				}
				return r.Flags&syntax.FoldCase == 0
			case syntax.OpCharClass:
				for i := 0; i+1 < len(r.Rune); i += 2 {
					if r.Rune[i] < lo || r.Rune[i+1] > '9' {
						return false
					}
				}
				return len(r.Rune) > 0
			case syntax.OpStar, syntax.OpPlus, syntax.OpQuest, syntax.OpRepeat, syntax.OpCapture:
				return ok(r.Sub[0])
			case syntax.OpConcat, syntax.OpAlternate:
				for _, s := range r.Sub {
					if !ok(s) {
						return false
					}
				}
				return true
			case syntax.OpEmptyMatch:
				return true
			}
			return false
		}
		return ok(r)
	}
	first := mid[0]
	if first.Op != syntax.OpLiteral || len(first.Rune) < 2 || first.Rune[0] != '0' || first.Rune[1] != '.' {
		return false, "does not begin with the literal \"0.\" (an unescaped dot matches any character)"
	}
	for _, ch := range first.Rune[2:] {
		if ch < '0' || ch > '9' {
			return false, "a non-digit follows the decimal point"
		}
	}
	for _, m := range mid[1:] {
		if !digitsOnly(m, '0') {
			return false, "a piece after the decimal point admits a non-digit: " + m.String()
		}
	}
	last := mid[len(mid)-1]
	switch {
	case len(mid) == 1:
		if lr := first.Rune[len(first.Rune)-1]; lr < '1' || lr > '9' || len(first.Rune) < 3 {
			return false, "the last digit may be zero or missing"
		}
	case (last.Op == syntax.OpCharClass || last.Op == syntax.OpLiteral) && digitsOnly(last, '1'):
	default:
		return false, "the last piece does not force a non-zero last digit: " + last.String()
	}
	return true, ""
}

// tiersOrdered (C07.10): the volume discount is read off a list of tiers that the lookup assumes to be ascending; that
// assumption is enforced by the pricing validator for every adjacent pair. Decided on the validator's rejecting paths: one
// of them rejects under "Volume of the tier under a cursor over the WHOLE tier list < Volume of its predecessor", the cursor
// being a range variable of the list or a counter the engine has bound to positions c ≤ i < len(list) with c ≤ 1 (a bound
// of len−1, which leaves the last pair unchecked, is not such a cursor).
func (c *Check) tiersOrdered(rule string) {
	f := c.mustFn(rule, c.typesName("ValidatePricing"))
	if f == nil {
		return
	}
	ok := false
	why := "no rejecting path compares a tier's Volume with its predecessor's under a cursor over the whole list"
	// the validator itself and the module functions it hands the tiers to (helpers, methods of a slice type)
	cands := []*Func{f}
	seenF := map[*Func]bool{f: true}
	for i := 0; i < len(cands) && i < 12; i++ {
		for _, h := range c.P.callees(cands[i]) {
			if h != nil && h.Body != nil && h.isHandWritten() && h.pkgName() == "types" && !seenF[h] {
				seenF[h] = true
				cands = append(cands, h)
			}
		}
	}
	var allPaths []*Path
	for _, g := range cands {
		allPaths = append(allPaths, c.P.PathsOf(g)...)
	}
	for _, pa := range allPaths {
		if pa.Exit != ExitRevert {
			continue
		}
		for _, fa := range pa.AllFacts() {
			if fa.Neg {
				continue
			}
			fa.T.Walk(func(t *Term) bool {
				if t.Op != "<" || len(t.A) != 2 {
					return true
				}
				l, r := stripConv(t.A[0]), stripConv(t.A[1])
				if !strings.HasSuffix(l.Op, ".PromotionByVolume.Volume") || !strings.HasSuffix(r.Op, ".PromotionByVolume.Volume") || len(l.A) != 1 || len(r.A) != 1 {
					return true
				}
				cur, prev := stripConv(l.A[0]), stripConv(r.A[0])
				var list, pos *Term
				switch {
				case cur.Op == "elem" && len(cur.A) == 1:
					list, pos = cur.A[0], mk("key", cur.A[0])
				case cur.Op == "idx" && len(cur.A) == 2:
					list, pos = cur.A[0], stripConv(cur.A[1])
				default:
					return true
				}
				whole := (pos.Op == "key" && len(pos.A) == 1 && pos.A[0].Eq(list)) ||
					(pos.Op == "keyfrom" && len(pos.A) == 2 && pos.A[1].Eq(list) && (pos.A[0].IsAt("#0") || pos.A[0].IsAt("#1")))
				if !whole {
					why = "the cursor " + shortTerm(pos) + " does not range over the whole tier list"
					return true
				}
				if prev.Op == "idx" && len(prev.A) == 2 && prev.A[0].Eq(list) {
					pi := stripConv(prev.A[1])
					if pi.Eq(mk("-", pos, atom("#1"))) {
						ok = true
					}
					// the element under a counting cursor (bound like a range element) with the counter as predecessor index
					if cur.Op == "elem" && pi.Op == "-" && len(pi.A) == 2 && pi.A[1].IsAt("#1") {
						if kf := stripConv(pi.A[0]); kf.Op == "keyfrom" && len(kf.A) == 2 && kf.A[1].Eq(list) && (kf.A[0].IsAt("#0") || kf.A[0].IsAt("#1")) {
							ok = true
						}
					}
				}
				return true
			})
		}
	}
	c.req(ok, rule, f.Name+"#volume-tiers-ascending", f.Body.Pos(), "the pricing validator rejects a volume tier below its predecessor for every adjacent pair of the list"+condStr(!ok, ": "+why))
}

// windowsDisjoint (C07.10): at most one time promotion applies at an instant — the validator compares every window's
// start with the END of the window before it (compared with its start, overlapping windows pass).
func (c *Check) windowsDisjoint(rule string) {
	f := c.mustFn(rule, c.typesName("ValidatePricing"))
	if f == nil {
		return
	}
	ok := false
	why := "no rejecting path compares a window's StartTime with its predecessor's EndTime under a cursor over the whole list"
	// the validator itself and the module functions it hands the tiers to (helpers, methods of a slice type)
	cands := []*Func{f}
	seenF := map[*Func]bool{f: true}
	for i := 0; i < len(cands) && i < 12; i++ {
		for _, h := range c.P.callees(cands[i]) {
			if h != nil && h.Body != nil && h.isHandWritten() && h.pkgName() == "types" && !seenF[h] {
				seenF[h] = true
				cands = append(cands, h)
			}
		}
	}
	var allPaths []*Path
	for _, g := range cands {
		allPaths = append(allPaths, c.P.PathsOf(g)...)
	}
	for _, pa := range allPaths {
		if pa.Exit != ExitRevert {
			continue
		}
		for _, fa := range pa.AllFacts() {
			if fa.Neg {
				continue
			}
			fa.T.Walk(func(t *Term) bool {
				if !strings.HasSuffix(t.Op, "time.Time.Before") || len(t.A) != 2 {
					return true
				}
				l, r := stripConv(t.A[0]), stripConv(t.A[1])
				if !strings.HasSuffix(l.Op, ".PromotionByTime.StartTime") || !strings.HasSuffix(r.Op, ".PromotionByTime.EndTime") || len(l.A) != 1 || len(r.A) != 1 {
					return true
				}
				cur, prev := stripConv(l.A[0]), stripConv(r.A[0])
				var list, pos *Term
				switch {
				case cur.Op == "elem" && len(cur.A) == 1:
					list, pos = cur.A[0], mk("key", cur.A[0])
				case cur.Op == "idx" && len(cur.A) == 2:
					list, pos = cur.A[0], stripConv(cur.A[1])
				default:
					return true
				}
				whole := (pos.Op == "key" && len(pos.A) == 1 && pos.A[0].Eq(list)) ||
					(pos.Op == "keyfrom" && len(pos.A) == 2 && pos.A[1].Eq(list) && (pos.A[0].IsAt("#0") || pos.A[0].IsAt("#1")))
				if !whole {
					why = "the cursor " + shortTerm(pos) + " does not range over the whole list of windows"
					return true
				}
				if prev.Op == "idx" && len(prev.A) == 2 && prev.A[0].Eq(list) {
					pi := stripConv(prev.A[1])
					if pi.Eq(mk("-", pos, atom("#1"))) {
						ok = true
					}
					// the element under a counting cursor (bound like a range element) with the counter as predecessor index
					if cur.Op == "elem" && pi.Op == "-" && len(pi.A) == 2 && pi.A[1].IsAt("#1") {
						if kf := stripConv(pi.A[0]); kf.Op == "keyfrom" && len(kf.A) == 2 && kf.A[1].Eq(list) && (kf.A[0].IsAt("#0") || kf.A[0].IsAt("#1")) {
							ok = true
						}
					}
				}
				return true
			})
		}
	}
	c.req(ok, rule, f.Name+"#time-windows-disjoint", f.Body.Pos(), "the pricing validator rejects a time window that starts before its predecessor ends, for every adjacent pair of the list"+condStr(!ok, ": "+why))
}
