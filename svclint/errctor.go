package main

// moduleErrCtor: a hand-written module function with a single error result that returns a non-nil error on
// every path (an extracted error constructor such as errNotAuthorized(...)).
func (p *Prog) moduleErrCtor(op string) bool {
	if p.errCtorMemo == nil {
		p.errCtorMemo = map[string]int{}
	}
	if v, ok := p.errCtorMemo[op]; ok {
		return v == 1
	}
	g := p.FuncNamed(op)
	if g == nil || !g.isHandWritten() || g.Body == nil || len(g.Res) != 1 || !isErrorType(g.Res[0].Type()) || p.pathsBusy[g] {
		return false
	}
	p.errCtorMemo[op] = 0
	paths := p.PathsOf(g)
	if len(paths) == 0 {
		return false
	}
	for _, pa := range paths {
		if pa.Exit != ExitRevert {
			return false
		}
		// built from an error value or an SDK wrapper, not from a call that may return nil
		if len(pa.Ret) != 1 {
			return false
		}
	}
	p.errCtorMemo[op] = 1
	return true
}
