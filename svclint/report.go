package main

// Obligations, verdicts, known findings and evidence (DESIGN.md §7).

import (
	"bufio"
	"encoding/json"
	"fmt"
	"go/token"
	"os"
	"path/filepath"
	"sort"
	"strings"
	"time"
)

type Obligation struct {
	Rule      string `json:"rule"`
	Construct string `json:"construct"`
	Pos       string `json:"pos"`
	OK        bool   `json:"ok"`
	Detail    string `json:"detail"`
	Known     bool   `json:"known_finding,omitempty"`
}

type Check struct {
	failMemo     map[*Func][]Fact
	typesMemo    map[string]*Func
	P            *Prog
	Prop         string
	Tier         string
	Obls         []*Obligation
	Notes        []string
	Sites        int // sites examined (evaluations)
	start        time.Time
	info         map[string]interface{}
	assum        map[string]bool
	fu           *feeUnits
	grpcQueryFns []*Func
	msOnly       string // moduleServicePath decides only the named part ("super", "state")
	cw           []*ctxWrite
}

func (c *Check) pos(p token.Pos) string { return c.P.pos(p) }

func (c *Check) add(rule, construct string, pos token.Pos, ok bool, detail string) {
	c.Obls = append(c.Obls, &Obligation{Rule: rule, Construct: construct, Pos: c.pos(pos), OK: ok, Detail: detail})
}

func (c *Check) ok(rule, construct string, pos token.Pos, detail string) {
	c.add(rule, construct, pos, true, detail)
}

func (c *Check) fail(rule, construct string, pos token.Pos, detail string) {
	c.add(rule, construct, pos, false, detail)
}

// req records an obligation with a verdict.
func (c *Check) req(cond bool, rule, construct string, pos token.Pos, detail string) bool {
	c.add(rule, construct, pos, cond, detail)
	return cond
}

// undecided: a tree-caused inability to decide is a violation (§2.6).
func (c *Check) undecided(rule, construct string, pos token.Pos, why string) {
	c.add(rule, construct, pos, false, "undecided: "+why)
}

func (c *Check) note(format string, a ...interface{}) {
	c.Notes = append(c.Notes, fmt.Sprintf(format, a...))
}

func (c *Check) assume(a string) { c.assum[a] = true }

func (c *Check) setInfo(k string, v interface{}) { c.info[k] = v }

// ------------------------------------------------------------ known findings

type knownEntry struct {
	Status    string // open | fixed
	Prop      string
	Rule      string
	Construct string
	Text      string
	Commit    string
	used      bool
}

func verifDir() string {
	if d := os.Getenv("SVCLINT_VERIF"); d != "" {
		return d
	}
	return "/verif"
}

func loadKnown() []*knownEntry {
	f, err := os.Open(filepath.Join(verifDir(), "KNOWN_FINDINGS.txt"))
	if err != nil {
		return nil
	}
	defer f.Close()
	var out []*knownEntry
	sc := bufio.NewScanner(f)
	sc.Buffer(make([]byte, 1<<20), 1<<20)
	for sc.Scan() {
		line := strings.TrimSpace(sc.Text())
		if line == "" || strings.HasPrefix(line, "#") {
			continue
		}
		e := &knownEntry{}
		switch {
		case strings.HasPrefix(line, "open:"):
			e.Status = "open"
			line = strings.TrimSpace(line[5:])
		case strings.HasPrefix(line, "fixed:"):
			e.Status = "fixed"
			line = strings.TrimSpace(line[6:])
		default:
			continue
		}
		rest := []string{}
		for _, w := range strings.Fields(line) {
			switch {
			case strings.HasPrefix(w, "property=") && e.Prop == "":
				e.Prop = w[9:]
			case strings.HasPrefix(w, "rule=") && e.Rule == "":
				e.Rule = w[5:]
			case strings.HasPrefix(w, "construct=") && e.Construct == "":
				e.Construct = w[10:]
			case strings.HasPrefix(w, "commit=") && e.Commit == "":
				e.Commit = w[7:]
			default:
				rest = append(rest, w)
			}
		}
		e.Text = strings.Join(rest, " ")
		out = append(out, e)
	}
	return out
}

// ------------------------------------------------------------ evidence

type evidence struct {
	PropertyID  string                 `json:"property_id"`
	Tier        string                 `json:"tier"`
	Seed        int                    `json:"seed"`
	Level       string                 `json:"level"`
	Coverage    map[string]interface{} `json:"coverage"`
	Assumptions []string               `json:"assumptions"`
	WallS       float64                `json:"wall_s"`
	Violations  int                    `json:"violations"`
}

// finish prints the verdict, writes evidence and returns the exit code.
func (c *Check) finish(explanation string) int {
	// undecided items collected by the engine (path explosion etc.)
	for _, u := range c.P.undecided {
		c.undecided(c.Prop+".engine", "engine", token.NoPos, u)
	}
	known := loadKnown()
	var viol []*Obligation
	seenViol := map[string]bool{}
	nKnown := 0
	for _, o := range c.Obls {
		if o.OK {
			continue
		}
		key := o.Rule + "|" + o.Construct
		matched := false
		for _, k := range known {
			if k.Prop == c.Prop && k.Rule == o.Rule && k.Construct == o.Construct {
				k.used = true
				if k.Status == "open" {
					matched = true
					o.Known = true
				}
			}
		}
		if matched {
			if !seenViol["K"+key] {
				seenViol["K"+key] = true
				nKnown++
				for _, k := range known {
					if k.Status == "open" && k.Prop == c.Prop && k.Rule == o.Rule && k.Construct == o.Construct {
						fmt.Printf("KNOWN-FINDING: property=%s rule=%s construct=%s %s [%s: %s]\n", c.Prop, o.Rule, o.Construct, k.Text, o.Pos, o.Detail)
					}
				}
			}
			continue
		}
		viol = append(viol, o)
	}
	for _, k := range known {
		if k.Prop == c.Prop && k.Status == "open" && !k.used {
			fmt.Printf("note: known finding no longer reported (stale): rule=%s construct=%s\n", k.Rule, k.Construct)
		}
	}
	vdir := filepath.Join(verifDir(), "evidence", "violations")
	os.MkdirAll(vdir, 0o755)
	// remove stale violation files of this property
	if old, _ := filepath.Glob(filepath.Join(vdir, c.Prop+"-*.json")); old != nil {
		for _, f := range old {
			os.Remove(f)
		}
	}
	for i, o := range viol {
		path := filepath.Join(vdir, fmt.Sprintf("%s-%d.json", c.Prop, i+1))
		bz, _ := json.MarshalIndent(map[string]interface{}{"property": c.Prop, "rule": o.Rule, "construct": o.Construct,
			"pos": o.Pos, "detail": o.Detail, "repo": c.P.Dir}, "", " ")
		os.WriteFile(path, bz, 0o644)
		fmt.Printf("VIOLATION property=%s replay=%s\n", c.Prop, path)
		fmt.Printf("  rule=%s construct=%s at %s: %s\n", o.Rule, o.Construct, o.Pos, o.Detail)
	}
	// evidence
	total, discharged := 0, 0
	distinct := map[string]bool{}
	rules := map[string]int{}
	for _, o := range c.Obls {
		total++
		if o.OK {
			discharged++
		}
		distinct[o.Rule+"|"+o.Construct] = true
		rules[o.Rule]++
	}
	var samples []interface{}
	step := 1
	if len(c.Obls) > 12 && os.Getenv("SVCLINT_ALL_OBLIGATIONS") == "" {
		step = len(c.Obls) / 12
	}
	for i := 0; i < len(c.Obls); i += step {
		samples = append(samples, c.Obls[i])
	}
	for _, o := range viol {
		samples = append(samples, o)
	}
	if len(samples) == 0 {
		samples = append(samples, map[string]string{"note": "no obligations generated"})
	}
	assum := []string{}
	for a := range c.assum {
		assum = append(assum, a)
	}
	sort.Strings(assum)
	cov := map[string]interface{}{
		"explanation":         explanation,
		"obligations":         total,
		"discharged":          discharged,
		"known_findings":      nKnown,
		"evaluations":         c.Sites + total,
		"distinct_nontrivial": len(distinct),
		"rule": "one obligation per (rule, construct) instance derived from /repo's type-checked source; " +
			"distinct = distinct (rule, construct) pairs; every obligation carries a guard, pairing, provenance, grammar or inventory requirement",
		"samples":            samples,
		"rules":              rules,
		"packages":           len(c.P.Pkgs),
		"files":              c.P.Stats.Files,
		"functions_analysed": c.P.Stats.FuncsAnalysed,
		"paths_enumerated":   c.P.Stats.Paths,
		"call_sites":         c.P.Stats.CallSites,
		"notes":              c.Notes,
		"repo":               c.P.Dir,
		"checker_cmd":        "bin/svclint check -p " + c.Prop + " -tier " + c.Tier,
		"trusted_base":       []string{"go/types", "golang.org/x/tools v0.29.0 (go/packages, go/cfg)", "svclint rule tables"},
	}
	for k, v := range c.info {
		cov[k] = v
	}
	// functions treated as blocks of their only caller (path splicing)
	var spliced []string
	for _, f := range c.P.Funcs {
		if c.P.inlineMemo[f] {
			spliced = append(spliced, f.Name+" -> "+c.P.inlineHost(f).Name)
		}
	}
	sort.Strings(spliced)
	cov["spliced_helpers"] = spliced
	ev := evidence{PropertyID: c.Prop, Tier: c.Tier, Seed: seedEnv(), Level: "other", Coverage: cov,
		Assumptions: assum, WallS: time.Since(c.start).Seconds(), Violations: len(viol)}
	bz, err := json.MarshalIndent(ev, "", " ")
	if err != nil {
		toolFail("evidence marshal: %v", err)
	}
	epath := filepath.Join(verifDir(), "evidence", c.Prop+".json")
	if err := os.WriteFile(epath, bz, 0o644); err != nil {
		toolFail("cannot write evidence %s: %v", epath, err)
	}
	fmt.Printf("%s: %d obligations, %d discharged, %d known findings, %d violations (%.1fs)\n",
		c.Prop, total, discharged, nKnown, len(viol), time.Since(c.start).Seconds())
	if total == 0 {
		fmt.Printf("VIOLATION property=%s replay=%s\n  no obligations were generated (vacuous run)\n", c.Prop, epath)
		return 1
	}
	if len(viol) > 0 {
		return 1
	}
	return 0
}

func seedEnv() int {
	var n int
	fmt.Sscanf(os.Getenv("VERIF_SEED"), "%d", &n)
	return n
}
