package main

import (
	"fmt"
	"go/token"
	"os"
	"sort"
	"strings"
)

// addressRoles: sibling agreement of address roles. Every store family whose key carries an address is keyed, at every
// site that any message handler, the end blocker, the genesis import or a query reaches, by an address of ONE role
// (the provider of a binding, the owner, the consumer ...). The role of an argument is read off where the value comes from
// in the entry point's own vocabulary: the field of the message / record / query it is taken from (Provider, Owner,
// Consumer, WithdrawAddress — the protobuf field names, not names of locals), an element of a Providers list, or the value
// a getter returns from a family whose stored values themselves have one role (GetOwner yields an Owner). A site whose
// role differs from the role of the family's other sites (an owner record looked up under the owner's address, a binding
// looked up under the owner, a swapped SetOwner) is reported. Sites whose role cannot be determined take no part.
func (c *Check) addressRoles(rule string) {
	type site struct {
		entry string
		e     *Eff
		role  string
		arg   *Term
	}
	var entries []*Func
	names := map[*Func]string{}
	for _, en := range c.entries(rule) {
		entries = append(entries, en.Handler)
		names[en.Handler] = en.Msg
	}
	for _, n := range []string{"service.EndBlocker", "service.InitGenesis", "service.PrepForZeroHeightGenesis"} {
		if f := c.P.FuncNamed(n); f != nil {
			entries = append(entries, f)
			names[f] = strings.TrimPrefix(n, "service.")
		}
	}
	for _, f := range c.handFuncs("keeper") {
		if f.Obj != nil && f.Recv != nil && len(f.Params) == 2 && typeName(f.Params[0].Type()) == "context.Context" {
			entries = append(entries, f)
			names[f] = "query:" + f.Obj.Name()
		}
	}
	// value roles of families: the role of the address stored as the record's value
	valRole := map[string]map[string]int{}
	fieldRole := func(t *Term) string {
		t = stripConv(stripSpread(t))
		for t != nil && (t.Op == "sdk.AccAddress.Bytes" || t.Op == "conv") && len(t.A) >= 1 {
			t = stripConv(t.A[len(t.A)-1])
		}
		if t == nil {
			return ""
		}
		if strings.HasPrefix(t.Op, ".") {
			f := t.Op[strings.LastIndex(t.Op, ".")+1:]
			switch f {
			case "Provider", "Owner", "Consumer", "WithdrawAddress":
				return f
			}
			return ""
		}
		if t.Op == "elem" && len(t.A) == 1 && strings.HasSuffix(stripConv(t.A[0]).Op, ".Providers") {
			return "Provider"
		}
		return ""
	}
	getterFamily := func(t *Term) string {
		// (res 0 (G args)) / (G args) where G's only store effect is a Get of one family
		t = stripConv(t)
		if t.Op == "res" && len(t.A) == 2 {
			t = stripConv(t.A[1])
		}
		g := c.P.FuncNamed(t.Op)
		if g == nil || g.Body == nil {
			return ""
		}
		fam := ""
		for _, e := range c.P.SummaryOf(g).Effs {
			if e.Kind != "store" {
				continue
			}
			if e.Op != "Get" || (fam != "" && fam != e.Family) {
				return ""
			}
			fam = e.Family
		}
		return fam
	}
	var all []*Eff
	owner := map[*Eff]string{}
	for _, f := range entries {
		for _, e := range c.P.SummaryOf(f).Effs {
			if e.Kind == "store" && e.Key != nil {
				all = append(all, e)
				owner[e] = names[f]
			}
		}
	}
	for _, e := range all {
		if e.Op == "Set" && e.Val != nil {
			if r := fieldRole(e.Val); r != "" {
				if valRole[e.Family] == nil {
					valRole[e.Family] = map[string]int{}
				}
				valRole[e.Family][r]++
			}
		}
	}
	roleOf := func(t *Term) string {
		if r := fieldRole(t); r != "" {
			return r
		}
		if fam := getterFamily(t); fam != "" && len(valRole[fam]) == 1 {
			for r := range valRole[fam] {
				if r == "WithdrawAddress" {
					return r
				}
				return r
			}
		}
		return ""
	}
	groups := map[string][]site{}
	seen := map[string]bool{}
	for _, e := range all {
		for i, a := range keyArgs(e) {
			r := roleOf(a)
			if r == "" {
				continue
			}
			k := fmt.Sprintf("%s[%d]", e.Family, i)
			dk := k + "|" + owner[e] + "|" + e.SiteKey() + "|" + r
			if seen[dk] {
				continue
			}
			seen[dk] = true
			groups[k] = append(groups[k], site{owner[e], e, r, a})
		}
	}
	var keys []string
	for k := range groups {
		keys = append(keys, k)
	}
	sort.Strings(keys)
	n := 0
	for _, k := range keys {
		cnt := map[string]int{}
		for _, s := range groups[k] {
			cnt[s.role]++
			n++
		}
		major, best, tie := "", 0, false
		var rs []string
		for r := range cnt {
			rs = append(rs, r)
		}
		sort.Strings(rs)
		for _, r := range rs {
			if cnt[r] > best {
				major, best, tie = r, cnt[r], false
			} else if cnt[r] == best {
				tie = true
			}
		}
		if os.Getenv("SVCLINT_DEBUG_ROLES") != "" {
			fmt.Fprintf(os.Stderr, "roles %s: %v\n", k, cnt)
		}
		c.Sites += len(groups[k])
		if len(cnt) == 1 {
			c.ok(rule, "address-role:"+k, token.NoPos, fmt.Sprintf("key position %s is an address of role %s at all %d sites with a determinable role", k, major, best))
			continue
		}
		for _, s := range groups[k] {
			if s.role == major && !tie {
				continue
			}
			c.fail(rule, effConstruct(s.entry, s.e)+"#address-role:"+k, s.e.Pos,
				fmt.Sprintf("family %s is keyed here by a %s (%s) but by a %s at its other sites %v: two roles for one key position", k, s.role, shortTerm(s.arg), major, cnt))
		}
	}
	c.req(n >= 20, rule, "address-role-sites", token.NoPos, fmt.Sprintf("%d key arguments with a determinable address role in %d families/positions", n, len(keys)))
}

// withdrawAddressSet (C13): "only the owner's own message changes its withdrawal address" — and that message does change
// it: the handler of the set-withdraw-address message stores, on every committed path, the message's WithdrawAddress under
// the message's Owner (no condition on the address: an owner can point its earnings back to itself), and no other message
// handler writes that family.
func (c *Check) withdrawAddressSet(rule string) {
	n := 0
	for _, en := range c.entries(rule) {
		for _, e := range c.P.SummaryOf(en.Handler).Effs {
			if e.Kind != "store" || e.Family != "0x07" || !(e.Op == "Set" || e.Op == "Delete") {
				continue
			}
			if en.Msg != "MsgSetWithdrawAddress" {
				c.fail(rule, effConstruct(en.Msg, e)+"#foreign-writer", e.Pos, "the withdrawal-address family is written by a message other than the owner's set-withdraw-address message")
				continue
			}
			n++
			k := keyArgs(e)
			okKey := len(k) == 1 && k[0].String() == fmt.Sprintf("(.%s.Owner %s)", en.Msg, en.MsgArg)
			okVal := e.Val != nil && stripConv(stripSpread(e.Val)).ContainsOp("."+en.Msg+".WithdrawAddress")
			c.req(e.Op == "Set" && okKey && okVal, rule, effConstruct(en.Msg, e)+"#args", e.Pos, "the message's WithdrawAddress is stored under the message's Owner: key "+fmtTerms(k)+" value "+shortTerm(e.Val))
			// a guard that repeats what the message's own ValidateBasic has established is no condition (A-SDK: it ran before)
			var extra []string
			vbFacts := FactSet{}
			if vb := c.P.FuncNamed("types." + en.Msg + ".ValidateBasic"); vb != nil {
				for _, fa := range c.closeFacts(c.P.SummaryOf(vb).SuccessFacts) {
					vbFacts.Add(Fact{T: fa.T.Subst(map[string]*Term{"Precv": atom(en.MsgArg)}), Neg: fa.Neg})
				}
			}
			for _, gf := range e.Guards {
				if !vbFacts.Has(gf) {
					extra = append(extra, gf.String())
				}
			}
			sort.Strings(extra)
			c.req(e.Must && len(extra) == 0, rule, effConstruct(en.Msg, e)+"#unconditional", e.Pos,
				"the address is stored on every committed path of the handler, under no condition beyond the message's own stateless validation"+condStr(len(extra) > 0, ": guarded by "+strings.Join(extra, " ∧ ")))
		}
	}
	c.req(n == 1, rule, "MsgSetWithdrawAddress#store", token.NoPos, fmt.Sprintf("%d store of the withdrawal address by its message handler", n))
}

// bindOwnerGuard (C15: "every provider has one owner for life, shared by all its bindings"; the same guard as C05.6): every
// state change of the bind message is dominated by ¬(the provider has a stored owner ∧ that owner ≠ the message's owner),
// with the owner looked up for the message's provider — and by nothing weaker (an escape clause such as "or the owner is
// the provider itself" lets a provider that already belongs to A create bindings owned by itself).
func (c *Check) bindOwnerGuard(rule string) {
	gOwner := c.getterByFamily("0x04")
	if gOwner == nil {
		c.undecided(rule, "getter:owner", token.NoPos, "owner getter not found")
		return
	}
	n := 0
	for _, en := range c.entries(rule) {
		if en.Msg != "MsgBindService" {
			continue
		}
		S := en.SignerTerm()
		prov := en.Field("Provider")
		cur := fmt.Sprintf("(res 0 (%s %s))", gOwner.Name, prov)
		curFound := fmt.Sprintf("(res 1 (%s %s))", gOwner.Name, prov)
		for _, e := range c.mutating(c.P.SummaryOf(en.Handler)) {
			n++
			g := c.closeFacts(e.Guards)
			ok := false
			for _, f := range g {
				ds := f.Disjuncts()
				if len(ds) != 2 {
					continue
				}
				hasNF, hasEq := false, false
				for _, d := range ds {
					if d == "(! "+curFound+")" {
						hasNF = true
					}
					if d == "(sdk.AccAddress.Equals "+S+" "+cur+")" || d == "(sdk.AccAddress.Equals "+cur+" "+S+")" {
						hasEq = true
					}
				}
				if hasNF && hasEq {
					ok = true
				}
			}
			if _, nf := hasFact(g, curFound, true); nf {
				ok = true
			}
			if equalsFact(g, S, cur) {
				ok = true
			}
			c.req(ok, rule, effConstruct(en.Msg, e)+"#one-owner", e.Pos, "dominated by ¬(provider has an owner ∧ owner ≠ the message's owner), owner looked up for the message's provider")
		}
	}
	c.req(n >= 1, rule, "MsgBindService#effects", token.NoPos, fmt.Sprintf("%d state changes of the bind message", n))
}

// handlersAddNoRejection: whether a message is accepted is decided by the keeper function the property's rules are written
// for; the message handler in front of it only hands the message's fields on and propagates the keeper's error. Every
// rejecting exit of the handler is the failure of a keeper call (the last branch fact on the path is ¬ok of that call) — a
// pre-check of its own (an expiry test off by one block, "the responder's binding is unavailable") turns away messages
// the keeper would have accepted. The one rejection handlers make themselves today, binding a service reserved by a
// module, is listed.
func (c *Check) handlersAddNoRejection(rule string, msgs ...string) {
	want := map[string]bool{}
	for _, m := range msgs {
		want[m] = true
	}
	n := 0
	for _, en := range c.entries(rule) {
		if len(want) > 0 && !want[en.Msg] {
			continue
		}
		h := en.Handler
		n++
		var badPos token.Pos
		bad := ""
		for _, pa := range c.P.PathsOf(h) {
			if pa.Exit != ExitRevert {
				continue
			}
			var last *Event
			for _, ev := range pa.Events {
				if ev.Kind == EvFact {
					last = ev
				}
			}
			if last == nil {
				bad, badPos = "an unconditional rejection", pa.RetPos
				break
			}
			t := last.Fact.T
			okCall := false
			if last.Fact.Neg && t.Op == "ok" && len(t.A) == 1 {
				if g := c.P.FuncNamed(stripConv(t.A[0]).Op); g != nil && g.pkgName() == "keeper" {
					okCall = true
				}
			}
			if !okCall && strings.Contains(t.String(), "GetModuleServiceByServiceName") {
				okCall = true // listed: a service reserved by a module is not bound by message
			}
			if !okCall && c.outsideWindowOnly(last.Fact, 0) {
				okCall = true // "the block is past the request's expiration height" (strictly): what the property itself demands
			}
			if !okCall {
				bad, badPos = "a rejection under "+shortTerm(&Term{Op: "fact", A: []*Term{t}}), pa.RetPos
				if last.Fact.Neg {
					bad = "a rejection under ¬" + shortTerm(t)
				} else {
					bad = "a rejection under " + shortTerm(t)
				}
				break
			}
		}
		pos := h.Body.Pos()
		if bad != "" {
			pos = badPos
		}
		c.req(bad == "", rule, en.Msg+"#handler-adds-no-rejection", pos, "every rejecting exit of the handler is the failure of a keeper call"+condStr(bad != "", ": "+bad))
	}
	c.Sites += n
	c.req(n >= 1, rule, "handlers", token.NoPos, fmt.Sprintf("%d message handlers examined", n))
}

// outsideWindowOnly: the fact says no more than "the current block lies strictly outside the request's window" — the block
// height is greater than the request's expiration height, or less than its request height — possibly through a helper
// (a predicate, or a validator whose failure is the fact). Any other comparison (≥ at the expiration height, which turns
// away an answer in the last block of the window) or any other test makes the result false.
func (c *Check) outsideWindowOnly(f Fact, depth int) bool {
	kind := func(t *Term) string {
		t = stripConv(t)
		switch {
		case t.IsAt("BlockHeight") || strings.HasSuffix(t.Op, "Context.BlockHeight"):
			return "H"
		case t.Op == ".Request.ExpirationHeight":
			return "E"
		case t.Op == ".Request.RequestHeight":
			return "R"
		}
		return ""
	}
	neg := map[string]string{"<": ">=", "<=": ">", ">": "<=", ">=": "<"}
	t := f.T
	isNeg := f.Neg
	for t.Op == "!" && len(t.A) == 1 {
		t, isNeg = t.A[0], !isNeg
	}
	if op, isCmp := neg[t.Op]; isCmp && len(t.A) == 2 {
		o := t.Op
		if isNeg {
			o = op
		}
		l, r := kind(t.A[0]), kind(t.A[1])
		switch l + o + r {
		case "H>E", "E<H", "H<R", "R>H":
			return true
		}
		return false
	}
	// emptiness of the looked-up request: no statement about the window at all (the keeper rejects an unknown request)
	if strings.HasSuffix(t.Op, ".Request.Empty") || (t.Op == "res" && len(t.A) == 2 && t.A[0].IsAt("1")) {
		return true
	}
	if t.Op == "nonempty" && len(t.A) == 1 && strings.HasPrefix(stripConv(t.A[0]).Op, ".Request.") {
		return true
	}
	if depth >= 2 {
		return false
	}
	// through a helper: a predicate that is true, or a validator that failed
	var g *Func
	var call *Term
	wantFail := false
	switch {
	case t.Op == "ok" && len(t.A) == 1 && isNeg:
		call, wantFail = stripConv(t.A[0]), true
	case !isNeg:
		call = stripConv(t)
	default:
		return false
	}
	g = c.P.FuncNamed(call.Op)
	if g == nil || g.Body == nil || !g.isHandWritten() {
		return false
	}
	m := argMap(g, call)
	n := 0
	for _, pa := range c.P.PathsOf(g) {
		var decisive []Fact
		switch {
		case wantFail && pa.Exit == ExitRevert:
		case !wantFail && pa.OK() && len(pa.Ret) == 1 && !stripConv(pa.Ret[0]).IsAt("#false"):
			if r := stripConv(pa.Ret[0]); !r.IsAt("#true") {
				decisive = append(decisive, Fact{T: r})
			}
		default:
			continue
		}
		n++
		var facts []Fact
		for _, ev := range pa.Events {
			if ev.Kind == EvFact {
				facts = append(facts, ev.Fact)
			}
		}
		if wantFail {
			// a validator: the test that rejects is the last one (those before it are rejections not taken)
			if len(facts) > 0 {
				decisive = append(decisive, facts[len(facts)-1])
			}
		} else {
			decisive = append(decisive, facts...)
		}
		some := false
		for _, d := range decisive {
			for _, nf := range d.SubstAll(m) {
				if !c.outsideWindowOnly(nf, depth+1) {
					return false
				}
				some = true
			}
		}
		if !some {
			return false
		}
	}
	return n > 0
}
