package main

// C03 — binding deposits stay in custody and leave only by the rules.

import (
	"fmt"
	"go/token"
	"strings"
)

func init() {
	rules["C03"] = ruleC03
	explanations["C03"] = "Decides the inductive-step structure behind 'balance(deposit account) = Σ recorded deposits': (1) inventory of every bank operation naming the deposit " +
		"module account; (2) on every committed path of every function that persists a binding, the change of the stored Deposit field is paired by value with exactly one " +
		"custody operation (top-up d ⇔ transfer-in of d; SafeSub(s) ⇔ burn of s; emptied ⇔ transfer-out of the whole previous deposit to the stored owner; unchanged ⇔ none), " +
		"and no custody operation occurs without the record being persisted; (3) every transfer out of the deposit account is dominated by owner match, unavailable, non-zero " +
		"deposit and block time ≥ DisabledTime + ArbitrationTimeLimit + ComplaintRetrospect; (4) payer = signer. Not decided: supply arithmetic (A-SDK)."
}

func ruleC03(c *Check) {
	c.addressRoles("C03.6")
	c.assume("A-SDK: bank methods move exactly the coins they are given or fail; sdk.Coins arithmetic is correct")
	c.depositInventory("C03.1")
	c.depositPairing("C03.2")
	c.depositRefundGuards("C03.4")
	c.depositPayer("C03.3")
	c.custodyErrorsChecked("C03.5")
	c.availabilityPairs("C03.4")
	c.paramSetExact("C03.4")
	c.fractionValidators("C03.2")
	c.custodyBeforeRecord("C03.7")
	c.bindOnlyWhenAbsent("C03.8")
	c.paramGettersExact("C03.4", "KeyArbitrationTimeLimit", "KeyComplaintRetrospect", "KeySlashFraction")
}

// depositInventory: every direct bank call naming DepositAccName.
func (c *Check) depositInventory(rule string) {
	in, out, burn := 0, 0, 0
	for _, f := range c.handFuncs("keeper", "service") {
		for _, e := range c.directEffects(f) {
			if e.Kind != "bank" {
				continue
			}
			c.Sites++
			fromD, toD := isModuleAccount(e.From, "DepositAccName"), isModuleAccount(e.To, "DepositAccName")
			if !fromD && !toD {
				continue
			}
			construct := unitConstruct(f, "bank."+e.Op)
			switch {
			case e.Op == "SendCoinsFromAccountToModule" && toD:
				in++
				c.ok(rule, construct, e.Pos, "transfer into deposit custody")
			case e.Op == "SendCoinsFromModuleToAccount" && fromD:
				out++
				c.ok(rule, construct, e.Pos, "transfer out of deposit custody to "+shortTerm(e.To))
			case e.Op == "BurnCoins" && fromD:
				burn++
				c.ok(rule, construct, e.Pos, "burn from deposit custody")
			default:
				c.fail(rule, construct, e.Pos, "bank operation "+e.Op+" on the deposit account is not one of transfer-in / transfer-out / burn")
			}
		}
	}
	c.req(in >= 1 && out >= 1 && burn >= 1, rule, "roles", token.NoPos, fmt.Sprintf("transfer-in ×%d, transfer-out ×%d, burn ×%d", in, out, burn))
}

// depositPairing: per committed path, Deposit delta ⇔ custody operation.
func (c *Check) depositPairing(rule string, only ...*Func) {
	units := c.persistUnits("0x02", "ServiceBinding")
	if len(only) > 0 {
		keep := map[*Func][]*PersistPath{}
		for _, f := range only {
			if pps, ok := units[f]; ok {
				keep[f] = pps
			}
		}
		units = keep
	}
	c.req(len(units) >= 1, rule, "units", token.NoPos, fmt.Sprintf("%d functions persist bindings", len(units)))
	names := []string{}
	for f, pps := range units {
		names = append(names, f.Name)
		seen := map[string]bool{}
		for _, pp := range pps {
			c.Sites++
			bank := bankOn(pp.Bank, "DepositAccName")
			verdict, detail := c.judgeDepositPath(pp, bank)
			key := fmt.Sprintf("%v|%s", verdict, detail)
			if seen[key] {
				continue
			}
			seen[key] = true
			c.req(verdict, rule, unitConstruct(f, "deposit-pairing:"+classOf(detail)), pp.Path.RetPos, detail)
		}
	}
	c.setInfo("binding_persist_units", names)
	if len(only) > 0 {
		return
	}
	// custody operations outside persisting functions
	for _, f := range c.handFuncs("keeper", "service") {
		if _, ok := units[f]; ok {
			continue
		}
		for _, e := range c.directEffects(f) {
			if e.Kind == "bank" && (isModuleAccount(e.From, "DepositAccName") || isModuleAccount(e.To, "DepositAccName")) {
				reach := c.reachableFromEntries(f)
				if reach && c.onlyCalledFromUnits(f, units, 0) {
					c.ok(rule, unitConstruct(f, "custody-helper"), e.Pos, "custody helper: every caller persists the binding (pairing judged on the callers' paths)")
					continue
				}
				c.req(!reach, rule, unitConstruct(f, "custody-without-record"), e.Pos,
					"deposit custody operation in a function that persists no binding"+condStr(!reach, " — not reachable from any message, end-block or genesis entry (noted)")+condStr(reach, " — reachable from an entry point"))
			}
		}
	}
}

func classOf(detail string) string {
	if i := strings.Index(detail, ":"); i > 0 {
		return detail[:i]
	}
	return detail
}

// amountZeroOnPath: the path has established that the coin amount is zero / empty (so that moving it, adding it or
// subtracting it changes nothing): IsZero / Empty of the coins themselves, or IsZero of the integer they are built from
// (NewCoins drops zero coins).
func amountZeroOnPath(facts FactSet, amt *Term) bool {
	amt = stripConv(stripSpread(amt))
	if amt == nil {
		return false
	}
	if facts.Holds(mk("sdk.Coins.IsZero", amt), true) || facts.Holds(mk("nonempty", amt), false) || facts.Holds(mk("sdk.Coins.Empty", amt), true) {
		return true
	}
	if b, ok := amt.Match("(sdk.NewCoins (sdk.NewCoin $D $A))"); ok {
		a := stripConv(b["$A"])
		if facts.Holds(mk("sdk.Int.IsZero", a), true) || facts.Holds(mk("sdk.Int.IsPositive", a), false) {
			return true
		}
	}
	return false
}

func (c *Check) judgeDepositPath(pp *PersistPath, bank []*Eff) (bool, string) {
	// custody operations of an amount the path knows to be zero move nothing
	{
		var nb []*Eff
		for _, e := range bank {
			if !amountZeroOnPath(pp.Facts, e.Amount) {
				nb = append(nb, e)
			}
		}
		bank = nb
	}
	zeroSub := func(v *Term) bool {
		// Deposit − s with s known to be zero on the path
		v = stripConv(v)
		if v.Op == "res" && len(v.A) == 2 && v.A[0].IsAt("0") && v.A[1].Op == "sdk.Coins.SafeSub" && len(v.A[1].A) == 2 {
			return amountZeroOnPath(pp.Facts, v.A[1].A[1])
		}
		if (v.Op == "sdk.Coins.Sub" || v.Op == "sdk.Coins.Add") && len(v.A) == 2 {
			return amountZeroOnPath(pp.Facts, v.A[1])
		}
		return false
	}
	if len(pp.Stored) == 0 {
		if len(bank) > 0 {
			return false, "custody-without-persist: path performs " + effDesc(bank[0]) + " on the deposit account but persists no binding"
		}
		// unpersisted Deposit writes
		for _, ev := range pp.Path.Events {
			if ev.Kind == EvWrite && ev.Struct == "ServiceBinding" && ev.Field != "Deposit" {
				return false, "write-not-persisted: " + ev.Field + " is written but the binding is not persisted on this path (the change is lost)"
			}
			if ev.Kind == EvWrite && ev.Struct == "ServiceBinding" && ev.Field == "Deposit" && !(ev.Val != nil && zeroSub(ev.Val)) {
				return false, "write-not-persisted: Deposit is written but the binding is not persisted on this path"
			}
		}
		return true, "no-change: nothing persisted, no custody operation"
	}
	B := pp.Stored[len(pp.Stored)-1]
	base := baseOf(B)
	dep := field("ServiceBinding", "Deposit", B)
	if base.Op == "lit" {
		// creation
		if len(bank) == 1 && bank[0].Op == "SendCoinsFromAccountToModule" && termsEq(bank[0].Amount, dep) {
			return true, "create: recorded deposit " + shortTerm(dep) + " ⇔ transfer-in of the same value"
		}
		return false, fmt.Sprintf("create: recorded deposit %s is not matched by exactly one transfer-in of that value (custody ops: %d)", shortTerm(dep), len(bank))
	}
	if base.Op == "" && strings.HasPrefix(base.At, "P") {
		return true, "setter: stores its parameter (judged at callers)"
	}
	old := field("ServiceBinding", "Deposit", base)
	switch {
	case dep.Eq(old):
		if len(bank) == 0 {
			return true, "unchanged: Deposit unchanged, no custody operation"
		}
		return false, "unchanged: Deposit is unchanged but " + effDesc(bank[0]) + " moves deposit custody"
	case dep.Op == "sdk.Coins.Add" && len(dep.A) == 2 && dep.A[0].Eq(old):
		d := dep.A[1]
		if len(bank) == 1 && bank[0].Op == "SendCoinsFromAccountToModule" && termsEq(bank[0].Amount, d) {
			// the transfer is made by a helper only under conditions of its own: each of them holds on this path (a helper
			// that leaves early "when the minimum is not enforced" records a deposit it has not taken)
			for _, g := range bank[0].Guards {
				if g.T.Op == "ok" || isConstTerm(g.T) {
					continue
				}
				if !pp.Facts.Holds(g.T, !g.Neg) {
					return false, "top-up: Deposit grows by " + shortTerm(stripSpread(d)) + " but the transfer-in is made only under " + condStr(g.Neg, "¬") + shortTerm(g.T) + ", which this path has not established"
				}
			}
			return true, "top-up: Deposit+" + shortTerm(stripSpread(d)) + " ⇔ transfer-in of the same value"
		}
		return false, fmt.Sprintf("top-up: Deposit grows by %s without exactly one transfer-in of that value (custody ops: %d)", shortTerm(d), len(bank))
	case dep.Op == "res" && len(dep.A) == 2 && dep.A[0].IsAt("0") && dep.A[1].Op == "sdk.Coins.SafeSub" && dep.A[1].A[0].Eq(old):
		s := dep.A[1].A[1]
		if len(bank) == 0 && amountZeroOnPath(pp.Facts, s) {
			return true, "slash-of-zero: the slashed amount is zero on this path: the deposit is unchanged and nothing is burned"
		}
		if len(bank) == 1 && bank[0].Op == "BurnCoins" && termsEq(bank[0].Amount, s) {
			// the negative-result edge must not be taken
			neg := Fact{T: mk("res", atom("1"), dep.A[1])}
			if !pp.Facts.Has(neg.Not()) {
				return false, "slash: SafeSub result is used without excluding a negative remainder"
			}
			return true, "slash: Deposit−s ⇔ burn of the same s"
		}
		return false, fmt.Sprintf("slash: Deposit shrinks by %s without exactly one burn of that value (custody ops: %d)", shortTerm(s), len(bank))
	case dep.Op == "lit" && len(dep.A) == 1:
		// emptied: whole previous deposit returned to the stored owner
		owner := field("ServiceBinding", "Owner", base)
		if len(bank) == 1 && bank[0].Op == "SendCoinsFromModuleToAccount" && termsEq(bank[0].Amount, old) && termsEq(bank[0].To, owner) {
			return true, "refund: Deposit emptied ⇔ transfer-out of the whole previous deposit to the stored owner"
		}
		to := "-"
		if len(bank) > 0 {
			to = shortTerm(bank[0].To)
		}
		return false, fmt.Sprintf("refund: Deposit emptied without exactly one transfer-out of the previous deposit to binding.Owner (custody ops: %d, recipient %s)", len(bank), to)
	}
	return false, "unrecognised: Deposit is written as " + shortTerm(dep) + " — not top-up / SafeSub / emptied"
}

// depositRefundGuards: every transfer out of deposit custody reachable from an entry.
func (c *Check) depositRefundGuards(rule string) {
	arb := c.paramTerm(rule, "KeyArbitrationTimeLimit")
	comp := c.paramTerm(rule, "KeyComplaintRetrospect")
	n := 0
	check := func(unit string, sum *Summary, signer string) {
		for _, e := range sum.Effs {
			if e.Kind != "bank" || e.Op != "SendCoinsFromModuleToAccount" || !isModuleAccount(e.From, "DepositAccName") || !e.Commit {
				continue
			}
			n++
			g := c.closeFacts(e.Guards)
			// the binding whose deposit is returned
			b, ok := e.Amount.Match("(.ServiceBinding.Deposit $B)")
			if !c.req(ok, rule, effConstruct(unit, e)+"#amount", e.Pos, "amount "+shortTerm(e.Amount)+" is the Deposit of a stored binding") {
				continue
			}
			B := b["$B"].String()
			c.req(e.To.String() == "(.ServiceBinding.Owner "+B+")", rule, effConstruct(unit, e)+"#recipient", e.Pos, "recipient "+shortTerm(e.To)+" is the Owner of the same binding")
			_, unavailable := hasFact(g, "(.ServiceBinding.Available "+B+")", true)
			c.req(unavailable, rule, effConstruct(unit, e)+"#unavailable", e.Pos, "dominated by ¬binding.Available")
			_, nonzero := hasFact(g, "(sdk.Coins.IsZero (.ServiceBinding.Deposit "+B+"))", true)
			c.req(nonzero, rule, effConstruct(unit, e)+"#nonzero", e.Pos, "dominated by ¬Deposit.IsZero()")
			if signer != "" {
				c.req(equalsFact(g, signer, "(.ServiceBinding.Owner "+B+")"), rule, effConstruct(unit, e)+"#owner", e.Pos, "dominated by Equals(signer, binding.Owner)")
			}
			// time guard
			timeOK := false
			var tdesc string
			for _, f := range g {
				if !f.Neg {
					continue
				}
				var T *Term
				if f.T.Op == "time.Time.Before" && len(f.T.A) == 2 && f.T.A[0].IsAt("BlockTime") {
					T = f.T.A[1] // ¬(now < T)
				} else if f.T.Op == "time.Time.After" && len(f.T.A) == 2 && f.T.A[1].IsAt("BlockTime") {
					T = f.T.A[0] // ¬(T > now)
				}
				if f.T.Op == "<" && len(f.T.A) == 2 {
					// ¬(0 < T − now) and ¬(now − T < 0): the same comparison written on the remaining duration
					l, r := stripConv(f.T.A[0]), stripConv(f.T.A[1])
					if v, ok := intConst(l); ok && v == 0 && r.Op == "time.Time.Sub" && len(r.A) == 2 && r.A[1].IsAt("BlockTime") {
						T = r.A[0]
					} else if v, ok := intConst(r); ok && v == 0 && l.Op == "time.Time.Sub" && len(l.A) == 2 && l.A[0].IsAt("BlockTime") {
						T = l.A[1]
					}
				}
				if T == nil {
					continue
				}
				tdesc = shortTerm(T)
				if timeSkeleton(T, "(.ServiceBinding.DisabledTime "+B+")", arb, comp) {
					timeOK = true
				}
			}
			c.req(timeOK, rule, effConstruct(unit, e)+"#time", e.Pos, "dominated by block time ≥ DisabledTime + ArbitrationTimeLimit + ComplaintRetrospect (found: "+tdesc+")")
		}
	}
	for _, en := range c.entries(rule) {
		check(en.Msg, c.P.SummaryOf(en.Handler), en.SignerTerm())
	}
	if eb := c.P.FuncNamed("service.EndBlocker"); eb != nil {
		check("EndBlocker", c.P.SummaryOf(eb), "")
	}
	c.req(n >= 1, rule, "refund-sites", token.NoPos, fmt.Sprintf("%d entry-reachable transfers out of deposit custody", n))
}

// timeSkeleton: T = base + a + b in any association / order (time.Time.Add chain).
func timeSkeleton(T *Term, base, a, b string) bool {
	var addends []string
	cur := T
	for cur.Op == "time.Time.Add" && len(cur.A) == 2 {
		// each period is added to the time on its own: the sum of two time.Duration values can wrap
		// (two valid periods of 150 years each), a time.Time cannot within the supported range
		d := cur.A[1]
		addends = append(addends, d.String())
		cur = cur.A[0]
	}
	if cur.String() != base || len(addends) != 2 {
		return false
	}
	return (addends[0] == a && addends[1] == b) || (addends[0] == b && addends[1] == a)
}

// depositPayer: transfers into deposit custody are paid by the signer.
func (c *Check) depositPayer(rule string) {
	n := 0
	for _, en := range c.entries(rule) {
		for _, e := range c.P.SummaryOf(en.Handler).Effs {
			if e.Kind == "bank" && e.Op == "SendCoinsFromAccountToModule" && isModuleAccount(e.To, "DepositAccName") && e.Commit {
				n++
				// the signer itself, or an address the path has checked to equal the signer (the stored owner after the owner check)
				okPayer := e.From.String() == en.SignerTerm() || equalsFact(c.closeFacts(e.Guards), en.SignerTerm(), e.From.String())
				c.req(okPayer, rule, effConstruct(en.Msg, e), e.Pos, "payer "+shortTerm(e.From)+" is the signer "+en.Signer)
				// "a binding's deposit grows only by amounts its OWNER sends": for a binding that already exists the transfer is
				// dominated by found ∧ Equals(signer, stored binding.Owner)
				if gb := c.getterByType("ServiceBinding"); gb != nil && en.Msg != "MsgBindService" {
					load := fmt.Sprintf("(res 0 (%s %s %s))", gb.Name, en.Field("ServiceName"), en.Field("Provider"))
					found := fmt.Sprintf("(res 1 (%s %s %s))", gb.Name, en.Field("ServiceName"), en.Field("Provider"))
					g := c.closeFacts(e.Guards)
					_, f1 := hasFact(g, found, false)
					c.req(f1 && equalsFact(g, en.SignerTerm(), "(.ServiceBinding.Owner "+load+")"), rule, effConstruct(en.Msg, e)+"#owner", e.Pos,
						"a top-up of an existing binding is dominated by found ∧ Equals(signer, stored binding.Owner)")
				}
			}
		}
	}
	c.req(n >= 1, rule, "transfer-in-sites", token.NoPos, fmt.Sprintf("%d entry-reachable transfers into deposit custody", n))
}

// reachableFromEntries: is f transitively called from a message handler,
// EndBlocker, InitGenesis or PrepForZeroHeightGenesis?
func (c *Check) reachableFromEntries(f *Func) bool {
	if c.P.reach == nil {
		c.P.reach = map[*Func]bool{}
		var roots []*Func
		for _, n := range []string{"service.NewHandler", "service.EndBlocker", "service.InitGenesis", "service.ExportGenesis", "service.PrepForZeroHeightGenesis"} {
			if g := c.P.FuncNamed(n); g != nil {
				roots = append(roots, g)
			}
		}
		var visit func(g *Func)
		visit = func(g *Func) {
			if c.P.reach[g] {
				return
			}
			c.P.reach[g] = true
			for _, h := range c.P.callees(g) {
				visit(h)
			}
		}
		for _, r := range roots {
			visit(r)
		}
	}
	return c.P.reach[f]
}

// onlyCalledFromUnits: every caller of f is a persisting unit (or, recursively, such a helper).
func (c *Check) onlyCalledFromUnits(f *Func, units map[*Func][]*PersistPath, depth int) bool {
	if depth > 3 {
		return false
	}
	n := 0
	for _, g := range c.handFuncs("keeper", "service") {
		calls := false
		for _, h := range c.P.callees(g) {
			if h == f {
				calls = true
			}
		}
		if !calls {
			continue
		}
		n++
		if _, ok := units[g]; ok {
			continue
		}
		if !c.onlyCalledFromUnits(g, units, depth+1) {
			return false
		}
	}
	return n > 0
}

// custodyErrorsChecked (C03.5, C01): inside a transaction a failing custody operation must abort the message —
// its error is returned (tail call), or tested with the error edge leaving through a reverting return / panic.
// Otherwise the record would be updated although no coins moved.
func (c *Check) custodyErrorsChecked(rule string) {
	r := c.reachSets()
	n := 0
	for _, f := range c.handFuncs("keeper", "service") {
		if !r.fromHandler[f] {
			continue
		}
		type verdict struct {
			ok  bool
			why string
			pos token.Pos
			op  string
		}
		sites := map[token.Pos]*verdict{}
		for _, pa := range c.P.PathsOf(f) {
			for i, ev := range pa.Events {
				if ev.Kind != EvCall {
					continue
				}
				e := c.P.classifyCall(f, ev)
				if e == nil || e.Kind != "bank" {
					continue
				}
				v := sites[ev.Pos]
				if v == nil {
					v = &verdict{ok: true, pos: ev.Pos, op: e.Op}
					sites[ev.Pos] = v
				}
				okf := Fact{T: mk("ok", ev.Result)}
				after := FactSet{}
				for _, x := range pa.Events[i:] {
					if x.Kind == EvFact {
						after.Add(x.Fact)
					}
				}
				switch {
				case after.Has(okf):
					// success edge: fine
				case after.Has(okf.Not()):
					if pa.OK() {
						v.ok, v.why = false, "the error edge of the custody operation continues to a committing return"
					}
				default:
					// untested: must be the returned error itself
					tail := false
					for _, rt := range pa.Ret {
						if rt.Eq(ev.Result) {
							tail = true
						}
					}
					if !tail && f.Parent == nil {
						v.ok, v.why = false, "the error of the custody operation is neither tested nor returned"
					}
				}
			}
		}
		for _, v := range sites {
			n++
			c.req(v.ok, rule, unitConstruct(f, "custody-error:"+v.op), v.pos, "a failing custody operation aborts the message"+condStr(!v.ok, ": "+v.why))
		}
	}
	c.req(n >= 6, rule, "custody-call-sites", token.NoPos, fmt.Sprintf("%d handler-reachable custody call sites", n))
}

// custodyBeforeRecord (C03.7): where a function both takes coins into deposit custody and stores the binding that records
// them, the transfer comes first — its failure returns before anything was stored. A function that stores the enlarged
// (and re-enabled) binding and ends with `return bank.Send…` leaves, when the owner cannot pay, a record of coins that never
// arrived; inside a message the failure reverts the store, but the keeper functions are also called directly by other
// modules and block hooks.
func (c *Check) custodyBeforeRecord(rule string) {
	n := 0
	for f := range c.persistUnits("0x02", "ServiceBinding") {
		var badPos, latePos token.Pos
		bad, late := false, false
		has := false
		for _, pa := range c.P.PathsOf(f) {
			iSet, iIn := -1, -1
			for i, ev := range pa.Events {
				if ev.Kind != EvCall {
					continue
				}
				for _, e := range c.P.effectsOfEvent(f, ev) {
					if e.Kind == "store" && e.Op == "Set" && e.Family == "0x02" && iSet < 0 {
						iSet = i
					}
					if e.Kind == "bank" && e.Op == "SendCoinsFromAccountToModule" && isModuleAccount(e.To, "DepositAccName") && iIn < 0 {
						iIn = i
					}
				}
			}
			if iIn >= 0 {
				has = true
				if iSet >= 0 && iSet < iIn {
					bad, badPos = true, pa.RetPos
				}
				// once the coins are in custody the function goes on to record them: a rejecting exit after a transfer that
				// succeeded leaves coins in the deposit account that no binding records (for a caller without a transaction
				// to roll back: a module, the end blocker)
				if pa.Exit == ExitRevert {
					var last *Event
					for _, ev := range pa.Events[iIn:] {
						if ev.Kind == EvFact {
							last = ev
						}
					}
					// (the failure of the transfer itself, or of the helper that performs it, is not "after" it)
					own := last != nil && last.Fact.Neg && last.Fact.T.Op == "ok" && len(last.Fact.T.A) == 1 &&
						(strings.Contains(last.Fact.T.String(), "SendCoinsFromAccountToModule") || (pa.Events[iIn].Result != nil && stripConv(last.Fact.T.A[0]).Eq(stripConv(pa.Events[iIn].Result))))
					if !own {
						late, latePos = true, pa.RetPos
					}
				}
			}
		}
		if !has {
			continue
		}
		n++
		pos := f.Body.Pos()
		if bad {
			pos = badPos
		}
		c.req(!bad, rule, unitConstruct(f, "custody-before-record"), pos, "the transfer into deposit custody precedes the store of the binding that records it")
		pos = f.Body.Pos()
		if late {
			pos = latePos
		}
		c.req(!late, rule, unitConstruct(f, "no-rejection-after-custody"), pos, "no rejecting exit follows a transfer into deposit custody that succeeded (every check that can refuse the operation precedes the transfer)")
	}
	c.req(n >= 2, rule, "custody-and-record-functions", token.NoPos, fmt.Sprintf("%d functions both take a deposit and store the binding", n))
}

// bindOnlyWhenAbsent (C03.8): the bind message stores a binding — with the deposit it has just taken — only where no binding for
// (service, provider) exists. Stored over an existing record (a disabled one, "bound again with new terms") the old record's
// deposit stays in the deposit account with no binding that records it.
func (c *Check) bindOnlyWhenAbsent(rule string) {
	gBinding := c.getterByType("ServiceBinding")
	var en *Entry
	for _, e := range c.entries(rule) {
		if e.Msg == "MsgBindService" {
			en = e
		}
	}
	if en == nil || gBinding == nil {
		c.undecided(rule, "MsgBindService", token.NoPos, "bind entry / binding getter not found")
		return
	}
	name, prov := en.Field("ServiceName"), en.Field("Provider")
	n := 0
	for _, e := range c.mutating(c.P.SummaryOf(en.Handler)) {
		if !((e.Kind == "store" && e.Op == "Set" && e.Family == "0x02") || (e.Kind == "bank" && isModuleAccount(e.To, "DepositAccName"))) {
			continue
		}
		n++
		g := c.closeFacts(e.Guards)
		_, absent := hasFact(g, fmt.Sprintf("(res 1 (%s %s %s))", gBinding.Name, name, prov), true)
		if !absent {
			_, absent = c.recordExistence(e.Guards, "0x02", []string{name, prov})
		}
		c.req(absent, rule, effConstruct("MsgBindService", e)+"#only-when-absent", e.Pos, "the bind message takes a deposit and stores the binding only under: no binding for (service, provider) exists")
	}
	c.req(n >= 2, rule, "MsgBindService#deposit-and-record", token.NoPos, fmt.Sprintf("%d effects (deposit transfer, binding record) of the bind message", n))
}
