package main

// Key grammar (DESIGN.md RK6, table K): abstract interpretation of the key
// builders in types/keys.go into segment sequences.

import (
	"fmt"
	"go/ast"
	"go/token"
	"go/types"
	"sort"
	"strconv"
	"strings"
)

type Seg struct {
	Kind string // Const, Sep, U64, Str, Bech32, Addr, Raw, Unknown
	Role string // parameter name / role
	Byte byte   // for Const
	Par  int    // builder parameter index (-1 if none)
	Text string // for Unknown
}

func (s Seg) String() string {
	switch s.Kind {
	case "Const":
		return fmt.Sprintf("0x%02x", s.Byte)
	case "Sep":
		return "Sep"
	case "Unknown":
		return "Unknown(" + s.Text + ")"
	}
	return s.Kind + "(" + s.Role + ")"
}

type Shape []Seg

func (sh Shape) String() string {
	parts := make([]string, len(sh))
	for i, s := range sh {
		parts[i] = s.String()
	}
	return strings.Join(parts, "·")
}

func (sh Shape) Family() string {
	if len(sh) > 0 && sh[0].Kind == "Const" {
		return fmt.Sprintf("0x%02x", sh[0].Byte)
	}
	return "?"
}

type Builder struct {
	Fn     *Func
	Name   string
	Shape  Shape
	Params []string
	Unused []string // parameters that do not occur in the shape (K5)
	Prefix string   // name of the prefix variable the shape starts with
}

type KeyTable struct {
	Prefixes   map[string]byte // prefix variable qname -> byte
	PrefixVars []string
	Builders   map[string]*Builder // by qualified function name
	SepVar     string
	Problems   []string
}

func (p *Prog) keys() *KeyTable {
	if p.kt == nil {
		p.kt = p.buildKeyTable()
	}
	return p.kt
}

func (p *Prog) buildKeyTable() *KeyTable {
	kt := &KeyTable{Prefixes: map[string]byte{}, Builders: map[string]*Builder{}}
	tp := p.ByPkg[pkgTypes]
	// package-level []byte{0x..} variables of package types
	for _, file := range tp.Syntax {
		if isGenerated(file) || strings.HasSuffix(p.Fset.Position(file.Pos()).Filename, "_test.go") {
			continue
		}
		for _, d := range file.Decls {
			gd, ok := d.(*ast.GenDecl)
			if !ok || gd.Tok != token.VAR {
				continue
			}
			for _, sp := range gd.Specs {
				vs := sp.(*ast.ValueSpec)
				for i, id := range vs.Names {
					if i >= len(vs.Values) {
						continue
					}
					cl, ok := vs.Values[i].(*ast.CompositeLit)
					if !ok {
						continue
					}
					T := tp.TypesInfo.TypeOf(cl)
					sl, ok := T.Underlying().(*types.Slice)
					if !ok {
						continue
					}
					if b, ok := sl.Elem().(*types.Basic); !ok || b.Kind() != types.Byte {
						continue
					}
					if len(cl.Elts) != 1 {
						continue
					}
					tv, ok := tp.TypesInfo.Types[cl.Elts[0]]
					if !ok || tv.Value == nil {
						continue
					}
					n, err := strconv.ParseInt(tv.Value.ExactString(), 10, 64)
					if err != nil {
						continue
					}
					obj := tp.TypesInfo.Defs[id]
					q := qname(obj)
					if n == 0 {
						kt.SepVar = q
						continue
					}
					kt.Prefixes[q] = byte(n)
					kt.PrefixVars = append(kt.PrefixVars, q)
				}
			}
		}
	}
	sort.Strings(kt.PrefixVars)
	// builders: functions of package types returning []byte whose shape starts with a prefix
	for _, f := range p.Funcs {
		if f.pkgName() != "types" || !f.isHandWritten() || f.Obj == nil || f.Recv != nil || len(f.Res) != 1 {
			continue
		}
		sl, ok := f.Res[0].Type().Underlying().(*types.Slice)
		if !ok {
			continue
		}
		if b, ok := sl.Elem().(*types.Basic); !ok || b.Kind() != types.Byte {
			continue
		}
		sh, ok := p.shapeOfBuilder(kt, f)
		if !ok || len(sh) == 0 || sh[0].Kind != "Const" {
			continue
		}
		b := &Builder{Fn: f, Name: f.Name, Shape: sh}
		used := map[int]bool{}
		for _, s := range sh {
			if s.Par >= 0 {
				used[s.Par] = true
			}
		}
		for i, pr := range f.Params {
			b.Params = append(b.Params, pr.Name())
			if !used[i] {
				b.Unused = append(b.Unused, pr.Name())
			}
		}
		for q, by := range kt.Prefixes {
			if by == sh[0].Byte {
				b.Prefix = q
			}
		}
		kt.Builders[f.Name] = b
	}
	return kt
}

// shapeOfBuilder interprets the value a builder returns. Builders are
// straight-line code: the single enumerated path gives the exact result term
// (sequential appends into a temporary fold into one nested append).
func (p *Prog) shapeOfBuilder(kt *KeyTable, f *Func) (Shape, bool) {
	understood := func(sh Shape) bool {
		for _, s := range sh {
			if s.Kind == "Unknown" {
				return false
			}
		}
		return len(sh) > 0
	}
	var sh Shape
	ok := false
	if t := p.builderResult(f); t != nil {
		sh, ok = p.shapeOfTerm(kt, f, t, 0), true
	}
	if ok && understood(sh) {
		return sh, true
	}
	// not a single append chain (loops over a literal list, variadic joins, helper fragments): interpret the body
	if ish, iok := p.interpBuilder(kt, f); iok && (understood(ish) || !ok) {
		return ish, true
	}
	return sh, ok
}

func (p *Prog) builderResult(f *Func) *Term {
	paths := p.PathsOf(f)
	if len(paths) != 1 || len(paths[0].Ret) != 1 {
		return nil
	}
	return paths[0].Ret[0]
}

func (p *Prog) paramRole(f *Func, t *Term) (string, int) {
	if t != nil && t.Op == "" && len(t.At) >= 2 && t.At[0] == 'P' {
		if i, err := strconv.Atoi(t.At[1:]); err == nil && i < len(f.Params) {
			return f.Params[i].Name(), i
		}
	}
	return "", -1
}

func (p *Prog) shapeOfTerm(kt *KeyTable, f *Func, t *Term, depth int) Shape {
	t = stripSpread(t)
	switch {
	case t.Op == "append":
		var sh Shape
		for _, a := range t.A {
			sh = append(sh, p.shapeOfTerm(kt, f, a, depth)...)
		}
		return sh
	case t.Op == "" && strings.HasPrefix(t.At, "@"):
		q := t.At[1:]
		if b, ok := kt.Prefixes[q]; ok {
			return Shape{{Kind: "Const", Byte: b, Par: -1, Role: q}}
		}
		if q == kt.SepVar {
			return Shape{{Kind: "Sep", Par: -1}}
		}
	case t.Op == "conv" && len(t.A) == 2:
		// []byte(s) of a string parameter; uint64(x) handled under U64
		if role, i := p.paramRole(f, t.A[1]); i >= 0 && isStringType(f.Params[i].Type()) {
			return Shape{{Kind: "Str", Role: role, Par: i}}
		}
		return p.shapeOfTerm(kt, f, t.A[1], depth)
	case t.Op == "sdk.AccAddress.Bytes" && len(t.A) == 1:
		if role, i := p.paramRole(f, t.A[0]); i >= 0 {
			return Shape{{Kind: "Addr", Role: role, Par: i}}
		}
	case t.Op == "sdk.Uint64ToBigEndian" && len(t.A) == 1:
		if role, i := p.paramRole(f, stripConv(t.A[0])); i >= 0 {
			return Shape{{Kind: "U64", Role: role, Par: i}}
		}
	case t.Op == "types.getStringsKey" && len(t.A) == 1 && t.A[0].Op == "lit":
		var sh Shape
		for j, el := range t.A[0].A[1:] {
			if j > 0 {
				sh = append(sh, Seg{Kind: "Sep", Par: -1})
			}
			switch {
			case el.Op == "sdk.AccAddress.String" && len(el.A) == 1:
				if role, i := p.paramRole(f, el.A[0]); i >= 0 {
					sh = append(sh, Seg{Kind: "Bech32", Role: role, Par: i})
					continue
				}
				sh = append(sh, Seg{Kind: "Unknown", Text: el.String(), Par: -1})
			default:
				if role, i := p.paramRole(f, el); i >= 0 && isStringType(f.Params[i].Type()) {
					sh = append(sh, Seg{Kind: "Str", Role: role, Par: i})
					continue
				}
				sh = append(sh, Seg{Kind: "Unknown", Text: el.String(), Par: -1})
			}
		}
		return sh
	case strings.HasPrefix(t.Op, "types.") && depth < 4:
		// a builder (or helper) composed from another one: interpret the callee's result on the actual arguments
		if g := p.FuncNamed(t.Op); g != nil && g.isHandWritten() && g.Recv == nil && len(g.Res) == 1 && isByteSlice(g.Res[0].Type()) && t.Op != "types.getStringsKey" {
			if rt := p.builderResult(g); rt != nil {
				m := map[string]*Term{}
				for i, a := range t.A {
					m[fmt.Sprintf("P%d", i)] = a
				}
				return p.shapeOfTerm(kt, f, rt.Subst(m), depth+1)
			}
		}
	case t.Op == "":
		if role, i := p.paramRole(f, t); i >= 0 {
			if isByteSlice(f.Params[i].Type()) {
				return Shape{{Kind: "Raw", Role: role, Par: i}}
			}
		}
	}
	return Shape{{Kind: "Unknown", Text: t.String(), Par: -1}}
}

func stripSpread(t *Term) *Term {
	for t != nil && t.Op == "spread" && len(t.A) == 1 {
		t = t.A[0]
	}
	return t
}

func isStringType(T types.Type) bool {
	b, ok := T.Underlying().(*types.Basic)
	return ok && b.Kind() == types.String
}

func isByteSlice(T types.Type) bool {
	sl, ok := T.Underlying().(*types.Slice)
	if !ok {
		return false
	}
	b, ok := sl.Elem().(*types.Basic)
	return ok && b.Kind() == types.Byte
}

// keyFamily resolves a key / prefix term to its family and builder.
func (p *Prog) keyFamily(k *Term) (family, builder string) {
	if k == nil {
		return "?", ""
	}
	kt := p.keys()
	k = stripConv(stripSpread(k))
	// builder call
	if b, ok := kt.Builders[k.Op]; ok {
		return b.Shape.Family(), b.Name
	}
	// bare prefix variable
	if k.Op == "" && strings.HasPrefix(k.At, "@") {
		if by, ok := kt.Prefixes[k.At[1:]]; ok {
			return fmt.Sprintf("0x%02x", by), k.At[1:]
		}
	}
	// iterator.Key(): the family of the iterator's prefix
	if strings.HasSuffix(k.Op, "Iterator.Key") && len(k.A) == 1 {
		if it := k.A[0]; (it.Op == "sdk.KVStorePrefixIterator" || it.Op == "sdk.KVStoreReversePrefixIterator") && len(it.A) == 2 {
			fam, b := p.keyFamily(it.A[1])
			return fam, b
		}
	}
	// append(prefixVar, ...) written inline
	if k.Op == "append" && len(k.A) > 0 {
		return p.keyFamily(k.A[0])
	}
	if k.Op == "phi" {
		fam, bld := "", ""
		for _, a := range k.A {
			f2, b2 := p.keyFamily(a)
			if fam == "" {
				fam, bld = f2, b2
			} else if fam != f2 {
				return "?", ""
			}
		}
		return fam, bld
	}
	return "?", ""
}

// recordShape returns the shape of the record keys of a family: the shape of
// the builder(s) used by Set operations on it.
func (kt *KeyTable) buildersOfFamily(fam string) []*Builder {
	var out []*Builder
	for _, b := range kt.Builders {
		if b.Shape.Family() == fam {
			out = append(out, b)
		}
	}
	sort.Slice(out, func(i, j int) bool { return out[i].Name < out[j].Name })
	return out
}

// scansFamily reports whether the term contains a prefix scan of the given key family (the
// prefix resolved through builders and selecting helpers), whatever the sub-space builder is called.
func (p *Prog) scansFamily(t *Term, fam string) bool {
	hit := false
	t.Walk(func(x *Term) bool {
		if hit {
			return false
		}
		if (x.Op == "sdk.KVStorePrefixIterator" || x.Op == "sdk.KVStoreReversePrefixIterator") && len(x.A) == 2 {
			for _, v := range p.keyVariants(x.A[1], 0) {
				if f, _ := p.keyFamily(v.Key); f == fam {
					hit = true
				}
			}
		}
		return true
	})
	return hit
}

// keyVar is one alternative of a key computed by a selecting helper: the key term and the facts
// (over the caller's vocabulary) under which the helper returns it.
type keyVar struct {
	Key    *Term
	Guards FactSet
}

// keyVariants resolves a key term produced by a module helper that chooses between key builders
// (by a switch / if over its arguments): one variant per return path whose facts are not refuted by
// the actual arguments. A term whose family is already known yields itself.
func (p *Prog) keyVariants(k *Term, depth int) []keyVar {
	if k == nil {
		return nil
	}
	k0 := stripConv(stripSpread(k))
	if fam, _ := p.keyFamily(k0); fam != "?" {
		return []keyVar{{Key: k, Guards: FactSet{}}}
	}
	// the key of the element under a scan whose prefix needs resolving
	if strings.HasSuffix(k0.Op, "Iterator.Key") && len(k0.A) == 1 {
		if it := k0.A[0]; (it.Op == "sdk.KVStorePrefixIterator" || it.Op == "sdk.KVStoreReversePrefixIterator") && len(it.A) == 2 {
			var out []keyVar
			for _, v := range p.keyVariants(it.A[1], depth+1) {
				nk := &Term{Op: k0.Op, A: []*Term{{Op: it.Op, A: []*Term{it.A[0], v.Key}, Typ: it.Typ}}, Typ: k0.Typ}
				out = append(out, keyVar{Key: nk, Guards: v.Guards})
			}
			return out
		}
	}
	// a key computed by a function value that is a known literal: its result on the actual arguments
	if k0.Op == "dyn" && len(k0.A) >= 1 && k0.A[0].Is("func") && len(k0.A[0].A) >= 1 && depth <= 2 {
		cl := p.FuncNamed(k0.A[0].A[0].At)
		if cl == nil || cl.Body == nil || p.pathsBusy[cl] {
			return nil
		}
		if cl.Lit == nil {
			// a declared function (a key builder held in a function value): the call of that function
			direct := &Term{Op: cl.Name, Typ: k0.Typ}
			for _, a := range k0.A[1:] {
				if a.IsAt("ctx") || a.IsAt("K") {
					continue
				}
				direct.A = append(direct.A, a)
			}
			return p.keyVariants(direct, depth+1)
		}
		m := map[string]*Term{}
		for i, a := range k0.A[1:] {
			m[fmt.Sprintf("P%d", i)] = a
		}
		if len(k0.A[0].A) == 2 {
			m["Precv"] = k0.A[0].A[1]
		}
		// captured parameters of the enclosing function keep their meaning there
		if cl.Parent != nil {
			for i := range cl.Parent.Params {
				m[fmt.Sprintf("U%d", i)] = atom(fmt.Sprintf("P%d", i)).withType(cl.Parent.Params[i].Type())
			}
		}
		var out []keyVar
		for _, pa := range p.PathsOf(cl) {
			if !pa.OK() || len(pa.Ret) != 1 {
				return nil
			}
			sub := p.keyVariants(pa.Ret[0].Subst(m), depth+1)
			if sub == nil {
				return nil
			}
			for _, v := range sub {
				gs := v.Guards.Clone()
				for _, f := range pa.AllFacts() {
					for _, nf := range f.SubstAll(m) {
						if !nf.T.IsAt("#true") && !nf.T.IsAt("#false") {
							gs.Add(nf)
						}
					}
				}
				out = append(out, keyVar{Key: v.Key, Guards: gs})
			}
		}
		return out
	}
	g := p.FuncNamed(k0.Op)
	if g == nil || depth > 2 || !g.isHandWritten() || g.Body == nil || len(g.Res) != 1 || !isByteSlice(g.Res[0].Type()) || p.pathsBusy[g] {
		return nil
	}
	if _, isBuilder := p.keys().Builders[g.Name]; isBuilder {
		return nil
	}
	m := argMap(g, k0)
	var out []keyVar
	for _, pa := range p.PathsOf(g) {
		if !pa.OK() || len(pa.Ret) != 1 {
			return nil
		}
		guards := FactSet{}
		refuted := false
		for _, f := range pa.AllFacts() {
			for _, nf := range f.SubstAll(m) {
				if nf.T.IsAt("#true") || nf.T.IsAt("#false") {
					if nf.T.IsAt("#true") == nf.Neg {
						refuted = true
					}
					continue
				}
				switch decideFact(nf, FactSet{}) {
				case 0:
					refuted = true
				case 1:
				default:
					guards.Add(nf)
				}
			}
		}
		if refuted {
			continue
		}
		sub := p.keyVariants(pa.Ret[0].Subst(m), depth+1)
		if sub == nil {
			return nil
		}
		for _, v := range sub {
			gs := guards.Clone()
			for _, f := range v.Guards {
				gs.Add(f)
			}
			out = append(out, keyVar{Key: v.Key, Guards: gs})
		}
	}
	return out
}
