package main

// C14 — an available binding always holds the minimum deposit for its price.

import (
	"fmt"
	"go/token"
	"strings"
)

func init() {
	rules["C14"] = ruleC14
	explanations["C14"] = "Decides check-before-commit structurally: on every committed path of every function that persists a binding which may be available, if the path creates the binding, " +
		"changes its Deposit, changes its pricing or sets Available=true, the path is dominated by Deposit'.IsAllGTE(getMinDeposit(P)) where Deposit' is the value actually stored and P is the " +
		"pricing that will be in the store at exit (the argument of the pricing write on that path, else the stored pricing of the same binding); slash auto-disable is checked as in C04.5; " +
		"getMinDeposit's skeleton is max(Price.AmountOf(base) × MinDepositMultiple, MinDeposit). Not decided: Int.Mul arithmetic; invariance under later parameter changes."
}

func (c *Check) minDepositFunc(rule string) *Func {
	var out *Func
	for _, f := range c.P.Funcs {
		if f.Obj == nil || f.Body == nil || !f.isHandWritten() || f.pkgName() != "keeper" || len(f.Res) != 1 || typeName(f.Res[0].Type()) != "sdk.Coins" {
			continue
		}
		hasPricing := false
		for _, pr := range f.Params {
			if namedStruct(pr.Type()) == "Pricing" {
				hasPricing = true
			}
		}
		if !hasPricing {
			continue
		}
		// reads MinDeposit parameter
		if strings.Contains(fmt.Sprint(c.calleeNames(f)), c.paramGetterName("KeyMinDeposit")) {
			out = f
		}
	}
	if out == nil {
		c.undecided(rule, "min-deposit-function", token.NoPos, "no function (Pricing)→Coins reading the MinDeposit parameter")
	}
	return out
}

func (c *Check) calleeNames(f *Func) []string {
	var out []string
	for _, g := range c.P.callees(f) {
		out = append(out, g.Name)
	}
	return out
}

func (c *Check) paramGetterName(key string) string {
	if f := c.paramGetter(key); f != nil {
		return f.Name
	}
	return "?" + key
}

func ruleC14(c *Check) {
	c.genesisBindingSetter("C14.4")
	c.paramSetExact("C14.1")
	c.assume("A-SDK: sdk.Coins.IsAllGTE / IsAllLT and sdk.Int arithmetic are correct")
	c.paramGettersExact("C14.1", "KeyMinDeposit", "KeyMinDepositMultiple", "KeyBaseDenom", "KeySlashFraction")
	md := c.minDepositFunc("C14.1")
	gPricing := c.getterByFamily("0x06")
	if md == nil || gPricing == nil {
		if gPricing == nil {
			c.undecided("C14.2", "getter:pricing", token.NoPos, "pricing getter not found")
		}
		return
	}
	// C14.1 skeleton
	bd := c.paramTerm("C14.1", "KeyBaseDenom")
	mult := c.paramTerm("C14.1", "KeyMinDepositMultiple")
	minp := c.paramTerm("C14.1", "KeyMinDeposit")
	var pidx int
	for i, pr := range md.Params {
		if namedStruct(pr.Type()) == "Pricing" {
			pidx = i
		}
	}
	prod := fmt.Sprintf("(sdk.NewCoins (sdk.NewCoin %s (sdk.Int.Mul (sdk.Coins.AmountOf (.Pricing.Price P%d) %s) (sdk.NewInt %s))))", bd, pidx, bd, mult)
	prodAlt := fmt.Sprintf("(sdk.NewCoins (sdk.NewCoin %s (sdk.Int.MulRaw (sdk.Coins.AmountOf (.Pricing.Price P%d) %s) %s)))", bd, pidx, bd, mult)
	nProd, nMin, bad := 0, 0, ""
	for _, pa := range c.P.PathsOf(md) {
		if len(pa.Ret) != 1 {
			continue
		}
		r := pa.Ret[0].String()
		lt := func(p string) Fact { return Fact{T: mk("sdk.Coins.IsAllLT", parseTerm(p), parseTerm(minp))} }
		af := pa.AllFacts()
		switch {
		case (r == prod && af.Has(lt(prod).Not())) || (r == prodAlt && af.Has(lt(prodAlt).Not())):
			nProd++
		case r == minp && (af.Has(lt(prod)) || af.Has(lt(prodAlt))):
			nMin++
		default:
			bad = "returns " + shortTerm(pa.Ret[0]) + " under " + strings.Join(af.Sorted(), " ∧ ")
		}
	}
	c.req(nProd == 1 && nMin == 1 && bad == "", "C14.1", md.Name, md.Body.Pos(),
		"minimum deposit = price×multiple unless that is all-less-than the MinDeposit parameter, then the parameter"+condStr(bad != "", "; unexpected: "+bad))

	// C14.2 check-before-commit
	units := c.persistUnits("0x02", "ServiceBinding")
	n := 0
	for f, pps := range units {
		seen := map[string]bool{}
		for _, pp := range pps {
			if len(pp.Stored) == 0 {
				continue
			}
			B := pp.Stored[len(pp.Stored)-1]
			L := baseOf(B)
			if givenRecord(L) {
				continue // plain setter / genesis import: judged elsewhere (C19)
			}
			avail := field("ServiceBinding", "Available", B)
			if avail.IsAt("#false") {
				continue
			}
			dep := field("ServiceBinding", "Deposit", B)
			w := writtenFields(B)
			// pricing write on this path
			var setP *Term
			var setKey []*Term
			setIdx := -1
			for i, ev := range pp.Path.Events {
				if ev.Kind != EvCall {
					continue
				}
				for _, e := range c.P.effectsOfEvent(f, ev) {
					if e.Kind == "store" && e.Op == "Set" && e.Family == "0x06" {
						if sv := structIn(e.Val, "Pricing"); sv != nil {
							setP = sv
							setKey = keyArgs(e)
							setIdx = i
						}
					}
				}
			}
			creation := L.Op == "lit"
			_, depW := w["Deposit"]
			_, avW := w["Available"]
			if !creation && !depW && setP == nil && !avW {
				continue // nothing relevant changes on this path
			}
			// availability known false on this path and unchanged: no requirement
			if !creation && !avW {
				if pp.Facts.Has(Fact{T: field("ServiceBinding", "Available", L), Neg: true}) {
					continue
				}
			}
			n++
			name := field("ServiceBinding", "ServiceName", B)
			prov := field("ServiceBinding", "Provider", B)
			P := fmt.Sprintf("(%s %s %s)", gPricing.Name, name, prov)
			if setP != nil {
				P = setP.String()
			}
			need := Fact{T: mk("sdk.Coins.IsAllGTE", dep, mk(md.Name, parseTerm(P)))}
			ok := pp.Facts.Has(need)
			if !ok && setP == nil {
				// the deposit was checked against a pricing value the path has established to equal the stored one
				// (a skipped rewrite of unchanged price terms)
				for _, k := range pp.Facts.Sorted() {
					fa := pp.Facts[k]
					if fa.Neg || fa.T.Op != "sdk.Coins.IsAllGTE" || len(fa.T.A) != 2 || !fa.T.A[0].Eq(dep) || fa.T.A[1].Op != md.Name || len(fa.T.A[1].A) == 0 {
						continue
					}
					X := fa.T.A[1].A[len(fa.T.A[1].A)-1]
					if eq, _ := c.knownEqualToStored(pp.Facts, "0x06", X); eq {
						ok, need = true, fa
					}
				}
			}
			if !ok && setP == nil && L.Op == "res" && len(L.A) == 2 && len(L.A[1].A) == 2 {
				// the stored pricing addressed by the same key the binding was loaded with
				P2 := fmt.Sprintf("(%s %s %s)", gPricing.Name, L.A[1].A[0], L.A[1].A[1])
				alt := Fact{T: mk("sdk.Coins.IsAllGTE", dep, mk(md.Name, parseTerm(P2)))}
				if pp.Facts.Has(alt) {
					ok, need = true, alt
				} else if pp.Facts.Has(alt.Not()) {
					need = alt
				}
			}
			if !ok && setP != nil && len(setKey) == 2 {
				// the pricing written on this path read back from the store afterwards: the same value
				keyOf := func(t *Term) string {
					if L.Op == "res" && len(L.A) == 2 && len(L.A[1].A) == 2 {
						if t.Eq(field("ServiceBinding", "ServiceName", L)) {
							return L.A[1].A[0].String()
						}
						if t.Eq(field("ServiceBinding", "Provider", L)) {
							return L.A[1].A[1].String()
						}
					}
					return t.String()
				}
				// first mention of a term on the path
				firstAt := func(x *Term) int {
					for i, ev := range pp.Path.Events {
						var ts []*Term
						switch ev.Kind {
						case EvCall:
							ts = append(append(ts, ev.CI.args...), ev.Result)
						case EvFact:
							ts = append(ts, ev.Fact.T)
						case EvAssign, EvWrite:
							ts = append(ts, ev.Val)
						}
						for _, t := range ts {
							if t != nil && t.Contains(x) {
								return i
							}
						}
					}
					return -1
				}
				for _, k := range pp.Facts.Sorted() {
					fa := pp.Facts[k]
					if fa.Neg || fa.T.Op != "sdk.Coins.IsAllGTE" || len(fa.T.A) != 2 || !fa.T.A[0].Eq(dep) || fa.T.A[1].Op != md.Name || len(fa.T.A[1].A) == 0 {
						continue
					}
					X := fa.T.A[1].A[len(fa.T.A[1].A)-1]
					if X.Op != gPricing.Name || len(X.A) < 2 {
						continue
					}
					ka := X.A[len(X.A)-2:]
					if keyOf(ka[0]) != keyOf(setKey[0]) || keyOf(ka[1]) != keyOf(setKey[1]) {
						continue
					}
					if i := firstAt(X); i > setIdx {
						ok, need = true, fa
					}
				}
			}
			// the check sits in a helper that is told whether to enforce it ("available and updated"), so the path never
			// branches on the availability itself: what the helper's return has established entails ¬Available ∨ checked
			if !ok && !creation && !avW {
				av := field("ServiceBinding", "Available", L)
				cands := []Fact{need}
				if L.Op == "res" && len(L.A) == 2 && len(L.A[1].A) == 2 && setP == nil {
					P2 := fmt.Sprintf("(%s %s %s)", gPricing.Name, L.A[1].A[0], L.A[1].A[1])
					cands = append(cands, Fact{T: mk("sdk.Coins.IsAllGTE", dep, mk(md.Name, parseTerm(P2)))})
				}
				for _, cand := range cands {
					if pp.Facts.Holds(mk("||", mk("!", av), cand.T), true) {
						ok, need = true, cand
					}
				}
			}
			what := "update"
			if creation {
				what = "create"
			} else if avW {
				what = "enable/disable"
			}
			if f2 := c.slashFuncs(); len(f2) > 0 && f2[0] == f {
				// slash: either still sufficient, or disabled (handled by C04.5 / C14.3)
				if !ok {
					// disabled on this path, or the path is the merged "unavailable ∨ sufficient" edge
					ok = (pp.Facts.Has(need.Not()) && avail.IsAt("#false")) ||
						pp.Facts.Holds(mk("&&", field("ServiceBinding", "Available", L), mk("!", need.T)), false)
				}
				what = "slash"
			}
			d := fmt.Sprintf("%s: stored deposit %s is checked against getMinDeposit(%s)", what, shortTerm(dep), shortTerm(parseTerm(P)))
			if !ok {
				d += " — NOT dominated by that check; facts: "
				for _, k := range pp.Facts.Sorted() {
					if strings.Contains(k, "IsAllGTE") {
						d += shortTerm(pp.Facts[k].T) + " "
					}
				}
			}
			key := fmt.Sprintf("%v%s", ok, d)
			if seen[key] {
				continue
			}
			seen[key] = true
			c.req(ok, "C14.2", unitConstruct(f, "min-deposit-check:"+what), pp.Path.RetPos, d)
		}
	}
	c.req(n >= 3, "C14.2", "commit-paths", token.NoPos, fmt.Sprintf("%d committed paths persist a possibly available binding after a relevant change", n))
	// the stored price terms are those of the published pricing text (otherwise the minimum is computed for another price)
	c.pricingTextPairs("C14.2")
	// C14.3 slash auto-disable
	gBinding := c.getterByType("ServiceBinding")
	for _, s := range c.slashFuncs() {
		c.slashInternals(s, gBinding)
	}
}
